import sys, random, collections, re
sys.path.insert(0,__import__("os").path.dirname(__import__("os").path.abspath(__file__)))
from sim import *
from oracle import *
from tola.assembly.build_assembly import BuildAssembly
def cut_fragments(self, fnd):
    frgmnt = fnd.fragment
    ordered = sorted(fnd.scaffolds, key=lambda s: s.fragment_start_if_trimmed(frgmnt))
    subs=[]; last_i=len(ordered)-1
    for i,sc in enumerate(ordered):
        ks = i==0; ke = i==last_i
        if frgmnt.strand == -1: ks,ke = ke,ks
        subs.append(sc.trim_fragment(frgmnt, ks, ke))
    self.qc_sub_fragments(fnd, subs)
    self.assembly_stats.cuts += len(subs)-1
lo,hi,revp,fix=int(sys.argv[1]),int(sys.argv[2]),float(sys.argv[3]),sys.argv[4]=="fix"
if fix: BuildAssembly.cut_fragments = cut_fragments
kinds=collections.Counter(); first={}
for seed in range(lo,hi):
    rng=random.Random(seed)
    scafs=rand_input(rng, revp=revp)
    bpt=rng.choice([1.0,1.5,3.0,10.0,37.25,100.0,250.5])
    ptx=pretext_script(rng,scafs,bpt)
    try:
        outs,ba=remap(scafs,ptx)
    except Exception as e:
        k=type(e).__name__+":"+re.sub(r"[\d_]+","N",str(e).split("\n")[0])[:60]
        kinds[k]+=1; first.setdefault(k,seed); continue
    errs=check_partition(scafs,outs)
    if errs: kinds["PARTITION-FAIL"]+=1; first.setdefault("pf",(seed,errs))
    e2=check_c02(scafs,ptx,outs,bpt)
    for e in e2: kinds["c02:"+e[0]]+=1; first.setdefault("c02:"+e[0],(seed,e))
    e7=check_c07(scafs,outs)
    for e in e7: kinds["c07:"+e[0]]+=1; first.setdefault("c07:"+e[0],(seed,e))
    if not errs and not e2 and not e7: kinds["ok"]+=1
print(kinds)
for k,v in first.items(): print(k,v)
