import sys, random, io, collections
from pathlib import Path
from tola.fasta.index import index_fasta_file, FastaIndex
from tola.fasta.stream import FastaStream
from tola.fasta.simple import reverse_complement
from tola.assembly.assembly import Assembly
from tola.assembly.scaffold import Scaffold
from tola.assembly.fragment import Fragment
from tola.assembly.gap import Gap
kinds=collections.Counter(); first={}
def wrap(b,w): return b"".join(b[i:i+w]+b"\n" for i in range(0,len(b),w))
for seed in range(int(sys.argv[1]),int(sys.argv[2])):
    rng=random.Random(seed)
    le=rng.choice([b"\n",b"\r\n"]); w=rng.randint(1,12)
    recs=[]
    for i in range(rng.randint(1,4)):
        n=rng.randint(1,40)
        seq=bytes(rng.choice(b"ACGTacgtNnRYx") if rng.random()<0.8 else rng.choice(b"NN") for _ in range(n))
        recs.append((f"r{i}",seq))
    data=b""
    for nm,seq in recs:
        data+=b">"+nm.encode()+(b" some desc" if rng.random()<0.3 else b"")+le
        for j in range(0,len(seq),w): data+=seq[j:j+w]+le
    p=Path(__import__("tempfile").gettempdir())/"probe_s.fa"; p.write_bytes(data)
    bs=rng.choice([1,2,3,5,7,w-1 or 1,w,w+1,1000])
    try:
        idx,asm=index_fasta_file(p,bs)
        idx2,asm2=index_fasta_file(p,250000)
    except Exception as e:
        kinds["idxerr"]+=1; first.setdefault("idxerr",(seed,repr(e))); continue
    if {k:repr(v) for k,v in idx.items()}!={k:repr(v) for k,v in idx2.items()} or str(asm)!=str(asm2):
        kinds["bufdep-index"]+=1; first.setdefault("bufdep",seed)
    # expected index
    off=0; exp={}
    pos=0
    # expected asm: runs
    import re
    for nm,seq in recs:
        rows=[]; prev=0
        for m in re.finditer(rb"[ACGTacgt]+",seq):
            if m.start()!=prev: rows.append(f"Gap:{m.start()-prev} scaffold")
            rows.append(f"{nm}:{m.start()+1}-{m.end()}(+)"); prev=m.end()
        if prev!=len(seq): rows.append(f"Gap:{len(seq)-prev} scaffold")
        got=[str(r) for r in next(s for s in asm.scaffolds if s.name==nm).rows]
        if got!=rows: kinds["asm-wrong"]+=1; first.setdefault("asm-wrong",(seed,nm,got,rows))
    fi=FastaIndex(p,buffer_size=bs); fi.index=idx
    # random access
    for nm,seq in recs:
        for _ in range(5):
            a=rng.randint(1,len(seq)); b=rng.randint(a,len(seq))
            got=fi.sequence_bytes(idx[nm],a,b).getvalue()
            if got!=seq[a-1:b]: kinds["ra-wrong"]+=1; first.setdefault("ra",(seed,nm,a,b,got,seq[a-1:b]))
    # random assembly
    out_asm=Assembly("o"); expct=b""
    ow=rng.randint(1,15)
    for si in range(rng.randint(1,3)):
        sc=Scaffold(f"S{si}"); body=b""
        for ri in range(rng.randint(1,5)):
            if rng.random()<0.3:
                g=rng.choice([0,1,2,bs,bs+1,2*bs,17]); sc.add_row(Gap(g,"scaffold")); body+=b"N"*g
            else:
                nm,seq=rng.choice(recs); a=rng.randint(1,len(seq)); b=rng.randint(a,len(seq)); st=rng.choice([1,1,-1,0])
                sc.add_row(Fragment(nm,a,b,st)); body+= reverse_complement(seq[a-1:b]) if st==-1 else seq[a-1:b]
        out_asm.add_scaffold(sc); expct+=b">"+sc.name.encode()+b"\n"+wrap(body,ow)
    out=io.BytesIO(); FastaStream(out,fi,line_length=ow).write_assembly(out_asm)
    if out.getvalue()!=expct: kinds["stream-wrong"]+=1; first.setdefault("stream",(seed,out.getvalue(),expct))
    kinds["n"]+=1
print(kinds)
for k,v in first.items(): print(k,v)
