def eOf (idx : List Nat) (k : Nat) : Nat := idx.getD k 0
def sOf (idx : List Nat) (k : Nat) : Nat := if k = 0 then 1 else 1 + idx.getD (k-1) 0
def Mono (idx : List Nat) : Prop := ∀ i j, i ≤ j → j < idx.length → idx.getD i 0 ≤ idx.getD j 0
def meets (idx : List Nat) (a b k : Nat) : Prop := ¬ (eOf idx k < a) ∧ ¬ (sOf idx k > b)

def bsearch (idx : List Nat) (a b : Nat) (lo hi : Nat) : Option Nat :=
  if h : lo < hi then
    let m := lo + (hi - lo) / 2
    if eOf idx m < a then bsearch idx a b (m+1) hi
    else if sOf idx m > b then bsearch idx a b lo m
    else some m
  else none
termination_by hi - lo
decreasing_by all_goals omega

theorem bsearch_some (idx : List Nat) (a b lo hi m : Nat) :
    bsearch idx a b lo hi = some m → lo ≤ m ∧ m < hi ∧ meets idx a b m := by
  fun_induction bsearch idx a b lo hi with
  | case1 lo hi h m' h1 ih =>
      intro h2; obtain ⟨x, y, z⟩ := ih h2
      have hm : m' = lo + (hi - lo) / 2 := rfl
      exact ⟨by omega, y, z⟩
  | case2 lo hi h m' h1 h2 ih =>
      intro h3; obtain ⟨x, y, z⟩ := ih h3
      have hm : m' = lo + (hi - lo) / 2 := rfl
      exact ⟨x, by omega, z⟩
  | case3 lo hi h m' h1 h2 =>
      intro h3
      have hm : m' = lo + (hi - lo) / 2 := rfl
      have : m' = m := by simpa using h3
      subst this
      exact ⟨by omega, by omega, h1, h2⟩
  | case4 lo hi h => intro h2; simp at h2

theorem sOf_mono (idx : List Nat) (hm : Mono idx) (i j : Nat) (hij : i ≤ j) (hj : j < idx.length) :
    sOf idx i ≤ sOf idx j := by
  unfold sOf
  by_cases hi : i = 0
  · simp [hi]; split <;> omega
  · have hj0 : j ≠ 0 := by omega
    simp [hi, hj0]
    exact hm (i-1) (j-1) (by omega) (by omega)

theorem bsearch_none (idx : List Nat) (hm : Mono idx) (a b lo hi : Nat) (hhi : hi ≤ idx.length) :
    bsearch idx a b lo hi = none → ∀ k, lo ≤ k → k < hi → ¬ meets idx a b k := by
  fun_induction bsearch idx a b lo hi with
  | case1 lo hi h m' h1 ih =>
      intro h2 k hk1 hk2
      have hmd : m' = lo + (hi - lo) / 2 := rfl
      by_cases hkm : k ≤ m'
      · intro hmeet
        have : eOf idx k ≤ eOf idx m' := hm k m' hkm (by omega)
        exact hmeet.1 (by omega)
      · exact ih hhi h2 k (by omega) hk2
  | case2 lo hi h m' h1 h2 ih =>
      intro h3 k hk1 hk2
      have hmd : m' = lo + (hi - lo) / 2 := rfl
      by_cases hkm : k < m'
      · exact ih (by omega) h3 k hk1 hkm
      · intro hmeet
        have : sOf idx m' ≤ sOf idx k := sOf_mono idx hm m' k (by omega) (by omega)
        exact hmeet.2 (by omega)
  | case3 lo hi h m' h1 h2 => intro h3; simp at h3
  | case4 lo hi h => intro _ k hk1 hk2; omega
#print axioms bsearch_none
#print axioms bsearch_some
