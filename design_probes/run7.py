import sys, random, collections, re, math
sys.path.insert(0,__import__("os").path.dirname(__import__("os").path.abspath(__file__)))
from sim import *
from oracle import *
lo,hi,revp=int(sys.argv[1]),int(sys.argv[2]),float(sys.argv[3])
kinds=collections.Counter(); first={}
def ends(f, side):
    # side 'L' = facing end when f is on left: tail if + else head
    if side=='L': return (f.name, f.end) if f.strand==1 else (f.name, f.start)
    return (f.name, f.start) if f.strand==1 else (f.name, f.end)
def adj(scaffolds):
    a=set()
    for s in scaffolds:
        fr=list(s.fragments())
        for x,y in zip(fr,fr[1:]): a.add(frozenset([ends(x,'L'),ends(y,'R')]))
    return a
def tagged_script(rng, scafs, bpt):
    ptx=pretext_script(rng,scafs,bpt,paint=0.7)
    sexes=["X","Y","W","Z","B1"]
    for sc in ptx.scaffolds:
        fr=list(sc.idx_fragments())
        painted="Painted" in fr[0][1].tags
        nametag = rng.choice(sexes) if painted and rng.random()<0.2 else None
        for n,(i,f) in enumerate(fr):
            tags=list(f.tags)
            if nametag: tags.append(nametag)
            r=rng.random()
            if r<0.12: tags.append("Haplotig")
            elif r<0.24 and painted and n>0: tags.append("Unloc")
            sc.rows[i]=Fragment(f.name,f.start,f.end,f.strand,tuple(tags))
        if nametag: sexes.remove(nametag)
    return ptx
for seed in range(lo,hi):
    rng=random.Random(seed)
    scafs=rand_input(rng, revp=revp, nscaf=6)
    bpt=rng.choice([1.0,1.5,3.0,10.0,37.25,100.0])
    ptx=tagged_script(rng,scafs,bpt)
    try:
        outs,ba=remap(scafs,ptx)
    except Exception as e:
        k=type(e).__name__+":"+re.sub(r"[\d_]+","N",str(e).split("\n")[0])[:60]
        kinds[k]+=1; first.setdefault(k,seed); continue
    bad=[]
    if check_partition(scafs,outs): bad.append(("partition",))
    st=ba.assembly_stats
    nin=sum(1 for s in scafs for f in s.fragments()); nout=sum(1 for a in outs.values() for s in a.scaffolds for f in s.fragments())
    if st.cuts!=nout-nin: bad.append(("cuts",st.cuts,nout-nin))
    ia=adj(scafs); oa=adj([s for a in outs.values() for s in a.scaffolds])
    if st.breaks!=len(ia-oa): bad.append(("breaks",st.breaks,len(ia-oa)))
    if st.joins!=len(oa-ia): bad.append(("joins",st.joins,len(oa-ia)))
    # C10 basics
    for k,a in outs.items():
        names=[s.name for s in a.scaffolds]
        if len(set(names))!=len(names): bad.append(("dupname",k,[n for n in names if names.count(n)>1][:3]))
        ranks=[s.rank for s in a.scaffolds]
        if ranks!=sorted(ranks): bad.append(("rankorder",k))
        if k is None:
            autos=[s for s in a.scaffolds if s.rank==1]
            mains=[s for s in autos if "_unloc_" not in s.name]
            nums=[int(s.name.replace("SUPER_","")) for s in mains]
            if nums!=list(range(1,len(nums)+1)):
                bad.append(("autonum",[s.name for s in autos]))
            else:
                tot={}
                for s in autos:
                    m=re.match(r"SUPER_(\d+)",s.name); tot[int(m.group(1))]=tot.get(int(m.group(1)),0)+s.fragments_length
                v=[tot[i] for i in sorted(tot)]
                if v!=sorted(v,reverse=True): bad.append(("autosize",v))
            # unlocs directly after chromosome
            for i,s in enumerate(a.scaffolds):
                if "_unloc_" in s.name:
                    base=s.name.split("_unloc_")[0]; n=int(s.name.split("_unloc_")[1])
                    prev=a.scaffolds[i-1].name if i else None
                    exp = base if n==1 else f"{base}_unloc_{n-1}"
                    if prev!=exp: bad.append(("unlocpos",s.name,prev))
        if k=="Haplotig":
            hs=sorted(a.scaffolds,key=lambda s:int(s.name[2:]))
            if [int(s.name[2:]) for s in hs]!=list(range(1,len(hs)+1)): bad.append(("hnum",[s.name for s in hs]))
            ls=[s.length for s in hs]
            if ls!=sorted(ls,reverse=True): bad.append(("hsize",ls))
    for b in bad:
        kinds["bad:"+b[0]]+=1; first.setdefault("bad:"+b[0],(seed,b))
        if b[0]=="unlocpos" and b[2] is not None: first.setdefault("unlocpos2",(seed,b))
    if not bad: kinds["ok"]+=1
print(kinds)
for k,v in first.items(): print(k,v)
