import io, logging
from tola.assembly.parser import parse_agp, parse_tpf
from tola.assembly.format import format_agp, format_tpf
from tola.assembly.indexed_assembly import IndexedAssembly
from tola.assembly.build_assembly import BuildAssembly
from tola.assembly.gap import Gap
def run(input_agp, pretext_agp, prefix="SUPER_"):
    asm = parse_agp(io.StringIO(input_agp), "in")
    ia = IndexedAssembly.new_from_assembly(asm)
    pa = parse_agp(io.StringIO(pretext_agp), "ptx")
    ba = BuildAssembly("out", default_gap=Gap(200,"scaffold"), autosome_prefix=prefix)
    ba.remap_to_input_assembly(pa, ia)
    outs = ba.assemblies_with_scaffolds_fused()
    return outs, ba
def show(outs, ba=None):
    for k,a in outs.items():
        print("== asm", k, "curated", a.curated)
        for s in a.scaffolds:
            print("  ", s.name, "rank", s.rank, "tag", s.tag, "hap", s.haplotype, "orig", s.original_name)
            for r in s.rows: print("       ", r)
    if ba:
        st=ba.assembly_stats; print("cuts",st.cuts,"breaks",st.breaks,"joins",st.joins, st.per_assembly_stats)
