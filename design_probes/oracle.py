import math
from tola.assembly.fragment import Fragment
from tola.assembly.gap import Gap

def input_map(scafs):
    """contig name -> (scaf, scaf_start, cs, ce, strand)"""
    m={}
    for s in scafs:
        p=0
        for r in s.rows:
            if isinstance(r,Fragment):
                m[r.name]=(s.name,p+1,r.start,r.end,r.strand)
            p+=r.length
    return m

def out_pieces(outs):
    """list of (asmkey, scafname, out_start, name, cs, ce, strand)"""
    res=[]
    for k,a in outs.items():
        for s in a.scaffolds:
            p=0
            for r in s.rows:
                if isinstance(r,Fragment):
                    res.append((k,s.name,p+1,r.name,r.start,r.end,r.strand))
                p+=r.length
    return res

def scafpos(im, name, c):
    sn, ss, cs, ce, st = im[name]
    return ss + (c-cs) if st==1 else ss + (ce-c)

def check_c02(scafs, ptx, outs, bpt):
    M = 3*(1+math.floor(bpt))
    im = input_map(scafs)
    ops = out_pieces(outs)
    errs=[]
    # per input scaffold list of out pieces with their scaffold-coordinate spans
    spans=[]
    for (k,on,ostart,name,cs,ce,st) in ops:
        sn,ss,ics,ice,ist = im[name]
        p1=scafpos(im,name,cs); p2=scafpos(im,name,ce)
        lo,hi=min(p1,p2),max(p1,p2)
        # out position as function of scaffold pos p: if st==ist: contig fwd in out same dir as scaffold dir
        # dir = +1 if out runs along increasing scaffold coordinate
        d = 1 if st==ist else -1
        # out position of scaffold pos lo:
        o_lo = ostart if d==1 else ostart+(hi-lo)
        spans.append((sn,lo,hi,d,o_lo,(k,on),st,ist))
    dest_by_piece=[]
    for px in ptx.scaffolds:
        plist=[]
        for f in px.fragments():
            a,b,o=f.start+M,f.end-M,f.strand
            aff=set(); dests=set()
            for (sn,lo,hi,d,o_lo,dest,st,ist) in spans:
                if sn!=f.name: continue
                x=max(lo,a); y=min(hi,b)
                if x>y: continue
                # out pos of scaffold pos x
                ox = o_lo + (x-lo) if d==1 else o_lo - (x-lo)
                # affine constant: ox - d*x
                aff.add((d, ox-d*x)); dests.add(dest)
                if d!=o: errs.append(("orientation",str(f),dest))
            if len(dests)>1: errs.append(("split-dest",str(f),dests))
            elif len(aff)>1: errs.append(("non-collinear",str(f),aff))
            if aff and len(dests)==1:
                d,c=next(iter(aff)); plist.append((next(iter(dests)), min(c+d*a,c+d*b), str(f)))
        # order within same destination
        bydest={}
        for dest,pos,s in plist: bydest.setdefault(dest,[]).append((pos,s))
        for dest,l in bydest.items():
            if [x for x,_ in l]!=sorted(x for x,_ in l): errs.append(("order",dest,l))
    # deep cut points
    bounds=set()
    for (sn,lo,hi,*_) in spans: bounds.add((sn,hi))
    for px in ptx.scaffolds:
        for f in px.fragments():
            b=f.end
            for name,(sn,ss,cs,ce,st) in im.items():
                if sn!=f.name: continue
                lo=ss; hi=ss+(ce-cs)
                if lo+M < b < hi-M and (sn,b) not in bounds:
                    errs.append(("cut-missing",str(f),name))
    return errs

def check_c07(scafs, outs, default=(200,"scaffold")):
    """gapless adjacency only if adjacent in input; no terminal gaps"""
    errs=[]
    inadj=set(); ingap={}
    for s in scafs:
        rows=s.rows
        for i in range(len(rows)-1):
            if isinstance(rows[i],Fragment) and isinstance(rows[i+1],Fragment):
                inadj.add(frozenset([(rows[i].name, rows[i].end if rows[i].strand==1 else rows[i].start),(rows[i+1].name, rows[i+1].start if rows[i+1].strand==1 else rows[i+1].end)]))
    for a in outs.values():
        for s in a.scaffolds:
            rows=s.rows
            if isinstance(rows[0],Gap) or isinstance(rows[-1],Gap): errs.append(("terminal-gap",s.name))
            for i in range(len(rows)-1):
                x,y=rows[i],rows[i+1]
                if isinstance(x,Fragment) and isinstance(y,Fragment):
                    k=frozenset([(x.name, x.end if x.strand==1 else x.start),(y.name, y.start if y.strand==1 else y.end)])
                    if k not in inadj: errs.append(("gapless",s.name,str(x),str(y)))
                if isinstance(x,Gap) and isinstance(y,Gap): errs.append(("double-gap",s.name))
    return errs
