import io, math, random, logging
from tola.assembly.assembly import Assembly
from tola.assembly.scaffold import Scaffold
from tola.assembly.fragment import Fragment
from tola.assembly.gap import Gap
from tola.assembly.indexed_assembly import IndexedAssembly
from tola.assembly.build_assembly import BuildAssembly
logging.disable(logging.CRITICAL)

def rand_input(rng, nscaf=4, maxrows=6, maxlen=3000, minlen=1, revp=0.2, names="s"):
    scafs=[]
    cid=0
    for j in range(rng.randint(1,nscaf)):
        s=Scaffold(f"{names}{j+1}")
        n=rng.randint(1,maxrows)
        for r in range(n):
            if r: s.add_row(Gap(rng.choice([200,200,100,17,1]),"scaffold"))
            cid+=1
            ln = rng.choice([rng.randint(minlen,30), rng.randint(minlen,maxlen), rng.randint(minlen,maxlen)])
            st = rng.randint(1,50)
            s.add_row(Fragment(f"c{cid}", st, st+ln-1, -1 if rng.random()<revp else 1))
        scafs.append(s)
    return scafs

def pretext_script(rng, scafs, bpt, paint=0.7, cutp=0.5, drop_subtexel=0.5):
    """PretextView model: returns Assembly with header bp_per_texel"""
    pieces=[]
    for s in scafs:
        L=s.length
        T = math.floor(L/bpt) if rng.random()<0.5 else math.ceil(L/bpt)
        if T==0:
            if rng.random()<drop_subtexel: continue
            T=1
        cuts=[0]
        t=0
        while True:
            if rng.random()>cutp: break
            t = rng.randint(t+2, max(t+2,T))
            if t+2> T: break
            cuts.append(t)
        cuts.append(T)
        for a,b in zip(cuts,cuts[1:]):
            pieces.append((s.name, math.floor(a*bpt)+1, math.floor(b*bpt)))
    rng.shuffle(pieces)
    asm=Assembly("ptx"); asm.bp_per_texel=bpt
    i=0; n=0
    while i<len(pieces):
        n+=1
        k=rng.randint(1,3)
        sc=Scaffold(f"Scaffold_{n}")
        painted = rng.random()<paint
        for (nm,a,b) in pieces[i:i+k]:
            tags=("Painted",) if painted else ()
            sc.add_row(Fragment(nm,a,b, 1 if rng.random()<0.6 else -1, tags))
            sc.add_row(Gap(100,"scaffold"))
        sc.rows.pop()
        asm.add_scaffold(sc)
        i+=k
    return asm

def remap(scafs, ptx, prefix="SUPER_"):
    ia=IndexedAssembly("in", scaffolds=scafs)
    ba=BuildAssembly("out", default_gap=Gap(200,"scaffold"), autosome_prefix=prefix)
    ba.remap_to_input_assembly(ptx, ia)
    return ba.assemblies_with_scaffolds_fused(), ba

def check_partition(scafs, outs):
    cov={}
    for a in outs.values():
        for s in a.scaffolds:
            for f in s.fragments():
                cov.setdefault(f.name,[]).append((f.start,f.end))
    errs=[]
    inp={f.name:(f.start,f.end) for s in scafs for f in s.fragments()}
    for nm,(a,b) in inp.items():
        iv=sorted(cov.pop(nm,[]))
        p=a
        for (x,y) in iv:
            if x!=p: errs.append((nm,(a,b),iv)); break
            p=y+1
        else:
            if p!=b+1: errs.append((nm,(a,b),iv))
    if cov: errs.append(("extra",cov))
    return errs
