import sys, random, collections, re
sys.path.insert(0,__import__("os").path.dirname(__import__("os").path.abspath(__file__)))
from sim import *
kinds=collections.Counter(); first={}
for seed in range(int(sys.argv[1]),int(sys.argv[2])):
    rng=random.Random(seed)
    scafs=rand_input(rng, revp=0.3, nscaf=3, maxrows=5, maxlen=60)
    bpt=rng.choice([1.0,1.5,3.0,10.0])
    ptx=Assembly("p"); ptx.bp_per_texel=bpt
    for n in range(rng.randint(1,4)):
        sc=Scaffold(f"Scaffold_{n+1}")
        painted=rng.random()<0.5
        for k in range(rng.randint(1,4)):
            s=rng.choice(scafs); L=s.length
            a=rng.randint(1,L+5); b=rng.randint(a,min(L+20,a+rng.choice([3,30,300])))
            tags=[]
            if painted: tags.append("Painted")
            if rng.random()<0.15: tags.append(rng.choice(["Haplotig","Contaminant","FalseDuplicate"]))
            sc.add_row(Fragment(s.name,a,b,rng.choice([1,-1]),tuple(tags)))
        ptx.add_scaffold(sc)
    try:
        outs,ba=remap(scafs,ptx)
    except Exception as e:
        k=type(e).__name__+":"+re.sub(r"[\d_]+","N",str(e).split("\n")[0])[:50]
        kinds[k]+=1; first.setdefault(k,seed); continue
    errs=check_partition(scafs,outs)
    if errs: kinds["PARTITION-FAIL"]+=1; first.setdefault("pf",(seed,errs))
    else: kinds["ok"]+=1
print(kinds)
for k,v in first.items(): print(k,v)
