import sys, random, collections, re, math
sys.path.insert(0,__import__("os").path.dirname(__import__("os").path.abspath(__file__)))
from sim import *
from oracle import *
def rand_input2(rng):
    scafs=[]; cid=0
    for j in range(rng.randint(1,3)):
        s=Scaffold(f"s{j+1}")
        for r in range(rng.randint(1,7)):
            if r: s.add_row(Gap(rng.choice([200,100,17,1,3]),"scaffold"))
            cid+=1
            ln=rng.choice([1,2,3,rng.randint(1,12),rng.randint(1,12),rng.randint(1,80),rng.randint(1,400)])
            st=rng.randint(1,9)
            s.add_row(Fragment(f"c{cid}",st,st+ln-1,-1 if rng.random()<0.35 else 1))
        scafs.append(s)
    return scafs
kinds=collections.Counter(); first={}
for seed in range(int(sys.argv[1]),int(sys.argv[2])):
    rng=random.Random(seed)
    scafs=rand_input2(rng)
    bpt=rng.choice([1.0,1.01,1.5,1.99,2.0,2.5,3.0,4.75,7.0,10.75,25.0])
    ptx=pretext_script(rng,scafs,bpt,paint=0.6,cutp=0.75)
    try: outs,ba=remap(scafs,ptx)
    except Exception as e:
        k=type(e).__name__+":"+re.sub(r"[\d_]+","N",str(e).split("\n")[0])[:60]
        kinds[k]+=1; first.setdefault(k,seed); continue
    bad=False
    if check_partition(scafs,outs): kinds["PARTITION"]+=1; first.setdefault("pf",seed); bad=True
    for e in check_c02(scafs,ptx,outs,bpt): kinds["c02:"+e[0]]+=1; first.setdefault("c02:"+e[0],(seed,e)); bad=True
    for e in check_c07(scafs,outs): kinds["c07:"+e[0]]+=1; first.setdefault("c07:"+e[0],(seed,e)); bad=True
    if not bad: kinds["ok"]+=1
print(kinds)
for k,v in first.items(): print(k,v)
