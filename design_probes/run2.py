import sys, random, traceback, collections
sys.path.insert(0,__import__("os").path.dirname(__import__("os").path.abspath(__file__)))
from sim import *
import re
kinds=collections.Counter(); first={}
for seed in range(int(sys.argv[1]), int(sys.argv[2])):
    rng=random.Random(seed)
    scafs=rand_input(rng, revp=float(sys.argv[3]))
    bpt=rng.choice([1.0,1.5,3.0,10.0,37.25,100.0,250.5])
    ptx=pretext_script(rng,scafs,bpt)
    try:
        outs,ba=remap(scafs,ptx)
    except Exception as e:
        k=type(e).__name__+":"+re.sub(r"[\d_]+","N",str(e).split("\n")[0])[:60]
        kinds[k]+=1; first.setdefault(k,seed); continue
    errs=check_partition(scafs,outs)
    if errs: kinds["PARTITION-FAIL"]+=1; first.setdefault("pf",(seed,errs))
    else: kinds["ok"]+=1
print(kinds); print(first)
