import sys, random, collections, re, math
sys.path.insert(0,__import__("os").path.dirname(__import__("os").path.abspath(__file__)))
from sim import *
from oracle import *
lo,hi=int(sys.argv[1]),int(sys.argv[2])
kinds=collections.Counter(); first={}
def null_map(rng, scafs, bpt, painted=False):
    asm=Assembly("ptx"); asm.bp_per_texel=bpt
    n=0
    for s in scafs:
        L=s.length
        T = math.floor(L/bpt) if rng.random()<0.5 else math.ceil(L/bpt)
        if T==0:
            if rng.random()<0.5: continue
            T=1
        n+=1
        sc=Scaffold(f"Scaffold_{n}")
        sc.add_row(Fragment(s.name,1,math.floor(T*bpt),1, ("Painted",) if painted else ()))
        asm.add_scaffold(sc)
    return asm
for seed in range(lo,hi):
    rng=random.Random(seed)
    scafs=rand_input(rng, revp=0.3)
    bpt=rng.choice([1.0,1.5,3.0,10.0,37.25,100.0,250.5])
    # enforce last contig >= 1 texel
    ok=all(s.rows[-1].length>=bpt for s in scafs)
    if not ok: kinds["skip"]+=1; continue
    ptx=null_map(rng,scafs,bpt, painted=(sys.argv[3]=="p"))
    try:
        outs,ba=remap(scafs,ptx)
    except Exception as e:
        k=type(e).__name__+":"+re.sub(r"[\d_]+","N",str(e).split("\n")[0])[:60]
        kinds[k]+=1; first.setdefault(k,seed); continue
    bad=[]
    if list(outs.keys())!=[None]: bad.append(("keys",list(outs.keys())))
    else:
        o={s.name:[str(r) for r in s.rows] for s in outs[None].scaffolds}
        i={s.name:[str(r) for r in s.rows] for s in scafs}
        if sys.argv[3]=="p":
            if sorted(o.values())!=sorted(i.values()): bad.append(("content",seed))
        elif o!=i: bad.append(("content",seed))
    st=ba.assembly_stats
    if (st.cuts,st.breaks,st.joins)!=(0,0,0): bad.append(("stats",(st.cuts,st.breaks,st.joins)))
    for b in bad: kinds["c08:"+b[0]]+=1; first.setdefault("c08:"+b[0],(seed,b))
    if not bad: kinds["ok"]+=1
print(kinds)
for k,v in first.items(): print(k,v)
