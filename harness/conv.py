"""conversions between the real `tola` objects and the protocol's JSON; canonicalisation of real outputs"""


def real():
    from tola.assembly.fragment import Fragment
    from tola.assembly.gap import Gap
    from tola.assembly.scaffold import Scaffold
    from tola.assembly.assembly import Assembly
    return Fragment, Gap, Scaffold, Assembly


def jfrag(oid, name, start, end, strand=1, tags=()):
    return {"t": "F", "oid": oid, "name": name, "start": start, "end": end, "strand": strand, "tags": list(tags)}


def jgap(length, typ="scaffold"):
    return {"t": "G", "len": length, "type": typ}


def jscaffold(name, rows, **kw):
    d = {"name": name, "rows": rows}
    d.update(kw)
    return d


def to_real_row(j):
    Fragment, Gap, _, _ = real()
    if j["t"] == "G":
        return Gap(j["len"], j["type"])
    return Fragment(j["name"], j["start"], j["end"], j["strand"], tuple(j.get("tags", ())))


def to_real_scaffold(j):
    _, _, Scaffold, _ = real()
    s = Scaffold(j["name"], [to_real_row(r) for r in j["rows"]])
    for k in ("tag", "haplotype", "original_name"):
        if j.get(k) is not None:
            setattr(s, k, j[k])
    if j.get("rank") is not None:
        s.rank = j["rank"]
    if j.get("original_tags") is not None:
        s.original_tags = set(j["original_tags"])
    return s


def from_real_row(r, oid_of=None):
    Fragment, Gap, _, _ = real()
    if isinstance(r, Gap):
        return {"t": "G", "len": r.length, "type": r.gap_type}
    oid = oid_of.get(id(r), 0) if oid_of is not None else 0
    return {"t": "F", "oid": oid, "name": r.name, "start": r.start, "end": r.end, "strand": r.strand, "tags": list(r.tags)}


def from_real_scaffold(s, oid_of=None, sort_tags=True):
    ot = getattr(s, "original_tags", None)
    return {
        "name": s.name,
        "rows": [from_real_row(r, oid_of) for r in s.rows],
        "tag": getattr(s, "tag", None),
        "haplotype": getattr(s, "haplotype", None),
        "rank": getattr(s, "rank", 0) or 0,
        "original_name": getattr(s, "original_name", None),
        "original_tags": (sorted(ot) if ot is not None else None),
    }


def strip_oids(x):
    """drop identity fields before comparing values"""
    if isinstance(x, dict):
        return {k: strip_oids(v) for k, v in x.items() if k != "oid"}
    if isinstance(x, list):
        return [strip_oids(v) for v in x]
    return x


def canon_scaffold(j):
    j = dict(j)
    if j.get("original_tags") is not None:
        j["original_tags"] = sorted(j["original_tags"])
    j["rows"] = [strip_oids(r) for r in j["rows"]]
    return j


def errkind(e):
    return type(e).__name__
