"""
Shared machinery for the remap properties (C01, C02, C06-C11): generators (input assemblies, PretextView-model edit scripts,
perturbed scripts, arbitrary bait lists, tag decorations), the real-code runner, the model runner, and the oracles —
direct statements of each property evaluated on output JSON (so the same oracle runs on implementation and model output).
"""
import math, re
from fractions import Fraction
import conv

BPTS = ["1", "1.5", "3", "10.75", "37.25", "100", "2326.116333", "1.01", "2.5", "25"]
JOIN_GAP = {"len": 200, "type": "scaffold"}


def flen(r):
    return r["len"] if r["t"] == "G" else r["end"] - r["start"] + 1


def slen(rows):
    return sum(flen(r) for r in rows)


# ------------------------------------------------------------------ generators
def rand_input(rng, nscaf=4, maxrows=6, maxlen=3000, minlen=1, revp=0.25, prefix="s", hap_names=False, zero_strand=0.0,
               double_gaps=0.06, dup_names=0.0):
    """dup_names: probability that a contig appears as two abutting same-named rows (an earlier cut; halves may have
    different strands) — still WFInput (same-named intervals disjoint).  double_gaps: two consecutive gap rows."""
    scafs, cid, oid = [], 0, 0
    for j in range(rng.randint(1, nscaf)):
        rows = []
        n = rng.randint(1, maxrows)
        for r in range(n):
            if r:
                if rng.random() < 0.93:
                    rows.append(conv.jgap(rng.choice([200, 200, 100, 17, 1])))
                    if rng.random() < double_gaps:
                        rows.append(conv.jgap(rng.choice([100, 5, 1000]), rng.choice(["contig", "centromere"])))
            cid += 1
            ln = rng.choice([rng.randint(minlen, 30), rng.randint(minlen, maxlen), rng.randint(minlen, maxlen)])
            st = rng.randint(1, 50)
            strand = -1 if rng.random() < revp else 1
            if rng.random() < zero_strand:
                strand = 0
            if ln >= 2 and rng.random() < dup_names:
                k = rng.randint(1, ln - 1)
                halves = [(st, st + k - 1), (st + k, st + ln - 1)]
                s1 = strand; s2 = rng.choice([1, -1])
                if rng.random() < 0.5:
                    halves.reverse()
                rows.append(conv.jfrag(oid, f"c{cid}", halves[0][0], halves[0][1], s1)); oid += 1
                if rng.random() < 0.4:
                    rows.append(conv.jgap(rng.choice([200, 17])))
                rows.append(conv.jfrag(oid, f"c{cid}", halves[1][0], halves[1][1], s2)); oid += 1
                continue
            rows.append(conv.jfrag(oid, f"c{cid}", st, st + ln - 1, strand))
            oid += 1
        name = f"{prefix}{j+1}"
        if hap_names:
            name = rng.choice(["HAP1", "HAP2"]) + f"_SCAFFOLD_{j+1}"
        scafs.append(conv.jscaffold(name, rows))
    return scafs


class ScriptList(list):
    """the per-scaffold description of a generated script; `.lean` = the same script in the shape of Model/Pretext.lean's `Script`"""
    lean = None


def pretext_script(rng, scafs, bpt_s, paint=0.7, cutp=0.5, drop_subtexel=0.5, minus=0.4, max_group=3, force_floor=False):
    """PretextView model. Returns (ptx scaffolds, script description)"""
    bpt = Fraction(bpt_s)
    pieces, script = [], ScriptList()
    lean_scafs = []
    for si, s in enumerate(scafs):
        L = slen(s["rows"])
        T = math.floor(L / bpt) if (force_floor or rng.random() < 0.5) else math.ceil(L / bpt)
        if T == 0:
            if rng.random() < drop_subtexel:
                script.append({"scaffold": s["name"], "absent": True})
                lean_scafs.append({"present": False, "T": 0, "cuts": []})
                continue
            T = 1
        cuts, t = [0], 0
        while True:
            if rng.random() > cutp:
                break
            t = rng.randint(t + 2, max(t + 2, T))
            if t + 2 > T:
                break
            cuts.append(t)
        cuts.append(T)
        script.append({"scaffold": s["name"], "T": T, "cuts": cuts})
        lean_scafs.append({"present": True, "T": T, "cuts": cuts[1:-1]})
        for k, (a, b) in enumerate(zip(cuts, cuts[1:])):
            pieces.append((s["name"], math.floor(a * bpt) + 1, math.floor(b * bpt), si, k))
    rng.shuffle(pieces)
    ptx, i, n = [], 0, 0
    groups = []
    while i < len(pieces):
        n += 1
        k = rng.randint(1, max_group)
        painted = rng.random() < paint
        rows, items = [], []
        for (nm, a, b, si, pk) in pieces[i:i + k]:
            if b < a:
                continue
            if rows:
                rows.append(conv.jgap(100))
            mn = rng.random() < minus
            rows.append(conv.jfrag(0, nm, a, b, -1 if mn else 1, ["Painted"] if painted else []))
            items.append({"sc": si, "k": pk, "minus": mn})
        if rows:
            ptx.append(conv.jscaffold(f"Scaffold_{n}", rows))
            groups.append({"items": items, "painted": painted, "n": n})
        i += k
    script.lean = {"p": bpt.numerator, "q": bpt.denominator, "scafs": lean_scafs, "groups": groups}
    return ptx, script


def perturb(rng, ptx, scafs):
    """shift / drop / duplicate / overlap / out-of-range / unknown-scaffold pieces"""
    import copy
    ptx = copy.deepcopy(ptx)
    frs = [(s, i) for s in ptx for i, r in enumerate(s["rows"]) if r["t"] == "F"]
    for _ in range(rng.randint(1, 3)):
        if not frs:
            break
        s, i = rng.choice(frs)
        r = s["rows"][i]
        if r["t"] != "F":
            continue
        k = rng.random()
        if k < 0.3:
            d = rng.choice([-3, -1, 1, 2, 7, 50, -50])
            r["start"] = max(1, r["start"] + d); r["end"] = max(r["start"], r["end"] + rng.choice([0, d, -d]))
        elif k < 0.45:
            s["rows"][i] = conv.jgap(100)
        elif k < 0.65:
            ptx.append(conv.jscaffold(f"Scaffold_{len(ptx)+50}", [dict(r)]))
        elif k < 0.8:
            r["end"] = r["end"] + rng.choice([1, 10, 10**6])
        elif k < 0.9:
            r["name"] = rng.choice(["nosuch", scafs[0]["name"]])
        else:
            r["start"] = max(1, r["start"] - rng.randint(1, 40))
    for s in ptx:
        # keep scaffolds starting with a fragment most of the time
        while s["rows"] and s["rows"][0]["t"] == "G" and rng.random() < 0.8:
            s["rows"].pop(0)
    return [s for s in ptx if s["rows"]]


def arbitrary_baits(rng, scafs, painted_p=0.5):
    ptx = []
    for n in range(rng.randint(1, 5)):
        rows = []
        painted = rng.random() < painted_p
        for _ in range(rng.randint(1, 4)):
            s = rng.choice(scafs)
            L = slen(s["rows"])
            a = rng.randint(1, max(1, L)); b = rng.randint(a, max(a, L + rng.choice([0, 0, 5, 500])))
            if rows:
                rows.append(conv.jgap(100))
            rows.append(conv.jfrag(0, s["name"], a, b, rng.choice([1, -1]), ["Painted"] if painted else []))
        ptx.append(conv.jscaffold(f"Scaffold_{n+1}", rows))
    return ptx


def decorate_tags(rng, ptx, mode="mixed", two_haps=False, primary=False):
    """consistent tagging in the PretextView model: returns ptx with tags added (in place on a deep copy)"""
    import copy
    ptx = copy.deepcopy(ptx)
    # name tags (`[A-Z]\d*|[IVX_]+|\d+[A-Z]+`): besides the usual sex / B chromosomes also tags that START WITH A CHARACTER OF THE AUTOSOME PREFIX
    # (U, S, P, E, R, _ for "SUPER_": UV sex chromosomes exist) — a prefix stripped as a character set instead of as a prefix shows only there (wave 11, C10i)
    sexes = ["X", "Y", "W", "Z", "B1", "X1"] + rng.sample(["U", "V", "U1", "S", "E2", "R", "P1", "_I", "2U"], 3)
    target_mode = mode == "target" or (mode == "mixed" and rng.random() < 0.12)
    target_started = False
    haps = ["Hap1", "Hap2"] if two_haps else []
    primary_used = False
    for sc in ptx:
        frs = [r for r in sc["rows"] if r["t"] == "F"]
        if not frs:
            continue
        painted = "Painted" in frs[0]["tags"]
        nametag = rng.choice(sexes) if painted and sexes and rng.random() < 0.25 else None
        if nametag:
            sexes.remove(nametag)
        hap = rng.choice(haps) if haps and painted else None
        sc_target = target_mode and rng.random() < 0.6
        n_main = 0
        for n, f in enumerate(frs):
            tags = list(f["tags"])
            if n == 0:
                if nametag:
                    tags.append(nametag)
                if hap:
                    tags.append(hap)
                    if primary and not primary_used and hap == haps[0]:
                        tags.append("Primary")        # Primary mode: only this haplotype is curated, the others are merged into all_haplotigs
                        primary_used = True
                if sc_target:
                    tags.append("Target")
            r = rng.random()
            special = None
            if r < 0.10:
                special = "Haplotig"
            elif r < 0.18 and painted and n_main > 0:
                special = "Unloc"
            elif r < 0.24:
                special = "Contaminant"
            elif r < 0.28 and two_haps:
                special = "FalseDuplicate"
            if special:
                tags.append(special)
            else:
                n_main += 1
            f["tags"] = tags
    return ptx


def null_script(rng, scafs, bpt_s, painted=False):
    bpt = Fraction(bpt_s)
    ptx, n = [], 0
    for s in scafs:
        L = slen(s["rows"])
        T = math.floor(L / bpt) if rng.random() < 0.5 else math.ceil(L / bpt)
        if T == 0:
            if rng.random() < 0.5:
                continue
            T = 1
        n += 1
        ptx.append(conv.jscaffold(f"Scaffold_{n}", [conv.jfrag(0, s["name"], 1, math.floor(T * bpt), 1, ["Painted"] if painted else [])]))
    return ptx


# ------------------------------------------------------------------ runners
def real_remap(inp, ptx, bpt_s, prefix="SUPER_", join_gap=JOIN_GAP):
    """run the real pipeline; returns the canonical output JSON (same shape as the driver's)"""
    from tola.assembly.assembly import Assembly
    from tola.assembly.indexed_assembly import IndexedAssembly
    from tola.assembly.build_assembly import BuildAssembly
    from tola.assembly.gap import Gap
    try:
        in_asm = Assembly("in", scaffolds=[conv.to_real_scaffold(s) for s in inp])
        ia = IndexedAssembly.new_from_assembly(in_asm)
        pa = Assembly("ptx", header=[f"HiC MAP RESOLUTION: {bpt_s} bp/texel"], scaffolds=[conv.to_real_scaffold(s) for s in ptx])
        ba = BuildAssembly("out", default_gap=(Gap(join_gap["len"], join_gap["type"]) if join_gap else None), autosome_prefix=prefix)
        ba.remap_to_input_assembly(pa, ia)
        outs = ba.assemblies_with_scaffolds_fused()
        st = ba.assembly_stats
        asms = []
        for k, a in outs.items():
            csv = st.chromosome_name_csv(a)
            lines = []
            if csv:
                for l in csv.splitlines():
                    x = l.split(",")
                    lines.append([x[0], x[1], x[2] == "yes"])
            asms.append({"key": k, "curated": bool(a.curated), "scaffolds": [conv.canon_scaffold(conv.from_real_scaffold(s)) for s in a.scaffolds],
                         "chr_csv": lines})
        per = [[k, v["manual_breaks"], v["manual_joins"]] for k, v in st.per_assembly_stats.items()]
        return {"ok": {"assemblies": asms, "stats": {"cuts": st.cuts, "breaks": st.breaks, "joins": st.joins, "per_assembly": per}}}
    except Exception as e:
        return {"err": conv.errkind(e)}


def real_remap_history(inp, maps, bpt_s, prefix="SUPER_", join_gap=JOIN_GAP):
    """several remaps, one after the other, onto ONE IndexedAssembly object (and in one process); returns the result of the LAST
    map in real_remap's shape.  `maps` = list of Pretext scaffold lists."""
    from tola.assembly.assembly import Assembly
    from tola.assembly.indexed_assembly import IndexedAssembly
    from tola.assembly.build_assembly import BuildAssembly
    from tola.assembly.gap import Gap
    in_asm = Assembly("in", scaffolds=[conv.to_real_scaffold(s) for s in inp])
    ia = IndexedAssembly.new_from_assembly(in_asm)
    last = None
    for ptx in maps:
        try:
            pa = Assembly("ptx", header=[f"HiC MAP RESOLUTION: {bpt_s} bp/texel"], scaffolds=[conv.to_real_scaffold(s) for s in ptx])
            ba = BuildAssembly("out", default_gap=(Gap(join_gap["len"], join_gap["type"]) if join_gap else None), autosome_prefix=prefix)
            ba.remap_to_input_assembly(pa, ia)
            outs = ba.assemblies_with_scaffolds_fused()
            st = ba.assembly_stats
            asms = []
            for k, a in outs.items():
                csv = st.chromosome_name_csv(a)
                lines = []
                if csv:
                    for l in csv.splitlines():
                        x = l.split(",")
                        lines.append([x[0], x[1], x[2] == "yes"])
                asms.append({"key": k, "curated": bool(a.curated), "scaffolds": [conv.canon_scaffold(conv.from_real_scaffold(s)) for s in a.scaffolds],
                             "chr_csv": lines})
            per = [[k, v["manual_breaks"], v["manual_joins"]] for k, v in st.per_assembly_stats.items()]
            last = {"ok": {"assemblies": asms, "stats": {"cuts": st.cuts, "breaks": st.breaks, "joins": st.joins, "per_assembly": per}}}
        except Exception as e:
            last = {"err": conv.errkind(e)}
    return last


def variant_script(rng, ptx):
    """another legal-looking map over the same input that SHARES pieces (same scaffold, start, end) with `ptx`: two neighbouring
    pieces of one input scaffold merged into one, a piece split in two, a piece's orientation or tags changed, pieces regrouped"""
    import copy
    pieces = [copy.deepcopy(f) for ps in ptx for f in ps["rows"] if f["t"] == "F"]
    if not pieces:
        return copy.deepcopy(ptx)
    for _ in range(rng.randint(1, 2)):
        k = rng.random()
        if k < 0.4:
            # merge two pieces of one scaffold that abut
            cands = [(a, b) for a in pieces for b in pieces if a is not b and a["name"] == b["name"] and a["end"] + 1 == b["start"]]
            if cands:
                a, b = rng.choice(cands)
                a["end"] = b["end"]
                pieces = [x for x in pieces if x is not b]
        elif k < 0.7:
            f = rng.choice(pieces)
            if f["end"] - f["start"] >= 8:
                c = rng.randint(f["start"] + 2, f["end"] - 3)
                g = copy.deepcopy(f); g["start"] = c + 1; f["end"] = c
                pieces.insert(pieces.index(f) + 1, g)
        else:
            f = rng.choice(pieces); f["strand"] = -f["strand"]
    rng.shuffle(pieces) if rng.random() < 0.5 else None
    out, i, n = [], 0, 0
    while i < len(pieces):
        n += 1
        k = rng.randint(1, 3)
        rows = []
        for f in pieces[i:i + k]:
            if rows:
                rows.append(conv.jgap(100))
            rows.append(f)
        painted = "Painted" in rows[0]["tags"]
        for f in rows:
            if f["t"] == "F":
                f["tags"] = [t for t in f["tags"] if t != "Painted"] + (["Painted"] if painted else [])
        out.append(conv.jscaffold(f"Scaffold_{n}", rows))
        i += k
    return out


def run_history_cases(ctx, stream, cases, proj, oracle, classify=None):
    """state carried from one remap to the next must not matter: each case's map is remapped AFTER one or two other maps over the same
    input (sharing pieces with it) on the SAME IndexedAssembly object in the same process; the result must equal a fresh run's
    (projection `proj`), and the property's oracle is applied to it"""
    for c in cases:
        earlier = [variant_script(ctx.rng, c["ptx"]) for _ in range(ctx.rng.randint(1, 2))]
        fresh = real_remap(c["input"], c["ptx"], c["bpt"])
        hist = real_remap_history(c["input"], earlier + [c["ptx"]], c["bpt"])
        inp = {k: c[k] for k in ("input", "ptx", "bpt", "kind") if k in c}
        inp["earlier_maps_on_the_same_IndexedAssembly"] = earlier
        ctx.out.case(stream, inp, ("history", c.get("kind"), len(earlier), "err" in hist))
        if proj(hist) != proj(fresh):
            msgs = oracle(c, hist) if "ok" in hist else []
            what = msgs[0] if msgs else ("the run fails with " + hist["err"] + " although a fresh run succeeds" if "err" in hist else
                                         "result differs from a fresh run's (the property holds for the fresh run: a remap must not depend on earlier remaps of the same input object)")
            ctx.out.oracle_fail(stream, inp, "after earlier remaps on the same IndexedAssembly object: " + what)


def model_requests(cases):
    return [{"id": i, "kind": "remap", "input": c["input"], "ptx": c["ptx"], "prefix": c.get("prefix", "SUPER_"),
             "join_gap": c.get("join_gap", JOIN_GAP), "bpt": c["bpt"]} for i, c in enumerate(cases)]


def canon_model(m):
    if m is None or "err" in m:
        return m
    for a in m["ok"]["assemblies"]:
        a["scaffolds"] = [conv.canon_scaffold(s) for s in a["scaffolds"]]
    return m


# ------------------------------------------------------------------ projections (what each property's theorems depend on)
def all_frags(res):
    return [(a["key"], s["name"], r) for a in res["ok"]["assemblies"] for s in a["scaffolds"] for r in s["rows"] if r["t"] == "F"]


def proj_C01(res):
    if "err" in res:
        return {"err": True}
    return sorted((r["name"], r["start"], r["end"]) for _, _, r in all_frags(res))


def proj_rows(res):
    """row content and order per scaffold, assembly keys — everything except names/ranks"""
    if "err" in res:
        return {"err": True}
    return [[a["key"], [[conv.strip_oids(r) for r in s["rows"]] for s in a["scaffolds"]]] for a in res["ok"]["assemblies"]]


def proj_full(res):
    if "err" in res:
        return {"err": res["err"]}
    return res


def proj_routing(res):
    if "err" in res:
        return {"err": True}
    return sorted((str(a["key"]), a["curated"], r["name"], r["start"], r["end"]) for a in res["ok"]["assemblies"] for s in a["scaffolds"] for r in s["rows"] if r["t"] == "F")


def proj_names(res):
    if "err" in res:
        return {"err": res["err"]}
    # which SEQUENCE carries which name matters ("ranked by size"): the contig intervals of each scaffold are part of the projection
    return [[a["key"], [[s["name"], s["rank"], s["original_name"], slen(s["rows"]),
                         [[r["name"], r["start"], r["end"]] for r in s["rows"] if r["t"] == "F"]] for s in a["scaffolds"]], a["chr_csv"]]
            for a in res["ok"]["assemblies"]]


def proj_stats(res):
    if "err" in res:
        return {"err": True}
    st = res["ok"]["stats"]
    return [st["cuts"], st["breaks"], st["joins"], sorted(map(tuple, st["per_assembly"])),
            [len(a["scaffolds"]) for a in res["ok"]["assemblies"] if a["key"] == "Haplotig"]]


# ------------------------------------------------------------------ oracles
def wf_input(inp):
    """same-named input fragments pairwise disjoint"""
    by = {}
    for s in inp:
        for r in s["rows"]:
            if r["t"] == "F":
                by.setdefault(r["name"], []).append((r["start"], r["end"]))
    for iv in by.values():
        iv.sort()
        for (a, b), (c, d) in zip(iv, iv[1:]):
            if c <= b:
                return False
    return True


def oracle_partition(inp, res):
    """C01: per contig name, output intervals tile the input intervals exactly; nothing extra"""
    if "err" in res:
        return []
    cov = {}
    for _, _, r in all_frags(res):
        cov.setdefault(r["name"], []).append((r["start"], r["end"]))
    errs = []
    want = {}
    for s in inp:
        for r in s["rows"]:
            if r["t"] == "F":
                want.setdefault(r["name"], []).append((r["start"], r["end"]))
    for nm, ivs in want.items():
        got = sorted(cov.pop(nm, []))
        # every output interval inside exactly one input interval, and those inside tile it
        for (a, b) in sorted(ivs):
            inside = [(x, y) for (x, y) in got if a <= x and y <= b]
            p = a
            ok = True
            for (x, y) in inside:
                if x != p:
                    ok = False; break
                p = y + 1
            if not ok or p != b + 1:
                errs.append(f"contig {nm}:{a}-{b} not tiled exactly once: {inside}")
            for iv in inside:
                got.remove(iv)
        if got:
            errs.append(f"output fragments outside every input interval of {nm}: {got}")
    if cov:
        errs.append(f"invented contigs: {sorted(cov)[:3]}")
    return errs


def input_map(inp):
    m = {}
    for s in inp:
        p = 0
        for r in s["rows"]:
            if r["t"] == "F":
                m[r["name"]] = (s["name"], p + 1, r["start"], r["end"], r["strand"])
            p += flen(r)
    return m


def scafpos(im, name, c):
    sn, ss, cs, ce, st = im[name]
    return ss + (c - cs) if st != -1 else ss + (ce - c)


def oracle_placement(inp, ptx, res, bpt_s):
    """C02 on a successful run (contig names unique in the generator)"""
    M = 3 * (1 + math.floor(Fraction(bpt_s)))
    im = input_map(inp)
    errs, spans = [], []
    for a in res["ok"]["assemblies"]:
        for s in a["scaffolds"]:
            p = 0
            for r in s["rows"]:
                if r["t"] == "F":
                    sn, ss, ics, ice, ist = im[r["name"]]
                    p1 = scafpos(im, r["name"], r["start"]); p2 = scafpos(im, r["name"], r["end"])
                    lo, hi = min(p1, p2), max(p1, p2)
                    d = 1 if r["strand"] == ist else -1
                    ostart = p + 1
                    o_lo = ostart if d == 1 else ostart + (hi - lo)
                    spans.append((sn, lo, hi, d, o_lo, (str(a["key"]), s["name"])))
                p += flen(r)
    for px in ptx:
        plist = []
        for f in px["rows"]:
            if f["t"] != "F":
                continue
            a_, b_, o = f["start"] + M, f["end"] - M, f["strand"]
            aff, dests, outpos = set(), set(), []
            for (sn, lo, hi, d, o_lo, dest) in spans:
                if sn != f["name"]:
                    continue
                x = max(lo, a_); y = min(hi, b_)
                if x > y:
                    continue
                ox = o_lo + (x - lo) if d == 1 else o_lo - (x - lo)
                oy = o_lo + (y - lo) if d == 1 else o_lo - (y - lo)
                outpos += [ox, oy]          # where the contig bases of the core actually sit (terminal gaps are not output)
                aff.add((d, ox - d * x)); dests.add(dest)
                if d != o:
                    errs.append(f"orientation of core of piece {f['name']}:{f['start']}-{f['end']} wrong in {dest}")
            if len(dests) > 1:
                errs.append(f"core of piece {f['name']}:{f['start']}-{f['end']} split over {sorted(dests)}")
            elif len(aff) > 1:
                errs.append(f"core of piece {f['name']}:{f['start']}-{f['end']} not one collinear run")
            if aff and len(dests) == 1:
                plist.append((next(iter(dests)), min(outpos), f"{f['name']}:{f['start']}-{f['end']}"))
        bydest = {}
        for dest, pos, s in plist:
            bydest.setdefault(dest, []).append((pos, s))
        for dest, l in bydest.items():
            if [x for x, _ in l] != sorted(x for x, _ in l):
                errs.append(f"pieces of one Pretext scaffold out of Pretext order in {dest}: {l}")
    bounds = {(sn, hi) for (sn, lo, hi, *_r) in spans}
    for px in ptx:
        for f in px["rows"]:
            if f["t"] != "F":
                continue
            b = f["end"]
            for name, (sn, ss, cs, ce, st) in im.items():
                if sn != f["name"]:
                    continue
                lo = ss; hi = ss + (ce - cs)
                if lo + M < b < hi - M and (sn, b) not in bounds:
                    errs.append(f"deep cut at {sn}:{b} inside contig {name} not made exactly there")
    return errs


def facing(x, side):
    """contig end facing the junction: side 'L' = x is the left fragment"""
    if side == "L":
        return (x["name"], x["end"] if x["strand"] != -1 else x["start"])
    return (x["name"], x["start"] if x["strand"] != -1 else x["end"])


def adjacencies(scaffolds, with_gaps=False):
    """unordered pairs of facing contig ends of consecutive fragments (gaps skipped unless with_gaps=False → only gapless)"""
    adj = set()
    for s in scaffolds:
        rows = s["rows"]
        for i in range(len(rows) - 1):
            x, y = rows[i], rows[i + 1]
            if x["t"] == "F" and y["t"] == "F":
                adj.add(frozenset([facing(x, "L"), facing(y, "R")]))
    return adj


def facing_typed(x, side):
    """contig end facing the junction, with its kind ('t' = the contig's end coordinate, 'h' = its start): the two ends of a
    1-bp fragment have the same coordinate but are different ends"""
    if side == "L":
        return (x["name"], x["end"], "t") if x["strand"] != -1 else (x["name"], x["start"], "h")
    return (x["name"], x["start"], "h") if x["strand"] != -1 else (x["name"], x["end"], "t")


def junction_adj(scaffolds):
    """adjacency over consecutive FRAGMENTS (gap rows skipped) — what the statistics count"""
    adj = set()
    for s in scaffolds:
        fr = [r for r in s["rows"] if r["t"] == "F"]
        for x, y in zip(fr, fr[1:]):
            adj.add(frozenset([facing_typed(x, "L"), facing_typed(y, "R")]))
    return adj


def out_scaffolds(res):
    return [s for a in res["ok"]["assemblies"] for s in a["scaffolds"]]


def oracle_gaps(inp, res, pretextview, join_gap=JOIN_GAP):
    """C07"""
    errs = []
    in_adj = adjacencies(inp)
    # for every pair of neighbouring input contigs: the gap rows between them (possibly none, possibly several)
    in_gap = {}
    for s in inp:
        prev, gaps = None, []
        for r in s["rows"]:
            if r["t"] == "G":
                gaps.append((r["len"], r["type"]))
            else:
                if prev is not None:
                    in_gap[frozenset([facing(prev, "L"), facing(r, "R")])] = list(gaps)
                prev, gaps = r, []
    for s in out_scaffolds(res):
        rows = s["rows"]
        if not rows or rows[0]["t"] == "G" or rows[-1]["t"] == "G":
            errs.append(f"scaffold {s['name']} begins or ends with a gap")
        for i in range(len(rows) - 1):
            x, y = rows[i], rows[i + 1]
            if x["t"] == "F" and y["t"] == "F":
                k = frozenset([facing(x, "L"), facing(y, "R")])
                if k not in in_adj:
                    errs.append(f"gapless junction {x['name']}:{x['start']}-{x['end']} | {y['name']}:{y['start']}-{y['end']} in {s['name']} not adjacent in input")
        if pretextview:
            # every gap row between two fragments: one of the input gap rows between the same two neighbouring contig ends, or the join gap
            prev, gaps = None, []
            for r in rows:
                if r["t"] == "G":
                    gaps.append((r["len"], r["type"]))
                    continue
                if prev is not None and gaps:
                    k = frozenset([facing(prev, "L"), facing(r, "R")])
                    jg = (join_gap["len"], join_gap["type"])
                    for gt in gaps:
                        if k in in_gap:
                            if gt not in in_gap[k] and gt != jg:
                                errs.append(f"gap between input neighbours in {s['name']} is neither their input gap nor the join gap: {gt}")
                        elif gt != jg:
                            errs.append(f"junction between non-neighbours in {s['name']} does not use the join gap: {gt}")
                prev, gaps = r, []
    return errs


def oracle_stats(inp, res):
    """C11"""
    errs = []
    st = res["ok"]["stats"]
    nin = sum(1 for s in inp for r in s["rows"] if r["t"] == "F")
    nout = len(all_frags(res))
    if st["cuts"] != nout - nin:
        errs.append(f"cuts={st['cuts']} but output fragments - input contigs = {nout - nin}")
    ia = junction_adj(inp); oa = junction_adj(out_scaffolds(res))
    if st["breaks"] != len(ia - oa):
        errs.append(f"breaks={st['breaks']} but {len(ia - oa)} input adjacencies no longer exist")
    if st["joins"] != len(oa - ia):
        errs.append(f"joins={st['joins']} but {len(oa - ia)} output adjacencies are new")
    return errs


# ------------------------------------------------------------------ C08 / C09 / C10 oracles
def hap_like(name):
    return re.search(r"^([^_]+)_.+_\d+$", name) is not None


def rows_val(rows):
    return [conv.strip_oids(r) for r in rows]


def oracle_null(inp, ptx, res, bpt_s, painted, prefix="SUPER_"):
    """C08 (precondition checked by the caller: last contig of every scaffold >= 1 texel)"""
    errs = []
    if "err" in res:
        return [f"remapping an unedited map failed: {res['err']}"]
    asms = res["ok"]["assemblies"]
    keys = [a["key"] for a in asms]
    if keys != [None]:
        return [f"an unedited map produced assemblies {keys} instead of only the primary one"]
    st = res["ok"]["stats"]
    if (st["cuts"], st["breaks"], st["joins"]) != (0, 0, 0):
        errs.append(f"statistics not zero: cuts={st['cuts']} breaks={st['breaks']} joins={st['joins']}")
    out = asms[0]["scaffolds"]
    present = {f["name"] for s in ptx for f in s["rows"] if f["t"] == "F"}
    if not painted:
        o = {s["name"]: rows_val(s["rows"]) for s in out}
        i = {s["name"]: rows_val(s["rows"]) for s in inp}
        if len(o) != len(out):
            errs.append("duplicate scaffold names in output")
        if o != i:
            bad = [n for n in i if o.get(n) != i[n]] + [n for n in o if n not in i]
            errs.append(f"output scaffolds differ from the input for {bad[:3]}: {[o.get(n) for n in bad[:1]]}")
    else:
        want = sorted(common_canon(rows_val(s["rows"])) for s in inp)
        got = sorted(common_canon(rows_val(s["rows"])) for s in out)
        if want != got:
            errs.append("painting changed scaffold content")
        named = [s for s in out if s["rank"] == 1]
        nums = []
        for s in named:
            m = re.fullmatch(re.escape(prefix) + r"(\d+)", s["name"])
            if not m:
                errs.append(f"painted scaffold named {s['name']}")
            else:
                nums.append(int(m.group(1)))
        if sorted(nums) != list(range(1, len(nums) + 1)):
            errs.append(f"painted names not {prefix}1..n: {sorted(nums)}")
        by = sorted(named, key=lambda s: int(s["name"][len(prefix):]) if s["name"][len(prefix):].isdigit() else 0)
        ls = [sum(flen(r) for r in s["rows"] if r["t"] == "F") for s in by]
        if ls != sorted(ls, reverse=True):
            errs.append(f"painted scaffolds not ranked by size: {ls}")
        if len(named) != len(present):
            errs.append("number of painted output scaffolds differs from the number of scaffolds in the map")
    return errs


def common_canon(x):
    import json
    return json.dumps(x, sort_keys=True)


SPECIAL = ["FalseDuplicate", "Haplotig", "Contaminant"]
KNOWN = {"Contaminant", "Cut", "FalseDuplicate", "Haplotig", "Singleton", "Unloc", "Painted", "Target", "Primary"}


def is_chr_tag(t):
    return re.fullmatch(r"([A-Z]\d*|[IVX_]+|\d+[A-Z]+)", t) is not None


def expected_routing(inp, ptx):
    """per Pretext piece: the assembly key the property prescribes (None = primary); plus the key for sequence absent
    from the map per input scaffold. Haplotype names take the case of their first occurrence."""
    hap_case = {}
    for ps in ptx:
        for f in ps["rows"]:
            if f["t"] == "F":
                for t in f["tags"]:
                    if t not in KNOWN and not is_chr_tag(t):
                        hap_case.setdefault(t.lower(), t)
    primary = None
    target_on = False
    exp = []
    for ps in ptx:
        tags = {t for f in ps["rows"] if f["t"] == "F" for t in f["tags"]}
        if "Target" in tags:
            target_on = True
        sc_hap = [t for t in tags if t not in KNOWN and not is_chr_tag(t)]
        first = next((f for f in ps["rows"] if f["t"] == "F"), None)
        hap = hap_case[sc_hap[0].lower()] if sc_hap else None
        if hap is None and first is not None:
            # unplaced: input name starts with a haplotype's name
            low = first["name"].lower()
            for lc, orig in hap_case.items():
                if low.startswith(lc + "_"):
                    hap = orig
        if "Primary" in tags and primary is None and hap is not None:
            primary = hap
        for f in ps["rows"]:
            if f["t"] != "F":
                continue
            key = None
            sp = [t for t in SPECIAL if t in f["tags"]]
            if sp:
                key = sp[0]
            elif target_on and "Target" not in tags:
                key = "Contaminant"
            else:
                key = hap
            exp.append((f, key, ps["name"]))
    return exp, hap_case, target_on, primary


def norm_key(k):
    """haplotype keys are matched case-insensitively (the spelling is that of the first occurrence, tag OR input name)"""
    return k if (k is None or k in SPECIAL or k == "Primary") else k.lower()


def oracle_routing(inp, ptx, res, bpt_s):
    """C09: the core of every piece sits in the assembly its tags prescribe; special tags never in a curated assembly"""
    errs = []
    if "err" in res or not consistent_tagging(ptx, inp, bpt_s):
        return errs
    M = 3 * (1 + math.floor(Fraction(bpt_s)))
    im = input_map(inp)
    exp, hap_case, target_on, primary = expected_routing(inp, ptx)
    spans = []
    for a in res["ok"]["assemblies"]:
        for s in a["scaffolds"]:
            for r in s["rows"]:
                if r["t"] == "F" and r["name"] in im:
                    sn = im[r["name"]][0]
                    p1 = scafpos(im, r["name"], r["start"]); p2 = scafpos(im, r["name"], r["end"])
                    spans.append((sn, min(p1, p2), max(p1, p2), a["key"], a["curated"], s["name"]))
    # one assembly per haplotype: the property matches haplotype names case-insensitively, so two output assemblies whose keys
    # differ only in case split one haplotype over two assemblies (and the CLI writes both to the same file)
    keys = [a["key"] for a in res["ok"]["assemblies"] if a["key"] is not None]
    lows = [k.lower() for k in keys]
    for k in keys:
        if lows.count(k.lower()) > 1:
            errs.append(f"two output assemblies for one haplotype (keys differ only in case): {sorted(x for x in keys if x.lower() == k.lower())}")
            break
    covered = {}
    for f, key, psname in exp:
        if primary is not None and key == primary:
            key = "Primary"
        a_, b_ = f["start"] + M, f["end"] - M
        covered.setdefault(f["name"], []).append((f["start"], f["end"]))
        for (sn, lo, hi, k, curated, oname) in spans:
            if sn != f["name"] or max(lo, a_) > min(hi, b_):
                continue
            if norm_key(k) != norm_key(key):
                errs.append(f"piece {f['name']}:{f['start']}-{f['end']} tags={f['tags']} of {psname}: core written to assembly {k!r} (scaffold {oname}), expected {key!r}")
            elif key in SPECIAL and curated:
                errs.append(f"{key} piece written to a curated assembly")
    # sequence absent from the map
    for s in inp:
        cov = sorted(covered.get(s["name"], []))
        p = 0
        for r in s["rows"]:
            ln = flen(r)
            if r["t"] == "F":
                lo, hi = p + 1, p + ln
                if not any(c0 <= hi and c1 >= lo for c0, c1 in cov) and not any(abs(c1 - lo) <= M or abs(c0 - hi) <= M for c0, c1 in cov):
                    # contig entirely absent from the map (and not within the margin of a piece end)
                    want = "Contaminant" if target_on else None
                    if want is None:
                        low = s["name"].lower()
                        for lc, orig in hap_case.items():
                            if low.startswith(lc + "_"):
                                want = orig
                        if primary is not None and want == primary:
                            want = "Primary"
                    got = [(k) for (sn, l2, h2, k, cur, on) in spans if sn == s["name"] and l2 <= hi and h2 >= lo]
                    for k in got:
                        if norm_key(k) != norm_key(want):
                            errs.append(f"contig {r['name']} absent from the map written to assembly {k!r}, expected {want!r}")
            p += ln
    return errs


def contig_overlap(inp, f):
    """the largest number of bases of ONE input contig that Pretext piece `f` covers (a piece whose every contig overlap is shorter
    than a texel is emptied by trim_large_overhangs: it carries no sequence to be unlocalised from)"""
    n = 0
    for s in inp:
        if s["name"] != f["name"]:
            continue
        p = 0
        for r in s["rows"]:
            ln = flen(r)
            if r["t"] == "F":
                n = max(n, min(p + ln, f["end"]) - max(p + 1, f["start"]) + 1)
            p += ln
    return n


def consistent_tagging(ptx, inp=None, bpt_s=None):
    """§5.0 reading of 'consistent tagging': a Pretext scaffold with Unloc pieces is painted and has an earlier non-special
    piece (one that actually carries at least one texel of contig sequence) to be unlocalised from; name tags agree; at most
    one haplotype tag per scaffold; at most one special tag per piece."""
    need = 1 + math.floor(Fraction(bpt_s)) if bpt_s is not None else 1
    for ps in ptx:
        frs = [f for f in ps["rows"] if f["t"] == "F"]
        tags = {t for f in frs for t in f["tags"]}
        if len([t for t in tags if is_chr_tag(t)]) > 1:
            return False
        if len([t for t in tags if t not in KNOWN and not is_chr_tag(t)]) > 1:
            return False
        main_seen = False
        for f in frs:
            sp = [t for t in ("FalseDuplicate", "Haplotig", "Contaminant", "Unloc") if t in f["tags"]]
            if len(sp) > 1:
                return False
            if "Unloc" in f["tags"] and (not main_seen or "Painted" not in tags):
                return False
            if not sp and (inp is None or contig_overlap(inp, f) >= need):
                main_seen = True
    return True


def labelled_rows(inp, f, err):
    """independent statement of what a Pretext piece `f` holds when it is labelled: the rows of its input scaffold whose scaffold span
    meets [f.start, f.end], terminal gap rows stripped, then trim_large_overhangs(err).  Returns (length, [(name, start, end) of the
    contig rows]) or None when nothing is matched."""
    sc = next((s for s in inp if s["name"] == f["name"]), None)
    if sc is None:
        return None
    spans, p = [], 0
    for r in sc["rows"]:
        ln = flen(r)
        spans.append((p + 1, p + ln, r)); p += ln
    hit = [x for x in spans if x[1] >= x[0] and x[0] <= f["end"] and x[1] >= f["start"]]
    while hit and hit[0][2]["t"] == "G":
        hit.pop(0)
    while hit and hit[-1][2]["t"] == "G":
        hit.pop()
    if not hit:
        return None
    blen = f["end"] - f["start"] + 1
    def ov(x):
        return max(0, min(x[1], f["end"]) - max(x[0], f["start"]) + 1)
    if not (len(hit) == 1 and blen > err):
        if f["start"] - hit[0][0] > err and ov(hit[0]) < err:
            hit.pop(0)
            while hit and hit[0][2]["t"] == "G":
                hit.pop(0)
        if hit and hit[-1][1] - f["end"] > err and ov(hit[-1]) < err:
            hit.pop()
            while hit and hit[-1][2]["t"] == "G":
                hit.pop()
    if not hit:
        return None
    return (hit[-1][1] - hit[0][0] + 1, [(x[2]["name"], x[2]["start"], x[2]["end"]) for x in hit if x[2]["t"] == "F"])


def oracle_names(inp, ptx, res, prefix="SUPER_", single_hap=True, bpt_s=None):
    """C10"""
    errs = []
    if "err" in res or not consistent_tagging(ptx, inp, bpt_s):
        return errs
    for a in res["ok"]["assemblies"]:
        scs = a["scaffolds"]
        names = [s["name"] for s in scs]
        dup = sorted({n for n in names if names.count(n) > 1})
        if dup:
            errs.append(f"duplicate scaffold names in assembly {a['key']!r}: {dup[:3]}")
        ranks = [s["rank"] for s in scs]
        if ranks != sorted(ranks):
            errs.append(f"assembly {a['key']!r}: not autosomes, then named, then unplaced")
        autos = [s for s in scs if s["rank"] == 1]
        mains = [s for s in autos if "_unloc_" not in s["name"]]
        if a["curated"] and autos:
            nums = []
            okn = True
            for s in mains:
                m = re.fullmatch(re.escape(prefix) + r"(\d+)([A-Z]?)", s["name"])
                if not m:
                    errs.append(f"autosome named {s['name']!r}"); okn = False
                else:
                    nums.append(int(m.group(1)))
            first_hap_asm = False
            if okn and not single_hap and bpt_s is not None:
                # multi-haplotype map: the haplotype of the first painted, un-named Pretext scaffold that carries sequence decides
                need = 1 + math.floor(Fraction(bpt_s))
                hap_case, first_hap, decided = {}, None, False
                for ps in ptx:
                    tags = {t for f in ps["rows"] if f["t"] == "F" for t in f["tags"]}
                    hs = [t for t in tags if t not in KNOWN and not is_chr_tag(t)]
                    for h in hs:
                        hap_case.setdefault(h.lower(), h)
                    if first_hap is None and not decided and "Painted" in tags and not any(is_chr_tag(t) for t in tags) and "Primary" not in tags:
                        main_pieces = [f for f in ps["rows"] if f["t"] == "F" and not any(x in f["tags"] for x in ("FalseDuplicate", "Haplotig", "Contaminant", "Unloc"))]
                        ov = max([contig_overlap(inp, f) for f in main_pieces] or [0])
                        if ov >= 3 * need and len(hs) == 1:
                            first_hap = hap_case[hs[0].lower()]     # certainly yields the first autosome
                            decided = True
                        elif ov > 0 or len(hs) != 1:
                            decided = True                           # may or may not survive trimming: which haplotype is first is not certain → no assertion
                first_hap_asm = first_hap is not None and a["key"] == first_hap and all(re.fullmatch(re.escape(prefix) + r"\d+", s["name"]) for s in mains)
            if okn and (single_hap or first_hap_asm):
                if nums != list(range(1, len(nums) + 1)):
                    errs.append(f"autosome numbers not 1..n in order: {nums}")
                else:
                    tot = {}
                    for s in autos:
                        m = re.match(re.escape(prefix) + r"(\d+)", s["name"])
                        if m:
                            tot[int(m.group(1))] = tot.get(int(m.group(1)), 0) + sum(flen(r) for r in s["rows"] if r["t"] == "F")
                    v = [tot[i] for i in sorted(tot)]
                    if v != sorted(v, reverse=True):
                        errs.append(f"autosomes not in non-increasing sequence length: {v}")
        # unlocs: numbered 1..m, directly after their chromosome
        for i, s in enumerate(scs):
            if "_unloc_" in s["name"] and s["rank"] == 1:   # the statement claims this for autosomes only
                base, n = s["name"].rsplit("_unloc_", 1)
                if not n.isdigit():
                    continue
                n = int(n)
                prev = scs[i - 1]["name"] if i else None
                expn = base if n == 1 else f"{base}_unloc_{n - 1}"
                if prev != expn:
                    errs.append(f"unloc {s['name']} does not directly follow {expn} (follows {prev})")
        # unlocs of one chromosome are numbered 1..m without holes
        ul = {}
        for s in scs:
            if "_unloc_" in s["name"] and s["rank"] in (1, 2):
                base, n_ = s["name"].rsplit("_unloc_", 1)
                if n_.isdigit():
                    ul.setdefault(base, []).append(int(n_))
        for base, ns in ul.items():
            if sorted(ns) != list(range(1, len(ns) + 1)):
                errs.append(f"unlocs of {base} not numbered 1..m: {sorted(ns)}")
        # unlocs of one chromosome are numbered longest first.  "Length" is the length of the rows the piece matched when it was
        # labelled: the rows of the input scaffold meeting the piece, terminal gaps stripped, after trim_large_overhangs (independent
        # re-statement below); later resolution / cutting may shorten them, so the FINAL lengths need not be monotone.
        if bpt_s is not None:
            errL = 1 + math.floor(Fraction(bpt_s))
            upieces = [(ps["name"], f) for ps in ptx for f in ps["rows"] if f["t"] == "F" and "Unloc" in f["tags"]]
            if upieces:
                matched = {id(f): labelled_rows(inp, f, errL) for _, f in upieces}
                byname = {}
                for s_ in scs:
                    if "_unloc_" in s_["name"] and s_["rank"] in (1, 2):
                        base, n_ = s_["name"].rsplit("_unloc_", 1)
                        if not n_.isdigit():
                            continue
                        frs = [(r["name"], r["start"], r["end"]) for r in s_["rows"] if r["t"] == "F"]
                        # the piece this scaffold came from: the one whose matched rows contain all its contigs (by name and interval)
                        cands = [f for _, f in upieces if matched[id(f)] is not None and frs and
                                 all(any(m[0] == x[0] and m[1] <= x[1] and x[2] <= m[2] for m in matched[id(f)][1]) for x in frs)]
                        if len(cands) == 1:
                            byname.setdefault((base, s_["original_name"]), []).append((int(n_), matched[id(cands[0])][0], s_["name"]))
                for key_, lst in byname.items():
                    lst.sort()
                    lens = [x[1] for x in lst]
                    nums = [x[0] for x in lst]
                    if nums == list(range(1, len(nums) + 1)) and lens != sorted(lens, reverse=True):
                        errs.append(f"unlocs of {key_[0]} not numbered longest first (matched lengths when labelled, in name order: {lens})")
        for s in scs:
            if s["rank"] == 2 and not s["name"].startswith(prefix):
                errs.append(f"name-tagged scaffold {s['name']} lacks the prefix")
        if a["key"] == "Haplotig":
            hs = [s for s in scs if re.fullmatch(r"H_\d+", s["name"])]
            if len(hs) != len(scs):
                errs.append(f"haplotig scaffolds not all named H_n: {[s['name'] for s in scs][:4]}")
            hs = sorted(hs, key=lambda s: int(s["name"][2:]))
            if [int(s["name"][2:]) for s in hs] != list(range(1, len(hs) + 1)):
                errs.append(f"haplotig numbers not 1..n: {[s['name'] for s in hs]}")
            ls = [slen(s["rows"]) for s in hs]
            if ls != sorted(ls, reverse=True):
                errs.append(f"haplotigs not in non-increasing length: {ls}")
        # chromosome list CSV: one line per rank 1/2 scaffold; localised = no exactly for unlocs
        want = [[s["name"], ("_unloc_" not in s["name"])] for s in scs if s["rank"] in (1, 2)]
        got = [[l[0], l[2]] for l in a["chr_csv"]]
        if a["curated"] and want != got:
            errs.append(f"chromosome list csv lines {got[:4]} differ from expected {want[:4]}")
        # … and the chromosome column NAMES the chromosome: for a chromosome, its scaffold name without the autosome prefix (the number, or the name
        # tag); for an unloc, the chromosome name of the chromosome it belongs to (`<chromosome>_unloc_<k>`)
        if a["curated"] and want == got:
            chr_of = {}
            for l in a["chr_csv"]:
                name, chr_name, localised = l[0], l[1], l[2]
                if localised:
                    exp = name[len(prefix):] if name.startswith(prefix) else name
                    chr_of[name] = chr_name
                    if chr_name != exp:
                        errs.append(f"chromosome list csv: chromosome name of {name} is {chr_name!r}, expected {exp!r}")
                        break
                else:
                    base = name.split("_unloc_")[0]
                    if base in chr_of and chr_name != chr_of[base]:
                        errs.append(f"chromosome list csv: unloc {name} is attributed to chromosome {chr_name!r}, its chromosome {base} is {chr_of[base]!r}")
                        break
    return errs


# ------------------------------------------------------------------ generic runner for the remap properties
def make_case(rng, kind, **kw):
    """kinds: script | perturbed | baits | tagged | tagged2 | null | nullp | hapnames"""
    bpt = kw.get("bpt") or rng.choice(BPTS)
    revp = kw.get("revp", rng.choice([0.0, 0.25, 0.35]))
    if kind == "twohap":
        # homologous groups: Pretext scaffolds of two or three haplotypes; the first one seen need not be the alphabetically
        # first; chromosome sizes are independent between the haplotypes; later groups may list the haplotypes in another
        # order (3 haplotypes) or lack a homologue (tagged Singleton)
        haps = rng.choice([["Hap2", "Hap1"], ["Hap1", "Hap2"], ["hapB", "hapA"], ["Mat", "Pat"], ["Pat", "Mat"],
                           ["Hap1", "Hap2", "Hap3"], ["Hap3", "Hap1", "Hap2"]])
        ng = rng.randint(2, 4)
        inp, ptx, oid = [], [], 0
        beta = Fraction(bpt)
        unit = max(40, math.ceil(beta) * 8)
        for g in range(ng):
            order = list(haps)
            singleton = False
            if g > 0:
                if len(haps) == 3 and rng.random() < 0.6:
                    rest = order[1:]; rng.shuffle(rest)
                    order = [order[0]] + rest if rng.random() < 0.5 else rng.sample(order, 3)
                elif len(haps) == 2 and rng.random() < 0.3:
                    order = [order[0]]; singleton = True
            for h in order:
                n = len(inp) + 1
                ln = unit * rng.randint(1, 9) + rng.randint(0, 5)
                rows = [conv.jfrag(oid, f"c{oid+1}", 1, ln, rng.choice([1, -1]))]; oid += 1
                if rng.random() < 0.4:
                    rows += [conv.jgap(200), conv.jfrag(oid, f"c{oid+1}", 1, unit * rng.randint(1, 3), 1)]; oid += 1
                inp.append(conv.jscaffold(f"s{n}", rows))
                L = slen(rows); T = math.floor(L / beta)
                tags = ["Painted", h] + (["Singleton"] if singleton else [])
                ptx.append(conv.jscaffold(f"Scaffold_{n}", [conv.jfrag(0, f"s{n}", 1, math.floor(T * beta), rng.choice([1, -1]), tags)]))
        return {"kind": "tagged2", "input": inp, "ptx": ptx, "bpt": bpt}
    if kind == "tie":
        # a sub-texel contig cut exactly in the middle: both pieces overlap it by the same number of bases (< 1 texel)
        beta = Fraction(bpt)
        w = math.floor(beta) if beta >= 8 else 10
        bpt = str(w)
        k = rng.randint(3, 8)
        half = rng.randint(1, max(1, w // 2 - 1))
        c1 = k * w - half
        rows = [conv.jfrag(0, "c1", 1, c1, rng.choice([1, -1])), conv.jfrag(1, "c2", 1, 2 * half, rng.choice([1, -1])),
                conv.jfrag(2, "c3", 1, w * rng.randint(3, 7) + rng.randint(0, w - 1), 1)]
        if rng.random() < 0.5:
            rows.insert(1, conv.jgap(0)) if False else None
        inp = [conv.jscaffold("s1", rows)]
        if rng.random() < 0.5:
            inp.append(conv.jscaffold("s2", [conv.jfrag(3, "c4", 1, w * rng.randint(2, 6), 1)]))
        L = slen(rows); T = math.floor(L / w)
        painted = ["Painted"] if rng.random() < 0.6 else []
        p1 = conv.jfrag(0, "s1", 1, k * w, rng.choice([1, -1]), list(painted))
        p2 = conv.jfrag(0, "s1", k * w + 1, T * w, rng.choice([1, -1]), list(painted))
        order = [p1, p2] if rng.random() < 0.5 else [p2, p1]
        if rng.random() < 0.5:
            ptx = [conv.jscaffold("Scaffold_1", [order[0], conv.jgap(100), order[1]])]
        else:
            ptx = [conv.jscaffold("Scaffold_1", [order[0]]), conv.jscaffold("Scaffold_2", [order[1]])]
        if len(inp) > 1:
            ptx.append(conv.jscaffold("Scaffold_3", [conv.jfrag(0, "s2", 1, (slen(inp[1]["rows"]) // w) * w, 1, [])]))
        return {"kind": "script", "input": inp, "ptx": ptx, "bpt": bpt}
    if kind == "nullabsent":
        # unedited map at a coarse resolution: small multi-contig scaffolds (abutting contigs, single and double gaps) are shorter
        # than a texel and absent from the map; they must come back exactly as they were
        bpt = rng.choice(["100", "2326.116333", "37.25"])
        beta = Fraction(bpt)
        inp, oid = [], 0
        big = rand_input(rng, nscaf=2, revp=revp)
        for s_ in big:
            last = s_["rows"][-1]
            last["end"] = last["start"] + math.ceil(beta) * rng.randint(1, 3) + rng.randint(0, 9)
        tiny = []
        for j in range(rng.randint(1, 3)):
            rows, budget = [], max(3, math.floor(beta) - 1)
            for r in range(rng.randint(1, 4)):
                if rows:
                    k = rng.random()
                    if k < 0.4:
                        rows.append(conv.jgap(1))
                    elif k < 0.55 and budget > 12:
                        rows += [conv.jgap(1), conv.jgap(2, "contig")]
                ln = rng.randint(1, max(1, min(6, budget // 4)))
                rows.append(conv.jfrag(0, "x", 1, ln, -1 if rng.random() < revp else 1))
            while slen(rows) >= math.floor(beta):
                rows = rows[:-1]
                while rows and rows[-1]["t"] == "G":
                    rows.pop()
            if rows:
                tiny.append(conv.jscaffold(f"t{j+1}", rows))
        inp = big + tiny
        rng.shuffle(inp)
        for s_ in inp:
            for r in s_["rows"]:
                if r["t"] == "F":
                    r["oid"] = oid; r["name"] = f"c{oid+1}"; oid += 1
        ptx = null_script(rng, inp, bpt, painted=False)
        ptx = [ps for ps in ptx if not any(f["t"] == "F" and f["name"].startswith("t") for f in ps["rows"])]
        return {"kind": "null", "input": inp, "ptx": ptx, "bpt": bpt}
    if kind in ("null", "nullp"):
        inp = rand_input(rng, revp=revp, hap_names=kw.get("hap_names", False))
        # precondition of C08: last contig of each scaffold at least one texel long → enlarge it if needed
        need = math.ceil(Fraction(bpt))
        for s in inp:
            last = s["rows"][-1]
            if flen(last) < need:
                last["end"] = last["start"] + need - 1 + rng.choice([0, 0, 1, 5])
        ptx = null_script(rng, inp, bpt, painted=(kind == "nullp"))
        return {"kind": kind, "input": inp, "ptx": ptx, "bpt": bpt}
    if kind in ("nulltight", "nulltightp", "tightscript"):
        # map whose last piece ends just before (or a few bases into) the last contig, which is >= 1 texel long
        beta = Fraction(bpt)
        need = math.ceil(beta)
        inp, oid = [], 0
        for j in range(rng.randint(1, 3)):
            for _ in range(200):
                last_len = need + rng.choice([0, 0, 1, 2, need])
                rows = []
                for r in range(rng.randint(1, 3)):
                    ln = rng.randint(1, max(2, (12 if kind == "tightscript" else 3) * need))
                    st = rng.randint(1, 30)
                    rows.append(conv.jfrag(0, "x", st, st + ln - 1, -1 if rng.random() < revp else 1))
                    rows.append(conv.jgap(rng.choice([1, 2, 17, 100, 200])))
                P = slen(rows)
                L = P + last_len
                T = math.floor(L / beta)
                if T >= 1 and math.floor(T * beta) <= P + rng.choice([0, 0, 1, 3]):
                    break
            st = rng.randint(1, 30)
            rows.append(conv.jfrag(0, "x", st, st + last_len - 1, -1 if rng.random() < revp else 1))
            for r in rows:
                if r["t"] == "F":
                    r["oid"] = oid; r["name"] = f"c{oid+1}"; oid += 1
            inp.append(conv.jscaffold(f"s{j+1}", rows))
        if kind == "tightscript":
            ptx, _ = pretext_script(rng, inp, bpt, paint=kw.get("paint", 0.3), cutp=0.75, force_floor=True)
            return {"kind": "script", "input": inp, "ptx": ptx, "bpt": bpt}
        ptx, n = [], 0
        for s_ in inp:
            L = slen(s_["rows"]); T = math.floor(L / beta)
            if T == 0:
                continue
            n += 1
            ptx.append(conv.jscaffold(f"Scaffold_{n}", [conv.jfrag(0, s_["name"], 1, math.floor(T * beta), 1, ["Painted"] if kind == "nulltightp" else [])]))
        return {"kind": "nullp" if kind == "nulltightp" else "null", "input": inp, "ptx": ptx, "bpt": bpt}
    if kind == "homtag":
        # multi-haplotype map in which the homologues of one chromosome carry the SAME name tag (X in Hap1 and X in Hap2 — by design)
        # and each holds a piece tagged FalseDuplicate / Contaminant (a second contig of the scaffold)
        haps = rng.choice([["Hap1", "Hap2"], ["Hap2", "Hap1"], ["Mat", "Pat"]])
        beta = Fraction(bpt)
        unit = max(40, math.ceil(beta) * 8)
        inp, ptx, oid = [], [], 0
        for g in range(rng.randint(1, 3)):
            nametag = rng.choice([None, "X", "Z", "B1", "U", "S1"]) if g == 0 else rng.choice([None, None, "W", "R"])
            special = rng.choice(["FalseDuplicate", "Contaminant", None]) if nametag else rng.choice([None, "FalseDuplicate"])
            for h in haps:
                n = len(inp) + 1
                l1 = unit * rng.randint(2, 9) + rng.randint(0, 5)
                l2 = unit * rng.randint(1, 2)
                rows = [conv.jfrag(oid, f"c{oid+1}", 1, l1, rng.choice([1, -1])), conv.jgap(200), conv.jfrag(oid + 1, f"c{oid+2}", 1, l2, 1)]; oid += 2
                inp.append(conv.jscaffold(f"s{n}", rows))
                T1 = math.floor((l1 + 100) / beta)
                cut = math.floor(T1 * beta)
                L = slen(rows); T = math.floor(L / beta)
                end = math.floor(T * beta)
                tags = ["Painted", h] + ([nametag] if nametag else [])
                pieces = [conv.jfrag(0, f"s{n}", 1, cut, rng.choice([1, -1]), list(tags))]
                if end > cut:
                    pieces += [conv.jgap(100), conv.jfrag(0, f"s{n}", cut + 1, end, 1, ["Painted"] + ([special] if special else []))]
                ptx.append(conv.jscaffold(f"Scaffold_{n}", pieces))
        return {"kind": "tagged2", "input": inp, "ptx": ptx, "bpt": bpt}
    if kind == "hapstats":
        # several-haplotype curation whose per-assembly statistics rows do NOT add up to the totals: input CONTIGS carry an assembly prefix
        # (`HAP1_ctg3`: the junction sets are keyed by it) in scaffolds painted into the haplotype of that name, next to un-prefixed contigs; joins between
        # Contaminant-tagged scaffolds and breaks of un-prefixed scaffolds whose halves go to different haplotypes are in the totals but in no row
        beta = Fraction(bpt)
        unit = max(40, math.ceil(beta) * 8)
        hp = rng.choice([("HAP1", "HAP2"), ("hap1", "hap2"), ("Hap1", "Hap2")])
        inp, oid = [], 0

        def mk_scaffold(names):
            nonlocal oid
            rows = []
            for nm in names:
                if rows:
                    rows.append(conv.jgap(200))
                ln = unit * rng.randint(2, 6)
                rows.append(conv.jfrag(oid, nm, 1, ln, 1)); oid += 1
            inp.append(conv.jscaffold(f"s{len(inp)+1}", rows))
            return inp[-1]
        nchr = rng.randint(1, 2)
        per_hap = {h: [mk_scaffold([f"{h}_ctg{len(inp)}_{k}" for k in range(rng.randint(1, 3))]) for _ in range(nchr)] for h in hp}
        plain = [mk_scaffold([f"ctg{len(inp)}_{k}" for k in range(2)]) for _ in range(rng.randint(1, 2))]
        contam = [mk_scaffold([f"ctg{len(inp)}_{k}" for k in range(rng.randint(1, 2))]) for _ in range(2)] if rng.random() < 0.7 else []

        def whole(sc_, tags):
            L = slen(sc_["rows"]); T = math.floor(L / beta)
            return conv.jfrag(0, sc_["name"], 1, math.floor(T * beta), rng.choice([1, -1]), list(tags))

        def part(sc_, a, b, tags):
            return conv.jfrag(0, sc_["name"], a, b, 1, list(tags))
        ptx = []
        tagname = {h: h[0].upper() + h[1:].lower() for h in hp}          # Hap1 / Hap2 as PretextView tags
        for i_ in range(nchr):               # homologues next to each other: Hap1 chromosome i, then Hap2 chromosome i (what ChrNamer groups)
            for h in hp:
                ptx.append(conv.jscaffold(f"Scaffold_{len(ptx)+1}", [whole(per_hap[h][i_], ["Painted", tagname[h]])]))
        for sc_ in plain:
            if rng.random() < 0.6 and len(ptx) >= 2:
                # break between the two contigs: first half joined to a Hap1 chromosome, second half to a Hap2 chromosome
                l1 = sc_["rows"][0]["end"]
                cut = math.floor(math.floor((l1 + 100) / beta) * beta)
                L = slen(sc_["rows"]); end = math.floor(math.floor(L / beta) * beta)
                if 0 < cut < end:
                    ptx[0]["rows"] += [conv.jgap(100), part(sc_, 1, cut, ["Painted", tagname[hp[0]]])]
                    tgt = next((p_ for p_ in ptx if tagname[hp[1]] in p_["rows"][0]["tags"]), ptx[-1])
                    tgt["rows"] += [conv.jgap(100), part(sc_, cut + 1, end, ["Painted", tagname[hp[1]]])]
                    continue
            ptx.append(conv.jscaffold(f"Scaffold_{len(ptx)+1}", [whole(sc_, [])]))
        if contam:
            rows = []
            for sc_ in contam:
                if rows:
                    rows.append(conv.jgap(100))
                rows.append(whole(sc_, ["Contaminant"]))
            ptx.append(conv.jscaffold(f"Scaffold_{len(ptx)+1}", rows))
        return {"kind": "tagged2", "input": inp, "ptx": ptx, "bpt": bpt}
    if kind == "targetdrop":
        # Target-mode map from which whole pieces were REMOVED by hand (lines deleted from the AGP): contigs absent from the map lie far
        # from any piece end, inside scaffolds that are partly placed (some of them in Target-tagged Pretext scaffolds)
        inp = rand_input(rng, revp=revp, nscaf=4, maxrows=6, maxlen=3000, minlen=20)
        ptx, _ = pretext_script(rng, inp, bpt, paint=0.8, cutp=0.8)
        ptx = decorate_tags(rng, ptx, mode="target")
        # drop single pieces (never a whole Pretext scaffold's last fragment: keep maps non-empty)
        for ps in ptx:
            frs = [r for r in ps["rows"] if r["t"] == "F"]
            if len(frs) >= 2 and rng.random() < 0.6:
                victim = rng.choice(frs[1:])
                rows, skip = [], False
                for r in ps["rows"]:
                    if r is victim:
                        if rows and rows[-1]["t"] == "G":
                            rows.pop()
                        continue
                    rows.append(r)
                while rows and rows[-1]["t"] == "G":
                    rows.pop()
                ps["rows"] = rows
        return {"kind": "tagged", "input": inp, "ptx": ptx, "bpt": bpt}
    if kind == "hole":
        # NOT a PretextView map: two pieces that both reach a little way (< error length) into a small contig from either side and
        # leave a stretch of it covered by neither (pieces do not abut).  Both overhangs <= error length, so nothing is trimmed at
        # lookup time and the resolver's two-premise rule has to decide who keeps the contig.
        beta = Fraction(bpt)
        err = 1 + math.floor(beta)
        big = lambda: math.ceil(beta) * rng.randint(4, 9) + rng.randint(0, 7)
        inp, ptx, oid, n = [], [], 0, 0
        for j in range(rng.randint(1, 2)):
            f = rng.randint(max(2, err - 2), max(3, 2 * err - 1))
            o1 = rng.randint(max(1, f - err), max(1, min(err - 1, f - 1)))
            o2 = rng.randint(max(1, f - err), max(1, min(err - 1, f - 1)))
            if o1 + o2 >= f and rng.random() < 0.8:
                o2 = max(1, f - o1 - rng.randint(1, 3))
            a, b = big(), big()
            g1, g2 = rng.choice([0, 1, 17, 200]), rng.choice([0, 1, 17, 200])
            rows = [conv.jfrag(oid, f"c{oid+1}", 1, a, rng.choice([1, -1]))]; oid += 1
            if g1:
                rows.append(conv.jgap(g1))
            st = rng.randint(1, 40)
            rows.append(conv.jfrag(oid, f"c{oid+1}", st, st + f - 1, rng.choice([1, -1]))); oid += 1
            if g2:
                rows.append(conv.jgap(g2))
            rows.append(conv.jfrag(oid, f"c{oid+1}", 1, b, rng.choice([1, -1]))); oid += 1
            inp.append(conv.jscaffold(f"s{j+1}", rows))
            fs = a + g1 + 1                      # scaffold coordinate of the first base of the small contig
            p1 = conv.jfrag(0, f"s{j+1}", 1, fs + o1 - 1, rng.choice([1, -1]), [])
            p2 = conv.jfrag(0, f"s{j+1}", fs + f - o2, a + g1 + f + g2 + b, rng.choice([1, -1]), [])
            painted = ["Painted"] if rng.random() < 0.5 else []
            p1["tags"], p2["tags"] = list(painted), list(painted)
            order = [p1, p2] if rng.random() < 0.6 else [p2, p1]
            if rng.random() < 0.5:
                n += 1; ptx.append(conv.jscaffold(f"Scaffold_{n}", [order[0], conv.jgap(100), order[1]]))
            else:
                for q in order:
                    n += 1; ptx.append(conv.jscaffold(f"Scaffold_{n}", [q]))
        return {"kind": "baits", "input": inp, "ptx": ptx, "bpt": bpt}
    if kind == "hapmix":
        # haplotype-named input scaffolds (HAP2_SCAFFOLD_7 …) and haplotype TAGS spelt in another case (Hap2, hap2 …); only some
        # of the Pretext scaffolds carry the tag, so untagged scaffolds of a haplotype may come BEFORE its first tagged one
        inp = rand_input(rng, revp=revp, hap_names=True, nscaf=5, maxlen=(40 if rng.random() < 0.3 else 3000))
        prefs = rng.choice([["HAP1", "HAP2"], ["HAP1", "HAP2"], ["Hap1", "Hap2"], ["hapA", "hapB"], ["MAT", "PAT"]])
        for j, s_ in enumerate(inp):
            pref = rng.choice(prefs)
            s_["name"] = pref + f"_SCAFFOLD_{j+1}"
            # ToL inputs name a contig after its scaffold (FASTA record / `<scaffold>:<start>-<end>` in a TPF), and the code reads the
            # haplotype of a LEFT-OVER scaffold from its first contig's name: contigs carry the scaffold's prefix here too
            for r in s_["rows"]:
                if r["t"] == "F":
                    r["name"] = f"{pref}_CTG_{r['oid'] + 1}"
        ptx, _ = pretext_script(rng, inp, bpt, paint=0.7, minus=0.3)
        for ps in ptx:
            frs = [r for r in ps["rows"] if r["t"] == "F"]
            if not frs:
                continue
            painted = "Painted" in frs[0]["tags"]
            if rng.random() < (0.5 if painted else 0.15):
                pref = frs[0]["name"].split("_")[0]
                frs[0]["tags"] = list(frs[0]["tags"]) + [rng.choice([pref, pref.capitalize(), pref.lower(), pref.upper()])]
        return {"kind": "tagged2", "input": inp, "ptx": ptx, "bpt": bpt}
    if kind == "unlocs":
        # painted chromosomes with SEVERAL Unloc pieces of different sizes, often as the LAST Pretext scaffold and often with
        # nothing left over (1 bp per texel: every scaffold is covered completely)
        if rng.random() < 0.75:
            bpt = rng.choice(["1", "1", "1", "2"])
        inp = rand_input(rng, revp=revp, nscaf=3, maxrows=7, maxlen=(60 if rng.random() < 0.4 else 3000), minlen=3, double_gaps=0.0)
        ptx, _ = pretext_script(rng, inp, bpt, paint=1.0, cutp=0.85, drop_subtexel=0.0, max_group=6, force_floor=(rng.random() < 0.5))
        rich = []
        for ps in ptx:
            frs = [r for r in ps["rows"] if r["t"] == "F"]
            k = 0
            for n, f in enumerate(frs):
                if n > 0 and rng.random() < 0.75:
                    f["tags"] = list(f["tags"]) + ["Unloc"]; k += 1
            rich.append(k)
        if ptx and rng.random() < 0.8:
            i = max(range(len(ptx)), key=lambda i: rich[i])
            ptx.append(ptx.pop(i))
            for n, ps in enumerate(ptx):
                ps["name"] = f"Scaffold_{n+1}"
        return {"kind": "tagged", "input": inp, "ptx": ptx, "bpt": bpt}
    small = kw.get("small", rng.random() < 0.3)
    inp = rand_input(rng, revp=revp, hap_names=(kind in ("hapnames", "hapuniform", "primarynames")), maxlen=(40 if small else 3000),
                     zero_strand=kw.get("zero_strand", 0.0), nscaf=kw.get("nscaf", 4),
                     dup_names=(0.35 if kind == "dupnames" else 0.0), double_gaps=kw.get("double_gaps", 0.06))
    if kind == "dupnames":
        revp = max(revp, 0.3)
    if kind == "hapuniform":
        # every input scaffold name carries ONE AND THE SAME haplotype (the hypothesis of `script_remap_ok_uniform`)
        h = rng.choice(["HAP1", "HAP2", "mat", "A"])
        for j, s_ in enumerate(inp):
            s_["name"] = f"{h}_SCAFFOLD_{j+1}"
    ptx, script = pretext_script(rng, inp, bpt, paint=kw.get("paint", 0.7))
    if kind == "dupnames":
        kind = "script"
    if kind == "slivers":
        # arbitrary (not PretextView-consistent) additions: small tagged pieces that take a sub-texel sliver off a contig end
        err = 1 + math.floor(Fraction(bpt))
        ptx = decorate_tags(rng, ptx) if rng.random() < 0.5 else ptx
        n = len(ptx)
        for _ in range(rng.randint(1, 3)):
            s_ = rng.choice(inp)
            p, cands = 0, []
            for r in s_["rows"]:
                ln = flen(r)
                if r["t"] == "F":
                    cands.append((p + 1, p + ln))
                p += ln
            lo, hi = rng.choice(cands)
            k = rng.randint(1, max(1, min(err - 1, hi - lo + 1)))
            if rng.random() < 0.5:
                a, b = hi - k + 1, hi + rng.choice([0, 1, err, 3 * err])
            else:
                a, b = max(1, lo - rng.choice([0, 1, err, 3 * err])), lo + k - 1
            n += 1
            ptx.append(conv.jscaffold(f"Scaffold_{n + 20}", [conv.jfrag(0, s_["name"], a, b, rng.choice([1, -1]),
                                      rng.choice([["Haplotig"], ["Haplotig"], ["Contaminant"], [], ["Painted"]]))]))
        return {"kind": "baits", "input": inp, "ptx": ptx, "bpt": bpt}
    if kind == "perturbed":
        ptx = perturb(rng, ptx, inp)
    elif kind == "baits":
        ptx = arbitrary_baits(rng, inp)
    elif kind in ("tagged", "tagged2", "primarymode", "primarynames"):
        # primarynames: Primary mode over input scaffolds named HAP2_SCAFFOLD_7 …: the unplaced scaffolds of the merged haplotypes sort BEFORE
        # `SUPER_…` by name, so "rank before name" shows in the merged file (wave 13, C20k)
        ptx = decorate_tags(rng, ptx, two_haps=(kind in ("tagged2", "primarymode", "primarynames")), primary=(kind in ("primarymode", "primarynames")))
    return {"kind": kind, "input": inp, "ptx": ptx, "bpt": bpt}


def run_cases(ctx, stream, cases, proj, oracle, classify=None, nontrivial=None):
    """correspondence on `proj` + oracle on the real output. oracle(case, real) -> list of messages."""
    out = ctx.out
    model = ctx.driver.batch(model_requests(cases)) if ctx.driver else [None] * len(cases)
    for c, m in zip(cases, model):
        real = real_remap(c["input"], c["ptx"], c["bpt"], c.get("prefix", "SUPER_"), c.get("join_gap", JOIN_GAP))
        key = nontrivial(c, real) if nontrivial else default_key(c, real)
        inp = {k: c[k] for k in ("input", "ptx", "bpt", "kind") if k in c}
        if m is not None:
            out.compare(stream, inp, proj(real), proj(canon_model(m)), key)
        else:
            out.case(stream, inp, key)
        out.count(("ok" if "ok" in real else "err:" + real["err"]) + ":" + c["kind"])
        for msg in oracle(c, real):
            fid = classify(c, real, msg) if classify else None
            out.oracle_fail(stream, inp, msg, finding=fid)
            break


def default_key(c, real):
    nfr = sum(1 for s in c["ptx"] for r in s["rows"] if r["t"] == "F")
    if "err" in real:
        return (c["kind"], "err", real["err"], min(nfr, 6))
    st = real["ok"]["stats"]
    return (c["kind"], min(nfr, 8), min(st["cuts"], 3), min(st["breaks"], 3), min(st["joins"], 3), len(real["ok"]["assemblies"]))


def shrink_case(ctx, failure, still_fails):
    """greedy delta-debugging that keeps inputs well-formed: drop a whole input scaffold together with every Pretext piece
    that names it (and Pretext scaffolds left without fragments); for non-script kinds also single pieces."""
    import copy
    best = copy.deepcopy(failure["input"])
    budget = 200
    free = best.get("kind") in ("perturbed", "baits")

    def drop_scaffold(case, name):
        t = copy.deepcopy(case)
        t["input"] = [s for s in t["input"] if s["name"] != name]
        newp = []
        for ps in t["ptx"]:
            rows, prev_gap = [], True
            for r in ps["rows"]:
                if r["t"] == "F" and r["name"] == name:
                    continue
                rows.append(r)
            # tidy gaps: no leading/trailing/double gaps
            tidy = []
            for r in rows:
                if r["t"] == "G" and (not tidy or tidy[-1]["t"] == "G"):
                    continue
                tidy.append(r)
            while tidy and tidy[-1]["t"] == "G":
                tidy.pop()
            if any(r["t"] == "F" for r in tidy):
                ps = dict(ps); ps["rows"] = tidy
                newp.append(ps)
        t["ptx"] = newp
        return t

    changed = True
    while changed and budget > 0:
        changed = False
        for s in list(best["input"]):
            if len(best["input"]) <= 1 or budget <= 0:
                break
            trial = drop_scaffold(best, s["name"])
            if not trial["ptx"] or not trial["input"]:
                continue
            budget -= 1
            try:
                if still_fails(trial):
                    best = trial; changed = True
                    break
            except Exception:
                pass
        if changed or not free:
            continue
        for i in range(len(best["ptx"])):
            if len(best["ptx"]) <= 1 or budget <= 0:
                break
            trial = copy.deepcopy(best)
            del trial["ptx"][i]
            budget -= 1
            try:
                if still_fails(trial):
                    best = trial; changed = True
                    break
            except Exception:
                pass
    f2 = dict(failure)
    f2["input"] = best
    return f2


# ------------------------------------------------------------------ the pretext-to-asm CLI end to end
def agp_text(scs, header=()):
    lines = [f"# {h}" for h in header]
    for s in scs:
        p = 0
        for i, r in enumerate(s["rows"]):
            ln = flen(r)
            if r["t"] == "G":
                lines.append("\t".join([s["name"], str(p + 1), str(p + ln), str(i + 1), "U", str(ln), r["type"], "yes", "proximity_ligation"]))
            else:
                lines.append("\t".join([s["name"], str(p + 1), str(p + ln), str(i + 1), "W", r["name"], str(r["start"]), str(r["end"]),
                                        {1: "+", -1: "-", 0: "?"}[r["strand"]]] + list(r["tags"])))
            p += ln
    return "\n".join(lines) + "\n"


def read_agp_file(path):
    """independent reader → scaffolds JSON"""
    scs, cur = [], None
    for l in path.read_text().splitlines():
        if not l.strip() or l.startswith("#"):
            continue
        f = l.rstrip().split("\t")
        if cur is None or cur["name"] != f[0]:
            cur = {"name": f[0], "rows": []}
            scs.append(cur)
        if f[4] in ("U", "N"):
            cur["rows"].append({"t": "G", "len": int(f[5]), "type": f[6]})
        else:
            cur["rows"].append({"t": "F", "name": f[5], "start": int(f[6]), "end": int(f[7]), "strand": {"+": 1, "-": -1, "?": 0}[f[8]], "tags": f[9:]})
    return scs


def cli_run(case, scratch, tag):
    """runs the real CLI in a fresh directory; returns dict(exit, files{name: path}, yaml, dir)"""
    import yaml
    from click.testing import CliRunner
    from tola.assembly.scripts.pretext_to_asm import cli
    d = scratch.path / f"cli_{tag}"
    d.mkdir()
    (d / "in.agp").write_text(agp_text(case["input"]))
    (d / "ptx.agp").write_text(agp_text(case["ptx"], header=["DESCRIPTION: generated", f"HiC MAP RESOLUTION: {case['bpt']} bp/texel"]))
    import logging
    logging.disable(logging.NOTSET)      # the harness silences logging elsewhere; the log file is an output here
    try:
        res = CliRunner().invoke(cli, ["-a", str(d / "in.agp"), "-p", str(d / "ptx.agp"), "-o", str(d / "xx.1.agp")])
    finally:
        logging.disable(logging.CRITICAL)
        for h in list(logging.getLogger().handlers):
            try:
                h.close()
            except Exception:
                pass
            logging.getLogger().removeHandler(h)
    files = {p.name: p for p in d.iterdir() if p.name not in ("in.agp", "ptx.agp")}
    info = None
    if (d / "xx.1.info.yaml").exists():
        info = yaml.safe_load((d / "xx.1.info.yaml").read_text())
    return {"exit": res.exit_code, "files": files, "yaml": info, "dir": d, "exception": repr(res.exception) if res.exception else None}


def expected_file_key(key, keys, curated):
    """C09's documented table: assembly key -> output file stem (without format suffix)"""
    if "Primary" in keys:
        if key == "Primary":
            return "xx.1.primary.curated"
        if curated:
            return "xx.1.all_haplotigs.curated"
        return f"xx.1.{key.lower()}s"
    if None in keys:
        if key is None:
            return "xx.1.primary.curated"
        if key == "Haplotig":
            return "xx.1.additional_haplotigs.curated"
        return f"xx.1.{key.lower()}s" + (".curated" if curated else "")
    if curated:
        return f"xx.{key.lower()}.1.primary.curated"
    return f"xx.1.{key.lower()}s"


def cli_oracles(case, run, real):
    """what the written files must say, given the in-process result `real` of the same case"""
    errs = []
    if "err" in real:
        if run["exit"] == 0:
            errs.append("CLI succeeded although the in-process remap raised " + real["err"])
        return errs
    if run["exit"] != 0:
        return [f"CLI exit {run['exit']} ({run['exception']}) although the in-process remap succeeded"]
    asms = real["ok"]["assemblies"]
    keys = [a["key"] for a in asms]
    info = run["yaml"] or {}
    # haplotig removals = haplotig scaffolds written
    hfile = [n for n in run["files"] if "haplotigs" in n and n.endswith(".agp") and "all_haplotigs" not in n]
    nh_written = sum(len(read_agp_file(run["files"][n])) for n in hfile)
    nh_real = sum(len(a["scaffolds"]) for a in asms if a["key"] == "Haplotig")
    if info.get("manual_haplotig_removals") != nh_written or nh_written != nh_real:
        errs.append(f"manual_haplotig_removals={info.get('manual_haplotig_removals')} but {nh_written} haplotig scaffolds were written ({nh_real} in memory)")
    st = real["ok"]["stats"]
    if "manual_breaks" in info and (info["manual_breaks"], info["manual_joins"]) != (st["breaks"], st["joins"]):
        errs.append(f"yaml breaks/joins {info.get('manual_breaks')}/{info.get('manual_joins')} differ from the statistics {st['breaks']}/{st['joins']}")
    ya = info.get("assemblies", {})
    for k, b, j in st["per_assembly"]:
        if ya.get(k) != {"manual_breaks": b, "manual_joins": j}:
            errs.append(f"yaml per-assembly statistics for {k}: {ya.get(k)} != {(b, j)}")
    # every assembly written under the documented name with exactly its scaffolds (all_haplotigs = merge of the other curated ones)
    merged = {}
    for a in asms:
        stem = expected_file_key(a["key"], keys, a["curated"])
        merged.setdefault(stem, []).extend(a["scaffolds"])
    for stem, scs in merged.items():
        fn = stem + ".agp"
        if fn not in run["files"]:
            errs.append(f"expected output file {fn} missing; written: {sorted(run['files'])}")
            continue
        got = read_agp_file(run["files"][fn])
        want = [{"name": s["name"], "rows": [conv.strip_oids(r) for r in s["rows"]]} for s in scs]
        if len({s["name"] for s in scs}) < len(scs):
            # two scaffolds of one name in the assembly IN MEMORY: no AGP/TPF reader can tell them apart in the file.  Whether that may happen is
            # the uniqueness question, decided in-process under its stated precondition (`oracle_names` / `consistent_tagging`; open findings
            # F20 and, for the merged all_haplotigs assembly, F21 in C03's check) — e.g. a Contaminant tag on part of an input scaffold puts the
            # cut-off piece and the unpainted remainder into the contaminants assembly under the one input name.  Here the file is compared
            # row for row, in order, with same-named neighbours run together, so content and order are still decided
            def runs(lst):
                out_ = []
                for x in lst:
                    if out_ and out_[-1]["name"] == x["name"]:
                        out_[-1] = {"name": x["name"], "rows": out_[-1]["rows"] + x["rows"]}
                    else:
                        out_.append({"name": x["name"], "rows": list(x["rows"])})
                return out_
            got, want = runs(got), runs(want)
        if got != want:
            errs.append(f"{fn} does not contain exactly the scaffolds of its assembly")
    extra = [n for n in run["files"] if n.endswith(".agp") and n[:-4] not in merged]
    if extra:
        errs.append(f"unexpected assembly files {extra}")
    # chromosome list csv per curated assembly
    for a in asms:
        stem = expected_file_key(a["key"], keys, a["curated"])
        if not a["curated"] or "all_haplotigs" in stem:
            continue
        fn = stem[: -len(".curated")] + ".chromosome.list.csv" if stem.endswith(".curated") else stem + ".chromosome.list.csv"
        want = [f"{l[0]},{l[1]},{'yes' if l[2] else 'no'}" for l in a["chr_csv"]]
        if want:
            if fn not in run["files"]:
                errs.append(f"chromosome list {fn} missing; written: {sorted(run['files'])}")
            elif run["files"][fn].read_text().splitlines() != want:
                errs.append(f"chromosome list {fn} differs from the assembly's chromosomes")
    return errs


def real_name_assemblies(c):
    """the real name_assemblies() on the real in-process result: [(key, name, curated, [scaffold names], file)]"""
    from tola.assembly.assembly import Assembly
    from tola.assembly.indexed_assembly import IndexedAssembly
    from tola.assembly.build_assembly import BuildAssembly
    from tola.assembly.gap import Gap
    from tola.assembly.scripts.pretext_to_asm import name_assemblies
    try:
        in_asm = Assembly("in", scaffolds=[conv.to_real_scaffold(s) for s in c["input"]])
        ia = IndexedAssembly.new_from_assembly(in_asm)
        pa = Assembly("ptx", header=[f"HiC MAP RESOLUTION: {c['bpt']} bp/texel"], scaffolds=[conv.to_real_scaffold(s) for s in c["ptx"]])
        ba = BuildAssembly("out", default_gap=Gap(JOIN_GAP["len"], JOIN_GAP["type"]), autosome_prefix="SUPER_")
        ba.remap_to_input_assembly(pa, ia)
        outs = ba.assemblies_with_scaffolds_fused()
        pre = [{"key": k, "curated": bool(a.curated), "scaffolds": [s.name for s in a.scaffolds]} for k, a in outs.items()]
        named = name_assemblies(outs, "xx", "1")
        return pre, {"ok": [{"key": k, "name": a.name, "curated": bool(a.curated), "scaffolds": [s.name for s in a.scaffolds],
                             "file": f"{a.name}{'.curated' if a.curated else ''}.agp"} for k, a in named.items()]}
    except Exception as e:
        return None, {"err": conv.errkind(e)}


def run_cli_cases(ctx, stream, cases, classify=None, only=None, names_model=False):
    import fasta_lib as F
    out = ctx.out
    if names_model:
        # name_assemblies: real function vs Lean nameAssemblies on the same keys / curated flags / scaffold names
        reqs, meta = [], []
        for c in cases:
            pre, real_named = real_name_assemblies(c)
            if pre is None:
                continue
            reqs.append({"id": 0, "kind": "name_assemblies", "assemblies": pre, "root": "xx", "version": "1", "suffix": ".agp"})
            meta.append((c, pre, real_named))
        ms = ctx.driver.batch(reqs) if ctx.driver and reqs else [None] * len(reqs)
        for (c, pre, real_named), m in zip(meta, ms):
            inp = {"assemblies": pre}
            key = ("names", tuple(str(a["key"]) for a in pre), tuple(a["curated"] for a in pre))
            if m is not None:
                out.compare(stream + ":name_assemblies", inp, real_named, m, key)
            else:
                out.case(stream + ":name_assemblies", inp, key)
    with F.Scratch() as sc:
        for i, c in enumerate(cases):
            real = real_remap(c["input"], c["ptx"], c["bpt"])
            run = cli_run(c, sc, i)
            inp = {k: c[k] for k in ("input", "ptx", "bpt", "kind") if k in c}
            out.case(stream, inp, ("cli", c["kind"], run["exit"], len(run["files"])))
            # info yaml and chr_report csv: the model's infoRecord / chromosomesReport (Model/CliPlan.lean) on the in-process result
            # against what the real CLI wrote
            if ctx.driver and "ok" in real and run["exit"] == 0:
                import csv as _csv
                req = {"id": 0, "kind": "cliplan", "assemblies": [{"key": a["key"], "curated": a["curated"], "scaffolds": a["scaffolds"]} for a in real["ok"]["assemblies"]],
                       "out": "xx.1.agp", "write_log": True, "prefix": "SUPER_", "stats": real["ok"]["stats"]}
                m = ctx.driver.batch([req])[0]
                y = run["yaml"] or {}
                real_info = {"assemblies": [[k, v.get("manual_breaks"), v.get("manual_joins")] for k, v in (y.get("assemblies") or {}).items()],
                             "manual_breaks": y.get("manual_breaks"), "manual_joins": y.get("manual_joins"),
                             "manual_haplotig_removals": y.get("manual_haplotig_removals")}
                rep = []
                rp = run["files"].get("xx.1.chr_report.csv")
                if rp is not None:
                    rows = list(_csv.reader(rp.read_text().splitlines()))
                    for r_ in rows[1:]:
                        rep.append([r_[0], r_[1], r_[2], r_[3] == "true", (r_[4] if r_[4] != "" else None), int(r_[5]), int(r_[6])])
                mrep = [[x[0], x[1], x[2], x[3], (x[4] if x[4] not in (None, "") else None), x[5], x[6]] for x in m["report"]]
                real_files = sorted(run["files"])
                mplan = {"ok": sorted(m["plan"]["ok"])} if "ok" in m["plan"] else m["plan"]
                logp = run["files"].get("xx.1.log")
                log_line = next((l for l in (logp.read_text().splitlines() if logp is not None else []) if l.startswith("Curation made")), None)
                out.compare(stream + ":info+report+files", inp, {"info": real_info, "report": rep, "files": {"ok": real_files}, "log_line": log_line},
                            {"info": m["info"], "report": mrep, "files": mplan, "log_line": m["log_line"]}, ("cliplan", len(rep), len(real_files)))
            errs = cli_oracles(c, run, real)
            if only:
                errs = [e for e in errs if any(w in e for w in only)]
            for msg in errs:
                out.oracle_fail(stream, inp, msg, finding=(classify(c, real, msg) if classify else None))
                break
