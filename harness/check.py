#!/usr/bin/env python3
"""
Single entry point of every check:   check.py <Cxx> --tier quick|thorough [--replay FILE]

1 regenerate constants from /repo + rebuild the property's Lean module and the model driver
2 audit (sorry/axiom grep, #print axioms)
3 correspondence model-vs-real-code + 4 oracle on the real outputs   (props/<Cxx>.py)
5 decision (exit 0 / KNOWN-FINDING / VIOLATION … [no-failing-input-found]);  exit 2 = infrastructure
6 evidence/<Cxx>.json
"""
import argparse, importlib, json, os, random, sys, time, traceback
from pathlib import Path

sys.path.insert(0, str(Path(__file__).resolve().parent))
import common
from common import Outcome


class Ctx:
    pass


def main():
    ap = argparse.ArgumentParser()
    ap.add_argument("prop")
    ap.add_argument("--tier", default=os.environ.get("VERIF_TIER", "quick"), choices=["quick", "thorough"])
    ap.add_argument("--replay")
    ap.add_argument("--no-build", action="store_true")
    ap.add_argument("--model-only", action="store_true", help="development aid: rebuild constants + model driver only, skip the property module and the audit")
    args = ap.parse_args()
    prop = args.prop
    seed = common.seed_from_env()
    try:
        mod = importlib.import_module(f"props.{prop}")
    except ModuleNotFoundError:
        print(f"no check for {prop}")
        return 2
    out = Outcome(prop, args.tier, seed)
    ctx = Ctx()
    ctx.tier, ctx.seed, ctx.rng, ctx.out, ctx.prop = args.tier, seed, random.Random(seed * 1000003 + int(prop[1:])), out, prop
    ctx.thorough = args.tier == "thorough"
    ctx.model_only = bool(args.model_only or os.environ.get("VERIF_MODEL_ONLY"))

    # ---- 1 build
    targets = list(getattr(mod, "LEAN_TARGETS", [f"AgpTpf.Properties.{m.stem}" for m in common.prop_modules(prop)] or [f"AgpTpf.Properties.{prop}"])) + ["driver"]
    if args.model_only or os.environ.get("VERIF_MODEL_ONLY"):
        targets = ["driver"]
        args.model_only = True
    if args.no_build:
        build = {"ok": True, "targets": {}, "gen_log": "skipped"}
    else:
        build = common.regenerate_and_build(targets)
    prop_build_ok = all(v["ok"] for t, v in build["targets"].items() if t != "driver")
    driver_ok = build["targets"].get("driver", {"ok": common.DRIVER.exists()})["ok"] and common.DRIVER.exists()
    ctx.driver = common.Driver() if driver_ok else None

    changed = []
    # ---- T3 (advisory): source fingerprints of the functions in the property's anchor files; a change escalates the
    # quick tier to the thorough budgets (never a violation by itself)
    try:
        now = json.loads((common.HARNESS / "fingerprints_now.json").read_text())
        ref = json.loads((common.HARNESS / "fingerprints.json").read_text())
        anchors = []
        for l in (common.VERIF / "properties.jsonl").read_text().splitlines():
            if l.strip():
                pj = json.loads(l)
                if pj["id"] == prop:
                    anchors = [a.replace("src/tola/", "") for a in pj["anchors"]["files"]]
        # … plus the core data classes every property's code path runs through (constructors, defaults, row lists) and what the property's
        # harness module names as further dependencies (`EXTRA_ANCHORS`): seeded changes C20g (Scaffold.__init__) and C06j (fasta/stream.py) lay outside
        # the anchor files and were run with the small budget
        anchors = sorted(set(anchors) | {"assembly/scaffold.py", "assembly/fragment.py", "assembly/gap.py", "assembly/assembly.py"}
                         | set(getattr(mod, "EXTRA_ANCHORS", [])))
        changed = sorted(k for k in set(now) | set(ref) if now.get(k) != ref.get(k) and any(k.startswith(a + "::") for a in anchors))
        if changed:
            out.notes.append("source fingerprints changed (budget escalated to thorough): " + ", ".join(changed[:8]))
            if not args.replay and not os.environ.get("VERIF_NO_ESCALATE"):      # VERIF_NO_ESCALATE: development aid (robustness runs of the proofs)
                ctx.thorough = True
    except Exception as e:
        out.notes.append("fingerprint comparison skipped: " + repr(e))

    # ---- 2 audit
    aud = {"ok": True, "theorems": [], "axioms": {}, "forbidden": [], "log": "skipped (--model-only)"} if args.model_only else common.audit(prop) if prop_build_ok else {"ok": False, "theorems": [], "axioms": {}, "forbidden": [], "log": "build failed"}
    proof_ok = prop_build_ok and aud["ok"]
    # thorough tier: re-check the compiled property module with the toolchain's independent checker
    if ctx.tier == "thorough" and proof_ok and not args.model_only and not args.replay:
        common.lake_lock()
        try:
            rc, lc_out = common.run(["lake", "env", "leanchecker"] + [f"AgpTpf.Properties.{m.stem}" for m in common.prop_modules(prop)], cwd=common.LEAN, timeout=1500)
        finally:
            common.lake_unlock()
        aud["leanchecker"] = {"rc": rc, "log": lc_out[-600:]}
        out.notes.append(f"leanchecker AgpTpf.Properties.{prop}: exit {rc}")
        if rc != 0:
            proof_ok = False
            aud["ok"] = False
            aud["log"] = (aud.get("log", "") + "\nleanchecker failed:\n" + lc_out[-1500:])

    # ---- real code
    try:
        common.import_real_code()
        real_ok = True
    except Exception as e:
        real_ok = False
        out.notes.append("real code does not import: " + repr(e))

    # ---- replay mode
    if args.replay:
        payload = json.loads(Path(args.replay).read_text())
        r = mod.replay(ctx, payload)
        print(json.dumps(r, indent=1, default=str)[:4000])
        return 1 if r.get("fails") else 0

    # ---- 3+4
    infra_error = None
    if real_ok:
        try:
            mod.run(ctx)
        except Exception as e:
            infra_error = traceback.format_exc()
    else:
        infra_error = "real code import failed"

    findings = {f["id"]: f for f in common.load_known_findings()}
    known_hits, new_fail = {}, []
    for f in out.oracle_failures:
        fid = f.get("finding")
        if fid and fid in findings and findings[fid].get("status") == "open" and findings[fid].get("property") == prop:
            known_hits.setdefault(fid, f)
        else:
            new_fail.append(f)

    # ---- 5 decision
    status, replay_path, line = 0, None, None
    broken = []
    if not prop_build_ok:
        broken.append("lean-build")
    elif not aud["ok"]:
        broken.append("lean-audit")
    if ctx.driver is None:
        broken.append("model-driver-build")
    if out.disagreements:
        broken.append("correspondence")
    if infra_error and changed:
        # the harness crashed while driving code whose anchored functions differ from the validated reference (T3): the tie can no
        # longer be established for this code — that is a broken correspondence (never on the unchanged tree, where it stays exit 2)
        broken.append("harness-could-not-drive-the-changed-code")
    if infra_error and not new_fail and not broken:
        print("INFRASTRUCTURE ERROR\n" + infra_error)
        write_evidence(mod, ctx, build, aud, proof_ok, 0, known_hits, infra=infra_error)
        return 2
    if new_fail:
        best = min(new_fail, key=lambda f: common.size_of(f["input"]))
        if hasattr(mod, "shrink"):
            try:
                best = mod.shrink(ctx, best)
            except Exception:
                pass
        replay_path = common.write_replay(prop, {"property": prop, "kind": "failing-input", **best,
                                                  "also_broken": broken})
        line = f"VIOLATION property={prop} replay={replay_path}"
        status = 1
    elif broken:
        # a proof obligation or the correspondence no longer checks: search the real code for a failing input
        found = None
        if real_ok and hasattr(mod, "search"):
            try:
                found = mod.search(ctx, broken)
            except Exception:
                out.notes.append("search crashed: " + traceback.format_exc()[-800:])
        if found is not None and not (found.get("finding") in findings and findings[found["finding"]].get("status") == "open"):
            replay_path = common.write_replay(prop, {"property": prop, "kind": "failing-input", **found, "also_broken": broken})
            line = f"VIOLATION property={prop} replay={replay_path}"
        else:
            payload = {"property": prop, "kind": "no-failing-input-found", "broken": broken,
                       "theorems": aud.get("theorems"), "bad_axioms": aud.get("bad_axioms"), "forbidden": aud.get("forbidden"),
                       "build_log": {t: v["log"][-3000:] for t, v in build["targets"].items() if not v["ok"]},
                       "audit_log": aud.get("log", "")[-2000:] if not aud["ok"] else "",
                       "disagreements": out.disagreements[:5], "infra_error": infra_error}
            replay_path = common.write_replay(prop, payload)
            line = f"VIOLATION property={prop} replay={replay_path} no-failing-input-found"
        status = 1

    for fid, f in known_hits.items():
        print(f"KNOWN-FINDING: property={prop} {fid}: {findings[fid]['what']}")
    nviol = 1 if status == 1 else 0
    write_evidence(mod, ctx, build, aud, proof_ok, nviol, known_hits)
    summary = (f"{prop} tier={args.tier} seed={seed} cases={out.evaluations} corr={out.programs} "
               f"disagree={len(out.disagreements)} oracle_new={len(new_fail)} known={sorted(known_hits)} "
               f"theorems={len(aud.get('theorems', []))} proof_ok={proof_ok} wall={time.time() - out.t0:.1f}s")
    print(summary)
    if line:
        print(line)
    return status


def write_evidence(mod, ctx, build, aud, proof_ok, nviol, known_hits, infra=None):
    out = ctx.out
    if getattr(ctx, "model_only", False):
        return          # development aid (no proof build, no audit): never leaves an evidence file behind
    level = getattr(mod, "LEVEL", "proof")
    thms = aud.get("theorems", [])
    discharged = len([t for t in thms if t in aud.get("axioms", {}) and set(aud["axioms"][t]) <= common.ALLOWED_AXIOMS]) if proof_ok else 0
    axioms_used = sorted({a for v in aud.get("axioms", {}).values() for a in v})
    cov = {
        "obligations": max(len(thms), 1),
        "discharged": discharged,
        "checker_cmd": f"cd lean && lake build " + " ".join(f"AgpTpf.Properties.{m.stem}" for m in common.prop_modules(ctx.prop)) + f" && lake env lean .lake/audit_{ctx.prop}.lean   (# print axioms of every theorem)",
        "trusted_base": ["Lean 4.33.0 kernel", "axioms used: " + (", ".join(axioms_used) or "none")] + list(getattr(mod, "TRUSTED", []))
                        + (["T1c: the Python-to-Lean translator harness/translate_imp.py (subset, object table, arenas, normal forms, guards; DESIGN 12.12-12.14) and the "
                            "run-time semantics Model/PyRt.lean, PyRtHeap.lean, PyRtPhase2.lean, PyRtText.lean — the theorems named *_is_source / *_refines are about "
                            "the functions it generates from the current source (Gen/Imp*.lean, regenerated on every run)"]
                           if any("Imp" in m.stem for m in common.prop_modules(ctx.prop)) else []),
        "theorems": thms,
        "evaluations": out.evaluations,
        "distinct_nontrivial": len(out.nontrivial),
        "rule": getattr(mod, "RULE", ""),
        "samples": out.samples[:6] if out.samples else [{"note": "no case was run"}],
        "programs": out.programs,
        "disagreements_checked": out.programs,
        "disagreements_found": len(out.disagreements),
        "streams": out.streams,
        "histogram": out.hist,
        "boundary_cases": out.boundary,
        "known_findings_hit": sorted(known_hits),
        "exhaustive": bool(out.exhaustive),
        "gen_constants": build.get("gen_log", ""),
        "notes": out.notes + ([f"infrastructure: {infra[-500:]}"] if infra else []),
        "explanation": getattr(mod, "EXPLANATION", ""),
    }
    ev = {
        "property_id": ctx.prop, "tier": ctx.tier, "seed": ctx.seed, "level": level, "coverage": cov,
        "assumptions": list(getattr(mod, "ASSUMPTIONS", [])),
        "wall_s": round(time.time() - out.t0, 2), "violations": nviol,
    }
    common.EVIDENCE.mkdir(exist_ok=True)
    (common.EVIDENCE / f"{ctx.prop}.json").write_text(json.dumps(ev, indent=1, default=str))


if __name__ == "__main__":
    try:
        sys.exit(main())
    except SystemExit:
        raise
    except Exception:
        traceback.print_exc()
        sys.exit(2)
