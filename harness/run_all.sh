#!/bin/bash
# usage: run_all.sh <tier> [seeds...]   — runs every registered check; prints one line per check; exit 1 if any alarm
TIER=${1:-quick}; shift
SEEDS=${@:-20260929}
cd "$(dirname "$0")/.." || exit 2
bad=0
for S in $SEEDS; do
  for i in $(seq -w 1 20); do
    P=C$i
    out=$(VERIF_SEED=$S /venv/bin/python harness/check.py $P --tier $TIER 2>&1); rc=$?
    echo "seed=$S $P exit=$rc $(echo "$out" | grep -E "^$P tier=|^VIOLATION" | tr '\n' ' ' | cut -c1-240)"
    [ $rc -ne 0 ] && bad=$((bad+1))
  done
done
echo "SUMMARY alarms=$bad"
[ $bad -eq 0 ]
