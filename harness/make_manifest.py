#!/usr/bin/env python3
"""writes MANIFEST.json from the table below + the property modules that exist"""
import importlib, json, sys
from pathlib import Path
HERE = Path(__file__).resolve().parent
sys.path.insert(0, str(HERE))
VERIF = HERE.parent
PY = "/venv/bin/python"

# T1c (DESIGN 12.12): source functions translated whole from /repo on every run and PROVED equal to the model (Properties/CxxImp*.lean)
T1C = {
    "C01": "qc_sub_fragments, cut_fragments (with the source's own QC plugged in), store_fragments_found and discard_overhanging_fragments (refinement through the aliasing invariant `Coherent`), add_missing_scaffolds_from_input (refinement), and — when Properties/C01ImpRemap.lean is registered — the whole of phase 1 (`remap_to_input_assembly`) as a composition of the translated kernels",
    "C02": "the eight Start/EndOverhangPremise methods, OverhangResolver.add_overhang_premise, OverhangResolver.make_fixes, a whole resolver round (shared OverlapResults as store indices)",
    "C03": "FastaStream.write_scaffold and write_assembly; with the translated iterators and sequence_bytes every function from write_assembly down to fh.read is the translated source: the bytes it writes are the AGP applied to the input FASTA (`source_fasta_file_is_agp_applied`)",
    "C04": "index_fasta_file (whole body with its two closures; = the model's indexer for the lines of every file; hence the SOURCE's indexer returns the faidx quintuples and the tiling assembly)",
    "C05": "format_tpf, parse_agp, parse_tpf (+ the round trips of the SOURCE's writer and parser); constructor guards: Gap / Fragment / FastaInfo __init__ and their signature defaults build the model literals",
    "C06": "format_agp (+ validity of what the SOURCE writes)",
    "C07": "Scaffold.append_scaffold, BuildAssembly.input_predecessor, BuildAssembly.gaps_before_leftover, and — when Properties/C07ImpFuse.lean is registered — scaffolds_fused_by_name",
    "C09": "ScaffoldNamer.{get_set_haplotype, haplotig_name, unloc_name, haplotype_from_first_row_name, make_scaffold_name, label_scaffold, rename_by_size} (refinement through `absNamer`), name_assemblies and merge_assemblies",
    "C10": "phase 2 of the remap: ChrGroup (all 8 methods), ChrNamer (add_scaffold, add_chr_prefix, new_group, check_groups, build_groups, name_chromosomes), BuildAssembly.assemblies_with_scaffolds_fused (C10ImpGroup, C10ImpBuild, C10ImpName, C10ImpFused: the SOURCE's phase 2 = the model's assembliesFused, and phase 1 + phase 2 = the model's remap — `source_remap_is_model`), AssemblyStats.chromosome_name_csv (= the model's chromosomeNameCsv, rendered; never raises)",
    "C11": "AssemblyStats.make_stats (counts unconditionally, per-assembly records for distinct keys), Assembly.fragment_junction_set, Scaffold.fragment_junction_set and Assembly.fragment_junctions_by_asm_prefix (iterators; with them make_stats is tied with NO oracle left: C11ImpJunctions)",
    "C12": "IndexedAssembly.find_overlaps (whole body: the SOURCE's lookup = the brute-force scan), IndexedAssembly.add_scaffold",
    "C13": "FastaIndex.get_gap_iter / fwd_chunks / rev_chunks / get_info / get_sequence_iter, reverse_complement, revcomp_bytes_io; write_scaffold WITH the source's own iterators writes the model's bytes",
    "C14": "OverlapResult.to_scaffold, Fragment.reverse, FastaIndex.sequence_bytes (binary handle; = the model's sequenceBytes for every input, after the model repair of the negative relative seek), Scaffold.reverse (= the model's reversal up to fresh object ids; double reversal and preservation laws for the SOURCE function)",
    "C15": "FastaIndex.check_for_index_files (file system as oracles: accepts exactly when both cache files exist and are strictly newer)",
    "C16": "get_output_filehandle (opens once, with the model's mode; exit status 1 exactly when the model's openOutput fails)",
    "C17": "Scaffold.fragment_tags, Scaffold.length, Scaffold.fragments_length, FastaInfo.fai_row and FastaIndex.load_index (the SOURCE's .fai writer rows read back by the SOURCE's loader give the index: warm = cold at source level)",
    "C18": "discard_start, discard_end, overhang_if_start_removed, overhang_if_end_removed, trim_large_overhangs, fragment_start_if_trimmed, trim_fragment",
    "C20": "Assembly.name_natural_key (= naturalKey, flattened; total), Assembly.smart_sort_scaffolds (= smartSort: same stable order; the TypeError a mixed int/str comparison would raise is proved unreachable for natural keys); constructor guard: Scaffold.__init__ with the defaults of its signature builds the model literal (a never-ranked scaffold has the integer rank 0)",
    "C19": "Assembly.all_vs_all_fragments with find_overlapping_fragments' callback inlined (the SOURCE's scan satisfies the C19 specification)",
}

props = [json.loads(l) for l in (VERIF / "properties.jsonl").read_text().splitlines() if l.strip()]
checks, na = [], []
for p in props:
    pid = p["id"]
    f = HERE / "props" / f"{pid}.py"
    lean = VERIF / "lean" / "AgpTpf" / "Properties" / f"{pid}.lean"
    if f.exists() and lean.exists():
        mod = importlib.import_module(f"props.{pid}")
        checks.append({
            "property_id": pid,
            "quick_cmd": f"{PY} harness/check.py {pid} --tier quick",
            "thorough_cmd": f"{PY} harness/check.py {pid} --tier thorough",
            "evidence_file": f"/verif/evidence/{pid}.json",
            "replay_cmd_template": f"{PY} harness/check.py {pid} --replay {{path}}",
            "engine": "lean4-model+correspondence",
            "level_claimed": {"category": getattr(mod, "LEVEL", "proof"), "text": getattr(mod, "LEVEL_TEXT", getattr(mod, "EXPLANATION", "")),
                              "design_ref": f"DESIGN.md §5 {pid}"},
            "level_note": getattr(mod, "LEVEL_NOTE", "; ".join(getattr(mod, "TRUSTED", [])))
                          + ((" NEWEST (T1c, DESIGN 12.12–12.14): translated whole from the current source on every run and PROVED equal to the model function: " + T1C[pid]
                              + f" (Properties/{pid}Imp*.lean; translator harness/translate_imp.py, semantics Model/PyRt*.lean, all in the trusted base)") if pid in T1C and list((VERIF / "lean" / "AgpTpf" / "Properties").glob(f"{pid}Imp*.lean")) else ""),
            "technique": getattr(mod, "TECHNIQUE", "Lean 4 theorems over a hand-written model; the model is tied to the source on every run by regenerated constants (T1), by translation of source functions into Lean with PROVED equality to the model (T1b straight-line kernels, T1c whole method bodies with loops and mutation), and by differential correspondence with the real code + independent oracles (failing-input search)"),
        })
    else:
        na.append({"property_id": pid, "reason": "check not built yet in this revision (work in progress; see DESIGN.md §11)"})

manifest = {
    "version": 1,
    "setup_cmd": f"{PY} harness/extract_constants.py && cd lean && lake build AgpTpf driver",
    "hooks": {"guard": "AGP_TPF_UTILS_VERIF", "enable": "no hooks inside /repo: interception is done from the harness process (audit hooks, attribute injection)",
              "baseline_off_cmd": "cd /repo && /venv/bin/python -m pytest -ra -q -p no:cacheprovider --timeout=900",
              "source_commits": [], "add_only": True},
    "engines": [{"name": "lean4-model+correspondence", "path": "lean/ + harness/", "serves_properties": [c["property_id"] for c in checks],
                 "kind_free_text": "Lean 4 model and theorems (lake project lean/), constants regenerated from /repo by harness/extract_constants.py, native line-protocol driver, Python correspondence harness and oracles"}],
    "checks": checks,
    "not_applicable": na,
    "notes": "see DESIGN.md; known findings in known_findings.json",
}
(VERIF / "MANIFEST.json").write_text(json.dumps(manifest, indent=1) + "\n")
print("checks:", [c["property_id"] for c in checks], "not yet:", [n["property_id"] for n in na])
