#!/usr/bin/env python3
"""writes MANIFEST.json from the table below + the property modules that exist"""
import importlib, json, sys
from pathlib import Path
HERE = Path(__file__).resolve().parent
sys.path.insert(0, str(HERE))
VERIF = HERE.parent
PY = "/venv/bin/python"

props = [json.loads(l) for l in (VERIF / "properties.jsonl").read_text().splitlines() if l.strip()]
checks, na = [], []
for p in props:
    pid = p["id"]
    f = HERE / "props" / f"{pid}.py"
    lean = VERIF / "lean" / "AgpTpf" / "Properties" / f"{pid}.lean"
    if f.exists() and lean.exists():
        mod = importlib.import_module(f"props.{pid}")
        checks.append({
            "property_id": pid,
            "quick_cmd": f"{PY} harness/check.py {pid} --tier quick",
            "thorough_cmd": f"{PY} harness/check.py {pid} --tier thorough",
            "evidence_file": f"/verif/evidence/{pid}.json",
            "replay_cmd_template": f"{PY} harness/check.py {pid} --replay {{path}}",
            "engine": "lean4-model+correspondence",
            "level_claimed": {"category": getattr(mod, "LEVEL", "proof"), "text": getattr(mod, "LEVEL_TEXT", getattr(mod, "EXPLANATION", "")),
                              "design_ref": f"DESIGN.md §5 {pid}"},
            "level_note": getattr(mod, "LEVEL_NOTE", "; ".join(getattr(mod, "TRUSTED", []))),
            "technique": getattr(mod, "TECHNIQUE", "Lean 4 theorems over a hand-written model + differential correspondence with the real code"),
        })
    else:
        na.append({"property_id": pid, "reason": "check not built yet in this revision (work in progress; see DESIGN.md §11)"})

manifest = {
    "version": 1,
    "setup_cmd": f"{PY} harness/extract_constants.py && cd lean && lake build AgpTpf driver",
    "hooks": {"guard": "AGP_TPF_UTILS_VERIF", "enable": "no hooks inside /repo: interception is done from the harness process (audit hooks, attribute injection)",
              "baseline_off_cmd": "cd /repo && /venv/bin/python -m pytest -ra -q -p no:cacheprovider --timeout=900",
              "source_commits": [], "add_only": True},
    "engines": [{"name": "lean4-model+correspondence", "path": "lean/ + harness/", "serves_properties": [c["property_id"] for c in checks],
                 "kind_free_text": "Lean 4 model and theorems (lake project lean/), constants regenerated from /repo by harness/extract_constants.py, native line-protocol driver, Python correspondence harness and oracles"}],
    "checks": checks,
    "not_applicable": na,
    "notes": "see DESIGN.md; known findings in known_findings.json",
}
(VERIF / "MANIFEST.json").write_text(json.dumps(manifest, indent=1) + "\n")
print("checks:", [c["property_id"] for c in checks], "not yet:", [n["property_id"] for n in na])
