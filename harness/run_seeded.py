#!/usr/bin/env python3
"""
Regression of the checks against the archived seeded changes (seeded/*/patch.diff).
usage: run_seeded.py <repo-checkout> [ids...]   — the checkout is modified in place (patch applied, check run, patch reverted),
so give it a scratch copy / snapshot, never a tree someone else is using.  Uses AGP_TPF_REPO to point the checks at it.
Prints one line per seeded change: CAUGHT (with or without failing input) / MISSED / PATCH-DOES-NOT-APPLY.
"""
import json, os, re, subprocess, sys
from pathlib import Path
VERIF0 = Path(__file__).resolve().parent.parent
repo = Path(sys.argv[1]).resolve()
# run from an ISOLATED copy of /verif (its own lake project and Gen files): a seeded change may alter the regenerated constants, and
# other work (proof agents, registered checks) must never see that in the shared project
ISO = Path(os.environ.get("SEEDED_ENV", "/tmp/seeded_env"))
ISO.mkdir(parents=True, exist_ok=True)
subprocess.run(["rsync", "-a", "--delete", "--exclude", ".git", "--exclude", "replays", "--exclude", "evidence", str(VERIF0) + "/", str(ISO / "verif") + "/"], check=True)
VERIF = ISO / "verif"
ids = sys.argv[2:] or sorted(p.name for p in (VERIF / "seeded").iterdir() if p.is_dir())
env = dict(os.environ, AGP_TPF_REPO=str(repo), VERIF_MODEL_ONLY="1")
res = {}
for sid in ids:
    d = VERIF / "seeded" / sid
    prop = json.loads((d / "meta.json").read_text())["property"]
    subprocess.run(["git", "-C", str(repo), "checkout", "HEAD", "--", "."], check=True)
    a = subprocess.run(["git", "-C", str(repo), "apply", "--3way", str(d / "patch.diff")], capture_output=True, text=True)
    if a.returncode != 0:
        a = subprocess.run(["git", "-C", str(repo), "apply", str(d / "patch.diff")], capture_output=True, text=True)
    if a.returncode != 0:
        res[sid] = "PATCH-DOES-NOT-APPLY"
        print(sid, res[sid], flush=True)
        continue
    p = subprocess.run([sys.executable, str(VERIF / "harness" / "check.py"), prop, "--tier", "quick"], cwd=str(VERIF), env=env, capture_output=True, text=True)
    out = p.stdout
    m = re.search(r"VIOLATION property=\S+ replay=\S+( no-failing-input-found)?", out)
    if p.returncode == 1 and m:
        res[sid] = "CAUGHT" + (" (no-failing-input-found)" if m.group(1) else " (failing input)")
    elif p.returncode == 0:
        res[sid] = "MISSED"
    else:
        res[sid] = f"CHECK-ERROR exit={p.returncode}"
    print(sid, prop, res[sid], flush=True)
    subprocess.run(["git", "-C", str(repo), "checkout", "HEAD", "--", "."], check=True)
    subprocess.run(["git", "-C", str(repo), "reset", "-q"], check=False)
print(json.dumps(res, indent=1))
print("SUMMARY caught=%d missed=%d other=%d" % (sum(v.startswith("CAUGHT") for v in res.values()), sum(v == "MISSED" for v in res.values()),
                                               sum(not v.startswith("CAUGHT") and v != "MISSED" for v in res.values())))
