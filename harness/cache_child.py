#!/usr/bin/env python3
"""
One `FastaIndex(fasta).auto_load()` of the REAL code as a controllable process (C15).
Before every file operation on the FASTA / .fai / .agp (and their temp files) the child announces the operation on stdout
(`OP <label>`) and waits on stdin for `go <clock>` or `die` (= the process is killed here: os._exit, nothing is flushed or
cleaned up).  Every write() is flushed at once (so each write call is a flush boundary) and the written file's mtime is set
to the controller's clock, which makes timestamps deterministic.  At the end: `RESULT <json>`.
usage: cache_child.py <repo_src> <fasta>
"""
import json, os, sys

src, fasta = sys.argv[1], sys.argv[2]
FLUSH_EACH = (len(sys.argv) < 4 or sys.argv[3] != "buffered")   # "buffered": data reaches the file only on close(), like a small real write
sys.path.insert(0, src)
import logging
logging.disable(logging.CRITICAL)
import pathlib
from pathlib import Path

BASE = 1_000_000_000
STEP = 0.5          # seconds per model clock tick: sub-second, so that a cache mtime pushed forward by a whole second is visible
CLOCK = [1]
real_stdout = sys.stdout


def gate(label):
    real_stdout.write("OP " + label + "\n")
    real_stdout.flush()
    line = sys.stdin.readline().strip()
    if not line or line.startswith("die"):
        os._exit(9)
    CLOCK[0] = int(line.split()[1])


def which(p):
    s = str(p)
    if s == fasta:
        return "fasta"
    if s.startswith(fasta + ".fai"):
        return "fai"
    if s.startswith(fasta + ".agp"):
        return "agp"
    return None


def stamp(p):
    try:
        t = BASE + CLOCK[0] * STEP
        os.utime(p, (t, t))
    except OSError:
        pass


class WFile:
    def __init__(self, fh, path, w):
        self.fh, self.path, self.w = fh, path, w

    def write(self, data):
        gate("write " + self.w)
        n = self.fh.write(data)
        if FLUSH_EACH:
            self.fh.flush()
            stamp(self.path)
        return n

    def close(self):
        if not self.fh.closed:
            gate("close " + self.w)
            self.fh.close()
            stamp(self.path)

    def __enter__(self):
        return self

    def __exit__(self, *a):
        self.close()

    def __getattr__(self, k):
        return getattr(self.fh, k)


_open, _stat, _exists = Path.open, Path.stat, Path.exists


def p_open(self, mode="r", *a, **k):
    w = which(self)
    if w is None:
        return _open(self, mode, *a, **k)
    if any(c in mode for c in "wxa"):
        gate("open-w " + w)
        fh = _open(self, mode, *a, **k)
        stamp(self)
        return WFile(fh, str(self), w)
    gate("open-r " + w)
    return _open(self, mode, *a, **k)


def p_stat(self, *a, **k):
    w = which(self)
    if w is not None and not getattr(p_exists, "inside", False):
        gate("stat " + w)
    return _stat(self, *a, **k)


def p_exists(self, *a, **k):
    w = which(self)
    if w is not None:
        gate("exists " + w)
    p_exists.inside = True
    try:
        return _exists(self, *a, **k)
    finally:
        p_exists.inside = False


Path.open, Path.stat, Path.exists = p_open, p_stat, p_exists
_replace = os.replace


def p_replace(a, b, *x, **k):
    w = which(b)
    if w is not None:
        gate("replace " + w)
    return _replace(a, b, *x, **k)


os.replace = p_replace
_os_fdopen = os.fdopen

from tola.fasta.index import FastaIndex

try:
    fai = FastaIndex(Path(fasta), buffer_size=64)
    fai.auto_load()
    idx = [[n, i.length, i.file_offset, i.residues_per_line, i.max_line_length] for n, i in fai.index.items()]
    rows = []
    for s in fai.assembly.scaffolds:
        rows.append([s.name, [[r.name, r.start, r.end, r.strand] if hasattr(r, "name") else ["GAP", r.length, r.gap_type] for r in s.rows]])
    out = {"ok": {"index": idx, "assembly": rows}}
except BaseException as e:  # noqa
    out = {"err": type(e).__name__}
real_stdout.write("RESULT " + json.dumps(out) + "\n")
real_stdout.flush()
