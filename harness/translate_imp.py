#!/usr/bin/env python3
"""
T1c: a TRANSLATOR from Python function bodies with loops and mutation to Lean (the imperative kernels of /repo/src/tola).

T1b (`translate_kernels.py`) covers straight-line arithmetic.  This translator covers whole method bodies: `while` / `for` loops with
`break` and `return`, list indexing / slicing / `pop` / `append` with Python's index semantics (negative wrap, IndexError), `isinstance`
tests on rows, object identity (`is`), mutation of `self` attributes, writes to an output object, f-strings, `BytesIO` cursors.
For every kernel in IMP_KERNELS the CURRENT source text is parsed (ast only; the code is never imported) and translated into ONE Lean
definition in lean/AgpTpf/Gen/Imp.lean, over the run-time support of lean/AgpTpf/Model/PyRt.lean (loops = `PyRt.forIn` / `PyRt.whileLoop`
with explicit fuel, loop state = the tuple of the variables the loop body assigns).  The hand-written model functions are then PROVED equal
to these regenerated definitions (lean/AgpTpf/Proofs/Imp*.lean; restated in Properties/CxxImp.lean), for all inputs and every fuel above a
stated bound — so for these functions the tie between model and code is a theorem re-checked on every run against what the code says now.

What is trusted here: this translator (the subset below and the OBJECT TABLE that maps the Python attributes / methods of Fragment, Gap,
Scaffold, OverlapResult onto the model's structure fields and functions), and `Model/PyRt.lean` (the semantics given to loops, slices, pop).
A construct outside the subset makes the kernel `<name>_UNSUPPORTED` with the reason in a comment, which breaks the equality proof's build —
loudly, never silently (and sends the check into the failing-input search).

Conventions
  * every Python `int` is `Int`, `str` is `Str` (= `List Char`), `bytes` is `List Nat`; `None`-or-T is `Option T`
  * Python variables become shadowing `let`s; a loop carries the variables its body assigns (and that exist before the loop) as a tuple
  * an `if` without `return/break/continue/raise` inside is JOINED (tuple of the variables it assigns); any other `if` duplicates the
    statements that follow it into both branches
  * `if x is None: … else: …` becomes `match x with | none => … | some x => …` (x is narrowed in the else branch)
  * mutable roots (`self`, an output object) are threaded like variables and RETURNED: a kernel's result is `(roots…, value)`
  * calls named in a kernel's `opaque` table become applications of function PARAMETERS of the generated definition (pure or `R`-valued)
  * messages (`msg = f"…"` immediately used by `raise`) are never translated; `raise X(...)` is `.error .x`
"""
import ast, os, sys
from pathlib import Path

REPO = Path(os.environ.get("AGP_TPF_REPO", "/repo"))
SRC = REPO / "src" / "tola"
HERE = Path(__file__).resolve().parent
OUT3 = Path(__file__).resolve().parent.parent / "lean" / "AgpTpf" / "Gen" / "Imp3.lean"
OUT2 = Path(__file__).resolve().parent.parent / "lean" / "AgpTpf" / "Gen" / "Imp2.lean"
OUT = HERE.parent / "lean" / "AgpTpf" / "Gen" / "Imp.lean"


class Unsupported(Exception):
    pass


# ------------------------------------------------------------------------------------------------------------------ types
def L(t):
    return ("list", t)


def O(t):
    return ("opt", t)


HAPSET = ("dict", ("opt", "str"), ("list", "bsref"))      # ChrGroup.data[hap]: original name -> scaffolds
GDATA = ("dict", "str", HAPSET)                            # ChrGroup.data


def lean_ty(t):
    if isinstance(t, tuple):
        if t[0] == "list":
            return f"(List {lean_ty(t[1])})"
        if t[0] == "opt":
            return f"(Option {lean_ty(t[1])})"
        if t[0] == "tuple":
            return "(" + " × ".join(lean_ty(x) for x in t[1]) + ")"
        if t[0] == "raw":
            return t[1]
        if t[0] == "match":      # a regex match object: the tuple of its groups
            return "(" + " × ".join(["Str"] * t[1]) + ")" if t[1] > 1 else "Str"
        if t[0] == "dict":
            return f"(List ({lean_ty(t[1])} × {lean_ty(t[2])}))"
        if t[0] == "set":
            return f"(List {lean_ty(t[1])})"
        if t[0] == "fun":
            res = lean_ty(t[2])
            if t[3]:
                res = f"(R {res})"
            return "(" + " → ".join([lean_ty(a) for a in t[1]] + [res]) + ")"
    return {"int": "Int", "bool": "Bool", "str": "Str", "bytes": "(List Nat)", "row": "Row", "frag": "Fragment", "gap": "Gap",
            "ovres": "OverlapResult", "scaffold": "Scaffold", "bytesio": "PyRt.BytesIO", "unit": "Unit", "sink_str": "Str",
            "sink_bytes": "(List Nat)", "nat": "Nat", "trtable": "(Char → Char)", "fastainfo": "FastaInfo", "ovref": "Nat", "premise": "Premise", "store": "(List Res)", "scref": "Nat", "ffref": "Nat", "found": "Found", "namer": "PyRt.SrcNamer", "lref": "Nat", "junction": "Junction", "assembly": "Assembly", "path": "Str", "fh": "Str", "bref": "PyRt.BuiltRef", "bsref": "Nat", "keytok": "PyRt.KeyTok", "gref": "Nat", "aref": "Nat", "asmobj": "PyRt.AsmObj", "tabres": "Bool", "tsink": "Unit", "binfile": "PyRt.BinFile"}[t]


# OBJECT TABLE: (type, python attribute) -> (result type, lean template, may raise)
ATTR = {
    ("frag", "name"): ("str", "{0}.name", False), ("frag", "start"): ("int", "{0}.start", False),
    ("frag", "end"): ("int", "{0}.stop", False), ("frag", "strand"): ("int", "{0}.strand", False),
    ("frag", "tags"): (L("str"), "{0}.tags", False), ("frag", "length"): ("int", "{0}.length", False),
    ("gap", "length"): ("int", "{0}.length", False), ("gap", "gap_type"): ("str", "{0}.gapType", False),
    ("row", "length"): ("int", "(Row.length {0})", False),
    # attributes only one of the two row classes has: AttributeError on the other
    ("row", "gap_type"): ("str", "(PyRt.asGap {0}).map (·.gapType)", True),
    ("row", "name"): ("str", "(PyRt.asFrag {0}).map (·.name)", True),
    ("row", "start"): ("int", "(PyRt.asFrag {0}).map (·.start)", True),
    ("row", "end"): ("int", "(PyRt.asFrag {0}).map (·.stop)", True),
    ("row", "strand"): ("int", "(PyRt.asFrag {0}).map (·.strand)", True),
    ("row", "tags"): (L("str"), "(PyRt.asFrag {0}).map (·.tags)", True),
    ("ovres", "bait"): ("frag", "{0}.bait", False), ("ovres", "start"): ("int", "{0}.start", False),
    ("ovres", "end"): ("int", "{0}.stop", False), ("ovres", "rows"): (L("row"), "{0}.rows", False),
    ("ovres", "start_overhang"): ("int", "{0}.startOverhang", False), ("ovres", "end_overhang"): ("int", "{0}.endOverhang", False),
    ("ovres", "length"): ("int", "{0}.length", False),
    ("ovres", "start_row_bait_overlap"): ("int", "{0}.startRowBaitOverlap", True),
    ("ovres", "end_row_bait_overlap"): ("int", "{0}.endRowBaitOverlap", True),
    ("scaffold", "rows"): (L("row"), "{0}.rows", False), ("scaffold", "name"): ("str", "{0}.name", False),
    ("scaffold", "tag"): (O("str"), "{0}.tag", False), ("scaffold", "haplotype"): (O("str"), "{0}.haplotype", False), ("scaffold", "rank"): ("int", "{0}.rank", False),
    ("scaffold", "original_name"): (O("str"), "{0}.originalName", False), ("scaffold", "original_tags"): (O(L("str")), "{0}.originalTags", False),
    ("fastainfo", "length"): ("int", "{0}.length", False),
    ("frag", "key_tuple"): (("tuple", ["str", "int", "int"]), "{0}.keyTuple", False),
    ("namer", "autosome_prefix"): ("str", "{0}.autosome_prefix", False),
    ("namer", "current_scaffold_name"): (O("str"), "{0}.current_scaffold_name", False),
    ("namer", "current_rank"): (O("int"), "{0}.current_rank", False),
    ("namer", "current_haplotype"): (O("str"), "{0}.current_haplotype", False),
    ("namer", "haplotig_n"): ("int", "{0}.haplotig_n", False),
    ("namer", "haplotig_scaffolds"): (L("ovref"), "{0}.haplotig_scaffolds", False),
    ("namer", "primary_haplotype"): (O("str"), "{0}.primary_haplotype", False),
    ("namer", "target_tags"): ("bool", "{0}.target_tags", False),
    ("namer", "unloc_n"): ("int", "{0}.unloc_n", False),
    ("namer", "unloc_scaffolds"): (L("ovref"), "{0}.unloc_scaffolds", False),
    ("namer", "haplotype_lc_dict"): (("dict", "str", "str"), "{0}.haplotype_lc_dict", False),
    ("ovres", "tag"): (O("str"), "{0}.tag", False), ("ovres", "haplotype"): (O("str"), "{0}.haplotype", False), ("ovres", "rank"): ("int", "{0}.rank", False),
    ("assembly", "name"): ("str", "{0}.name", False), ("assembly", "curated"): ("bool", "{0}.curated", False),
    ("assembly", "scaffolds"): (L("scaffold"), "{0}.scaffolds", False),
    ("found", "fragment"): ("frag", "{0}.fragment", False), ("found", "scaffolds"): (L("ovref"), "{0}.scaffolds", False),
    ("found", "scaffold_count"): ("int", "(Int.ofNat {0}.scaffolds.length)", False),
    # overhang premises (heap kernels only: the templates read the store of OverlapResults)
    ("premise", "fragment"): ("frag", "{0}.fragment", False), ("premise", "scaffold"): ("ovref", "{0}.sid", False),
    ("premise", "bait_overlap"): ("int", "(Premise.baitOverlap {0} store)", True),
    ("premise", "overhang_if_applied"): ("int", "(Premise.overhangIfApplied {0} store)", True),
    ("premise", "overhang_error_delta_if_applied"): ("int", "(Premise.delta {0} store)", True),
    ("ovres", "name"): ("str", "{0}.name", False), ("ovres", "original_name"): (O("str"), "{0}.originalName", False),
    ("ovres", "original_tags"): (O(L("str")), "{0}.originalTags", False),
    # phase 2: `Scaffold.fragments_length` is the translated kernel (tied to the model's `fragmentsLength` by C17Imp)
    ("scaffold", "fragments_length"): ("int", "(Scaffold_fragments_length {0})", True),
    ("asmobj", "name"): ("str", "{0}.name", False), ("asmobj", "curated"): ("bool", "{0}.curated", False),
    ("asmobj", "scaffolds"): (L("bsref"), "{0}.scaffolds", False),
    ("tabres", "errors"): ("bool", "{0}", False),
    ("fastainfo", "file_offset"): ("int", "{0}.fileOffset", False), ("fastainfo", "residues_per_line"): ("int", "{0}.rpl", False),
    ("fastainfo", "max_line_length"): ("int", "{0}.mll", False),
}
# writable attributes: (type, attr) -> lean field
CTOR_INIT = {"scaffold": "({ name := [] } : Scaffold)", "gap": "({ length := 0, gapType := [] } : Gap)",
             "frag": "({ oid := newOid, name := [], start := 0, stop := 0, strand := 0 } : Fragment)",
             "fastainfo": "({ length := 0, fileOffset := 0, rpl := 0, mll := 0 } : FastaInfo)"}
# every attribute a constructor of the class must assign (python attribute -> lean field); private spellings (`_name`) are read through the public name
CTOR_FIELDS = {"scaffold": {"name": "name", "rows": "rows", "tag": "tag", "haplotype": "haplotype", "rank": "rank", "original_name": "originalName",
                            "original_tags": "originalTags"},
               "gap": {"length": "length", "gap_type": "gapType"},
               "frag": {"name": "name", "start": "start", "end": "stop", "strand": "strand", "tags": "tags"},
               "fastainfo": {"length": "length", "file_offset": "fileOffset", "residues_per_line": "rpl", "max_line_length": "mll"}}
FIELD = {("scaffold", "name"): "name", ("scaffold", "tag"): "tag", ("scaffold", "haplotype"): "haplotype", ("scaffold", "rank"): "rank",
         ("scaffold", "original_name"): "originalName", ("scaffold", "original_tags"): "originalTags",
         ("gap", "length"): "length", ("gap", "gap_type"): "gapType",
         ("frag", "name"): "name", ("frag", "start"): "start", ("frag", "end"): "stop", ("frag", "strand"): "strand", ("frag", "tags"): "tags",
         ("fastainfo", "length"): "length", ("fastainfo", "file_offset"): "fileOffset", ("fastainfo", "residues_per_line"): "rpl",
         ("fastainfo", "max_line_length"): "mll",
         ("ovres", "start"): "start", ("ovres", "end"): "stop", ("ovres", "rows"): "rows", ("scaffold", "rows"): "rows", ("assembly", "name"): "name", ("assembly", "curated"): "curated", ("assembly", "scaffolds"): "scaffolds", ("namer", "autosome_prefix"): "autosome_prefix", ("namer", "current_scaffold_name"): "current_scaffold_name", ("namer", "current_rank"): "current_rank", ("namer", "current_haplotype"): "current_haplotype", ("namer", "haplotig_n"): "haplotig_n", ("namer", "haplotig_scaffolds"): "haplotig_scaffolds", ("namer", "primary_haplotype"): "primary_haplotype", ("namer", "target_tags"): "target_tags", ("namer", "unloc_n"): "unloc_n", ("namer", "unloc_scaffolds"): "unloc_scaffolds", ("namer", "haplotype_lc_dict"): "haplotype_lc_dict"}
# labelling attributes of an OverlapResult written through a reference: python attribute -> (model field, python type, conversion of the value)
# (`name` / `rank` cannot hold None in the model's structure: a None name is kept as the text "None", a None rank as 0 — neither can arise after
#  make_scaffold_name, which always sets a str name and an int rank)
LABEL_FIELD = {"tag": ("tag", O("str"), "{0}"), "haplotype": ("haplotype", O("str"), "{0}"), "name": ("name", O("str"), "(PyRt.optStrText {0})"),
               "rank": ("rank", O("int"), "(({0}).getD 0)"), "original_name": ("originalName", O("str"), "{0}"),
               "original_tags": ("originalTags", O(L("str")), "{0}")}
# class constants: dotted path -> (lean term, type)   (extracted from the source by T1)
CLASS_CONST = {"self.OTHER_KNOWN_TAGS": ("Gen.otherKnownTags", L("str")),
               "Assembly.NEMATODE_CHR_INT": ("Gen.nematodeChrInt", ("dict", "str", "int"))}
# re.split(<literal pattern>, s): the model's tokeniser for exactly that pattern (T1 guard `natKeyRegex_expected`), as the flat list Python returns
REGEX_SPLIT = {r"(IV|I{1,3}|\d+)": "(PyRt.natSplitList {0})"}
# methods of `self` that are translated kernels of their own (defined EARLIER in the generated file): name -> (lean def, arg types, result type)
SELF_KERNELS = {"get_set_haplotype": ("ScaffoldNamer_get_set_haplotype", ["str"], "str"),
                "haplotig_name": ("ScaffoldNamer_haplotig_name", [], "str"), "unloc_name": ("ScaffoldNamer_unloc_name", [], "str"),
                "haplotype_from_first_row_name": ("ScaffoldNamer_haplotype_from_first_row_name", ["scaffold"], O("str"))}
# methods of self that mutate it: (type, method) -> lean function  `T → R T`
MUT_METHOD = {("ovres", "discard_start"): "OverlapResult.discardStart", ("ovres", "discard_end"): "OverlapResult.discardEnd",
              ("ovres", "trim_large_overhangs"): "OverlapResult.trimLargeOverhangs"}
# pure methods: (type, method, arg types) -> (result type, template)
PURE_METHOD = {("frag", "abuts"): (["frag"], "bool", "(Fragment.abuts {0} {1})"), ("frag", "overlaps"): (["frag"], "bool", "(Fragment.overlaps {0} {1})"),
               ("frag", "gap_between"): (["frag"], O("int"), "(Fragment.gapBetween {0} {1})"),
               ("scaffold", "reverse"): ([], "scaffold", "(Scaffold.reverse {0})"),
               # generator methods of Scaffold, as the lists they yield
               ("scaffold", "fragments"): ([], L("frag"), "(Scaffold.fragments {0})"),
               ("bytesio", "getvalue"): ([], "bytes", "({0}).data"),
               ("ovres", "fragments"): ([], L("frag"), "(fragmentsOf {0}.rows)"),
               ("scaffold", "fragment_tags"): ([], ("set", "str"), "(Scaffold.fragmentTags {0})"),
               ("scaffold", "idx_fragments"): ([], L(("tuple", ["int", "frag"])), "(PyRt.idxFragments {0}.rows)"),
               ("str", "lower"): ([], "str", "(lowerStr {0})")}
# methods that read (may raise): (type, method) -> (arg types, result type, template of an R-term)
IMPURE_METHOD = {("frag", "junction_tuple"): (["frag"], "junction", "(junctionTuple {0} {1})"),      # tied by T1b (Gen.Kernels.Fragment_junction_tuple)
                 ("ovres", "overhang_if_start_removed"): ([], "int", "(OverlapResult.overhangIfStartRemoved {0})"),
                 ("ovres", "overhang_if_end_removed"): ([], "int", "(OverlapResult.overhangIfEndRemoved {0})"),
                 ("ovres", "fragment_start_if_trimmed"): (["frag"], "int", "(OverlapResult.fragmentStartIfTrimmed {0} {1})"),
                 ("premise", "improves"): (["int"], "bool", "(Premise.improves {0} store {1})"),
                 ("premise", "makes_worse"): (["int"], "bool", "((Premise.improves {0} store {1}).map (fun b => !b))")}
# re.match(<literal pattern>, s): the model's hand-written matcher for exactly that pattern text (tied separately: the T1 guards
# `…Regex_expected : Gen.<name> = "<text>" := rfl` + the matcher-vs-`re` correspondence streams); any other pattern is outside the subset
REGEX = {r"\s*$": ("(isBlankLine {0})", "bool", "match"),
         r"[#\s]+(.+)": ("(headerText {0})", O(("match", 1)), "match"),
         r"(.+):(\d+)-(\d+)$": ("(tpfNameMatch {0})", O(("match", 3)), "match"),
         r"([A-Z]\d*|[IVX_]+|\d+[A-Z]+)": ("(isChrNameTag {0})", "bool", "fullmatch"),
         r"^([^_]+)_.+_\d+$": ("(hapPrefixOfName {0})", O(("match", 1)), "search"),
         r"([A-Za-z]+\d+)_": ("(PyRt.asmPrefixMatch {0})", O(("match", 1)), "match")}
ERR_CATCH = {"FileExistsError": "fileExists"}
ERR = {"IndexUsageError": "usage", "ChrNamerError": "chrNamer", "TaggingError": "tagging", "ValueError": "value", "IndexError": "index", "KeyError": "key", "TypeError": "type", "NotImplementedError": "notImpl"}
RESERVED = {"end", "from", "at", "in", "do", "then", "else", "if", "let", "have", "show", "fun", "match", "with", "where", "by", "open",
            "section", "namespace", "def", "theorem", "instance", "structure", "class", "deriving", "import", "max", "min", "new", "this", "rows", "prefix"}


def mg(n):
    return n + "_v" if n in RESERVED else n


# PHASE 2 (generic calls between translated kernels): the signature every kernel ends up with is recorded when it is translated, and a call of
# a method that IS a translated kernel (of a class listed here) becomes a call of that Lean definition — parameters and results are matched
# BY NAME (see Kernel.kcall)
SIGS = {}      # lean name -> dict(params=[(name, type)], roots=[(name, type)], ret=type, fuel=bool, spec=spec, pyargs=[python parameter names])
KM = {}        # (python class, method) -> lean name, for the kernels whose spec says `p2=True`
VALUE_CLASS = {"scaffold": "Scaffold", "frag": "Fragment"}                        # immutable-by-use value objects whose methods may be translated kernels taking `self`
REF_CLASS = {"gref": "ChrGroup", "aref": "Assembly"}       # reference types whose objects live in an arena: class of the object
SINK_CLASSES = ("TerminalTable",)                            # report objects: only "was an error marked" is kept (type `tabres`)


def lit_str(s):
    esc = s.replace("\\", "\\\\").replace('"', '\\"').replace("\n", "\\n").replace("\t", "\\t").replace("\r", "\\r")
    return f'"{esc}".toList'


def exits(stmts):
    """does the statement list contain return / break / continue / raise (at any depth, loops included)?"""
    for s in stmts:
        for n in ast.walk(s):
            if isinstance(n, (ast.Return, ast.Break, ast.Continue, ast.Raise)):
                return True
    return False


def definitely_assigns(stmts, name):
    """is `name` assigned on every path through the statement list? (plain assignments and walrus tests; if/else needs both branches)"""
    for s in stmts:
        if isinstance(s, ast.Assign) and any(isinstance(t, ast.Name) and t.id == name for t in s.targets):
            return True
        if isinstance(s, ast.If):
            if isinstance(s.test, ast.NamedExpr) and s.test.target.id == name:
                return True
            if s.orelse and definitely_assigns(s.body, name) and definitely_assigns(s.orelse, name):
                return True
    return False


def DEFAULT_OF(ty):
    if isinstance(ty, tuple) and ty[0] == "opt":
        return "none"
    if isinstance(ty, tuple) and ty[0] in ("list", "dict", "set"):
        return "[]"
    return {"int": "0", "bool": "false", "str": "[]", "nat": "0"}[ty]


PY_BUILTINS = {"max", "min", "len", "sum", "sorted", "list", "tuple", "set", "str", "int", "abs", "all", "any", "enumerate", "range", "zip", "isinstance"}


def first_evaluated(e):
    """the first sub-expression Python evaluates in `e` that is not a constant or the name of a builtin being called: the value of a local assigned
    just before the statement can be written in its place without changing the order of evaluation"""
    while True:
        if isinstance(e, ast.Call):
            if isinstance(e.func, ast.Name) and e.func.id in PY_BUILTINS:
                if not e.args:
                    return e
                e = e.args[0]
            else:
                e = e.func
        elif isinstance(e, ast.Attribute):
            e = e.value
        elif isinstance(e, ast.Subscript):
            e = e.value
        elif isinstance(e, (ast.BinOp,)):
            e = e.left
        elif isinstance(e, ast.Compare):
            e = e.left
        elif isinstance(e, ast.BoolOp):
            e = e.values[0]
        elif isinstance(e, (ast.GeneratorExp, ast.ListComp)):
            e = e.generators[0].iter
        elif isinstance(e, ast.Tuple) and e.elts:
            e = e.elts[0]
        elif isinstance(e, ast.IfExp):
            e = e.test
        elif isinstance(e, ast.UnaryOp):
            e = e.operand
        else:
            return e


def pure_lookup(e):
    """an expression that only reads: a dotted path, or `<dotted path>.get(<name or constant>)`"""
    if dotted(e):
        return True
    return isinstance(e, ast.Call) and isinstance(e.func, ast.Attribute) and e.func.attr == "get" and dotted(e.func.value) is not None \
        and len(e.args) == 1 and not e.keywords and isinstance(e.args[0], (ast.Name, ast.Constant))


def message_only(name, stmts):
    """is every use of `name` in the statements inside a statement the translation drops (click.echo / logging.* calls, the argument of a raise),
    with at least one such use, and is it never re-assigned there?"""
    dropped, uses = set(), []
    for st in stmts:
        for n in ast.walk(st):
            if isinstance(n, ast.Expr) and isinstance(n.value, ast.Call) and dotted(n.value.func) and (dotted(n.value.func) == "click.echo" or dotted(n.value.func).startswith("logging.")):
                dropped |= {id(x) for x in ast.walk(n)}
            if isinstance(n, ast.Raise):
                dropped |= {id(x) for x in ast.walk(n)}
    for st in stmts:
        for n in ast.walk(st):
            if isinstance(n, ast.Name) and n.id == name:
                if isinstance(n.ctx, ast.Store):
                    return False
                uses.append(id(n) in dropped)
    return bool(uses) and all(uses)


def always_exits(stmts):
    for s in stmts:
        if isinstance(s, (ast.Return, ast.Break, ast.Continue, ast.Raise)):
            return True
        if isinstance(s, ast.Expr) and isinstance(s.value, ast.Call) and dotted(s.value.func) == "sys.exit":
            return True
        if isinstance(s, ast.If) and s.orelse and always_exits(s.body) and always_exits(s.orelse):
            return True
    return False


def assigned(stmts):
    """names (and mutable roots) a statement list may assign"""
    out = []

    def add(n):
        if n not in out:
            out.append(n)

    def root_of(e):
        if isinstance(e, ast.Starred):
            e = e.value
        while isinstance(e, (ast.Attribute, ast.Subscript)):
            e = e.value
        return e.id if isinstance(e, ast.Name) else None

    for s in stmts:
        for n in ast.walk(s):
            if isinstance(n, (ast.Assign, ast.AugAssign)):
                for t in (n.targets if isinstance(n, ast.Assign) else [n.target]):
                    if isinstance(t, ast.Attribute) and dotted(t):
                        add(dotted(t).replace(".", "_"))          # an attribute path that is a declared root variable
                    if isinstance(t, ast.Subscript) and isinstance(t.value, ast.Attribute) and dotted(t.value):
                        add(dotted(t.value).replace(".", "_"))    # an item of a dictionary attribute
                    if isinstance(t, ast.Attribute) and t.attr in LABEL_FIELD:
                        add("store")
                    if isinstance(t, ast.Attribute) and t.attr in ("rank", "tag", "haplotype", "input_predecessor"):
                        add("heap_lo")
                    if isinstance(t, ast.Attribute) and t.attr == "name":
                        add("heap_b")
            if isinstance(n, ast.Call) and isinstance(n.func, ast.Attribute) and n.func.attr == "append" and isinstance(n.func.value, ast.Call) \
                    and isinstance(n.func.value.func, ast.Attribute) and n.func.value.func.attr == "setdefault" and dotted(n.func.value.func.value):
                add(dotted(n.func.value.func.value).replace(".", "_"))
            if isinstance(n, ast.Assign):
                for t in n.targets:
                    for el in (t.elts if isinstance(t, ast.Tuple) else [t]):
                        r = root_of(el)
                        if r:
                            add(r)
            elif isinstance(n, ast.AugAssign):
                r = root_of(n.target)
                if r:
                    add(r)
            elif isinstance(n, ast.NamedExpr):
                add(n.target.id)
            elif isinstance(n, ast.Delete):
                for t in n.targets:
                    r = root_of(t)
                    if r:
                        add(r)
            elif isinstance(n, ast.Yield):
                add("yielded_")
            if isinstance(n, ast.Call) and isinstance(n.func, ast.Attribute) and n.func.attr in ("add_header_line", "add_scaffold") and dotted(n.func.value):
                add(dotted(n.func.value) + "_" + ("header" if n.func.attr == "add_header_line" else "scaffolds"))
            if isinstance(n, ast.Call) and isinstance(n.func, ast.Attribute) and n.func.attr in SELF_KERNELS:
                add("self")
            if isinstance(n, ast.Call) and isinstance(n.func, ast.Attribute) and n.func.attr in ("make_scaffold_name", "label_scaffold", "rename_unlocs_by_size", "rename_haplotigs_by_size", "rename_by_size",
                                                                                              "find_overlaps", "trim_large_overhangs", "store_fragments_found", "cut_fragments"):
                for r in ("store", "self_scaffold_namer", "heap_ff", "self_found_fragments", "self_fragments_found_more_than_once", "nextOid", "self_assembly_stats_cuts"):
                    add(r)
            if isinstance(n, ast.Call) and isinstance(n.func, ast.Attribute) and n.func.attr == "add_scaffold" and dotted(n.func) == "self.add_scaffold":
                add("store")
                add("added_lo")
            if isinstance(n, ast.Call) and isinstance(n.func, ast.Attribute) and n.func.attr == "setdefault":
                r = root_of(n.func.value)
                if r:
                    add(r)
                add("heap_b")
            if isinstance(n, ast.Call) and isinstance(n.func, ast.Name) and n.func.id == "Scaffold":
                add("heap_sc")
                add("heap_lo")
            if isinstance(n, ast.Call) and isinstance(n.func, ast.Name) and n.func.id == "Scaffold" and False:
                pass
            if isinstance(n, ast.Call) and isinstance(n.func, ast.Name) and n.func.id == "FoundFragment":
                add("heap_ff")
            if isinstance(n, ast.Call) and isinstance(n.func, ast.Attribute) and n.func.attr in ("add_scaffold", "remove_scaffold"):
                add("heap_ff")
            if isinstance(n, ast.Call) and isinstance(n.func, ast.Attribute) and n.func.attr in ("add_overhang_premise", "make_fixes"):
                add("store")
                r = root_of(n.func.value)
                if r:
                    add(r)
            if isinstance(n, ast.Call) and isinstance(n.func, ast.Name) and n.func.id == "Fragment":
                add("nextOid")
            if isinstance(n, ast.Call) and isinstance(n.func, ast.Attribute) and n.func.attr in ("apply", "trim_fragment"):
                add("store")
                if n.func.attr == "trim_fragment":
                    add("nextOid")
            elif isinstance(n, (ast.Assign, ast.AugAssign)) and False:
                pass
            if isinstance(n, ast.Call) and isinstance(n.func, ast.Attribute) and any(m == n.func.attr for _, m in KM):
                # a method that is a translated kernel: everything the callee returns may change (over-approximation; names the caller does
                # not hold are ignored by the callers of `assigned`)
                for (cls_, m_), lean_ in KM.items():
                    sig_ = SIGS.get(lean_)
                    if m_ != n.func.attr or sig_ is None:
                        continue
                    for rn, _ in sig_["roots"]:
                        pth_ = None
                        for key_ in ("dict_roots", "attr_params"):
                            for q in sig_["spec"].get(key_, {}):
                                if q.replace(".", "_") == rn:
                                    pth_ = q
                        if pth_ and pth_.startswith("self."):
                            add(rn)
                            add("heap_g")
                            add("heap_a")
                            if dotted(n.func.value):
                                add(dotted(n.func.value).replace(".", "_") + "_" + pth_[5:].replace(".", "_"))
                        else:
                            add(rn)
            if isinstance(n, ast.Call) and isinstance(n.func, ast.Name) and n.func.id == "next" and len(n.args) == 1 and isinstance(n.args[0], ast.Name):
                add(n.args[0].id)
            if isinstance(n, ast.Call) and isinstance(n.func, ast.Attribute) and n.func.attr == "update":
                r = root_of(n.func.value)
                if r:
                    add(r)
            if isinstance(n, ast.Call) and isinstance(n.func, ast.Attribute) and n.func.attr == "reverse" and not n.args:
                add("nextOid")
            if isinstance(n, ast.Call) and isinstance(n.func, ast.Name) and n.func.id == "ChrGroup":
                add("heap_g")
            if isinstance(n, ast.Call) and isinstance(n.func, ast.Name) and n.func.id == "Assembly":
                add("heap_a")
            if isinstance(n, ast.Call) and isinstance(n.func, ast.Attribute) and n.func.attr in ("sort", "mark_error"):
                r = root_of(n.func.value)
                if r:
                    add(r)
                if dotted(n.func.value):
                    add(dotted(n.func.value).replace(".", "_"))
            if isinstance(n, ast.Call) and isinstance(n.func, ast.Attribute) and n.func.attr == "add_scaffold":
                add("heap_a")
            if isinstance(n, ast.Call) and isinstance(n.func, ast.Name) and n.func.id == "compare_func":
                add("over_pairs")
            elif isinstance(n, ast.For):
                for el in (n.target.elts if isinstance(n.target, ast.Tuple) else [n.target]):
                    if isinstance(el, ast.Name):
                        add(el.id)
            if isinstance(n, ast.Call) and isinstance(n.func, ast.Attribute) and n.func.attr in (
                    "pop", "append", "extend", "write", "seek", "read", "discard_start", "discard_end", "add_row", "add", "insert", "truncate", "add_scaffold", "add_header_line", "append_scaffold"):
                r = root_of(n.func.value)
                if r:
                    add(r)
                if n.func.attr in ("add_row", "append_scaffold"):
                    add("heap_sc")
                    add("heap_lo")
                    add("heap_b")
    return out


class Kernel:
    def __init__(self, spec):
        self.spec = spec
        self.params = []            # (lean name, type) in first-use order
        self.tmp = 0
        self.uses_fuel = False
        self.roots = []             # mutable roots returned with the value: [(python name, type)]
        self.ret_ty = None          # type of the returned value ("unit" if none)
        self.aliases = {}           # local name -> root name (e.g. out -> self.out sink)
        self.cur_binds = None       # the bind list of the statement being translated (for coercions that need a bind)
        self.let_log = []           # every name bound by a generated `let` (safety net for loop states / joins, see check_carried)

    def fresh(self, base="t"):
        self.tmp += 1
        return f"{base}{self.tmp}"

    def param(self, name, ty):
        for n, t in self.params:
            if n == name:
                return
        self.params.append((name, ty))

    # ---------------------------------------------------------------------------------------------------------- expressions
    # expr returns (term, type); impure sub-computations are appended to `binds` as (name, R-term, type)
    def coerce(self, term, frm, to):
        if frm == to:
            return term
        if frm == "none" and isinstance(to, tuple) and to[0] == "opt":
            return "none"
        if isinstance(to, tuple) and to[0] == "opt" and to[1] == frm:
            return f"(some {term})"
        if frm == "emptylist" and isinstance(to, tuple) and to[0] in ("list", "set", "dict"):
            return "[]"
        if frm == "emptylist" and isinstance(to, tuple) and to[0] == "opt" and isinstance(to[1], tuple) and to[1][0] in ("list", "set", "dict"):
            return "(some [])"
        if frm == "nat" and to == "int":
            return f"(Int.ofNat {term})"
        if isinstance(frm, tuple) and frm[0] == "set" and to == L(frm[1]):
            return term
        if isinstance(to, tuple) and to[0] == "opt" and isinstance(frm, tuple) and frm[0] == "set" and to[1] == L(frm[1]):
            return f"(some {term})"
        if frm == O("gap") and to == O("row"):
            return f"(({term}).map Row.gap)"
        if to == L("row") and frm in (L("gap"), L("frag")):
            return f"(({term}).map Row.{'gap' if frm == L('gap') else 'frag'})"
        raise Unsupported(f"cannot use a value of type {frm} where {to} is expected")

    def truthy(self, term, ty):
        if ty == "bool":
            return term
        if ty == O("str"):
            return f"(PyRt.strTruthy {term})"       # None and "" are false
        if isinstance(ty, tuple) and ty[0] == "opt" and isinstance(ty[1], tuple) and ty[1][0] in ("list", "set", "dict"):
            return f"(match {term} with | some l => !l.isEmpty | none => false)"
        if ty == "tabres":
            return term
        if isinstance(ty, tuple) and ty[0] in ("list", "dict", "set") or ty in ("str", "bytes"):
            return f"(!({term}).isEmpty)"
        if ty == "int":
            return f"(decide ({term} ≠ 0))"
        if isinstance(ty, tuple) and ty[0] == "opt" and (ty[1] in ("frag", "gap", "row", "scaffold", "ovres", "fastainfo", "scref", "ffref", "ovref", "lref", "assembly") or (isinstance(ty[1], tuple) and ty[1][0] == "match")):
            return f"({term}).isSome"
        if isinstance(ty, tuple) and ty[0] == "opt" and ty[1] == "int":
            # `if g := a.gap_between(b):` — None and 0 are both false
            return f"(match {term} with | some v => decide (v ≠ 0) | none => false)"
        raise Unsupported(f"truthiness of {ty}")

    def impure(self, e, env):
        """expression as a Lean term of type `R T` (its own binds wrapped)"""
        binds = []
        t, ty = self.expr(e, env, binds)
        return self.wrap_term(binds, f"(.ok {t})"), ty

    def wrap_term(self, binds, inner):
        out = inner
        for b in reversed(binds):
            name, term, ty = b[0], b[1], b[2]
            if len(b) > 3 and b[3] == "let":
                out = f"(let {name} : {lean_ty(ty)} := {term}; {out})"
            else:
                out = f"({term} >>= fun ({name} : {lean_ty(ty)}) => {out})"
        return out

    def expr(self, e, env, binds):
        if isinstance(e, ast.Constant):
            v = e.value
            if v is True:
                return "true", "bool"
            if v is False:
                return "false", "bool"
            if v is None:
                return "none", "none"
            if isinstance(v, int):
                return f"({v} : Int)" if v >= 0 else f"(({v}) : Int)", "int"
            if isinstance(v, str):
                return f"({lit_str(v)} : Str)", "str"
            if isinstance(v, bytes):
                return "([" + ", ".join(str(b) for b in v) + "] : List Nat)", "bytes"
            raise Unsupported(f"constant {v!r}")
        if isinstance(e, ast.Name):
            n = e.id
            if n in self.aliases:
                n = self.aliases[n]
            if n in env:
                return mg(n), env[n]
            if n in self.spec.get("params", {}):
                self.param(mg(n), self.spec["params"][n])
                return mg(n), self.spec["params"][n]
            raise Unsupported(f"unknown name {n}")
        if isinstance(e, ast.Attribute) and e.attr == "st_mtime" and isinstance(e.value, ast.Call) and isinstance(e.value.func, ast.Attribute) \
                and e.value.func.attr == "stat" and not e.value.args:
            # `p.stat().st_mtime`: an oracle of the kernel (the file system is outside the translated code); time stamps are integers here — only
            # their order is used
            pth, tp = self.expr(e.value.func.value, env, binds)
            if tp != "path":
                raise Unsupported("stat() of a non-path")
            self.param("fs_mtime", ("fun", ["path"], "int", True))
            nm = self.fresh()
            binds.append((nm, f"(fs_mtime {pth})", "int"))
            return nm, "int"
        if isinstance(e, ast.Attribute) and dotted(e) in CLASS_CONST:
            return CLASS_CONST[dotted(e)]
        if isinstance(e, ast.Attribute) and dotted(e) in self.spec.get("properties", {}):
            # a @property of the class whose body is `return <path>` (CHECKED against the source here): read through it
            path = dotted(e)
            target = self.spec["properties"][path]
            cls = self.spec["qual"].split(".")[0]
            pd = find_def(ast.parse((SRC / self.spec["file"]).read_text()), cls + "." + path.split(".")[-1])
            ok = pd is not None and any(isinstance(d, ast.Name) and d.id == "property" for d in pd.decorator_list) and len(pd.body) == 1 \
                and isinstance(pd.body[0], ast.Return) and dotted(pd.body[0].value) == target
            if not ok:
                raise Unsupported(f"{path} is not the property `return {target}` the kernel's spec says it is")
            return self.expr(ast.parse(target, mode="eval").body, env, binds)
        if isinstance(e, ast.Attribute):
            # self.<declared attribute parameter>
            path = dotted(e)
            if path in self.spec.get("dict_roots", {}):
                nm = path.replace(".", "_")
                return nm, env[nm]
            if path in self.spec.get("attr_params", {}):
                ty = self.spec["attr_params"][path]
                nm = path.replace(".", "_")
                self.param(nm, ty)
                return nm, ty
            b, tb = self.expr(e.value, env, binds)
            if tb == "ovref":
                b, tb = f"(getRes store {b})", "ovres"       # a reference to an OverlapResult: an index into the store
            if tb == "ffref":
                b, tb = f"(PyRt.getFound heap_ff {b})", "found"   # a reference to a FoundFragment: an index into their arena
            if tb == "bref":
                b, tb = f"(PyRt.brefView store heap_lo {b})", "scaffold"      # an element of `self.scaffolds`: an OverlapResult or a left-over Scaffold
            if tb == "lref" and "heap_lo" in env:
                b, tb = f"(PyRt.loGet heap_lo {b}).1", "scaffold"
            if tb == "bsref":
                b, tb = f"(PyRt.bsGet heap_b {b})", "scaffold"
            if tb == "gref" and e.attr == "data" and "heap_g" in env:
                return f"(PyRt.gGet heap_g {b})", GDATA
            if tb == "aref" and "heap_a" in env:
                b, tb = f"(PyRt.aGet heap_a {b})", "asmobj"
            tb_k = tb if isinstance(tb, str) else "-"
            key = (tb_k, e.attr.lstrip("_") if (tb_k, e.attr) not in ATTR else e.attr)
            if key not in ATTR:
                raise Unsupported(f"attribute .{e.attr} of {tb}")
            ty, tmpl, imp = ATTR[key]
            term = tmpl.format(b)
            if imp:
                nm = self.fresh()
                binds.append((nm, term, ty))
                return nm, ty
            return term, ty
        if isinstance(e, ast.Subscript):
            b, tb = self.expr(e.value, env, binds)
            if isinstance(tb, tuple) and tb[0] == "tuple" and isinstance(e.slice, ast.Constant) and isinstance(e.slice.value, int) \
                    and 0 <= e.slice.value < len(tb[1]):
                k, n = e.slice.value, len(tb[1])
                proj = b + "".join(".2" for _ in range(k)) + (".1" if k < n - 1 else "")
                return f"({proj})", tb[1][k]
            if isinstance(e.slice, ast.Slice):
                if not (isinstance(tb, tuple) and tb[0] == "list") and tb != "bytes":
                    raise Unsupported("slice of a non-list")
                sl = e.slice

                def bound(x):
                    if x is None:
                        return "none"
                    t, ty = self.expr(x, env, binds)
                    if ty == O("int"):
                        return t                  # a None bound is an absent bound
                    if ty != "int":
                        raise Unsupported("slice bound")
                    return f"(some {t})"
                if sl.step is None:
                    return f"(PyRt.slice {b} {bound(sl.lower)} {bound(sl.upper)})", tb
                st = sl.step
                if isinstance(st, ast.UnaryOp) and isinstance(st.op, ast.USub) and isinstance(st.operand, ast.Constant) and st.operand.value == 1 \
                        and sl.upper is None:
                    if sl.lower is None:
                        return f"({b}).reverse", tb
                    t, ty = self.expr(sl.lower, env, binds)
                    if ty != "int":
                        raise Unsupported("slice bound")
                    return f"(PyRt.sliceRevFrom {b} {t})", tb
                raise Unsupported("slice step")
            if isinstance(tb, tuple) and tb[0] == "opt" and isinstance(tb[1], tuple) and tb[1][0] in ("dict", "list") and not isinstance(e.slice, ast.Slice):
                nm = self.fresh()
                binds.append((nm, f"(PyRt.needArg {b})", tb[1]))      # None[...]: TypeError
                b, tb = nm, tb[1]
            if isinstance(tb, tuple) and tb[0] == "dict":
                k, tk = self.expr(e.slice, env, binds)        # d[k]: KeyError when absent
                if tk != tb[1]:
                    raise Unsupported("dict key type")
                nm = self.fresh()
                binds.append((nm, f"(PyRt.dictGet {b} {k})", tb[2]))
                return nm, tb[2]
            i, ti = self.expr(e.slice, env, binds)
            if isinstance(ti, tuple) and ti[0] == "opt" and ti[1] == "int":
                nm = self.fresh()
                binds.append((nm, f"(PyRt.needInt {i})", "int"))
                i, ti = nm, "int"
            if ti != "int":
                raise Unsupported("index type")
            if isinstance(tb, tuple) and tb[0] in ("list",):
                nm = self.fresh()
                binds.append((nm, f"(pyGet {b} {i})", tb[1]))
                return nm, tb[1]
            if tb == "bytes":
                nm = self.fresh()
                binds.append((nm, f"((pyGet {b} {i}).map Int.ofNat)", "int"))     # indexing bytes gives an int
                return nm, "int"
            raise Unsupported(f"subscript of {tb}")
        if isinstance(e, ast.Tuple) or isinstance(e, ast.List):
            # literal of homogeneous elements (a tuple used as a lookup table, a list of columns), `*x` splices a list
            parts, ety, done = [], None, []
            for el in e.elts:
                if isinstance(el, ast.Starred):
                    t, ty = self.expr(el.value, env, binds)
                    if not (isinstance(ty, tuple) and ty[0] == "list"):
                        raise Unsupported("splat of a non-list")
                    parts.append(("l", t))
                    ety = ety or ty[1]
                else:
                    t, ty = self.expr(el, env, binds)
                    parts.append(("x", t))
                    done.append((t, ty))
                    if ety is not None and ety != ty:
                        if isinstance(e, ast.Tuple) and not any(isinstance(x, ast.Starred) for x in e.elts):
                            xs = done + [self.expr(x, env, binds) for x in e.elts[len(done):]]      # a record-like tuple
                            return "(" + ", ".join(t for t, _ in xs) + ")", ("tuple", [ty for _, ty in xs])
                        raise Unsupported("heterogeneous literal")
                    ety = ty
            if ety is None:
                return "[]", "emptylist"
            if isinstance(e, ast.Tuple) and isinstance(ety, tuple) and ety[0] == "tuple" and all(k == "x" for k, _ in parts):
                return "(" + ", ".join(t for _, t in parts) + ")", ("tuple", [ety] * len(parts))      # a pair of records
            segs, cur = [], []
            for k, t in parts:
                if k == "x":
                    cur.append(t)
                else:
                    if cur:
                        segs.append("[" + ", ".join(cur) + "]")
                        cur = []
                    segs.append(t)
            if cur:
                segs.append("[" + ", ".join(cur) + "]")
            return "(" + " ++ ".join(segs) + ")", L(ety)
        if isinstance(e, ast.Dict) and not e.keys:
            return "[]", "emptylist"
        if isinstance(e, ast.Dict):
            ks = [self.expr(k, env, binds) for k in e.keys]
            vs = [self.expr(v, env, binds) for v in e.values]
            if not ks or len({t for _, t in ks}) != 1 or len({t for _, t in vs}) != 1:
                raise Unsupported("dict literal")
            if len({ast.unparse(k) for k in e.keys}) != len(ks):
                raise Unsupported("dict literal with a repeated key")
            return "[" + ", ".join(f"({k}, {v})" for (k, _), (v, _) in zip(ks, vs)) + "]", ("dict", ks[0][1], vs[0][1])
        if isinstance(e, ast.BinOp):
            a, ta = self.expr(e.left, env, binds)
            b, tb = self.expr(e.right, env, binds)
            if ta == O("int") and tb in ("int", O("int")) or tb == O("int") and ta == "int":
                # arithmetic on a value that may be None: TypeError
                if ta == O("int"):
                    nm = self.fresh(); binds.append((nm, f"(PyRt.needInt {a})", "int")); a, ta = nm, "int"
                if tb == O("int"):
                    nm = self.fresh(); binds.append((nm, f"(PyRt.needInt {b})", "int")); b, tb = nm, "int"
            if ta == "int" and tb == "int":
                op = {ast.Add: "+", ast.Sub: "-", ast.Mult: "*"}.get(type(e.op))
                if op:
                    return f"({a} {op} {b})", "int"
                if isinstance(e.op, (ast.FloorDiv, ast.Mod)):
                    fn = "pyDiv" if isinstance(e.op, ast.FloorDiv) else "pyMod"
                    if isinstance(e.right, ast.Constant) and isinstance(e.right.value, int) and e.right.value != 0:
                        return f"({fn} {a} {b})", "int"           # a non-zero literal divisor
                    nm = self.fresh()
                    binds.append((nm, f"(PyRt.{'floorDiv' if fn == 'pyDiv' else 'floorMod'} {a} {b})", "int"))     # ZeroDivisionError when the divisor is 0
                    return nm, "int"
            if ta == tb and isinstance(ta, tuple) and ta[0] == "set" and isinstance(e.op, (ast.BitOr, ast.Sub, ast.BitAnd)):
                fn = {ast.BitOr: "sUnion", ast.Sub: "sDiff", ast.BitAnd: "sInter"}[type(e.op)]
                return f"({fn} {a} {b})", ta
            if ta == tb and ta in ("str", "bytes") and isinstance(e.op, ast.Add):
                return f"({a} ++ {b})", ta
            if ta == tb and isinstance(ta, tuple) and ta[0] == "list" and isinstance(e.op, ast.Add):
                return f"({a} ++ {b})", ta
            if ta == "bytes" and tb == "int" and isinstance(e.op, ast.Mult):
                return f"(PyRt.bytesRepeat {a} {b})", "bytes"
            raise Unsupported(f"operator {type(e.op).__name__} on {ta}, {tb}")
        if isinstance(e, ast.UnaryOp) and isinstance(e.op, ast.Not) and isinstance(e.operand, ast.Compare) and len(e.operand.ops) == 1 \
                and type(e.operand.ops[0]) in (ast.Lt, ast.LtE, ast.Gt, ast.GtE):
            # NORMAL FORM: `not a <= b` is written `a > b` (integers / no NaN in the translated subset): both spellings give the same Lean text
            flip = {ast.Lt: ast.GtE, ast.LtE: ast.Gt, ast.Gt: ast.LtE, ast.GtE: ast.Lt}[type(e.operand.ops[0])]
            sub = []
            lt, ltt = self.expr(e.operand.left, env, sub)
            rt, rtt = self.expr(e.operand.comparators[0], env, sub)
            if ltt == rtt == "int":
                return self.expr(ast.Compare(left=e.operand.left, ops=[flip()], comparators=e.operand.comparators), env, binds)
        if isinstance(e, ast.UnaryOp):
            a, ta = self.expr(e.operand, env, binds)
            if isinstance(e.op, ast.USub) and ta == O("int"):
                nm = self.fresh(); binds.append((nm, f"(PyRt.needInt {a})", "int")); a, ta = nm, "int"
            if isinstance(e.op, ast.USub) and ta == "int":
                return f"(-{a})", "int"
            if isinstance(e.op, ast.Not):
                return f"(!{self.truthy(a, ta)})", "bool"
            raise Unsupported("unary operator")
        if isinstance(e, ast.Compare):
            parts, left = [], e.left
            lt, ltt = self.expr(left, env, binds)
            for op, right in zip(e.ops, e.comparators):
                if isinstance(op, (ast.Is, ast.IsNot)):
                    neg = isinstance(op, ast.IsNot)
                    if isinstance(right, ast.Constant) and right.value is None:
                        if not (isinstance(ltt, tuple) and ltt[0] == "opt"):
                            raise Unsupported("`is None` on a value that is never None")
                        parts.append(f"({lt}).isSome" if neg else f"({lt}).isNone")
                        rt, rtt = "none", "none"
                    else:
                        rt, rtt = self.expr(right, env, binds)
                        if (ltt, rtt) == ("row", "frag"):
                            c = f"(PyRt.rowIsFrag {lt} {rt})"
                        elif (ltt, rtt) == ("frag", "frag"):
                            c = f"({lt}.oid == {rt}.oid)"
                        else:
                            raise Unsupported(f"identity of {ltt} and {rtt}")
                        parts.append(f"(!{c})" if neg else c)
                elif isinstance(op, (ast.In, ast.NotIn)):
                    if dotted(right) in CLASS_CONST:
                        rt, rtt = CLASS_CONST[dotted(right)]
                    else:
                        rt, rtt = self.expr(right, env, binds)
                    if isinstance(rtt, tuple) and rtt[0] == "dict":
                        if ltt == "none":
                            # `None in d`: no key of a dictionary whose keys are never None is None
                            c = f"(dHas {rt} none)" if (isinstance(rtt[1], tuple) and rtt[1][0] == "opt") else "false"
                        elif ltt == rtt[1]:
                            c = f"(dHas {rt} {lt})"
                        else:
                            raise Unsupported("membership test types")
                        parts.append(f"(!{c})" if isinstance(op, ast.NotIn) else c)
                        lt, ltt = rt, rtt
                        continue
                    if rtt not in (L(ltt), ("set", ltt)):
                        raise Unsupported("membership test types")
                    c = f"(({rt}).contains {lt})"
                    parts.append(f"(!{c})" if isinstance(op, ast.NotIn) else c)
                else:
                    rt, rtt = self.expr(right, env, binds)
                    sym = {ast.Eq: "=", ast.NotEq: "≠", ast.Lt: "<", ast.LtE: "≤", ast.Gt: ">", ast.GtE: "≥"}.get(type(op))
                    if sym is None:
                        raise Unsupported("comparison operator")
                    if ltt == "nat" and rtt == "int":
                        lt, ltt = f"(Int.ofNat {lt})", "int"
                    if sym not in ("=", "≠") and ltt == O("int"):
                        nm = self.fresh(); binds.append((nm, f"(PyRt.needInt {lt})", "int")); lt, ltt = nm, "int"
                    if sym not in ("=", "≠") and rtt == O("int"):
                        nm = self.fresh(); binds.append((nm, f"(PyRt.needInt {rt})", "int")); rt, rtt = nm, "int"
                    if sym in ("=", "≠") and rtt == O(ltt):
                        lt, ltt = f"(some {lt})", rtt           # a value compared with a value-or-None
                    elif sym in ("=", "≠") and ltt == O(rtt):
                        rt, rtt = f"(some {rt})", ltt
                    if sym in ("=", "≠") and ltt == rtt and ltt in (O("str"), O("int")):
                        parts.append(f"decide ({lt} {sym} {rt})")
                        lt, ltt = rt, rtt
                        continue
                    if ltt != rtt or ltt not in ("int", "str", "bytes", "bool") or (ltt != "int" and sym not in ("=", "≠")):
                        raise Unsupported(f"comparison of {ltt} and {rtt}")
                    parts.append(f"decide ({lt} {sym} {rt})")
                lt, ltt = rt, rtt
            return "(" + " && ".join(parts) + ")", "bool"
        if isinstance(e, ast.BoolOp) and isinstance(e.op, ast.Or) and len(e.values) == 2:
            a0, ta0 = self.expr(e.values[0], env, binds)
            if ta0 == O("int"):
                rhs, trhs = self.impure(e.values[1], env)
                if trhs != "int":
                    raise Unsupported("`x or y` operand types")
                nm = self.fresh()
                binds.append((nm, f"(match {a0} with | some v => if v ≠ 0 then .ok v else {rhs} | none => {rhs})", "int"))
                return nm, "int"
            if isinstance(e.values[1], (ast.Tuple, ast.List)) and not e.values[1].elts and isinstance(ta0, tuple) and ta0[0] == "opt" \
                    and isinstance(ta0[1], tuple) and ta0[1][0] in ("list", "set"):
                # `xs or ()` for a collection-or-None: the collection (an empty one and None both give the empty tuple)
                return f"(({a0}).getD [])", ta0[1]
            sub = []
            a, ta = self.expr(e.values[0], env, sub)
            b, tb = self.expr(e.values[1], env, sub)
            if not sub and ta == O("str") and tb == "str":
                # `x or "default"` for a str-or-None x: x when it is a non-empty str
                return f"(match {a} with | some (c :: cs) => (c :: cs) | _ => {b})", "str"
            if not sub and tb == "emptylist" and isinstance(ta, tuple) and ta[0] == "opt" and isinstance(ta[1], tuple) and ta[1][0] in ("list", "set"):
                # `xs or ()` for a collection-or-None: the collection (an empty one and None both give the empty tuple)
                return f"(({a}).getD [])", ta[1]
        if isinstance(e, ast.BoolOp):
            # short-circuit; later operands may be impure (`self.rows and isinstance(self.rows[0], Gap)`)
            is_and = isinstance(e.op, ast.And)
            first, tf = self.expr(e.values[0], env, binds)
            acc = self.truthy(first, tf)
            for v in e.values[1:]:
                sub = []
                t, ty = self.expr(v, env, sub)
                tv = self.truthy(t, ty)
                if not sub:
                    acc = f"({acc} && {tv})" if is_and else f"({acc} || {tv})"
                else:
                    rhs = self.wrap_term(sub, f"(.ok {tv})")
                    nm = self.fresh()
                    binds.append((nm, (f"(if {acc} = true then {rhs} else .ok false)" if is_and else f"(if {acc} = true then .ok true else {rhs})"), "bool"))
                    acc = nm
            return acc, "bool"
        if isinstance(e, ast.IfExp) and isinstance(e.test, ast.UnaryOp) and isinstance(e.test.op, ast.Not):
            # NORMAL FORM: `B if not C else A` is `A if C else B`
            return self.expr(ast.IfExp(test=e.test.operand, body=e.orelse, orelse=e.body), env, binds)
        if isinstance(e, ast.IfExp) and isinstance(e.body, ast.List) and len(e.body.elts) == 1 and isinstance(e.orelse, ast.List) and not e.orelse.elts \
                and ast.dump(e.body.elts[0]) == ast.dump(e.test):
            # `[x] if x else []` for an optional object: the list of what is there
            t, ty = self.expr(e.test, env, binds)
            if isinstance(ty, tuple) and ty[0] == "opt" and ty[1] in ("gap", "frag", "row", "scaffold"):
                return f"(({t}).toList)", L(ty[1])
            raise Unsupported("`[x] if x else []` on a non-optional")
        if isinstance(e, ast.IfExp) and isinstance(e.test, ast.Name) and env.get(e.test.id) == O("str") and isinstance(e.orelse, ast.Constant) and e.orelse.value is None:
            # `f(x) if x else None` for a str-or-None x
            x = e.test.id
            env2 = dict(env)
            env2[x] = "str"
            sub = []
            a, ta = self.expr(e.body, env2, sub)
            if sub:
                raise Unsupported("impure conditional on an optional str")
            return f"(match {mg(x)} with | some (c :: cs) => (let {mg(x)} : Str := c :: cs; some {a}) | _ => none)", O(ta)
        if isinstance(e, ast.IfExp) and isinstance(e.test, ast.Name) and self.spec.get("p2") and isinstance(env.get(e.test.id), tuple) and env[e.test.id][0] == "opt" \
                and isinstance(env[e.test.id][1], tuple) and env[e.test.id][1][0] == "match":
            # `f(m) if m else g` for a regex match object or None: inside the first branch m is the match
            x = e.test.id
            env2 = dict(env)
            env2[x] = env[x][1]
            sa, sb = [], []
            a, ta = self.expr(e.body, env2, sa)
            b, tb = self.expr(e.orelse, env, sb)
            if sa or sb:
                raise Unsupported("impure conditional on a match object")
            if tb == "none" and not (isinstance(ta, tuple) and ta[0] == "opt"):
                a, ta, b, tb = f"(some {a})", O(ta), "none", O(ta)
            if ta != tb:
                raise Unsupported("conditional expression with different types")
            return f"(match {mg(x)} with | some {mg(x)} => {a} | none => {b})", ta
        if isinstance(e, ast.IfExp):
            c, tc = self.expr(e.test, env, binds)
            c = self.truthy(c, tc)
            sa, sb = [], []
            a, ta = self.expr(e.body, env, sa)
            b, tb = self.expr(e.orelse, env, sb)
            if tb == "emptylist" and isinstance(ta, tuple) and ta[0] == "list":
                b, tb = "[]", ta
            if ta == "emptylist" and isinstance(tb, tuple) and tb[0] == "list":
                a, ta = "[]", tb
            if {ta, tb} == {"int", "str"}:
                wrap = lambda t, ty: f"(PyRt.KeyTok.num {t})" if ty == "int" else f"(PyRt.KeyTok.txt {t})"
                a, b = wrap(a, ta), wrap(b, tb)
                ta = tb = "keytok"
            if ta == O(tb):
                b, tb = f"(some {b})", ta
            elif tb == O(ta):
                a, ta = f"(some {a})", tb
            elif tb == "none" and self.spec.get("p2") and not (isinstance(ta, tuple) and ta[0] == "opt"):
                a, ta, tb = f"(some {a})", O(ta), O(ta)
            if ta != tb:
                raise Unsupported("conditional expression with different types")
            if not sa and not sb:
                return f"(if {c} = true then {a} else {b})", ta
            nm = self.fresh()
            binds.append((nm, f"(if {c} = true then {self.wrap_term(sa, f'(.ok {a})')} else {self.wrap_term(sb, f'(.ok {b})')})", ta))
            return nm, ta
        if isinstance(e, ast.JoinedStr):
            parts = []
            for v in e.values:
                if isinstance(v, ast.Constant):
                    parts.append(lit_str(v.value))
                elif isinstance(v, ast.FormattedValue) and v.format_spec is None and v.conversion == -1:
                    t, ty = self.expr(v.value, env, binds)
                    if ty == "str":
                        parts.append(t)
                    elif ty == "int":
                        parts.append(f"(intToStr {t})")
                    elif ty == O("str"):
                        parts.append(f"(PyRt.optStrText {t})")
                    else:
                        raise Unsupported("f-string field type")
                else:
                    raise Unsupported("f-string format")
            return "(" + " ++ ".join(parts or ['([] : Str)']) + ")", "str"
        if isinstance(e, ast.GeneratorExp) or isinstance(e, ast.ListComp):
            g0 = e.generators[0] if len(e.generators) == 1 else None
            if g0 is not None and isinstance(g0.target, ast.Tuple) and len(g0.target.elts) == 2 and all(isinstance(z, ast.Name) for z in g0.target.elts) \
                    and isinstance(g0.iter, ast.Call) and isinstance(g0.iter.func, ast.Name) and g0.iter.func.id == "enumerate" and len(g0.iter.args) == 1 and not g0.ifs:
                # (f(i, x) for i, x in enumerate(xs)): element by element, possibly raising
                src, ts = self.expr(g0.iter.args[0], env, binds)
                if not (isinstance(ts, tuple) and ts[0] == "list"):
                    raise Unsupported("enumerate of a non-list")
                i, x = g0.target.elts[0].id, g0.target.elts[1].id
                env2 = dict(env)
                env2[i], env2[x] = "int", ts[1]
                it, tit = self.impure(e.elt, env2)
                nm = self.fresh()
                binds.append((nm, f"((PyRt.enumerate {src}).mapM (fun (({mg(i)}, {mg(x)}) : Int × {lean_ty(ts[1])}) => {it}))", L(tit)))
                return nm, L(tit)
            if len(e.generators) != 1 or e.generators[0].is_async or not isinstance(e.generators[0].target, ast.Name):
                raise Unsupported("comprehension shape")
            g = e.generators[0]
            src, ts = self.expr(g.iter, env, binds)
            if not (isinstance(ts, tuple) and ts[0] == "list"):
                raise Unsupported("comprehension over a non-list")
            x = g.target.id
            env2 = dict(env)
            env2[x] = ts[1]
            term = src
            sub_try = []
            try:
                self.expr(e.elt, env2, sub_try)
            except Unsupported:
                sub_try = []
            if sub_try and not g.ifs:
                it, tit = self.impure(e.elt, env2)
                nm = self.fresh()
                binds.append((nm, f"(({src}).mapM (fun ({mg(x)} : {lean_ty(ts[1])}) => {it}))", L(tit)))
                return nm, L(tit)
            for cond in g.ifs:
                sub = []
                c, tc = self.expr(cond, env2, sub)
                if sub:
                    raise Unsupported("impure comprehension filter")
                term = f"(({term}).filter (fun ({mg(x)} : {lean_ty(ts[1])}) => {self.truthy(c, tc)}))"
            sub = []
            el, tel = self.expr(e.elt, env2, sub)
            if sub:
                raise Unsupported("impure comprehension element")
            if not (isinstance(e.elt, ast.Name) and e.elt.id == x):
                term = f"(({term}).map (fun ({mg(x)} : {lean_ty(ts[1])}) => {el}))"
            return term, L(tel)
        if isinstance(e, ast.Call):
            return self.call(e, env, binds)
        raise Unsupported(type(e).__name__)

    def call(self, e, env, binds):
        f = e.func
        path = dotted(f)
        if path and path.split(".")[0] in self.aliases:
            path = ".".join([self.aliases[path.split(".")[0]]] + path.split(".")[1:])
        if isinstance(f, ast.Attribute):
            hit = self.kmethod(f, env)
            if hit:
                return self.kcall(hit[0], hit[1], e, env, binds)
            if self.spec.get("p2") and f.attr == "setdefault" and len(e.args) == 2 and not e.keywords and isinstance(f.value, ast.Name) \
                    and isinstance(env.get(f.value.id), tuple) and env[f.value.id][0] == "dict" and env[f.value.id][2] == "aref" and "heap_a" in env:
                # d.setdefault(key, Assembly(...)): the reference stored under the key; a new object is allocated only when the key is new
                d = f.value.id
                k, tk = self.expr(e.args[0], env, binds)
                k = self.coerce(k, tk, env[d][1])
                v, tv = self.expr(e.args[1], env, binds)
                if tv != "asmobj":
                    raise Unsupported("setdefault default type")
                nm = self.fresh("sd")
                binds.append((nm, f"(PyRt.refSetDefault {mg(d)} heap_a {k} {v})", ("raw", f"({lean_ty(env[d])} × {lean_ty(env['heap_a'])} × Nat)"), "let"))
                binds.append((mg(d), f"{nm}.1", env[d], "let"))
                binds.append(("heap_a", f"{nm}.2.1", env["heap_a"], "let"))
                self.let_log += [d, "heap_a"]
                return f"{nm}.2.2", "aref"
        if self.spec.get("p2") and dotted(f) == "io.StringIO" and not e.args and not e.keywords:
            return "([] : Str)", "sink_str"        # a text buffer only ever appended to (`write`) and read whole (`getvalue`, `tell`)
        if self.spec.get("p2") and isinstance(f, ast.Name):
            r = self.p2_builtin(f.id, e, env, binds)
            if r is not None:
                return r
        if path and path in self.spec.get("alloc_calls", {}) and "store" in env:
            # a call that CREATES an OverlapResult (or returns None): the new object gets the next free place in the store, the value is a reference
            argt = self.spec["alloc_calls"][path]
            args = [self.coerce(*self.expr(a, env, binds), w) for a, w in zip(e.args, argt)]
            nm = path.replace(".", "_")
            self.param(nm, ("fun", argt, O("ovres"), True))
            v = self.fresh("new")
            at = self.fresh("at")
            binds.append((v, "(" + " ".join([nm] + args) + ")", O("ovres")))
            binds.append((at, "store.length", "nat", "let"))
            binds.append(("store", f"(match {v} with | some o => store ++ [({{ o := o, added := false }} : Res)] | none => store)", "store", "let"))
            return f"(({v}).map (fun _ => {at}))", O("ovref")
        if path and path in self.spec.get("opaque", {}):
            argt, rty, imp = self.spec["opaque"][path]
            if e.keywords or len(e.args) != len(argt):
                raise Unsupported(f"call shape of {path}")
            args = []
            root = path.split(".")[0]
            if "." in path and self.aliases.get(root, root) in env and isinstance(f, ast.Attribute):
                # a method of a LOCAL object (a loop variable …): the receiver is the first argument of the parameter function
                rt, rty_ = self.expr(f.value, env, binds)
                args.append(rt)
                argt = [rty_] + list(argt)
                e = ast.Call(func=e.func, args=[f.value] + list(e.args), keywords=[])
            for a, want in zip(e.args[len(args):], argt[len(args):]):
                if want == "skip":
                    continue                      # an object argument the callee only uses for what the kernel's theorem supplies separately
                t, ty = self.expr(a, env, binds)
                args.append(self.coerce(t, ty, want))
            nm = path.replace(".", "_")
            argt = [a for a in argt if a != "skip"]
            self.param(nm, ("fun", argt, rty, imp))
            term = "(" + " ".join([nm] + args) + ")"
            if imp:
                v = self.fresh()
                binds.append((v, term, rty))
                return v, rty
            return term, rty
        if isinstance(f, ast.Attribute) and f.attr == "to_scaffold" and not e.args and isinstance(f.value, ast.Name) and env.get(f.value.id) == "ovref" and "store" in env:
            nm = self.fresh("ts")
            binds.append((nm, f"(OverlapResult_to_scaffold (getRes store {mg(f.value.id)}))", "scaffold"))
            return nm, "scaffold"
        if dotted(f) == "self.gaps_before_leftover" and len(e.args) == 2 and self.spec.get("build_assembly") and "heap_b" in env:
            (a, ta), (b, tb) = self.expr(e.args[0], env, binds), self.expr(e.args[1], env, binds)
            if (ta, tb) != ("bsref", "lref"):
                raise Unsupported("gaps_before_leftover arguments")
            nm = self.fresh("gb")
            binds.append((nm, f"(BuildAssembly_gaps_before_leftover (PyRt.bsGet heap_b {a}) (PyRt.loGet heap_lo {b}).2 self_default_gap)", L("row")))
            return nm, L("row")
        if dotted(f) == "self.input_predecessor" and len(e.args) == 2 and not e.keywords and self.spec.get("build_assembly"):
            (a, ta), (b, tb) = self.expr(e.args[0], env, binds), self.expr(e.args[1], env, binds)
            nm = self.fresh("ip")
            binds.append((nm, f"(BuildAssembly_input_predecessor {self.coerce(a, ta, 'scaffold')} {self.coerce(b, tb, 'int')})", O(("tuple", ["row", L("row")]))))
            return nm, O(("tuple", ["row", L("row")]))
        if dotted(f) == "re.split" and len(e.args) == 2 and not e.keywords and isinstance(e.args[0], ast.Constant) and e.args[0].value in REGEX_SPLIT:
            t, ty = self.expr(e.args[1], env, binds)
            if ty != "str":
                raise Unsupported("re.split on a non-str")
            return REGEX_SPLIT[e.args[0].value].format(t), L("str")
        if dotted(f) == "re.finditer" and len(e.args) == 2 and isinstance(e.args[0], ast.Constant) and e.args[0].value == b"[ACGTacgt]+":
            # the ACGT runs of a bytes value (the model's `acgtRuns`; the pattern text is guarded by T1)
            t, ty = self.expr(e.args[1], env, binds)
            if ty != "bytes":
                raise Unsupported("finditer on a non-bytes value")
            return f"(acgtRuns 0 none {t})", L(("tuple", ["nat", "nat"]))
        if dotted(f) in ("re.match", "re.fullmatch", "re.search") and len(e.args) == 2 and not e.keywords and isinstance(e.args[0], ast.Constant) and isinstance(e.args[0].value, str):
            pat = e.args[0].value
            if pat not in REGEX or REGEX[pat][2] != dotted(f)[3:]:
                raise Unsupported(f"regular expression {dotted(f)}({pat!r}) has no matcher in the model")
            t, ty = self.expr(e.args[1], env, binds)
            if ty != "str":
                raise Unsupported("re.match on a non-str")
            tmpl, rty, _ = REGEX[pat]
            return tmpl.format(t), rty
        if isinstance(f, ast.Name) and f.id == "tuple" and len(e.args) == 1 and not e.keywords:
            t, ty = self.expr(e.args[0], env, binds)
            if isinstance(ty, tuple) and ty[0] == "list":
                return t, ty
            raise Unsupported("tuple() of a non-list")
        if isinstance(f, ast.Name) and f.id == "Gap" and not e.args and {k.arg for k in e.keywords} == {"length", "gap_type"}:
            kw = {k.arg: k.value for k in e.keywords}
            order = [k.arg for k in e.keywords]
            vals = {}
            for k in order:                       # keyword arguments are evaluated in the order written
                vals[k] = self.expr(kw[k], env, binds)
            ln, tl = vals["length"]
            gt, tg = vals["gap_type"]
            if tg != "str":
                raise Unsupported("Gap(gap_type=…) type")
            if tl == "str":                       # Gap.__init__: int(length) — ValueError for text that is not an integer
                nm = self.fresh()
                binds.append((nm, f"(pyInt {ln})", "int"))
                ln = nm
            elif tl != "int":
                raise Unsupported("Gap(length=…) type")
            return f"({{ length := {ln}, gapType := {gt} }} : Gap)", "gap"
        if isinstance(f, ast.Name) and f.id == "Fragment" and not e.args and {k.arg for k in e.keywords} in ({"name", "start", "end", "strand", "tags"}, {"name", "start", "end", "strand"}) \
                and "nextOid" in env:
            vals = {}
            for k in e.keywords:                  # evaluated in the order written
                vals[k.arg] = self.expr(k.value, env, binds)
            def as_int(key):                      # Fragment.__init__: int(start) / int(end) / int(strand), in that order
                t, ty = vals[key]
                if ty == "str":
                    nm = self.fresh()
                    binds.append((nm, f"(pyInt {t})", "int"))
                    return nm
                if ty != "int":
                    raise Unsupported(f"Fragment({key}=…) type")
                return t
            if vals["name"][1] != "str":
                raise Unsupported("Fragment(name=…) type")
            st, en, sd = as_int("start"), as_int("end"), as_int("strand")
            tags = self.coerce(*vals["tags"], L("str")) if "tags" in vals else "[]"
            v = self.fresh()
            binds.append((v, f"(mkFragment nextOid {vals['name'][0]} {st} {en} {sd} {tags})", "frag"))
            binds.append(("nextOid", "(nextOid + 1)", "nat", "let"))
            return v, "frag"
        if isinstance(f, ast.Name) and f.id == "FoundFragment" and len(e.args) == 1 and not e.keywords and "heap_ff" in env:
            t, ty = self.expr(e.args[0], env, binds)
            if ty != "frag":
                raise Unsupported("FoundFragment(fragment) type")
            r = self.fresh("ref")
            binds.append((r, "heap_ff.length", "ffref", "let"))
            binds.append(("heap_ff", f"(heap_ff ++ [({{ fragment := {t}, scaffolds := [] }} : Found)])", L("found"), "let"))
            return r, "ffref"
        if isinstance(f, ast.Name) and f.id == "OverhangResolver" and len(e.args) == 1 and not e.keywords:
            # a new resolver object: its state is the (empty) dictionary of premise lists; the error length is remembered by name
            t, ty = self.expr(e.args[0], env, binds)
            if ty != "int":
                raise Unsupported("OverhangResolver(error_length) type")
            self.resolver_err = t
            return "[]", ("dict", KEY_T, L("premise"))
        if isinstance(f, ast.Name) and f.id == "Scaffold" and len(e.args) == 1 and not e.keywords and "heap_lo" in env:
            t, ty = self.expr(e.args[0], env, binds)
            if ty != "str":
                raise Unsupported("Scaffold(name) type")
            r = self.fresh("ref")
            binds.append((r, "heap_lo.length", "lref", "let"))
            binds.append(("heap_lo", f"(heap_lo ++ [(({{ name := {t} }} : Scaffold), none)])", L(LO_T), "let"))
            return r, "lref"
        if isinstance(f, ast.Name) and f.id == "all" and len(e.args) == 1 and isinstance(e.args[0], ast.GeneratorExp) and not e.keywords:
            g = e.args[0]
            if len(g.generators) != 1 or g.generators[0].ifs or not isinstance(g.generators[0].target, ast.Name):
                raise Unsupported("all() shape")
            src, ts = self.expr(g.generators[0].iter, env, binds)
            if not (isinstance(ts, tuple) and ts[0] == "list"):
                raise Unsupported("all() over a non-list")
            x = g.generators[0].target.id
            env2 = dict(env)
            env2[x] = ts[1]
            sub = []
            c, tc = self.expr(g.elt, env2, sub)
            if sub:
                raise Unsupported("impure all() element")
            return f"(({src}).all (fun ({mg(x)} : {lean_ty(ts[1])}) => {self.truthy(c, tc)}))", "bool"
        if isinstance(f, ast.Name) and f.id == "Scaffold" and len(e.args) == 1 and not e.keywords and "heap_sc" in env:
            # a NEW Scaffold object: allocated in the arena of scaffolds, the value is a reference to it
            t, ty = self.expr(e.args[0], env, binds)
            if ty != "str":
                raise Unsupported("Scaffold(name) type")
            r = self.fresh("ref")
            binds.append((r, "heap_sc.length", "scref", "let"))
            binds.append(("heap_sc", f"(heap_sc ++ [({{ name := {t} }} : Scaffold)])", L("scaffold"), "let"))
            return r, "scref"
        if isinstance(f, ast.Attribute) and dotted(f) == "io.BytesIO":
            f = ast.Name(id="BytesIO", ctx=ast.Load())
        if isinstance(f, ast.Name) and not e.keywords:
            n = f.id
            if n == "isinstance" and len(e.args) == 2 and isinstance(e.args[1], ast.Name):
                t, ty = self.expr(e.args[0], env, binds)
                if ty != "row":
                    raise Unsupported("isinstance on a non-row")
                if e.args[1].id == "Gap":
                    return f"(Row.isGap {t})", "bool"
                if e.args[1].id == "Fragment":
                    return f"(!(Row.isGap {t}))", "bool"
                raise Unsupported("isinstance class")
            if n == "len" and len(e.args) == 1:
                t, ty = self.expr(e.args[0], env, binds)
                if isinstance(ty, tuple) and ty[0] in ("list", "set") or ty in ("str", "bytes"):
                    return f"(Int.ofNat ({t}).length)", "int"
                raise Unsupported("len of non-sequence")
            if n == "str" and len(e.args) == 1:
                t, ty = self.expr(e.args[0], env, binds)
                if ty == "int":
                    return f"(intToStr {t})", "str"
                if ty == "str":
                    return t, "str"
                raise Unsupported("str() of " + str(ty))
            if n in ("max", "min") and len(e.args) == 2:
                (a, ta), (b, tb) = self.expr(e.args[0], env, binds), self.expr(e.args[1], env, binds)
                if ta == tb == "int":
                    return f"({n} {a} {b})", "int"
            if n == "getattr" and len(e.args) == 3 and isinstance(e.args[1], ast.Constant) and isinstance(e.args[2], ast.Constant) and e.args[2].value is None \
                    and dotted(e.args[0]):
                path = dotted(e.args[0]) + "." + e.args[1].value
                if path not in self.spec.get("attr_params", {}):
                    raise Unsupported("getattr of an undeclared attribute")
                ty = self.spec["attr_params"][path]
                self.param(path.replace(".", "_"), ty)
                return path.replace(".", "_"), ty
            if n == "int" and len(e.args) == 1:
                t, ty = self.expr(e.args[0], env, binds)
                if ty == "str":
                    nm = self.fresh()
                    binds.append((nm, f"(pyInt {t})", "int"))
                    return nm, "int"
                if ty == "int":
                    return t, "int"
            if n == "abs" and len(e.args) == 1:
                t, ty = self.expr(e.args[0], env, binds)
                if ty == "int":
                    return f"(if {t} < 0 then -{t} else {t})", "int"
            if n in ("StartOverhangPremise", "EndOverhangPremise") and len(e.args) == 2:
                (a, ta), (b, tb) = self.expr(e.args[0], env, binds), self.expr(e.args[1], env, binds)
                if (ta, tb) != ("ovref", "frag"):
                    raise Unsupported("premise constructor arguments")
                kind = ".start" if n == "StartOverhangPremise" else ".stop"
                return f"({{ kind := {kind}, sid := {a}, fragment := {b} }} : Premise)", "premise"
            if n == "sum" and len(e.args) == 1:
                t, ty = self.expr(e.args[0], env, binds)
                if ty == L("int"):
                    return f"(PyRt.sum {t})", "int"
            if n == "Assembly" and len(e.args) == 1:
                t, ty = self.expr(e.args[0], env, binds)
                if ty != "str":
                    raise Unsupported("Assembly(name) type")
                return f"({{ name := {t} }} : Assembly)", "assembly"
            if n == "merge_assemblies" and len(e.args) == 1 and self.spec.get("cli_kernels"):
                t, ty = self.expr(e.args[0], env, binds)
                nm = self.fresh("mk")
                binds.append((nm, f"(merge_assemblies_imp {self.coerce(t, ty, L('assembly'))})", "assembly"))
                return nm, "assembly"
            if n == "BytesIO" and not e.args:
                return "({ data := [], pos := 0 } : PyRt.BytesIO)", "bytesio"
            if n == "FastaInfo" and len(e.args) == 4:
                xs = []
                vals = [self.expr(a, env, binds) for a in e.args]
                if all(ty == "str" for _, ty in vals):
                    # FastaInfo.__init__: int(length), int(file_offset), int(residues_per_line), int(max_line_length) — ValueError on bad text
                    for t, _ in vals:
                        nm = self.fresh()
                        binds.append((nm, f"(pyInt {t})", "int"))
                        xs.append(nm)
                    return f"({{ length := {xs[0]}, fileOffset := {xs[1]}, rpl := {xs[2]}, mll := {xs[3]} }} : FastaInfo)", "fastainfo"
                for t, ty in vals:
                    if ty == O("int"):
                        nm = self.fresh(); binds.append((nm, f"(PyRt.needInt {t})", "int")); t, ty = nm, "int"
                    if ty != "int":
                        raise Unsupported("FastaInfo(...) argument")
                    xs.append(t)
                return f"({{ length := {xs[0]}, fileOffset := {xs[1]}, rpl := {xs[2]}, mll := {xs[3]} }} : FastaInfo)", "fastainfo"
            if n == "Gap" and len(e.args) == 2:
                (a, ta), (b2, tb2) = self.expr(e.args[0], env, binds), self.expr(e.args[1], env, binds)
                if ta == O("int"):
                    nm = self.fresh(); binds.append((nm, f"(PyRt.needInt {a})", "int")); a, ta = nm, "int"
                if (ta, tb2) != ("int", "str"):
                    raise Unsupported("Gap(length, type) arguments")
                return f"({{ length := {a}, gapType := {b2} }} : Gap)", "gap"
            if n == "Fragment" and len(e.args) == 4 and "nextOid" in env:
                xs = [self.expr(a, env, binds) for a in e.args]
                want = ["str", "int", "int", "int"]
                args = []
                for (t, ty), w in zip(xs, want):
                    if ty == O(w):
                        nm = self.fresh(); binds.append((nm, f"(PyRt.{'needInt' if w == 'int' else 'needObj'} {t})", w)); t, ty = nm, w
                    args.append(self.coerce(t, ty, w))
                v = self.fresh()
                binds.append((v, "(mkFragment nextOid " + " ".join(args) + " [])", "frag"))
                binds.append(("nextOid", "(nextOid + 1)", "nat", "let"))
                return v, "frag"
            if n == "Scaffold" and len(e.args) == 1 and "heap_sc" not in env and "heap_lo" not in env:
                t, ty = self.expr(e.args[0], env, binds)
                if ty != "str":
                    raise Unsupported("Scaffold(name) type")
                return f"({{ name := {t} }} : Scaffold)", "scaffold"
            if n == "BytesIO" and len(e.args) == 1:
                t, ty = self.expr(e.args[0], env, binds)
                if ty != "bytes":
                    raise Unsupported("BytesIO() of a non-bytes value")
                return f"({{ data := {t}, pos := 0 }} : PyRt.BytesIO)", "bytesio"
            if n == "set" and not e.args:
                return "[]", "emptylist"
            if n in self.spec.get("ctors", {}):
                pass
            if n == "OverlapResult":
                raise Unsupported("positional OverlapResult(...)")
            if n == "Fragment" and len(e.args) == 5:
                xs = [self.expr(a, env, binds) for a in e.args]
                want = ["str", "int", "int", "int", L("str")]
                args = [self.coerce(t, ty, w) for (t, ty), w in zip(xs, want)]
                self.param("newOid", "nat")
                v = self.fresh()
                binds.append((v, "(mkFragment newOid " + " ".join(args) + ")", "frag"))
                return v, "frag"
        if isinstance(f, ast.Name) and f.id == "sorted" and len(e.args) == 1 and {k.arg for k in e.keywords} == {"key", "reverse"} \
                and any(k.arg == "reverse" and isinstance(k.value, ast.Constant) and k.value.value is True for k in e.keywords):
            lam = [k.value for k in e.keywords if k.arg == "key"][0]
            xs, tx = self.expr(e.args[0], env, binds)
            if not (isinstance(lam, ast.Lambda) and len(lam.args.args) == 1 and isinstance(tx, tuple) and tx[0] == "list"):
                raise Unsupported("sorted(reverse=True) shape")
            v = lam.args.args[0].arg
            env2 = dict(env)
            env2[v] = tx[1]
            sub = []
            kt, kty = self.expr(lam.body, env2, sub)
            if sub or kty != "int":
                raise Unsupported("sorted(reverse=True) key")
            return f"(sortByIntKeyDesc (fun ({mg(v)} : {lean_ty(tx[1])}) => {kt}) {xs})", tx
        if isinstance(f, ast.Name) and f.id == "zip" and len(e.args) == 2 and len(e.keywords) == 1 and e.keywords[0].arg == "strict" \
                and isinstance(e.keywords[0].value, ast.Constant) and e.keywords[0].value.value is True:
            (a, ta), (b, tb) = self.expr(e.args[0], env, binds), self.expr(e.args[1], env, binds)
            if not (isinstance(ta, tuple) and ta[0] == "list" and isinstance(tb, tuple) and tb[0] == "list"):
                raise Unsupported("zip of non-lists")
            nm = self.fresh()
            binds.append((nm, f"(PyRt.zipStrict {a} {b})", L(("tuple", [ta[1], tb[1]]))))
            return nm, L(("tuple", [ta[1], tb[1]]))
        if isinstance(f, ast.Name) and f.id == "sorted" and len(e.args) == 1 and len(e.keywords) == 1 and e.keywords[0].arg == "key" \
                and isinstance(e.keywords[0].value, ast.Lambda) and len(e.keywords[0].value.args.args) == 1:
            # sorted(xs, key=lambda v: (k1, k2)) with integer keys: Python's sort is stable and compares the key tuples lexicographically
            lam = e.keywords[0].value
            xs, tx = self.expr(e.args[0], env, binds)
            if not (isinstance(tx, tuple) and tx[0] == "list"):
                raise Unsupported("sorted() of a non-list")
            v = lam.args.args[0].arg

            def keys(var):
                env2 = dict(env)
                env2[var] = tx[1]
                body = ast.parse(ast.unparse(lam.body).replace(v, var), mode="eval").body if False else lam.body
                sub = []
                env2[v] = tx[1]
                els = body.elts if isinstance(body, ast.Tuple) else [body]
                out = []
                for el in els:
                    t, ty = self.expr(el, env2, sub)
                    if ty != "int" or sub:
                        raise Unsupported("sort key must be pure integers")
                    out.append(t)
                return out
            try:
                ks = keys(v)
            except Unsupported:
                # a key that may raise / reads the store: all keys are computed first, then a stable sort (PyRt.sortedByM)
                env2 = dict(env)
                env2[v] = tx[1]
                kt, kty = self.impure(lam.body, env2)
                if kty != "int":
                    raise Unsupported("sort key type")
                nm = self.fresh()
                binds.append((nm, f"(PyRt.sortedByM (fun ({mg(v)} : {lean_ty(tx[1])}) => {kt}) {xs})", tx))
                return nm, tx
            if len(ks) == 1:
                ks = ks + ["(0 : Int)"]
            if len(ks) != 2:
                raise Unsupported("sort key arity")
            kf = f"(fun ({mg(v)} : {lean_ty(tx[1])}) => (({ks[0]}, {ks[1]}) : Int × Int))"
            return f"(stableSort (fun a b => PyRt.lexLe2 ({kf} a) ({kf} b)) {xs})", tx
        if isinstance(f, ast.Name) and f.id == "Scaffold" and len(e.args) == 1 and {k.arg for k in e.keywords} == {"tag", "haplotype", "rank", "original_name", "original_tags"}:
            nm_, tn = self.expr(e.args[0], env, binds)
            kw = {k.arg: self.expr(k.value, env, binds) for k in e.keywords}
            want = {"tag": O("str"), "haplotype": O("str"), "rank": "int", "original_name": O("str"), "original_tags": O(L("str"))}
            a = {k: self.coerce(t, ty, want[k]) for k, (t, ty) in kw.items()}
            if tn != "str":
                raise Unsupported("Scaffold(...) name type")
            return (f"({{ name := {nm_}, tag := {a['tag']}, haplotype := {a['haplotype']}, rank := {a['rank']}, originalName := {a['original_name']}, "
                    f"originalTags := {a['original_tags']} }} : Scaffold)"), "scaffold"
        if isinstance(f, ast.Name) and f.id == "Scaffold" and len(e.args) == 2 and {k.arg for k in e.keywords} == {"original_name", "original_tags"}:
            kw = {k.arg: self.expr(k.value, env, binds) for k in e.keywords}
            nm, tn = self.expr(e.args[0], env, binds)
            rw, tr = self.expr(e.args[1], env, binds)
            if tn != "str" or tr != L("row"):
                raise Unsupported("Scaffold(...) argument types")
            on = self.coerce(*kw["original_name"], O("str"))
            ot = self.coerce(*kw["original_tags"], O(L("str")))
            # `Scaffold.__init__`: `str(name)`, rows copied (`[*rows]`, or `[]` when falsy — the same list), tag/haplotype None, rank 0
            return f"({{ name := {nm}, rows := {rw}, originalName := {on}, originalTags := {ot} }} : Scaffold)", "scaffold"
        if isinstance(f, ast.Attribute) and f.attr == "__class__" and isinstance(f.value, ast.Name) and env.get(f.value.id) == "scaffold" and len(e.args) == 1 \
                and {k.arg for k in e.keywords} == {"original_name", "original_tags"} and self.spec.get("p2"):
            # `self.__class__(…)` on a Scaffold: the class of the receiver is Scaffold here (OverlapResult, the subclass, has another constructor
            # signature and would raise TypeError: `Scaffold.reverse` is only ever called on plain scaffolds — stated in the tie)
            nm_, tn = self.expr(e.args[0], env, binds)
            kw = {k.arg: self.expr(k.value, env, binds) for k in e.keywords}
            if tn != "str":
                raise Unsupported("Scaffold(...) name type")
            return (f"({{ name := {nm_}, originalName := {self.coerce(*kw['original_name'], O('str'))}, "
                    f"originalTags := {self.coerce(*kw['original_tags'], O(L('str')))} }} : Scaffold)"), "scaffold"
        if isinstance(f, ast.Attribute) and f.attr == "__class__" and isinstance(f.value, ast.Name) and len(e.args) == 5 and not e.keywords:
            base, tb = self.expr(f.value, env, binds)
            if tb != "frag":
                raise Unsupported("__class__ of a non-Fragment")
            xs = [self.expr(a, env, binds) for a in e.args]
            want = ["str", "int", "int", "int", L("str")]
            args = [self.coerce(t, ty, w) for (t, ty), w in zip(xs, want)]
            self.param("newOid", "nat")
            v = self.fresh()
            binds.append((v, "(mkFragment newOid " + " ".join(args) + ")", "frag"))
            return v, "frag"
        if isinstance(f, ast.Name) and f.id == "OverlapResult" and not e.args:
            kw = {k.arg: k.value for k in e.keywords}
            if set(kw) != {"bait", "start", "end", "rows"}:
                raise Unsupported("OverlapResult(...) keywords")
            vals = {k: self.expr(v, env, binds) for k, v in kw.items()}
            want = {"bait": "frag", "start": "int", "end": "int", "rows": L("row")}
            a = {k: self.coerce(t, ty, want[k]) for k, (t, ty) in vals.items()}
            # `__init__`: no name given -> the display name "matches to …" (model: the constant `"matches"`), rows copied
            return (f"({{ bait := {a['bait']}, start := {a['start']}, stop := {a['end']}, rows := {a['rows']}, name := \"matches\".toList }} : OverlapResult)"), "ovres"
        if isinstance(f, ast.Attribute) and not e.keywords:
            m = f.attr
            # "\t".join(cols)
            if m == "join" and isinstance(f.value, ast.Constant) and isinstance(f.value.value, str) and len(f.value.value) == 1 and len(e.args) == 1:
                t, ty = self.expr(e.args[0], env, binds)
                if ty != L("str"):
                    raise Unsupported("join of a non-list-of-str")
                return f"(joinWith {char_lit(f.value.value)} {t})", "str"
            if m == "encode" and not e.args:
                t, ty = self.expr(f.value, env, binds)
                if ty == "str":
                    return f"(strToBytes {t})", "bytes"
            if m == "make_fixes" and not e.args and isinstance(f.value, ast.Name) and env.get(f.value.id) == ("dict", KEY_T, L("premise")) and "store" in env:
                # a call of ANOTHER TRANSLATED KERNEL (defined earlier in this file)
                nm = self.fresh("mf")
                binds.append((nm, f"(OverhangResolver_make_fixes_imp store {mg(f.value.id)} {self.resolver_err})", ("tuple", ["store", L("premise")])))
                binds.append(("store", f"{nm}.1", "store", "let"))
                return f"{nm}.2", L("premise")
            if isinstance(f.value, ast.Name) and f.value.id == "self" and env.get("self") == "namer" and m in SELF_KERNELS:
                # a method of `self` that is a translated kernel of its own (defined earlier in this file): self moves on, the result is the value
                lean, argt, rty = SELF_KERNELS[m]
                args = []
                for a, want in zip(e.args, argt):
                    t, ty = self.expr(a, env, binds)
                    if ty == O(want):               # a value-or-None where the callee at once uses it as an object: AttributeError on None
                        nm0 = self.fresh()
                        binds.append((nm0, f"(PyRt.needObj {t})", want))
                        t, ty = nm0, want
                    args.append(self.coerce(t, ty, want))
                nm = self.fresh("sk")
                binds.append((nm, "(" + " ".join([lean, "self"] + args) + ")", ("tuple", ["namer", rty])))
                binds.append(("self", f"{nm}.1", "namer", "let"))
                return f"{nm}.2", rty
            if m == "setdefault" and len(e.args) == 2 and isinstance(f.value, ast.Name) and isinstance(env.get(f.value.id), tuple) and env[f.value.id][0] == "dict" \
                    and env[f.value.id][2] == "bsref" and "heap_b" in env:
                # d.setdefault(key, Scaffold(...)): the constructor has no side effect, so the new object is allocated only when the key is new
                d = f.value.id
                k, tk = self.expr(e.args[0], env, binds)
                v, tv = self.expr(e.args[1], env, binds)
                if tv != "scaffold":
                    raise Unsupported("setdefault default type")
                nm = self.fresh("sd")
                binds.append((nm, f"(PyRt.bsSetDefault {mg(d)} heap_b {k} {v})", ("raw", f"({lean_ty(env[d])} × (List Scaffold) × Nat)"), "let"))
                binds.append((mg(d), f"{nm}.1", env[d], "let"))
                binds.append(("heap_b", f"{nm}.2.1", L("scaffold"), "let"))
                return f"{nm}.2.2", "bsref"
            if m == "setdefault" and len(e.args) == 2 and dotted(f.value) and isinstance(f.value, ast.Attribute) and isinstance(f.value.value, ast.Name) \
                    and (env.get(f.value.value.id), f.value.attr) in FIELD:
                # d.setdefault(k, v) on a dictionary attribute of a root object: the stored value is the result
                root, attr = f.value.value.id, f.value.attr
                d, td = self.expr(f.value, env, binds)
                k, tk = self.expr(e.args[0], env, binds)
                v, tv = self.expr(e.args[1], env, binds)
                if not (isinstance(td, tuple) and td[0] == "dict") or tk != td[1] or tv != td[2]:
                    raise Unsupported("setdefault types")
                nm = self.fresh("sd")
                binds.append((nm, f"(dSetDefault {d} {k} {v})", ("raw", f"({lean_ty(td)} × {lean_ty(td[2])})"), "let"))
                binds.append((mg(root), f"{{ {mg(root)} with {FIELD[(env[root], attr)]} := {nm}.1 }}", env[root], "let"))
                return f"{nm}.2", td[2]
            if m == "tell" and not e.args and isinstance(f.value, ast.Name) and f.value.id in self.spec.get("file_lines", {}):
                return "fh_pos", "int"
            if m == "pop" and len(e.args) == 1:
                # `xs.pop(i)` used as an expression: the list moves on, the popped element is the value
                cont, tc = self.expr(f.value, env, binds)
                i, ti = self.expr(e.args[0], env, binds)
                if not (isinstance(tc, tuple) and tc[0] == "list") or ti != "int":
                    raise Unsupported("pop shape")
                nm = self.fresh("pp")
                binds.append((nm, f"(PyRt.pop {cont} {i})", ("tuple", [tc[1], tc])))
                lines, _ = self.store_back(f.value, f"{nm}.2", tc, env)
                for l in lines:      # `let x : T := term`
                    head, term = l[4:].split(" := ", 1)
                    name, ty_txt = head.split(" : ", 1)
                    binds.append((name, term, ("raw", ty_txt), "let"))
                return f"{nm}.1", tc[1]
            b, tb = self.expr(f.value, env, binds)
            if tb in ("tsink", "tabres") and m in ("new_header", "new_row", "new_cell", "new_line"):
                self.sink_args(e.args, env, binds)          # building the report: nothing is kept
                return "()", "tsink"
            if tb == "binfile" and m == "read" and len(e.args) == 1 and isinstance(f.value, ast.Name):
                obj = self.aliases.get(f.value.id, f.value.id)
                n, tn = self.expr(e.args[0], env, binds)
                if tn != "int":
                    raise Unsupported("read() size")
                rd = self.fresh("rd")
                binds.append((rd, f"(PyRt.BinFile.read {mg(obj)} {n})", ("raw", "(List Nat × PyRt.BinFile)"), "let"))
                binds.append((mg(obj), f"{rd}.2", "binfile", "let"))       # the position moves on
                self.let_log.append(obj)
                return f"{rd}.1", "bytes"
            if tb == "sink_str" and m == "getvalue" and not e.args:
                return b, "str"
            if tb == "sink_str" and m == "tell" and not e.args:
                return f"(Int.ofNat ({b}).length)", "int"
            if tb == "str" and m == "replace" and len(e.args) == 3 and isinstance(e.args[2], ast.Constant) and e.args[2].value == 1:
                xs = []
                for a in e.args[:2]:
                    t, ty = self.expr(a, env, binds)
                    if ty != "str":
                        raise Unsupported("replace() argument")
                    xs.append(t)
                return f"(PyRt.strReplace1 {b} {xs[0]} {xs[1]})", "str"
            if tb == "str" and m == "replace" and len(e.args) == 2:
                xs = []
                for a in e.args:
                    t, ty = self.expr(a, env, binds)
                    if ty == O("str"):
                        nm = self.fresh()
                        binds.append((nm, f"(PyRt.needArg {t})", "str"))     # replace(None, …): TypeError
                        t, ty = nm, "str"
                    if ty != "str":
                        raise Unsupported("replace() argument")
                    xs.append(t)
                return f"(PyRt.strReplace {b} {xs[0]} {xs[1]})", "str"
            if tb == "str" and m == "startswith" and len(e.args) == 1 and not isinstance(e.args[0], ast.Constant):
                t, ty = self.expr(e.args[0], env, binds)
                if ty != "str":
                    raise Unsupported("startswith() argument")
                return f"(startsWith {t} {b})", "bool"
            if isinstance(tb, tuple) and tb[0] == "dict" and m == "keys" and not e.args:
                return f"(({b}).map (fun kv => kv.1))", L(tb[1])
            if tb == "ovref" and m == "trim_fragment" and len(e.args) == 3 and "nextOid" in env:
                # a mutating method reached through a reference, used as an expression: the store and the object-id counter move on
                args = [self.expr(a, env, binds) for a in e.args]
                if [t for _, t in args] != ["frag", "bool", "bool"]:
                    raise Unsupported("trim_fragment arguments")
                tf = self.fresh("tf")
                binds.append((tf, f"(OverlapResult.trimFragment (getRes store {b}) {args[0][0]} {args[1][0]} {args[2][0]} nextOid)", ("tuple", ["ovres", "frag"])))
                binds.append(("store", f"(PyRt.updRes store {b} {tf}.1)", "store", "let"))
                binds.append(("nextOid", "(nextOid + 1)", "nat", "let"))
                return f"{tf}.2", "frag"
            if tb == "ovref":
                b, tb = f"(getRes store {b})", "ovres"
            if tb == "ffref":
                b, tb = f"(PyRt.getFound heap_ff {b})", "found"
            if tb == O("str") and m == "lower":
                nm = self.fresh(); binds.append((nm, f"(PyRt.needObj {b})", "str")); b, tb = nm, "str"      # None.lower(): AttributeError
            key = (tb if isinstance(tb, str) else "-", m)
            if key in IMPURE_METHOD:
                argt, rty, tmpl = IMPURE_METHOD[key]
                args = [self.coerce(*self.expr(a, env, binds), w) for a, w in zip(e.args, argt)]
                nm = self.fresh()
                binds.append((nm, tmpl.format(b, *args), rty))
                return nm, rty
            if isinstance(tb, tuple) and tb[0] == "dict" and m == "values" and not e.args:
                return f"(({b}).map (fun kv => kv.2))", L(tb[2])
            if isinstance(tb, tuple) and tb[0] == "dict" and m == "items" and not e.args:
                return b, L(("tuple", [tb[1], tb[2]]))
            if tb == "assembly" and m == "fragment_junction_set" and not e.args:
                nm = self.fresh()
                binds.append((nm, f"(Assembly.junctionSet {b})", ("set", "junction")))
                return nm, ("set", "junction")
            if isinstance(tb, tuple) and tb[0] == "dict" and m == "get" and len(e.args) in (1, 2):
                k, tk = self.expr(e.args[0], env, binds)
                if tb[1] == O(tk) or (tk == "none" and isinstance(tb[1], tuple) and tb[1][0] == "opt"):
                    k, tk = self.coerce(k, tk, tb[1]), tb[1]
                if tk == O(tb[1]) and len(e.args) == 1:
                    return f"(match {k} with | some k => dGet? {b} k | none => none)", O(tb[2])      # no key is None
                if tk != tb[1]:
                    raise Unsupported("dict key type")
                if len(e.args) == 1:
                    return f"(dGet? {b} {k})", O(tb[2])
                d, td = self.expr(e.args[1], env, binds)     # the default is evaluated eagerly, as in Python
                if td != tb[2]:
                    raise Unsupported("dict default type")
                return f"((dGet? {b} {k}).getD {d})", tb[2]
            if tb == "path" and m == "open" and len(e.args) == 1:
                md, tm = self.expr(e.args[0], env, binds)
                if tm != "str":
                    raise Unsupported("open() mode")
                self.param("fs_open", ("fun", ["path", "str"], "fh", True))
                nm = self.fresh()
                binds.append((nm, f"(fs_open {b} {md})", "fh"))
                return nm, "fh"
            if tb == "path" and m == "exists" and not e.args:
                self.param("fs_exists", ("fun", ["path"], "bool", False))
                return f"(fs_exists {b})", "bool"
            if tb == "bytes" and m == "split" and not e.args:
                return f"(PyRt.bytesSplitWs {b})", L("bytes")
            if tb == "bytes" and m == "decode" and not e.args:
                nm = self.fresh()
                binds.append((nm, f"(bytesToStr {b})", "str"))
                return nm, "str"
            if tb == "bytesio" and m == "tell" and not e.args:
                return f"(Int.ofNat ({b}).pos)", "int"
            if tb == ("tuple", ["nat", "nat"]) and m in ("start", "end") and not e.args:
                return f"(Int.ofNat ({b}).{1 if m == 'start' else 2})", "int"
            if tb == "bytes" and m == "translate" and len(e.args) == 1 and isinstance(e.args[0], ast.Name) and e.args[0].id == "IUPAC_COMPLEMENT":
                # the module-level complement table: the model's `comp` reads the table EXTRACTED from the source (Gen.complementTable, T1)
                return f"(({b}).map comp)", "bytes"
            if isinstance(tb, tuple) and tb[0] == "match" and m == "group" and len(e.args) == 1 and isinstance(e.args[0], ast.Constant) \
                    and isinstance(e.args[0].value, int) and 1 <= e.args[0].value <= tb[1]:
                k, n = e.args[0].value - 1, tb[1]
                if n == 1:
                    return b, "str"
                proj = b + "".join(".2" for _ in range(k)) + (".1" if k < n - 1 else "")
                return f"({proj})", "str"
            if tb == "str" and m == "startswith" and len(e.args) == 1 and isinstance(e.args[0], ast.Constant) and isinstance(e.args[0].value, str):
                return f"(startsWith {lit_str(e.args[0].value)} {b})", "bool"
            if tb == "str" and m == "rstrip" and not e.args:
                return f"(rstripBy isSpace {b})", "str"
            if tb == "str" and m == "rstrip" and len(e.args) == 1 and isinstance(e.args[0], ast.Constant) and isinstance(e.args[0].value, str):
                chars = "[" + ", ".join(char_lit(c) for c in e.args[0].value) + "]"
                return f"(rstripBy (fun c => ({chars} : List Char).contains c) {b})", "str"
            if tb == "str" and m == "split" and len(e.args) == 1 and isinstance(e.args[0], ast.Constant) and isinstance(e.args[0].value, str) and len(e.args[0].value) == 1:
                return f"(splitOnChar {char_lit(e.args[0].value)} {b})", L("str")
            if tb == "str" and m == "translate" and len(e.args) == 1:
                tbl, tt = self.expr(e.args[0], env, binds)
                if tt != "trtable":
                    raise Unsupported("translate() table")
                return f"(({b}).map {tbl})", "str"
            if key in PURE_METHOD:
                argt, rty, tmpl = PURE_METHOD[key]
                args = [self.coerce(*self.expr(a, env, binds), w) for a, w in zip(e.args, argt)]
                return tmpl.format(b, *args), rty
        raise Unsupported("call " + (path or type(f).__name__))

    # ---------------------------------------------------------------------------------------------------------- phase 2: more of Python
    def keys_of(self, t, ty):
        """iterating a dictionary gives its keys (insertion order)"""
        if isinstance(ty, tuple) and ty[0] == "dict":
            return f"(({t}).map (fun kv => kv.1))", L(ty[1])
        if isinstance(ty, tuple) and ty[0] == "set":
            return t, L(ty[1])
        return t, ty

    def sink_args(self, args, env, binds):
        """arguments of a call on a report object (TerminalTable …): evaluated for the exceptions they may raise, the values are dropped.
        Module-level style constants (names that are neither variables nor parameters) are skipped; an f-string evaluates its fields."""
        for a in args:
            if isinstance(a, ast.Name) and self.aliases.get(a.id, a.id) not in env and a.id not in self.spec.get("params", {}):
                continue
            if isinstance(a, ast.JoinedStr):
                for v in a.values:
                    if isinstance(v, ast.FormattedValue):
                        self.expr(v.value, env, binds)
                continue
            self.expr(a, env, binds)

    def p2_builtin(self, n, e, env, binds):
        if n == "ChrGroup" and ("ChrGroup", "__init__") in KM and "heap_g" in env:
            self.kcall(KM[("ChrGroup", "__init__")], ("alloc_g",), e, env, binds)
            return self.alloc_ref, "gref"
        if n in SINK_CLASSES and not e.args and not e.keywords:
            return "false", "tabres"
        if n == "Assembly" and len(e.args) == 1 and [k.arg for k in e.keywords] == ["curated"]:
            nm, tn = self.expr(e.args[0], env, binds)
            cu, tc = self.expr(e.keywords[0].value, env, binds)
            if tn != "str" or tc != "bool":
                raise Unsupported("Assembly(name, curated=…) types")
            return f"({{ name := {nm}, curated := {cu} }} : PyRt.AsmObj)", "asmobj"
        if e.keywords:
            return None
        if n == "ord" and len(e.args) == 1 and isinstance(e.args[0], ast.Constant) and isinstance(e.args[0].value, str) and len(e.args[0].value) == 1:
            return f"({ord(e.args[0].value)} : Int)", "int"
        if n == "chr" and len(e.args) == 1:
            t, ty = self.expr(e.args[0], env, binds)
            if ty != "int":
                raise Unsupported("chr() of a non-int")
            nm = self.fresh()
            binds.append((nm, f"(PyRt.chr {t})", "str"))
            return nm, "str"
        if n == "max" and len(e.args) == 1:
            t, ty = self.expr(e.args[0], env, binds)
            if ty != L("int"):
                raise Unsupported("max() of a non-list-of-int")
            nm = self.fresh()
            binds.append((nm, f"(PyRt.maxList {t})", "int"))
            return nm, "int"
        if n in ("list", "set") and len(e.args) == 1:
            t, ty0 = self.expr(e.args[0], env, binds)
            t, ty = self.keys_of(t, ty0)
            if not (isinstance(ty, tuple) and ty[0] == "list"):
                raise Unsupported(f"{n}() of {ty}")
            if n == "set":
                if not (isinstance(ty0, tuple) and ty0[0] in ("dict", "set")):
                    raise Unsupported("set() of something that may hold duplicates")
                return t, ("set", ty[1])
            return t, ty
        if n == "str" and len(e.args) == 1:
            t, ty = self.expr(e.args[0], env, [])
            if ty == O("str"):
                t, ty = self.expr(e.args[0], env, binds)
                return f"(PyRt.optStrText {t})", "str"
        if n == "len" and len(e.args) == 1:
            t, ty = self.expr(e.args[0], env, [])
            if isinstance(ty, tuple) and ty[0] == "dict":
                t, ty = self.expr(e.args[0], env, binds)
                return f"(Int.ofNat ({t}).length)", "int"
        if n == "sorted" and len(e.args) == 1:
            t, ty = self.expr(e.args[0], env, binds)
            if ty in (L("str"), ("set", "str")):
                return f"(stableSort strLe {t})", L("str")
            raise Unsupported("sorted() without a key of " + str(ty))
        return None

    def p2_call_stmt(self, c, rest, env, loop, binds):
        f = c.func
        m = f.attr
        hit = self.kmethod(f, env)
        if hit:
            self.kcall(hit[0], hit[1], c, env, binds)        # the value (if any) is dropped
            return self.with_binds(binds, self.block(rest, env, loop))
        # D.get(k1).setdefault(k2, []).append(v) on the haplotype → original name → scaffolds dictionary of a ChrGroup
        if m == "append" and len(c.args) == 1 and not c.keywords and isinstance(f.value, ast.Call) and isinstance(f.value.func, ast.Attribute) \
                and f.value.func.attr == "setdefault" and len(f.value.args) == 2 and isinstance(f.value.args[1], ast.List) and not f.value.args[1].elts \
                and isinstance(f.value.func.value, ast.Call) and isinstance(f.value.func.value.func, ast.Attribute) and f.value.func.value.func.attr == "get" \
                and len(f.value.func.value.args) == 1:
            place = f.value.func.value.func.value
            d, td = self.expr(place, env, binds)
            if td != GDATA:
                raise Unsupported("get().setdefault().append() on another dictionary shape")
            k1, t1 = self.expr(f.value.func.value.args[0], env, binds)
            k2, t2 = self.expr(f.value.args[0], env, binds)
            v, tv = self.expr(c.args[0], env, binds)
            if (t1, t2, tv) != ("str", O("str"), "bsref"):
                raise Unsupported("get().setdefault().append() types")
            nm = self.fresh("ga")
            binds.append((nm, f"(PyRt.gdataAppend {d} {k1} {k2} {v})", GDATA))
            lines, env2 = self.store_back(place, nm, GDATA, env)
            return self.with_binds(binds, lines + self.block(rest, env2, loop))
        if m == "update" and len(c.args) == 1 and not c.keywords and isinstance(f.value, ast.Call) and isinstance(f.value.func, ast.Attribute) \
                and f.value.func.attr == "setdefault" and len(f.value.args) == 2 and isinstance(f.value.func.value, ast.Name) \
                and isinstance(f.value.args[1], ast.Call) and isinstance(f.value.args[1].func, ast.Name) and f.value.args[1].func.id == "set" and not f.value.args[1].args:
            # d.setdefault(k, set()).update(xs): the set stored under k (a new empty one if absent) takes the union
            d = f.value.func.value.id
            td = env.get(d)
            if not (isinstance(td, tuple) and td[0] == "dict" and isinstance(td[2], tuple) and td[2][0] == "set"):
                raise Unsupported("setdefault(...).update on another dictionary shape")
            k, tk = self.expr(f.value.args[0], env, binds)
            k = self.coerce(k, tk, td[1])
            v, tv = self.expr(c.args[0], env, binds)
            if tv != td[2]:
                raise Unsupported("update() argument type")
            return self.with_binds(binds, [self.let(d, td, f"dSet {mg(d)} {k} (sUnion ((dGet? {mg(d)} {k}).getD []) {v})")] + self.block(rest, env, loop))
        if m == "seek" and isinstance(f.value, ast.Name) and env.get(self.aliases.get(f.value.id, f.value.id)) == "binfile" and not c.keywords \
                and (len(c.args) == 1 or (len(c.args) == 2 and isinstance(c.args[1], ast.Constant) and c.args[1].value == 1)):
            obj = self.aliases.get(f.value.id, f.value.id)
            n, tn = self.expr(c.args[0], env, binds)
            if tn != "int":
                raise Unsupported("seek() offset")
            nm = self.fresh("sk")
            binds.append((nm, f"(PyRt.BinFile.{'seek' if len(c.args) == 1 else 'seekRel'} {mg(obj)} {n})", "binfile"))     # a negative position: OSError
            return self.with_binds(binds, [self.let(obj, "binfile", nm)] + self.block(rest, env, loop))
        if m == "mark_error" and not c.args and isinstance(f.value, ast.Name) and env.get(f.value.id) == "tabres":
            return [self.let(f.value.id, "tabres", "true")] + self.block(rest, env, loop)
        if m == "sort" and not c.args and {k.arg for k in c.keywords} <= {"key", "reverse"} and any(k.arg == "key" for k in c.keywords):
            # xs.sort(key=K[, reverse=True]): the keys are computed first (a failure leaves the list as it was), then a stable sort
            key = [k.value for k in c.keywords if k.arg == "key"][0]
            rev = [k.value for k in c.keywords if k.arg == "reverse"]
            if rev and not (isinstance(rev[0], ast.Constant) and rev[0].value is True):
                raise Unsupported("sort(reverse=…)")
            xs, tx = self.expr(f.value, env, binds)
            if isinstance(tx, tuple) and tx[0] == "opt" and isinstance(tx[1], tuple) and tx[1][0] == "list":
                nm0 = self.fresh()
                binds.append((nm0, f"(PyRt.needObj {xs})", tx[1]))       # None.sort: AttributeError
                xs, tx, was_opt = nm0, tx[1], True
            else:
                was_opt = False
            if not (isinstance(tx, tuple) and tx[0] == "list"):
                raise Unsupported("sort of a non-list")
            if isinstance(key, ast.Lambda) and len(key.args.args) == 1:
                v, body = key.args.args[0].arg, key.body
            elif isinstance(key, ast.Name) and key.id in getattr(self, "local_defs", {}):
                fn = self.local_defs[key.id]
                fbody = [st for st in fn.body if not (isinstance(st, ast.Expr) and isinstance(st.value, ast.Constant))]
                if len(fn.args.args) != 1 or not fbody or not isinstance(fbody[-1], ast.Return) \
                        or not all(isinstance(st, ast.Assign) and len(st.targets) == 1 and isinstance(st.targets[0], ast.Name) and dotted(st.value) for st in fbody[:-1]):
                    raise Unsupported("sort key function shape")
                # NORMAL FORM: locals that only name an attribute path (`rank = scaffold.rank`) are written back into the returned expression — sound
                # when they appear there in the order they were assigned and before anything else is evaluated (checked)
                ret_e = fbody[-1].value
                subst = {st.targets[0].id: st.value for st in fbody[:-1]}
                order_ = [n.id for n in ast.walk(ret_e) if isinstance(n, ast.Name) and n.id in subst]
                leaves = []
                def walk_eval(e_):
                    if isinstance(e_, ast.Tuple):
                        for x in e_.elts:
                            walk_eval(x)
                    else:
                        leaves.append(e_)
                walk_eval(ret_e)
                if subst and not (order_ == list(subst) and all(isinstance(l, ast.Name) and l.id == k for l, k in zip(leaves, subst))):
                    raise Unsupported("sort key function: locals are not used in the order they are assigned")

                class SubK(ast.NodeTransformer):
                    def visit_Name(self, node):
                        return subst.get(node.id, node)
                v, body = fn.args.args[0].arg, SubK().visit(ast.parse(ast.unparse(ret_e), mode="eval").body)
            else:
                raise Unsupported("sort key")
            env2 = dict(env)
            env2[v] = tx[1]
            kb = []
            kt, kty = self.expr(body, env2, kb)
            if any(len(b) > 3 and b[3] == "let" and b[0] in env for b in kb):
                raise Unsupported("sort key with side effects")
            kterm = self.wrap_term(kb, f"(.ok {kt})")
            fn_ = f"(fun ({mg(v)} : {lean_ty(tx[1])}) => {kterm})"
            nm = self.fresh("so")
            if kty == "int" and rev:
                binds.append((nm, f"(PyRt.sortedByMDesc {fn_} {xs})", tx))
            elif kty == "int":
                binds.append((nm, f"(PyRt.sortedByM {fn_} {xs})", tx))
            elif kty == ("tuple", ["int", L("keytok")]) and not rev:
                binds.append((nm, f"(PyRt.sortedByKeyLt? PyRt.smartKeyLt? {fn_} {xs})", tx))
            else:
                raise Unsupported(f"sort key type {kty}")
            lines, env3 = self.store_back(f.value, f"(some {nm})" if was_opt else nm, O(tx) if was_opt else tx, env)
            return self.with_binds(binds, lines + self.block(rest, env3, loop))
        if m == "add_scaffold" and len(c.args) == 1 and not c.keywords and isinstance(f.value, ast.Name) and env.get(f.value.id) == "aref" and "heap_a" in env:
            v, tv = self.expr(c.args[0], env, binds)
            if tv != "bsref":
                raise Unsupported("Assembly.add_scaffold argument")
            return self.with_binds(binds, [self.let("heap_a", env["heap_a"], f"PyRt.aSet heap_a {mg(f.value.id)} (fun a => {{ a with scaffolds := a.scaffolds ++ [{v}] }})")]
                                   + self.block(rest, env, loop))
        if m == "append" and len(c.args) == 1 and not c.keywords and dotted(f.value) in self.spec.get("dict_roots", {}):
            nm_ = dotted(f.value).replace(".", "_")
            tc = env[nm_]
            if isinstance(tc, tuple) and tc[0] == "opt" and isinstance(tc[1], tuple) and tc[1][0] == "list":
                lst = self.fresh()
                binds.append((lst, f"(PyRt.needObj {mg(nm_)})", tc[1]))      # None.append: AttributeError
                v, tv = self.expr(c.args[0], env, binds)
                return self.with_binds(binds, [self.let(nm_, tc, f"(some ({lst} ++ [{self.coerce_elem(v, tv, tc[1][1])}]))")] + self.block(rest, env, loop))
        if m in ("new_header", "new_row", "new_cell", "new_line"):
            t, ty = self.call(c, env, binds)
            if ty == "tsink":
                return self.with_binds(binds, self.block(rest, env, loop))
        return None

    # ---------------------------------------------------------------------------------------------------------- calls of translated kernels (phase 2)
    def kmethod(self, f, env):
        """is `f` (an ast.Attribute used as a callee) a method that is a translated kernel?  -> (lean name, receiver description) or None"""
        if not self.spec.get("p2"):
            return None
        m, v = f.attr, f.value
        cls = self.spec.get("cls")
        if isinstance(v, ast.Name) and v.id == "self" and cls and (cls, m) in KM:
            return KM[(cls, m)], ("self",)
        if isinstance(v, ast.Name) and v.id in self.spec.get("field_objects", {}) and (self.spec["field_objects"][v.id], m) in KM:
            return KM[(self.spec["field_objects"][v.id], m)], ("fields", v.id)
        if dotted(v) in self.spec.get("path_objects", {}) and (self.spec["path_objects"][dotted(v)], m) in KM:
            return KM[(self.spec["path_objects"][dotted(v)], m)], ("path", dotted(v))
        if isinstance(v, ast.Name):
            ty = env.get(self.aliases.get(v.id, v.id))
            if isinstance(ty, str) and ty in REF_CLASS and (REF_CLASS[ty], m) in KM:
                return KM[(REF_CLASS[ty], m)], ("ref", ty, mg(self.aliases.get(v.id, v.id)))
            if isinstance(ty, str) and ty in VALUE_CLASS and (VALUE_CLASS[ty], m) in KM and "self" in SIGS.get(KM[(VALUE_CLASS[ty], m)], {"spec": {}})["spec"].get("params", {}):
                return KM[(VALUE_CLASS[ty], m)], ("value", mg(self.aliases.get(v.id, v.id)))
        return None

    def recv_read(self, recv, path, want, env, binds):
        """the current value of the attribute `path` of the receiver of a kernel call"""
        if recv[0] == "self":
            node = ast.parse("self." + path, mode="eval").body
            t, ty = self.expr(node, env, binds)
            return self.kcoerce(t, ty, want, env, binds)
        if recv[0] == "fields":
            n = recv[1] + "_" + path.replace(".", "_")
            if n not in env:
                raise Unsupported(f"field {n} of a local object is not known")
            return self.kcoerce(mg(n), env[n], want, env, binds)
        if recv[0] == "path":
            n = (recv[1] + "." + path).replace(".", "_")
            if n in env:
                return self.kcoerce(mg(n), env[n], want, env, binds)
            if n in self.spec.get("params", {}):
                self.param(mg(n), self.spec["params"][n])
                return mg(n)
            raise Unsupported(f"attribute {recv[1]}.{path} is not declared in the caller")
        if recv[0] == "ref" and recv[1] == "gref" and path == "data":
            return f"(PyRt.gGet heap_g {recv[2]})"
        if recv[0] == "ref" and recv[1] == "aref" and ("asmobj", path) in ATTR:
            return f"(PyRt.aGet heap_a {recv[2]}).{path}"
        raise Unsupported(f"receiver attribute {path}")

    def recv_write(self, recv, path, term, ty, env, binds):
        if recv[0] in ("self", "path"):
            n = (("self" if recv[0] == "self" else recv[1]) + "." + path).replace(".", "_")
            if n not in env:
                raise Unsupported(f"the callee changes {n}, which the caller does not declare as a root")
            binds.append((mg(n), term, env[n], "let"))
            self.let_log.append(n)
            return
        if recv[0] == "fields":
            n = recv[1] + "_" + path.replace(".", "_")
            binds.append((mg(n), term, ty, "let"))
            self.let_log.append(n)
            self.new_fields = getattr(self, "new_fields", {})
            self.new_fields[n] = ty
            return
        if recv[0] == "ref" and recv[1] == "gref" and path == "data":
            binds.append(("heap_g", f"(PyRt.gSet heap_g {recv[2]} {term})", env["heap_g"], "let"))
            self.let_log.append("heap_g")
            return
        if recv[0] == "ref" and recv[1] == "aref" and ("asmobj", path) in ATTR:
            binds.append(("heap_a", f"(PyRt.aSet heap_a {recv[2]} (fun a => {{ a with {path} := {term} }}))", env["heap_a"], "let"))
            self.let_log.append("heap_a")
            return
        if recv[0] == "alloc_g" and path == "data":
            ref = self.fresh("ref")
            binds.append((ref, "heap_g.length", "gref", "let"))
            binds.append(("heap_g", f"(heap_g ++ [{term}])", env["heap_g"], "let"))
            self.let_log.append("heap_g")
            self.alloc_ref = ref
            return
        raise Unsupported(f"receiver attribute {path} (write)")

    def kcoerce(self, t, ty, want, env, binds):
        if ty == want:
            return t
        if isinstance(ty, tuple) and ty[0] == "dict" and ty[2] == "aref" and want == ("dict", ty[1], "assembly") and "heap_a" in env and "heap_b" in env:
            return f"(PyRt.asmDictView heap_a heap_b {t})"       # the statistics read a snapshot of the assemblies
        return self.coerce(t, ty, want)

    def kcall(self, lean, recv, c, env, binds):
        """a call of a kernel translated EARLIER in the file.  The callee's parameters are filled BY NAME: the python-level parameters from the
        arguments (positional / keyword), `self_<attr>` from the receiver, the remaining ones (shared arenas …) from the caller's variable of
        the same name; its results are written back the same way.  Returns (value term, type)."""
        sig = SIGS.get(lean)
        if sig is None:
            raise Unsupported(f"kernel {lean} is not translated (it must come earlier in the file)")
        cspec, pyargs = sig["spec"], sig["pyargs"]
        given = {}
        for i, a in enumerate(c.args):
            if isinstance(a, ast.Starred) or i >= len(pyargs):
                raise Unsupported("kernel call arguments")
            given[pyargs[i]] = a
        for kw in c.keywords:
            if kw.arg is None or kw.arg not in pyargs or kw.arg in given:
                raise Unsupported("kernel call keyword")
            given[kw.arg] = kw.value

        def callee_path(n):
            for key in ("dict_roots", "attr_params", "opaque"):
                for pth in cspec.get(key, {}):
                    if pth.replace(".", "_") == n:
                        return pth
            return None
        # arguments are evaluated first, left to right (python parameters the callee declares but never uses are evaluated too)
        argvals = {}
        for name in [x for x in pyargs if x in given]:
            t, ty = self.expr(given[name], env, binds)
            if name in cspec.get("params", {}):
                argvals[name] = self.kcoerce(t, ty, cspec["params"][name], env, binds)
        terms = []
        bump_oid = False
        if sig["fuel"]:
            self.uses_fuel = True
            terms.append("fuel")
        for n, t in sig["params"]:
            base = n[:-2] if n.endswith("_v") and n[:-2] in RESERVED else n
            if base == "self" and recv[0] == "value":
                terms.append(recv[1])           # a method of an immutable value object: the object is the callee's `self` parameter
                continue
            if base in cspec.get("params", {}):
                if base not in argvals:
                    raise Unsupported(f"kernel call {lean}: argument {base} is missing")
                terms.append(argvals[base])
                continue
            pth = callee_path(n)
            if pth and pth.startswith("self."):
                terms.append(self.recv_read(recv, pth[5:], t, env, binds))
                continue
            if pth and pth.split(".")[0] in given:
                node = given[pth.split(".")[0]]
                for part in pth.split(".")[1:]:
                    node = ast.Attribute(value=node, attr=part, ctx=ast.Load())
                tt, ty = self.expr(node, env, binds)
                terms.append(self.kcoerce(tt, ty, t, env, binds))
                continue
            if n == "newOid" and "nextOid" in env:
                terms.append("nextOid")           # the callee creates ONE new Fragment object: it gets the next free object id
                bump_oid = True
                continue
            if n in env:
                terms.append(mg(n))
                continue
            if n in self.spec.get("reads", {}) or n in self.spec.get("params", {}):
                ty = self.spec.get("reads", {}).get(n) or self.spec["params"][n]
                self.param(mg(n), ty)
                terms.append(mg(n))
                continue
            raise Unsupported(f"kernel call {lean}: no value for parameter {n}")
        nm = self.fresh("kc")
        outs = list(sig["roots"])
        rparts = [lean_ty(t) for _, t in outs] + ([lean_ty(sig["ret"])] if sig["ret"] != "unit" else [])
        rty = "Unit" if not rparts else " × ".join(rparts)
        binds.append((nm, "(" + " ".join([lean] + terms) + ")", ("raw", f"({rty})")))
        if bump_oid:
            binds.append(("nextOid", "(nextOid + 1)", "nat", "let"))
            self.let_log.append("nextOid")
        n_parts = len(rparts)

        def proj(k):
            if n_parts == 1:
                return nm
            return nm + "".join(".2" for _ in range(k)) + (".1" if k < n_parts - 1 else "")
        value = None
        for k, (n, t) in enumerate(outs):
            pth = callee_path(n)
            if n == "yielded_":
                value = (proj(k), t)
                continue
            if pth and pth.startswith("self."):
                self.recv_write(recv, pth[5:], proj(k), t, env, binds)
                continue
            if t in ("sink_str", "sink_bytes") and n in env and env[n] == t:
                # an output the callee only appends to (it starts its own accumulator empty): what it wrote goes behind what the caller wrote
                binds.append((mg(n), f"({mg(n)} ++ {proj(k)})", t, "let"))
                self.let_log.append(n)
                continue
            if n in self.spec.get("drop_results", []):
                continue      # declared in the caller's spec: a value the callee returns UNCHANGED (e.g. the store the fuse generator only reads)
            if n in env and n in [r for r, _ in self.roots]:
                binds.append((mg(n), proj(k), env[n], "let"))
                self.let_log.append(n)
                continue
            raise Unsupported(f"kernel call {lean}: result {n} has no place in the caller")
        if sig["ret"] != "unit":
            value = (proj(n_parts - 1), sig["ret"])
        return value if value else ("()", "unit")

    # ---------------------------------------------------------------------------------------------------------- statements
    def result_term(self, env, value):
        parts = [mg(r) for r, _ in self.roots]
        if self.ret_ty != "unit":
            parts.append(value)
        if not parts:
            return "()"
        return parts[0] if len(parts) == 1 else "(" + ", ".join(parts) + ")"

    def state_term(self, env, loop):
        parts = [self.coerce(mg(n), env[n], t) for n, t in loop]
        if not parts:
            return "()"
        return parts[0] if len(parts) == 1 else "(" + ", ".join(parts) + ")"

    def state_pat(self, loop):
        if not loop:
            return "(_ : Unit)"
        if len(loop) == 1:
            return f"({mg(loop[0][0])} : {lean_ty(loop[0][1])})"
        return "((" + ", ".join(mg(n) for n, _ in loop) + ") : " + " × ".join(lean_ty(t) for _, t in loop) + ")"

    def state_ty(self, loop):
        if not loop:
            return "Unit"
        return " × ".join(lean_ty(t) for _, t in loop)

    def finish(self, env, loop):
        """falling off the end of a block"""
        if loop is not None:
            return [f".ok (.next {self.state_term(env, loop)})"]
        if self.ret_ty not in ("unit",) and not (isinstance(self.ret_ty, tuple) and self.ret_ty[0] == "opt"):
            raise Unsupported("control reaches the end of a function that returns a value")
        return [f".ok {self.result_term(env, 'none')}"]

    def ret(self, env, loop, value):
        r = self.result_term(env, value)
        return [f".ok (.ret {r})"] if loop is not None else [f".ok {r}"]

    def with_binds(self, binds, lines):
        """prefix `lines` (a term) with the impure pre-computations"""
        out = []
        for b in binds:
            name, term, ty = b[0], b[1], b[2]
            if len(b) > 3 and b[3] == "let":
                out.append(f"let {name} : {lean_ty(ty)} := {term}")
            else:
                out.append(f"{term} >>= fun ({name} : {lean_ty(ty)}) =>")
        return out + lines

    def let(self, name, ty, term):
        self.let_log.append(name)
        return f"let {mg(name)} : {lean_ty(ty)} := {term}"

    def block(self, stmts, env, loop):
        if not stmts:
            return self.finish(env, loop)
        s, rest = stmts[0], list(stmts[1:])
        if isinstance(s, ast.Expr) and isinstance(s.value, ast.Constant) and isinstance(s.value.value, str):
            return self.block(rest, env, loop)
        if isinstance(s, (ast.Pass, ast.Nonlocal)):
            return self.block(rest, env, loop)
        if isinstance(s, ast.Try) and len(s.body) == 1 and isinstance(s.body[0], ast.Assign) and len(s.handlers) == 1 and not s.orelse and not s.finalbody \
                and isinstance(s.handlers[0].type, ast.Name) and s.handlers[0].type.id in ERR_CATCH and s.handlers[0].name is None \
                and len(s.body[0].targets) == 1 and isinstance(s.body[0].targets[0], ast.Name):
            # try: x = <expr that may raise E>  except E: <handler that always exits>
            if not always_exits(s.handlers[0].body):
                raise Unsupported("except-handler that falls through")
            binds = []
            t, ty = self.impure(s.body[0].value, env)
            x = s.body[0].targets[0].id
            env2 = dict(env)
            env2[x] = ty
            handler = self.block(list(s.handlers[0].body), env, loop)
            cont = self.block(rest, env2, loop)
            return [f"match {t} with", f"| .error .{ERR_CATCH[s.handlers[0].type.id]} =>"] + ind(handler) + ["| .error e =>", "  .error e", f"| .ok ({mg(x)} : {lean_ty(ty)}) =>"] + ind(cont)
        if isinstance(s, ast.Try) and self.spec.get("p2") and len(s.handlers) == 1 and not s.orelse and not s.finalbody and s.handlers[0].name is None \
                and isinstance(s.handlers[0].type, ast.Name) and s.handlers[0].type.id == "StopIteration" and s.body \
                and isinstance(s.body[0], ast.Assign) and len(s.body[0].targets) == 1 and isinstance(s.body[0].targets[0], ast.Name) \
                and isinstance(s.body[0].value, ast.Call) and isinstance(s.body[0].value.func, ast.Name) and s.body[0].value.func.id == "next" \
                and len(s.body[0].value.args) == 1 and not s.body[0].value.keywords:
            # try: x = next(it); MORE   except StopIteration: HANDLER
            # An iterator over a list is the list of the items still to come.  Only `next` raises StopIteration in the translated subset, so
            # the handler belongs to the first statement alone — CHECKED: MORE contains no other `next(` and calls no translated kernel that uses one
            more = list(s.body[1:])
            for st in more:
                for n in ast.walk(st):
                    if isinstance(n, ast.Call) and isinstance(n.func, ast.Name) and n.func.id == "next":
                        raise Unsupported("a second next() inside the same try")
                    if isinstance(n, ast.Call) and isinstance(n.func, ast.Attribute) and any(m == n.func.attr and SIGS.get(l, {}).get("stopiter") for (_, m), l in KM.items()):
                        raise Unsupported("a kernel that may raise StopIteration inside a try")
            binds = []
            arg = s.body[0].value.args[0]
            it, tit = self.expr(arg, env, binds)
            if not (isinstance(tit, tuple) and tit[0] == "list"):
                raise Unsupported("next() of something that is not a list-backed iterator")
            x = s.body[0].targets[0].id
            nx = self.fresh("nx")
            handler = self.block(list(s.handlers[0].body) + ([] if always_exits(s.handlers[0].body) else rest), env, loop)
            env2 = dict(env)
            lets = []
            l, env2 = self.bind_var(x, f"{nx}.1", tit[1], env2)
            lets.append(l)
            if isinstance(arg, ast.Name):
                lets.append(self.let(self.aliases.get(arg.id, arg.id), tit, f"{nx}.2"))     # the iterator moves on
            cont = self.block(more + rest, env2, loop)
            return self.with_binds(binds, [f"match PyRt.iterNext {it} with", "| none =>"] + ind(handler)
                                   + [f"| some ({nx} : {lean_ty(tit[1])} × {lean_ty(tit)}) =>"] + ind(lets + cont))
        if isinstance(s, ast.Expr) and isinstance(s.value, ast.Call) and dotted(s.value.func) == "sys.exit" and len(s.value.args) == 1 \
                and isinstance(s.value.args[0], ast.Constant) and s.value.args[0].value == 1:
            return [".error .other"]                 # SystemExit(1): the process ends with status 1 (no exception class of the model: `Err.other`)
        if isinstance(s, ast.Expr) and isinstance(s.value, ast.Call) and dotted(s.value.func) == "click.echo":
            return self.block(rest, env, loop)        # a message for the user: not modelled (like logging)
        if isinstance(s, ast.FunctionDef) and s.name in self.spec.get("inline_closures", []):
            return self.block(rest, env, loop)        # a local helper: its body is inlined at every call (see `inline_closures`)
        if isinstance(s, ast.FunctionDef) and self.spec.get("p2"):
            self.local_defs = getattr(self, "local_defs", {})
            self.local_defs[s.name] = s               # a local function used as a sort key: translated where it is used
            return self.block(rest, env, loop)
        if isinstance(s, ast.With) and len(s.items) == 1 and isinstance(s.items[0].optional_vars, ast.Name) \
                and s.items[0].optional_vars.id in self.spec.get("text_lines", {}):
            # `with file.open() as fh: for line in fh:` — the file is the declared list of its text lines (each with its line ending)
            v = s.items[0].optional_vars.id
            prm = self.spec["text_lines"][v]
            self.param(prm, L("str"))
            env2 = dict(env)
            self.aliases[v] = prm
            env2[prm] = L("str")
            return self.block(list(s.body) + rest, env2, loop)
        if isinstance(s, ast.With) and len(s.items) == 1 and isinstance(s.items[0].optional_vars, ast.Name) \
                and s.items[0].optional_vars.id in self.spec.get("file_lines", {}):
            return self.block(list(s.body) + rest, env, loop)      # `with file.open("rb") as fh:` — fh is the declared sequence of lines
        if isinstance(s, ast.Expr) and isinstance(s.value, ast.Call) and isinstance(s.value.func, ast.Name) and s.value.func.id in self.spec.get("inline_closures", []) \
                and not s.value.args and not s.value.keywords:
            fn = find_def(ast.parse((SRC / self.spec["file"]).read_text()), self.spec["qual"] + "." + s.value.func.id)
            if fn is None or fn.args.args or any(isinstance(n, (ast.Return, ast.Yield)) for st in fn.body for n in ast.walk(st)):
                raise Unsupported("closure to inline")
            return self.block(list(fn.body) + rest, env, loop)
        if any(ast.unparse(s).startswith(pfx) for pfx in self.spec.get("skip_statements", [])):
            return self.block(rest, env, loop)        # statements the kernel's spec lists as not translated (floats / reporting), see IMP_KERNELS
        # NORMAL FORM: `tmp = <pure lookup>; tmp.m(…)…` where tmp is used exactly once, as the HEAD of the next statement's call chain (the first thing that
        # statement evaluates), and never again: the lookup is written back in place (so `d = self.data.get(k); d.setdefault(…).append(x)` and the
        # one-line spelling give the same Lean text)
        if isinstance(s, ast.Assign) and len(s.targets) == 1 and isinstance(s.targets[0], ast.Name) and rest \
                and isinstance(rest[0], (ast.Expr, ast.Return, ast.Assign)) and getattr(rest[0], "value", None) is not None \
                and not isinstance(s.value, (ast.Constant, ast.Name, ast.JoinedStr, ast.List, ast.Dict, ast.Tuple, ast.Set)) \
                and not (isinstance(rest[0], ast.Assign) and any(isinstance(n, ast.Name) and n.id == s.targets[0].id for t in rest[0].targets for n in ast.walk(t))):
            tmp = s.targets[0].id
            head = first_evaluated(rest[0].value)
            uses = [n for st in rest for n in ast.walk(st) if isinstance(n, ast.Name) and n.id == tmp]
            if isinstance(head, ast.Name) and head.id == tmp and len(uses) == 1 and tmp not in env and tmp not in self.spec.get("locals", {}):
                class Sub(ast.NodeTransformer):
                    def visit_Name(self, node):
                        return s.value if node.id == tmp else node
                new0 = Sub().visit(ast.parse(ast.unparse(rest[0])).body[0])
                snap = (self.tmp, len(self.let_log), list(self.params), dict(self.aliases), self.uses_fuel)
                try:
                    return self.block([new0] + rest[1:], env, loop)
                except Unsupported:
                    # the one-statement spelling is outside the subset: keep the two statements as written
                    self.tmp, self.params, self.aliases, self.uses_fuel = snap[0], snap[2], snap[3], snap[4]
                    del self.let_log[snap[1]:]
        # a text that only the (dropped) messages for the user read: `report = f"…"; click.echo(report)`
        if isinstance(s, ast.Assign) and len(s.targets) == 1 and isinstance(s.targets[0], ast.Name) and isinstance(s.value, ast.JoinedStr) and rest \
                and message_only(s.targets[0].id, rest):
            return self.block(rest, env, loop)
        # message for the raise that follows
        if isinstance(s, ast.Assign) and len(s.targets) == 1 and isinstance(s.targets[0], ast.Name) and isinstance(s.value, ast.JoinedStr) \
                and rest and isinstance(rest[0], ast.Raise) and uses_only_in(rest[0], s.targets[0].id):
            return self.block(rest, env, loop)
        if isinstance(s, ast.Raise):
            exc = s.exc
            name = exc.func.id if isinstance(exc, ast.Call) and isinstance(exc.func, ast.Name) else (exc.id if isinstance(exc, ast.Name) else None)
            if name not in ERR:
                raise Unsupported("raise of an unsupported exception")
            return [f".error .{ERR[name]}"]
        if isinstance(s, ast.Return) and isinstance(s.value, ast.Tuple) and all(isinstance(x, ast.Name) for x in s.value.elts) \
                and all(x.id in self.spec.get("assembly_objects", []) or x.id in self.spec.get("extra_roots", {}) for x in s.value.elts):
            return self.ret(env, loop, "()")              # the returned objects are the declared roots
        if isinstance(s, ast.Return) and isinstance(s.value, ast.Name) and s.value.id in self.spec.get("assembly_objects", []):
            return self.ret(env, loop, "()")              # `return asm`: the roots ARE the assembly
        if isinstance(s, ast.Return):
            if s.value is None:
                if self.ret_ty != "unit" and not (isinstance(self.ret_ty, tuple) and self.ret_ty[0] == "opt"):
                    raise Unsupported("bare return in a function that returns a value")
                return self.ret(env, loop, "none")
            binds = []
            t, ty = self.expr(s.value, env, binds)
            return self.with_binds(binds, self.ret(env, loop, self.coerce(t, ty, self.ret_ty)))
        if isinstance(s, ast.Break):
            if loop is None:
                raise Unsupported("break outside loop")
            return [f".ok (.brk {self.state_term(env, loop)})"]
        if isinstance(s, ast.Continue):
            if loop is None:
                raise Unsupported("continue outside loop")
            return [f".ok (.next {self.state_term(env, loop)})"]
        if isinstance(s, ast.Assign):
            return self.assign(s, rest, env, loop)
        if isinstance(s, ast.AugAssign):
            op = {ast.Add: ast.Add(), ast.Sub: ast.Sub(), ast.BitOr: ast.BitOr()}.get(type(s.op))
            if op is None:
                raise Unsupported("augmented assignment operator")
            tgt_load = ast.parse(ast.unparse(s.target), mode="eval").body
            new = ast.Assign(targets=[s.target], value=ast.BinOp(left=tgt_load, op=op, right=s.value))
            return self.assign(new, rest, env, loop)
        if isinstance(s, ast.Delete) and len(s.targets) == 1 and isinstance(s.targets[0], ast.Subscript) and isinstance(s.targets[0].value, ast.Name) \
                and s.targets[0].value.id in self.aliases and isinstance(env.get(self.aliases[s.targets[0].value.id]), tuple) and env[self.aliases[s.targets[0].value.id]][0] == "dict":
            # del d[k]  (KeyError when absent)
            binds = []
            d = self.aliases[s.targets[0].value.id]
            k, tk = self.expr(s.targets[0].slice, env, binds)
            nm = self.fresh("dd")
            binds.append((nm, f"(PyRt.dictDel {d} {k})", env[d]))
            return self.with_binds(binds, [self.let(d, env[d], nm)] + self.block(rest, env, loop))
        if isinstance(s, ast.Delete) and len(s.targets) == 1 and isinstance(s.targets[0], ast.Subscript) and isinstance(s.targets[0].slice, ast.Slice) \
                and s.targets[0].slice.lower is None and s.targets[0].slice.step is None and s.targets[0].slice.upper is not None:
            # del xs[:n]
            binds = []
            cont, tc = self.expr(s.targets[0].value, env, binds)
            n, tn = self.expr(s.targets[0].slice.upper, env, binds)
            if not (isinstance(tc, tuple) and tc[0] == "list") or tn != "int":
                raise Unsupported("del of a slice")
            lines, env2 = self.store_back(s.targets[0].value, f"(PyRt.slice {cont} (some {n}) none)", tc, env)
            return self.with_binds(binds, lines + self.block(rest, env2, loop))
        if isinstance(s, ast.Expr) and isinstance(s.value, ast.Yield) and s.value.value is not None and "yields" in self.spec:
            # a generator is translated to the LIST of the values it yields (sound for a generator without side effects between yields that a
            # consumer could observe; the kernels marked `yields` only read)
            binds = []
            t, ty = self.expr(s.value.value, env, binds)
            t = self.coerce(t, ty, self.spec["yields"])
            return self.with_binds(binds, [self.let("yielded_", L(self.spec["yields"]), f"yielded_ ++ [{t}]")] + self.block(rest, env, loop))
        if isinstance(s, ast.Expr) and isinstance(s.value, ast.Call) and isinstance(s.value.func, ast.Name) \
                and s.value.func.id in self.spec.get("inline_callbacks", {}):
            # a callback whose definition is known: its body is inlined (parameters bound to the arguments)
            qual = self.spec["inline_callbacks"][s.value.func.id]
            fn = find_def(ast.parse((SRC / self.spec["file"]).read_text()), qual)
            if fn is None or len(fn.args.args) != len(s.value.args) or exits(fn.body):
                raise Unsupported("callback to inline")
            pre = [ast.Assign(targets=[ast.Name(id=a.arg, ctx=ast.Store())], value=v) for a, v in zip(fn.args.args, s.value.args)]
            return self.block(pre + list(fn.body) + rest, env, loop)
        if isinstance(s, ast.Expr) and isinstance(s.value, ast.Call):
            return self.call_stmt(s.value, rest, env, loop)
        if isinstance(s, ast.If):
            return self.if_stmt(s, rest, env, loop)
        if isinstance(s, ast.While):
            return self.loop_stmt(s, rest, env, loop, is_for=False)
        if isinstance(s, ast.For):
            return self.loop_stmt(s, rest, env, loop, is_for=True)
        raise Unsupported(type(s).__name__)

    def check_carried(self, start, env_before, carried, what):
        """SAFETY NET of the translator itself: a variable that exists before a loop / a joined `if` and is re-bound inside it must be among the
        variables the loop state / the join carries out — otherwise the generated code would silently drop the assignment"""
        lost = sorted({n for n in self.let_log[start:] if n in env_before} - set(carried))
        if lost:
            raise Unsupported(f"internal: {what} does not carry the assigned variable(s) {lost}")

    def declared(self, name, ty):
        d = self.spec.get("locals", {}).get(name)
        return d if d is not None else ty

    def bind_var(self, name, term, ty, env):
        """`name = term`: returns (line, env')"""
        want = env.get(name)
        if want is None or ty not in ("none", "emptylist") and not (isinstance(want, tuple) and want[0] == "opt"):
            want = self.declared(name, ty)
        if want in ("none", "emptylist"):
            raise Unsupported(f"type of local `{name}` is not determined (declare it in the kernel's `locals`)")
        env2 = dict(env)
        if isinstance(want, tuple) and want[0] == "opt" and ty == want[1]:
            # a definite (non-None) value assigned to a variable that may also hold None: narrowed until the next join / loop boundary
            env2[name] = ty
            return self.let(name, ty, term), env2
        env2[name] = want
        return self.let(name, want, self.coerce(term, ty, want)), env2

    def assign(self, s, rest, env, loop):
        binds = []
        if len(s.targets) == 1 and isinstance(s.targets[0], ast.Name):
            n = s.targets[0].id
            if n in self.spec.get("ignore_locals", []):
                return self.block(rest, env, loop)          # a value used only inside messages
            if n in self.spec.get("messages", []):
                # a message under construction is abstracted to "is it non-empty"
                v = s.value
                if isinstance(v, ast.Constant) and v.value == "":
                    val = "false"
                elif isinstance(v, ast.BinOp) and isinstance(v.op, ast.Add) and isinstance(v.left, ast.Name) and v.left.id == n and nonempty_text(v.right):
                    val = "true"
                else:
                    raise Unsupported("message assignment shape")
                env2 = dict(env)
                env2[n] = "bool"
                return [self.let(n, "bool", val)] + self.block(rest, env2, loop)
        if self.spec.get("p2"):
            r = self.p2_assign(s, rest, env, loop, binds)
            if r is not None:
                return r
        if len(s.targets) > 1:
            # a = b = e
            if not all(isinstance(t, ast.Name) for t in s.targets):
                raise Unsupported("chained assignment target")
            t, ty = self.expr(s.value, env, binds)
            lines, env2 = [], env
            for tg in s.targets:
                l, env2 = self.bind_var(tg.id, t, ty, env2)
                lines.append(l)
            return self.with_binds(binds, lines + self.block(rest, env2, loop))
        tg = s.targets[0]
        if isinstance(tg, ast.Attribute) and dotted(tg) in self.spec.get("dict_roots", {}):
            nm = dotted(tg).replace(".", "_")
            t, ty = self.expr(s.value, env, binds)
            return self.with_binds(binds, [self.let(nm, env[nm], self.coerce(t, ty, env[nm]))] + self.block(rest, env, loop))
        if isinstance(tg, ast.Tuple) and len(tg.elts) == 2 and all(isinstance(n, ast.Name) for n in tg.elts) and not isinstance(s.value, ast.Tuple):
            # a, b = xs  (a list of exactly two elements)
            t, ty = self.expr(s.value, env, binds)
            if isinstance(ty, tuple) and ty[0] == "tuple" and len(ty[1]) == 2:
                l1, env2 = self.bind_var(tg.elts[0].id, f"({t}).1", ty[1][0], env)
                l2, env2 = self.bind_var(tg.elts[1].id, f"({t}).2", ty[1][1], env2)
                return self.with_binds(binds, [l1, l2] + self.block(rest, env2, loop))
            if not (isinstance(ty, tuple) and ty[0] == "list"):
                raise Unsupported("unpacking of a non-list")
            nm = self.fresh("un")
            binds.append((nm, f"(PyRt.unpack2 {t})", ("tuple", [ty[1], ty[1]])))
            l1, env2 = self.bind_var(tg.elts[0].id, f"{nm}.1", ty[1], env)
            l2, env2 = self.bind_var(tg.elts[1].id, f"{nm}.2", ty[1], env2)
            return self.with_binds(binds, [l1, l2] + self.block(rest, env2, loop))
        if isinstance(tg, ast.Tuple):
            if isinstance(s.value, ast.Tuple) and len(tg.elts) == len(s.value.elts) and all(isinstance(n, ast.Name) for n in tg.elts):
                xs = [self.expr(v, env, binds) for v in s.value.elts]
                tmps = [self.fresh("sw") for _ in xs]
                lines = [f"let {a} : {lean_ty(ty)} := {t}" for a, (t, ty) in zip(tmps, xs)]
                env2 = env
                for n, a, (_, ty) in zip(tg.elts, tmps, xs):
                    l, env2 = self.bind_var(n.id, a, ty, env2)
                    lines.append(l)
                return self.with_binds(binds, lines + self.block(rest, env2, loop))
            raise Unsupported("tuple assignment")
        if isinstance(tg, ast.Name):
            # alias of an output object: `out = self.out`
            p = dotted(s.value)
            if p and p in self.spec.get("dict_roots", {}) and (self.spec["dict_roots"][p] in ("namer", "binfile") or (isinstance(self.spec["dict_roots"][p], tuple) and self.spec["dict_roots"][p][0] == "dict")):
                self.aliases[tg.id] = p.replace(".", "_")       # a second name for a dictionary attribute
                return self.block(rest, env, loop)
            if p and p in self.spec.get("sinks", {}):
                self.aliases[tg.id] = sink_name(p)
                return self.block(rest, env, loop)
            if p and p in self.spec.get("attr_params", {}) and self.spec["attr_params"][p] in ("opaque_obj",):
                self.aliases[tg.id] = p.replace(".", "_")
                return self.block(rest, env, loop)
            if isinstance(s.value, ast.Call) and isinstance(s.value.func, ast.Name) and s.value.func.id == "Assembly" and tg.id in self.spec.get("assembly_objects", []):
                return self.block(rest, env, loop)        # `asm = Assembly(name)`: its header / scaffolds are the declared roots, initially empty
            if isinstance(s.value, ast.Call) and isinstance(s.value.func, ast.Attribute) and s.value.func.attr == "pop":
                return self.pop_stmt(tg.id, s.value, rest, env, loop)
            if isinstance(s.value, ast.Call) and isinstance(s.value.func, ast.Attribute) and s.value.func.attr == "read" \
                    and self.type_of_root(s.value.func.value, env) == "bytesio":
                return self.read_stmt(tg.id, s.value, rest, env, loop)
            decl = self.spec.get("locals", {}).get(tg.id)
            if isinstance(decl, tuple) and decl[0] == "tuple" and isinstance(s.value, ast.Tuple) and len(s.value.elts) == len(decl[1]):
                xs = [self.expr(x, env, binds) for x in s.value.elts]
                t, ty = "(" + ", ".join(self.coerce(a, b, w) for (a, b), w in zip(xs, decl[1])) + ")", decl
            else:
                t, ty = self.expr(s.value, env, binds)
            l, env2 = self.bind_var(tg.id, t, ty, env)
            return self.with_binds(binds, [l] + self.block(rest, env2, loop))
        if isinstance(tg, ast.Attribute) and isinstance(tg.value, ast.Name) and env.get(tg.value.id) == "lref" and "heap_lo" in env \
                and tg.attr in ("rank", "tag", "haplotype", "input_predecessor"):
            r = mg(tg.value.id)
            if tg.attr == "input_predecessor":
                t, ty = self.expr(s.value, env, binds)
                val = self.coerce(t, ty, O(("tuple", ["row", L("row")])))
                upd = f"PyRt.loSetPred heap_lo {r} {val}"
            else:
                t, ty = self.expr(s.value, env, binds)
                want = {"rank": "int", "tag": O("str"), "haplotype": O("str")}[tg.attr]
                upd = f"PyRt.loSet heap_lo {r} (fun sc => {{ sc with {tg.attr} := {self.coerce(t, ty, want)} }})"
            return self.with_binds(binds, [self.let("heap_lo", L(LO_T), upd)] + self.block(rest, env, loop))
        if isinstance(tg, ast.Attribute) and isinstance(tg.value, ast.Name) and env.get(tg.value.id) == "ovref" and tg.attr in LABEL_FIELD and "store" in env:
            fld, pty, conv = LABEL_FIELD[tg.attr]
            t, ty = self.expr(s.value, env, binds)
            val = conv.format(self.coerce(t, ty, pty))
            return self.with_binds(binds, [self.let("store", "store", f"PyRt.setLabel store {mg(tg.value.id)} (fun o => {{ o with {fld} := {val} }})")]
                                   + self.block(rest, env, loop))
        if isinstance(tg, ast.Attribute):
            b, tb = self.expr(tg.value, env, binds)
            attr = tg.attr.lstrip("_") if self.spec.get("ctor") and (tb, tg.attr) not in FIELD else tg.attr
            if not isinstance(tg.value, ast.Name) or (tb, attr) not in FIELD:
                raise Unsupported(f"assignment to .{tg.attr} of {tb}")
            t, ty = self.expr(s.value, env, binds)
            fty = ATTR[(tb, attr)][0]
            l = self.let(tg.value.id, tb, f"{{ {b} with {FIELD[(tb, attr)]} := {self.coerce(t, ty, fty)} }}")
            return self.with_binds(binds, [l] + self.block(rest, env, loop))
        if isinstance(tg, ast.Subscript) and isinstance(tg.value, ast.Name) and tg.value.id in self.aliases and isinstance(env.get(self.aliases[tg.value.id]), tuple) \
                and env[self.aliases[tg.value.id]][0] == "dict":
            d = self.aliases[tg.value.id]
            td = env[d]
            k, tk = self.expr(tg.slice, env, binds)
            v, tv = self.expr(s.value, env, binds)
            if tk != td[1] or tv != td[2]:
                raise Unsupported("dict item assignment types")
            return self.with_binds(binds, [self.let(d, td, f"dSet {d} {k} {v}")] + self.block(rest, env, loop))
        if isinstance(tg, ast.Subscript) and isinstance(tg.value, ast.Name) and isinstance(env.get(tg.value.id), tuple) and env[tg.value.id][0] == "dict":
            d = tg.value.id
            td = env[d]
            k, tk = self.expr(tg.slice, env, binds)
            if td[1] == O(tk) or (tk == "none" and isinstance(td[1], tuple) and td[1][0] == "opt"):
                k, tk = self.coerce(k, tk, td[1]), td[1]
            if tk == O(td[1]):
                nm = self.fresh(); binds.append((nm, f"(PyRt.needObj {k})", td[1])); k, tk = nm, td[1]     # (a None key cannot arise: see the tie)
            v, tv = self.expr(s.value, env, binds)
            if tk != td[1] or tv != td[2]:
                raise Unsupported("dict item assignment types")
            return self.with_binds(binds, [self.let(d, td, f"dSet {mg(d)} {k} {v}")] + self.block(rest, env, loop))
        if isinstance(tg, ast.Subscript) and dotted(tg.value) in self.spec.get("dict_roots", {}):
            d = dotted(tg.value).replace(".", "_")
            td = env[d]
            k, tk = self.expr(tg.slice, env, binds)
            v, tv = self.expr(s.value, env, binds)
            if tk != td[1] or tv != td[2]:
                raise Unsupported("dict item assignment types")
            return self.with_binds(binds, [self.let(d, td, f"dSet {d} {k} {v}")] + self.block(rest, env, loop))
        if isinstance(tg, ast.Subscript):
            # xs[i] = v  /  self.rows[i] = v
            cont, tc = self.expr(tg.value, env, binds)
            if not (isinstance(tc, tuple) and tc[0] == "list"):
                raise Unsupported("item assignment on a non-list")
            i, ti = self.expr(tg.slice, env, binds)
            if isinstance(ti, tuple) and ti[0] == "opt" and ti[1] == "int":
                nm = self.fresh()
                binds.append((nm, f"(PyRt.needInt {i})", "int"))
                i, ti = nm, "int"
            v, tv = self.expr(s.value, env, binds)
            v = self.coerce_elem(v, tv, tc[1])
            nm = self.fresh("upd")
            binds.append((nm, f"(PyRt.setAt {cont} {i} {v})", tc))
            lines, env2 = self.store_back(tg.value, nm, tc, env)
            return self.with_binds(binds, lines + self.block(rest, env2, loop))
        raise Unsupported("assignment target")

    def p2_assign(self, s, rest, env, loop, binds):
        tgs = s.targets
        # self.data = data = {}: a second name for the dictionary attribute
        if len(tgs) == 2 and isinstance(tgs[0], ast.Attribute) and dotted(tgs[0]) in self.spec.get("dict_roots", {}) and isinstance(tgs[1], ast.Name):
            nm = dotted(tgs[0]).replace(".", "_")
            t, ty = self.expr(s.value, env, binds)
            self.aliases[tgs[1].id] = nm
            return self.with_binds(binds, [self.let(nm, env[nm], self.coerce(t, ty, env[nm]))] + self.block(rest, env, loop))
        if len(tgs) != 1:
            return None
        tg = tgs[0]
        # first, *rest = xs
        if isinstance(tg, ast.Tuple) and len(tg.elts) == 2 and isinstance(tg.elts[0], ast.Name) and isinstance(tg.elts[1], ast.Starred) \
                and isinstance(tg.elts[1].value, ast.Name):
            t, ty = self.expr(s.value, env, binds)
            t, ty = self.keys_of(t, ty)
            if not (isinstance(ty, tuple) and ty[0] == "list"):
                raise Unsupported("unpacking of a non-sequence")
            nm = self.fresh("un")
            binds.append((nm, f"(PyRt.unpackHead {t})", ("tuple", [ty[1], ty])))
            l1, env2 = self.bind_var(tg.elts[0].id, f"{nm}.1", ty[1], env)
            l2, env2 = self.bind_var(tg.elts[1].value.id, f"{nm}.2", ty, env2)
            return self.with_binds(binds, [l1, l2] + self.block(rest, env2, loop))
        # a, b, c, … = xs  (exactly as many items as names: ValueError otherwise)
        if isinstance(tg, ast.Tuple) and len(tg.elts) > 2 and all(isinstance(x, ast.Name) for x in tg.elts) and not isinstance(s.value, ast.Tuple):
            t, ty = self.expr(s.value, env, binds)
            if not (isinstance(ty, tuple) and ty[0] == "list"):
                raise Unsupported("unpacking of a non-list")
            n_ = len(tg.elts)
            nm = self.fresh("un")
            binds.append((nm, f"(PyRt.unpackN {n_} {t})", ty))
            lines, env2 = [], env
            for k, x in enumerate(tg.elts):
                l, env2 = self.bind_var(x.id, f"(({nm}).getD {k} default)", ty[1], env2)
                lines.append(l)
            return self.with_binds(binds, lines + self.block(rest, env2, loop))
        # d[k] = {} / [] through a second name of a dictionary attribute
        if isinstance(tg, ast.Subscript) and isinstance(tg.value, ast.Name) and tg.value.id in self.aliases and isinstance(env.get(self.aliases[tg.value.id]), tuple) \
                and env[self.aliases[tg.value.id]][0] == "dict":
            d = self.aliases[tg.value.id]
            td = env[d]
            k, tk = self.expr(tg.slice, env, binds)
            v, tv = self.expr(s.value, env, binds)
            if tk != td[1]:
                raise Unsupported("dict item assignment types")
            return self.with_binds(binds, [self.let(d, td, f"dSet {d} {k} {self.coerce(v, tv, td[2])}")] + self.block(rest, env, loop))
        # scffld.name = … through a reference to a fused Scaffold
        if isinstance(tg, ast.Attribute) and isinstance(tg.value, ast.Name) and env.get(tg.value.id) == "bsref" and "heap_b" in env and ("scaffold", tg.attr) in ATTR \
                and tg.attr in ("name",):
            t, ty = self.expr(s.value, env, binds)
            want = ATTR[("scaffold", tg.attr)][0]
            fld = ATTR[("scaffold", tg.attr)][1].format("").lstrip(".")
            return self.with_binds(binds, [self.let("heap_b", env["heap_b"], f"PyRt.bsSet heap_b {mg(tg.value.id)} (fun sc => {{ sc with {fld} := {self.coerce(t, ty, want)} }})")]
                                   + self.block(rest, env, loop))
        # obj = Class(...) for a local object kept field by field
        if isinstance(tg, ast.Name) and tg.id in self.spec.get("field_objects", {}) and isinstance(s.value, ast.Call) and isinstance(s.value.func, ast.Name) \
                and s.value.func.id == self.spec["field_objects"][tg.id] and (s.value.func.id, "__init__") in KM:
            self.new_fields = {}
            self.kcall(KM[(s.value.func.id, "__init__")], ("fields", tg.id), s.value, env, binds)
            env2 = dict(env)
            env2.update(self.new_fields)
            return self.with_binds(binds, self.block(rest, env2, loop))
        return None

    def tuple_arg(self, node, want, env, binds):
        """an ast.Tuple written where a record-like tuple type is expected: translated component by component"""
        xs = [self.expr(x, env, binds) for x in node.elts]
        return "(" + ", ".join(t for t, _ in xs) + ")", ("tuple", [ty for _, ty in xs])

    def coerce_elem(self, v, tv, want):
        if tv == want:
            return v
        if isinstance(want, tuple) and want[0] == "tuple" and isinstance(tv, tuple) and tv[0] == "tuple" and len(tv[1]) == len(want[1]) \
                and all(a == b or a == O(b) for a, b in zip(tv[1], want[1])) and self.cur_binds is not None:
            # a tuple with components that may be None where definite ints are declared: TypeError on None (the tie proves it unreachable)
            nm = self.fresh("tp")
            self.cur_binds.append((nm, v, ("raw", lean_ty(tv)), "let"))
            parts = []
            for k, (a, b) in enumerate(zip(tv[1], want[1])):
                proj = nm + "".join(".2" for _ in range(k)) + (".1" if k < len(tv[1]) - 1 else "")
                if a == O(b):
                    x = self.fresh()
                    self.cur_binds.append((x, f"(PyRt.needInt {proj})", b))
                    parts.append(x)
                else:
                    parts.append(proj)
            return "(" + ", ".join(parts) + ")"
        if want == "row" and tv == "frag":
            return f"(Row.frag {v})"
        if want == "row" and tv == "gap":
            return f"(Row.gap {v})"
        return self.coerce(v, tv, want)

    def store_back(self, target, term, ty, env):
        """write `term` into the place `target` denotes (a local list, or a field of a root object)"""
        if dotted(target) in self.spec.get("dict_roots", {}):
            nm = dotted(target).replace(".", "_")
            return [self.let(nm, env[nm], term)], env
        if isinstance(target, ast.Name):
            n = self.aliases.get(target.id, target.id)
            if n not in env:
                raise Unsupported(f"mutation of unknown {n}")
            env2 = dict(env)
            return [self.let(n, env[n], term)], env2
        if isinstance(target, ast.Attribute) and isinstance(target.value, ast.Name):
            root = target.value.id
            tb = env.get(root) or self.spec.get("params", {}).get(root)
            if (tb, target.attr) in FIELD:
                return [self.let(root, tb, f"{{ {mg(root)} with {FIELD[(tb, target.attr)]} := {term} }}")], env
        raise Unsupported("mutation target")

    def type_of_root(self, e, env):
        if isinstance(e, ast.Name):
            n = self.aliases.get(e.id, e.id)
            return env.get(n)
        return None

    def pop_stmt(self, name, call, rest, env, loop):
        binds = []
        cont, tc = self.expr(call.func.value, env, binds)
        if not (isinstance(tc, tuple) and tc[0] == "list") or len(call.args) != 1 or call.keywords:
            raise Unsupported("pop shape")
        i, ti = self.expr(call.args[0], env, binds)
        if ti != "int":
            raise Unsupported("pop index")
        nm = self.fresh("pp")
        binds.append((nm, f"(PyRt.pop {cont} {i})", ("tuple", [tc[1], tc])))
        lines, env2 = self.store_back(call.func.value, f"{nm}.2", tc, env)
        if name is not None:
            l, env2 = self.bind_var(name, f"{nm}.1", tc[1], env2)
            lines.append(l)
        return self.with_binds(binds, lines + self.block(rest, env2, loop))

    def read_stmt(self, name, call, rest, env, loop):
        binds = []
        obj = self.aliases.get(call.func.value.id, call.func.value.id)
        n, tn = self.expr(call.args[0], env, binds)
        if tn != "int" or len(call.args) != 1:
            raise Unsupported("read shape")
        nm = self.fresh("rd")
        lines = [f"let {nm} : List Nat × PyRt.BytesIO := PyRt.BytesIO.read {mg(obj)} {n}", self.let(obj, "bytesio", f"{nm}.2")]
        env2 = dict(env)
        l, env2 = self.bind_var(name, f"{nm}.1", "bytes", env2)
        return self.with_binds(binds, lines + [l] + self.block(rest, env2, loop))

    def call_stmt(self, c, rest, env, loop):
        f = c.func
        binds = []
        self.cur_binds = binds
        path = dotted(f)
        if path in self.spec.get("skip_calls", []):
            return self.block(rest, env, loop)
        if path in self.spec.get("call_templates", {}):
            # a call of ANOTHER TRANSLATED KERNEL with the current values of the state it works on; its results are bound back by name
            lean, args, results = self.spec["call_templates"][path]
            for a in args:
                if a not in env and a != "fuel":
                    raise Unsupported(f"kernel call needs `{a}`")
                if a == "fuel":
                    self.uses_fuel = True
            nm = self.fresh("kc")
            rty = ("tuple", [env[r] for r in results]) if len(results) > 1 else env[results[0]]
            binds.append((nm, "(" + " ".join([lean] + [mg(a) for a in args]) + ")", rty))
            lets, proj = [], nm
            for k, r in enumerate(results):
                if len(results) == 1:
                    lets.append(self.let(r, env[r], nm))
                elif k < len(results) - 1:
                    lets.append(self.let(r, env[r], f"{proj}.1"))
                    proj = f"{proj}.2"
                else:
                    lets.append(self.let(r, env[r], proj))
            return self.with_binds(binds, lets + self.block(rest, env, loop))
        if path and path.startswith("logging."):
            return self.block(rest, env, loop)          # log output is never modelled (its arguments are not evaluated here)
        if isinstance(f, ast.Attribute) and self.spec.get("p2"):
            r = self.p2_call_stmt(c, rest, env, loop, binds)
            if r is not None:
                return r
        if path and path in self.spec.get("opaque", {}):
            t, ty = self.call(c, env, binds)
            return self.with_binds(binds, self.block(rest, env, loop))
        if isinstance(f, ast.Attribute) and not c.keywords and f.attr == "append" and isinstance(f.value, ast.Call) \
                and isinstance(f.value.func, ast.Attribute) and f.value.func.attr == "setdefault" and len(f.value.args) == 2 \
                and isinstance(f.value.args[1], ast.List) and not f.value.args[1].elts and dotted(f.value.func.value) in self.spec.get("dict_roots", {}):
            # d.setdefault(k, []).append(v)
            d = dotted(f.value.func.value).replace(".", "_")
            td = env[d]
            k, tk = self.expr(f.value.args[0], env, binds)
            v, tv = self.expr(c.args[0], env, binds)
            if tk != td[1] or L(tv) != td[2]:
                raise Unsupported("setdefault(...).append types")
            return self.with_binds(binds, [self.let(d, td, f"dSet {d} {k} (((dGet? {d} {k}).getD []) ++ [{v}])")] + self.block(rest, env, loop))
        if isinstance(f, ast.Attribute) and dotted(f.value) in self.aliases and env.get(self.aliases[dotted(f.value)]) == "namer" \
                or (isinstance(f, ast.Attribute) and dotted(f.value) and dotted(f.value).replace(".", "_") in env and env[dotted(f.value).replace(".", "_")] == "namer"):
            # a method of the ScaffoldNamer object held by a root variable: a call of the translated kernel (defined earlier in this file)
            nv = self.aliases.get(dotted(f.value), dotted(f.value).replace(".", "_"))
            m = f.attr
            kw = {k.arg: k.value for k in c.keywords}
            if m == "make_scaffold_name" and len(c.args) == 1 and not kw and isinstance(c.args[0], ast.Name) and env.get(c.args[0].id) == "lref" and "heap_lo" in env:
                nm = self.fresh("nk")
                binds.append((nm, f"(ScaffoldNamer_make_scaffold_name {nv} (PyRt.loGet heap_lo {mg(c.args[0].id)}).1 none)", "namer"))
                return self.with_binds(binds, [self.let(nv, "namer", nm)] + self.block(rest, env, loop))
            if m == "make_scaffold_name" and len(c.args) == 2 and not kw:
                (a, ta), (b, tb) = self.expr(c.args[0], env, binds), self.expr(c.args[1], env, binds)
                nm = self.fresh("nk")
                binds.append((nm, f"(ScaffoldNamer_make_scaffold_name {nv} {self.coerce(a, ta, 'scaffold')} {self.coerce(b, tb, O(L('str')))})", "namer"))
                return self.with_binds(binds, [self.let(nv, "namer", nm)] + self.block(rest, env, loop))
            if m == "label_scaffold" and not c.args and set(kw) == {"scaffold", "fragment", "scaffold_tags", "original_name"}:
                vals = {k.arg: self.expr(k.value, env, binds) for k in c.keywords}      # evaluated in the order written
                want = {"scaffold": "ovref", "fragment": "frag", "scaffold_tags": L("str"), "original_name": "str"}
                a = {k: self.coerce(t, ty, want[k]) for k, (t, ty) in vals.items()}
                nm = self.fresh("nk")
                binds.append((nm, f"(ScaffoldNamer_label_scaffold store {nv} {a['scaffold']} {a['fragment']} {a['scaffold_tags']} {a['original_name']})", ("tuple", ["namer", "store"])))
                return self.with_binds(binds, [self.let(nv, "namer", f"{nm}.1"), self.let("store", "store", f"{nm}.2")] + self.block(rest, env, loop))
            if m in ("rename_unlocs_by_size", "rename_haplotigs_by_size") and not c.args and not kw:
                lst = "unloc_scaffolds" if m == "rename_unlocs_by_size" else "haplotig_scaffolds"
                # `rename_…_by_size()` is `self.rename_by_size(self.<list>)` (checked: the wrapper itself is translated as ScaffoldNamer_<m>)
                nm = self.fresh("nk")
                binds.append((nm, f"(ScaffoldNamer_{m} store {nv})", "store"))
                return self.with_binds(binds, [self.let("store", "store", nm)] + self.block(rest, env, loop))
            if m == "rename_by_size" and len(c.args) == 1 and not kw:
                t, ty = self.expr(c.args[0], env, binds)
                nm = self.fresh("nk")
                binds.append((nm, f"(ScaffoldNamer_rename_by_size store {self.coerce(t, ty, L('ovref'))})", "store"))
                return self.with_binds(binds, [self.let("store", "store", nm)] + self.block(rest, env, loop))
            raise Unsupported(f"method {m} of the namer")
        if isinstance(f, ast.Attribute) and isinstance(f.value, ast.Name) and f.value.id == "self" and env.get("self") == "namer" and f.attr == "rename_by_size" \
                and len(c.args) == 1 and "store" in env:
            t, ty = self.expr(c.args[0], env, binds)
            nm = self.fresh("nk")
            binds.append((nm, f"(ScaffoldNamer_rename_by_size store {self.coerce(t, ty, L('ovref'))})", "store"))
            return self.with_binds(binds, [self.let("store", "store", nm)] + self.block(rest, env, loop))
        if isinstance(f, ast.Attribute) and not c.keywords and "store" in env and len(c.args) <= 1:
            try:
                obj0, tobj0 = self.expr(f.value, env, [])
            except Unsupported:
                obj0, tobj0 = None, None
            if tobj0 == "ovref" and ("ovres", f.attr) in MUT_METHOD:
                obj, tobj = self.expr(f.value, env, binds)
                args = [self.expr(a, env, binds)[0] for a in c.args]
                nm = self.fresh("mu")
                binds.append((nm, "(" + " ".join([MUT_METHOD[("ovres", f.attr)], f"(getRes store {obj})"] + args) + ")", "ovres"))
                return self.with_binds(binds, [self.let("store", "store", f"PyRt.updRes store {obj} {nm}")] + self.block(rest, env, loop))
            if dotted(f) == "self.add_scaffold" and len(c.args) == 1 and self.spec.get("build_assembly"):
                t, ty = self.expr(c.args[0], env, binds)
                if ty != "ovref":
                    raise Unsupported("add_scaffold argument")
                return self.with_binds(binds, [self.let("store", "store", f"PyRt.markAdded store {t}")] + self.block(rest, env, loop))
            if dotted(f) == "self.store_fragments_found" and len(c.args) == 1 and self.spec.get("build_assembly"):
                t, ty = self.expr(c.args[0], env, binds)
                nm = self.fresh("sf")
                binds.append((nm, f"(BuildAssembly_store_fragments_found store heap_ff self_found_fragments self_fragments_found_more_than_once {t})",
                              ("tuple", ["store", L("found"), FF_DICT, FF_DICT])))
                return self.with_binds(binds, [self.let("store", "store", f"{nm}.1"), self.let("heap_ff", L("found"), f"{nm}.2.1"),
                                               self.let("self_found_fragments", FF_DICT, f"{nm}.2.2.1"),
                                               self.let("self_fragments_found_more_than_once", FF_DICT, f"{nm}.2.2.2")] + self.block(rest, env, loop))
            if dotted(f) == "self.cut_fragments" and len(c.args) == 1 and self.spec.get("build_assembly"):
                t, ty = self.expr(c.args[0], env, binds)
                if ty != "ffref":
                    raise Unsupported("cut_fragments argument")
                fnd = f"(PyRt.getFound heap_ff {t})"
                nm = self.fresh("cf")
                binds.append((nm, f"(BuildAssembly_cut_fragments store nextOid self_assembly_stats_cuts {fnd}.fragment {fnd}.scaffolds (fun subs => BuildAssembly_qc_sub_fragments subs {fnd}.fragment))",
                              ("tuple", ["store", "nat", "int"])))
                return self.with_binds(binds, [self.let("store", "store", f"{nm}.1"), self.let("nextOid", "nat", f"{nm}.2.1"),
                                               self.let("self_assembly_stats_cuts", "int", f"{nm}.2.2")] + self.block(rest, env, loop))
        if isinstance(f, ast.Attribute) and not c.keywords and not c.args and "store" in env:
            obj, tobj = self.expr(f.value, env, binds)
            if tobj == "premise" and f.attr == "apply":
                nm = self.fresh("st")
                binds.append((nm, f"(Premise.apply {obj} store)", "store"))
                return self.with_binds(binds, [self.let("store", "store", nm)] + self.block(rest, env, loop))
            if tobj == "ovref" and ("ovres", f.attr) in MUT_METHOD and False:
                nm = self.fresh("mu")
                binds.append((nm, f"({MUT_METHOD[('ovres', f.attr)]} (getRes store {obj}))", "ovres"))
                return self.with_binds(binds, [self.let("store", "store", f"PyRt.updRes store {obj} {nm}")] + self.block(rest, env, loop))
            binds = []
        if isinstance(f, ast.Attribute) and not c.keywords:
            m = f.attr
            if m == "pop":
                return self.pop_stmt(None, c, rest, env, loop)
            if m == "insert" and len(c.args) == 2 and isinstance(c.args[0], ast.Constant) and c.args[0].value == 0:
                cont, tc = self.expr(f.value, env, binds)
                if not (isinstance(tc, tuple) and tc[0] == "list"):
                    raise Unsupported("insert on a non-list")
                v, tv = self.expr(c.args[1], env, binds)
                lines, env2 = self.store_back(f.value, f"([{self.coerce_elem(v, tv, tc[1])}] ++ {cont})", tc, env)
                return self.with_binds(binds, lines + self.block(rest, env2, loop))
            if m == "add" and len(c.args) == 1:
                cont, tc = self.expr(f.value, env, binds)
                if not (isinstance(tc, tuple) and tc[0] == "set"):
                    raise Unsupported("add on a non-set")
                v, tv = self.expr(c.args[0], env, binds)
                if tv != tc[1]:
                    raise Unsupported("set element type")
                lines, env2 = self.store_back(f.value, f"(sAdd {cont} {v})", tc, env)
                return self.with_binds(binds, lines + self.block(rest, env2, loop))
            if m in ("append", "extend") and len(c.args) == 1:
                cont, tc = self.expr(f.value, env, binds)
                if isinstance(tc, tuple) and tc[0] == "opt" and isinstance(tc[1], tuple) and tc[1][0] == "list" and isinstance(f.value, ast.Name) and m == "append":
                    nm = self.fresh()
                    binds.append((nm, f"(PyRt.needObj {cont})", tc[1]))      # None.append: AttributeError
                    if isinstance(c.args[0], ast.Tuple) and isinstance(tc[1][1], tuple) and tc[1][1][0] == "tuple":
                        v, tv = self.tuple_arg(c.args[0], tc[1][1], env, binds)
                    else:
                        v, tv = self.expr(c.args[0], env, binds)
                    new = f"(some ({nm} ++ [{self.coerce_elem(v, tv, tc[1][1])}]))"
                    return self.with_binds(binds, [self.let(f.value.id, tc, new)] + self.block(rest, env, loop))
                if not (isinstance(tc, tuple) and tc[0] == "list"):
                    raise Unsupported(f"{m} on a non-list")
                v, tv = self.expr(c.args[0], env, binds)
                if m == "append":
                    new = f"({cont} ++ [{self.coerce_elem(v, tv, tc[1])}])"
                else:
                    if tv != tc:
                        raise Unsupported("extend with a different element type")
                    new = f"({cont} ++ {v})"
                lines, env2 = self.store_back(f.value, new, tc, env)
                return self.with_binds(binds, lines + self.block(rest, env2, loop))
            if m == "write" and len(c.args) == 1 and self.type_of_root(f.value, env) != "bytesio":
                p = dotted(f.value)
                if isinstance(f.value, ast.Name):
                    p = self.aliases.get(f.value.id, f.value.id)
                    sink = p if p in env and env[p] in ("sink_str", "sink_bytes") else None
                else:
                    sink = sink_name(p) if p in self.spec.get("sinks", {}) else None
                if sink is None:
                    raise Unsupported("write to something that is not a declared output")
                v, tv = self.expr(c.args[0], env, binds)
                want = "str" if env[sink] == "sink_str" else "bytes"
                if tv != want:
                    raise Unsupported(f"write of {tv} to a {env[sink]}")
                return self.with_binds(binds, [self.let(sink, env[sink], f"{mg(sink)} ++ {v}")] + self.block(rest, env, loop))
            if m == "write" and len(c.args) == 1 and self.type_of_root(f.value, env) == "bytesio":
                obj = self.aliases.get(f.value.id, f.value.id)
                v, tv = self.expr(c.args[0], env, binds)
                if tv != "bytes":
                    raise Unsupported("BytesIO.write of a non-bytes value")
                return self.with_binds(binds, [self.let(obj, "bytesio", f"PyRt.BytesIO.write {mg(obj)} {v}")] + self.block(rest, env, loop))
            if m == "truncate" and len(c.args) == 1 and self.type_of_root(f.value, env) == "bytesio":
                obj = self.aliases.get(f.value.id, f.value.id)
                n, tn = self.expr(c.args[0], env, binds)
                return self.with_binds(binds, [self.let(obj, "bytesio", f"PyRt.BytesIO.truncate {mg(obj)} {n}")] + self.block(rest, env, loop))
            if m == "seek" and len(c.args) == 1 and self.type_of_root(f.value, env) == "bytesio":
                obj = self.aliases.get(f.value.id, f.value.id)
                n, tn = self.expr(c.args[0], env, binds)
                return self.with_binds(binds, [self.let(obj, "bytesio", f"PyRt.BytesIO.seek {mg(obj)} {n}")] + self.block(rest, env, loop))
            if isinstance(f.value, ast.Name) and env.get(f.value.id) == "bsref" and "heap_b" in env and m == "add_row" and len(c.args) == 1:
                v, tv = self.expr(c.args[0], env, binds)
                row = self.coerce_elem(v, tv, "row")
                r = mg(f.value.id)
                return self.with_binds(binds, [self.let("heap_b", L("scaffold"), f"PyRt.bsSet heap_b {r} (fun sc => {{ sc with rows := sc.rows ++ [{row}] }})")] + self.block(rest, env, loop))
            if isinstance(f.value, ast.Name) and env.get(f.value.id) == "bsref" and "heap_b" in env and m == "append_scaffold" and len(c.args) in (1, 2):
                # a call of the translated kernel Scaffold.append_scaffold on the object the reference points at
                o, to_ = self.expr(c.args[0], env, binds)
                if to_ == "lref":
                    o, to_ = f"(PyRt.loGet heap_lo {o}).1", "scaffold"
                if to_ != "scaffold":
                    raise Unsupported("append_scaffold argument")
                if len(c.args) == 2:
                    g, tg = self.expr(c.args[1], env, binds)
                    g = self.coerce(g, tg, O("row"))
                else:
                    g = "none"
                r = mg(f.value.id)
                nm = self.fresh("ap")
                binds.append((nm, f"(Scaffold_append_scaffold (PyRt.bsGet heap_b {r}) {o} {g})", "scaffold"))
                return self.with_binds(binds, [self.let("heap_b", L("scaffold"), f"PyRt.bsSet heap_b {r} (fun _ => {nm})")] + self.block(rest, env, loop))
            if isinstance(f.value, ast.Name) and env.get(f.value.id) == "lref" and m == "add_row" and len(c.args) == 1 and "heap_lo" in env:
                v, tv = self.expr(c.args[0], env, binds)
                row = self.coerce_elem(v, tv, "row")
                return self.with_binds(binds, [self.let("heap_lo", L(LO_T), f"PyRt.loSet heap_lo {mg(f.value.id)} (fun sc => {{ sc with rows := sc.rows ++ [{row}] }})")]
                                       + self.block(rest, env, loop))
            if dotted(f) == "self.add_scaffold" and len(c.args) == 1 and "heap_lo" in env and isinstance(c.args[0], ast.Name) and env.get(c.args[0].id) == "lref":
                return self.with_binds(binds, [self.let("added_lo", L("lref"), f"(added_lo ++ [{mg(c.args[0].id)}])")] + self.block(rest, env, loop))
            if isinstance(f.value, ast.Name) and env.get(f.value.id) == "ffref" and m in ("add_scaffold", "remove_scaffold") and len(c.args) == 1 and "heap_ff" in env:
                # FoundFragment.add_scaffold / remove_scaffold through a reference: `self.scaffolds.append(x)` / `self.scaffolds.remove(x)` (ValueError if absent)
                v, tv = self.expr(c.args[0], env, binds)
                if tv != "ovref":
                    raise Unsupported("FoundFragment scaffold argument")
                r = mg(f.value.id)
                if m == "add_scaffold":
                    return self.with_binds(binds, [self.let("heap_ff", L("found"), f"PyRt.foundAdd heap_ff {r} {v}")] + self.block(rest, env, loop))
                nm = self.fresh("rm")
                binds.append((nm, f"(PyRt.foundRemove heap_ff {r} {v})", L("found")))
                return self.with_binds(binds, [self.let("heap_ff", L("found"), nm)] + self.block(rest, env, loop))
            if isinstance(f.value, ast.Name) and env.get(f.value.id) == ("dict", KEY_T, L("premise")) and m == "add_overhang_premise" and len(c.args) == 2 and "store" in env:
                # a call of ANOTHER TRANSLATED KERNEL (defined earlier in this file): OverhangResolver.add_overhang_premise
                a, ta = self.expr(c.args[0], env, binds)
                b, tb = self.expr(c.args[1], env, binds)
                if (ta, tb) != ("frag", "ovref"):
                    raise Unsupported("add_overhang_premise arguments")
                nm = self.fresh("ap")
                binds.append((nm, f"(OverhangResolver_add_overhang_premise store {mg(f.value.id)} {a} {b})", ("tuple", ["store", ("dict", KEY_T, L("premise"))])))
                return self.with_binds(binds, [self.let("store", "store", f"{nm}.1"), self.let(f.value.id, ("dict", KEY_T, L("premise")), f"{nm}.2")] + self.block(rest, env, loop))
            if isinstance(f.value, ast.Name) and f.value.id in self.spec.get("assembly_objects", []) and len(c.args) == 1 and m in ("add_header_line", "add_scaffold"):
                attr = "header" if m == "add_header_line" else "scaffolds"      # Assembly.add_header_line / add_scaffold: list.append
                tgt = ast.Attribute(value=f.value, attr=attr, ctx=ast.Load())
                new_call = ast.Call(func=ast.Attribute(value=tgt, attr="append", ctx=ast.Load()), args=c.args, keywords=[])
                return self.call_stmt(new_call, rest, env, loop)
            if isinstance(f.value, ast.Name) and m == "add_row" and len(c.args) == 1 and "heap_sc" in env \
                    and env.get(f.value.id) in ("scref", O("scref")):
                # `scaffold.add_row(row)` through a reference: the attribute lookup comes first (AttributeError on None), then the argument
                r, tr_ = mg(f.value.id), env[f.value.id]
                if tr_ == O("scref"):
                    nm = self.fresh("ref")
                    binds.append((nm, f"(PyRt.needObj {r})", "scref"))
                    r = nm
                v, tv = self.expr(c.args[0], env, binds)
                row = self.coerce_elem(v, tv, "row")
                return self.with_binds(binds, [self.let("heap_sc", L("scaffold"), f"PyRt.arenaAddRow heap_sc {r} {row}")] + self.block(rest, env, loop))
            if isinstance(f.value, ast.Name) and env.get(f.value.id) == "assembly" and m == "add_scaffold" and len(c.args) == 1:
                tgt = ast.Attribute(value=f.value, attr="scaffolds", ctx=ast.Load())
                new_call = ast.Call(func=ast.Attribute(value=tgt, attr="append", ctx=ast.Load()), args=c.args, keywords=[])
                return self.call_stmt(new_call, rest, env, loop)
            if isinstance(f.value, ast.Name) and env.get(f.value.id) == "scaffold" and m == "add_row" and len(c.args) == 1:
                # Scaffold.add_row(row) is `self.rows.append(row)`
                tgt = ast.Attribute(value=f.value, attr="rows", ctx=ast.Load())
                new_call = ast.Call(func=ast.Attribute(value=tgt, attr="append", ctx=ast.Load()), args=c.args, keywords=[])
                return self.call_stmt(new_call, rest, env, loop)
            if isinstance(f.value, ast.Name):
                root = f.value.id
                tb = env.get(root)
                if (tb, m) in MUT_METHOD and not c.args:
                    nm = self.fresh("mu")
                    binds.append((nm, f"({MUT_METHOD[(tb, m)]} {mg(root)})", tb))
                    return self.with_binds(binds, [self.let(root, tb, nm)] + self.block(rest, env, loop))
        raise Unsupported("call statement " + (dotted(f) or ""))

    def if_stmt(self, s, rest, env, loop):
        binds = []
        test = s.test
        pre, env1 = [], env
        if s.orelse and not (len(s.orelse) == 1 and isinstance(s.orelse[0], ast.If)):
            # NORMAL FORM: a NEGATED test with an `else` (`if not C: A else: B`, `if a not in b: …`) is written positively (`if C: B else: A`), so
            # that flipping the two branches of an `if` in the source does not change the generated text
            pos = None
            if isinstance(test, ast.UnaryOp) and isinstance(test.op, ast.Not):
                pos = test.operand
            elif isinstance(test, ast.Compare) and len(test.ops) == 1 and isinstance(test.ops[0], ast.NotIn):
                pos = ast.Compare(left=test.left, ops=[ast.In()], comparators=test.comparators)
            if pos is not None:
                return self.if_stmt(ast.If(test=pos, body=list(s.orelse), orelse=list(s.body)), rest, env, loop)
        if self.spec.get("p2") and not exits(s.body) and not exits(s.orelse):
            # a local FIRST assigned on every path of this `if` (declared in the kernel's `locals`) exists afterwards: it gets a placeholder value
            # that every path overwrites, and is then joined like the variables that existed before
            fresh_ = [n for n in sorted(set(assigned(list(s.body) + list(s.orelse)))) if n not in env and n in self.spec.get("locals", {})
                      and definitely_assigns(s.body, n) and definitely_assigns(s.orelse, n)]
            if fresh_:
                env = dict(env)
                pre_ = []
                for n in fresh_:
                    ty_ = self.spec["locals"][n]
                    env[n] = ty_
                    pre_.append(self.let(n, ty_, DEFAULT_OF(ty_)))
                return pre_ + self.if_stmt(s, rest, env, loop)
        if isinstance(test, ast.NamedExpr):
            # `if seq := chunk.read(want):`  /  `if m := row.tags:`
            asg = ast.Assign(targets=[ast.Name(id=test.target.id, ctx=ast.Store())], value=test.value)
            new_if = ast.If(test=ast.Name(id=test.target.id, ctx=ast.Load()), body=s.body, orelse=s.orelse)
            return self.block([asg, new_if] + rest, env, loop)
        # `x is None` / `x is not None` on a variable: match (narrowing)
        if isinstance(test, ast.Compare) and len(test.ops) == 1 and isinstance(test.ops[0], (ast.Is, ast.IsNot)) \
                and isinstance(test.comparators[0], ast.Constant) and test.comparators[0].value is None and isinstance(test.left, ast.Name) \
                and isinstance(env.get(test.left.id), tuple) and env[test.left.id][0] == "opt":
            x = test.left.id
            none_body, some_body = (s.body, s.orelse) if isinstance(test.ops[0], ast.Is) else (s.orelse, s.body)
            env_some = dict(env)
            env_some[x] = env[x][1]
            a = self.block(list(none_body) + ([] if always_exits(none_body) else rest), env, loop)
            b = self.block(list(some_body) + ([] if (some_body and always_exits(some_body)) else rest), env_some, loop)
            return [f"match {mg(x)} with", "| none =>"] + ind(a) + [f"| some {mg(x)} =>"] + ind(b)
        if isinstance(test, ast.Call) and isinstance(test.func, ast.Name) and test.func.id == "isinstance" and len(test.args) == 2 \
                and isinstance(test.args[0], ast.Name) and env.get(test.args[0].id) == "bref" and isinstance(test.args[1], ast.Name) and test.args[1].id == "OverlapResult":
            x = test.args[0].id
            env_r, env_l = dict(env), dict(env)
            env_r[x], env_l[x] = "ovref", "lref"
            a = self.block(list(s.body) + ([] if always_exits(s.body) else rest), env_r, loop)
            b = self.block(list(s.orelse) + ([] if (s.orelse and always_exits(s.orelse)) else rest), env_l, loop)
            return [f"match {mg(x)} with", f"| .res {mg(x)} =>"] + ind(a) + [f"| .lo {mg(x)} =>"] + ind(b)
        if isinstance(test, ast.Name) and (env.get(test.id) == O("str") or (isinstance(env.get(test.id), tuple) and env[test.id][0] == "opt"
                                                                      and isinstance(env[test.id][1], tuple) and env[test.id][1][0] in ("list", "set", "dict"))):
            # `if x:` for a str-or-None (or a collection-or-None): None and the empty value are false; inside the true branch x is definite
            x = test.id
            env_t = dict(env)
            env_t[x] = env[x][1]
            if self.spec.get("p2") and not exits(s.body) and not exits(s.orelse):
                # exit-free branches: joined (the continuation is translated once), as for a plain `if`
                names = [self.aliases.get(n, n) for n in assigned(list(s.body) + list(s.orelse))]
                join = []
                for n in sorted((z for z in set(names) if z in env), key=lambda z: (lean_ty(env[z]), z)):
                    if n in env and n != x and n not in [j for j, _ in join]:
                        join.append((n, env[n]))
                if join:
                    log0 = len(self.let_log)
                    a = self.block_join(list(s.body), env_t, join)
                    b = self.block_join(list(s.orelse), env, join)
                    self.check_carried(log0, {k: v for k, v in env.items() if k != x}, [n for n, _ in join], "the joined `if`")
                    nm = self.fresh("j")
                    head = [f"(match {mg(x)} with", "| some (c_ :: cs_) =>", f"  let {mg(x)} : {lean_ty(env[x][1])} := c_ :: cs_"] + ind(a) + ["| _ =>"] + ind(b) \
                        + [f") >>= fun ({nm} : {self.state_ty(join)}) =>"]
                    lets = []
                    if len(join) == 1:
                        lets.append(self.let(join[0][0], join[0][1], nm))
                    else:
                        proj = nm
                        for k, (n, t) in enumerate(join):
                            if k < len(join) - 1:
                                lets.append(self.let(n, t, f"{proj}.1"))
                                proj = f"{proj}.2"
                            else:
                                lets.append(self.let(n, t, proj))
                    return head + lets + self.block(rest, env, loop)
            a_t = self.block(list(s.body) + ([] if always_exits(s.body) else rest), env_t, loop)
            b_some = self.block(list(s.orelse) + ([] if (s.orelse and always_exits(s.orelse)) else rest), env_t, loop)
            b_none = self.block(list(s.orelse) + ([] if (s.orelse and always_exits(s.orelse)) else rest), env, loop)
            return [f"match {mg(x)} with", "| none =>"] + ind(b_none) + [f"| some {mg(x)} =>", f"  if (!({mg(x)}).isEmpty) = true then"] + ind(ind(a_t)) + ["  else"] + ind(ind(b_some))
        def opt_attr(n):
            p = dotted(n) if isinstance(n, ast.Attribute) else None
            ty = self.spec.get("attr_params", {}).get(p) if p else None
            return p if (isinstance(ty, tuple) and ty[0] == "opt") else None
        head = test.values[0] if (isinstance(test, ast.BoolOp) and isinstance(test.op, ast.And)) else (test.operand if isinstance(test, ast.UnaryOp) and isinstance(test.op, ast.Not) else test)
        if opt_attr(head):
            path = opt_attr(head)
            tmp = "opt_" + path.replace(".", "_")

            class Sub(ast.NodeTransformer):
                def visit_Attribute(self, node):
                    if dotted(node) == path:
                        return ast.Name(id=tmp, ctx=ast.Load())
                    return self.generic_visit(node)
            new_if = Sub().visit(ast.parse(ast.unparse(s)).body[0])
            rest2 = [Sub().visit(ast.parse(ast.unparse(r)).body[0]) for r in rest]
            asg = ast.Assign(targets=[ast.Name(id=tmp, ctx=ast.Store())], value=head)
            return self.block([asg, new_if] + rest2, env, loop)

        def opt_obj(n):
            return isinstance(n, ast.Name) and isinstance(env.get(n.id), tuple) and env[n.id][0] == "opt" \
                and (env[n.id][1] in ("frag", "gap", "row", "scaffold", "ovres", "fastainfo", "scref", "ffref", "ovref", "lref", "assembly") or (isinstance(env[n.id][1], tuple) and env[n.id][1][0] == "match") or (isinstance(env[n.id][1], tuple) and env[n.id][1][0] == "tuple" and env[n.id][1][1]))
        if isinstance(test, ast.UnaryOp) and isinstance(test.op, ast.Not) and opt_obj(test.operand):
            isnone = ast.Compare(left=ast.Name(id=test.operand.id, ctx=ast.Load()), ops=[ast.Is()], comparators=[ast.Constant(value=None)])
            return self.if_stmt(ast.If(test=isnone, body=s.body, orelse=s.orelse), rest, env, loop)
        if isinstance(test, ast.BoolOp) and isinstance(test.op, ast.And) and isinstance(test.values[0], ast.Compare) and len(test.values[0].ops) == 1 \
                and isinstance(test.values[0].ops[0], ast.IsNot) and isinstance(test.values[0].comparators[0], ast.Constant) and test.values[0].comparators[0].value is None \
                and isinstance(test.values[0].left, ast.Name):
            others = test.values[1:]
            inner_test = others[0] if len(others) == 1 else ast.BoolOp(op=ast.And(), values=others)
            inner = ast.If(test=inner_test, body=s.body, orelse=s.orelse)
            return self.if_stmt(ast.If(test=test.values[0], body=[inner], orelse=s.orelse), rest, env, loop)
        if opt_obj(test) or (isinstance(test, ast.BoolOp) and isinstance(test.op, ast.And) and opt_obj(test.values[0])):
            x = test if isinstance(test, ast.Name) else test.values[0]
            notnone = ast.Compare(left=ast.Name(id=x.id, ctx=ast.Load()), ops=[ast.IsNot()], comparators=[ast.Constant(value=None)])
            if isinstance(test, ast.Name):
                return self.if_stmt(ast.If(test=notnone, body=s.body, orelse=s.orelse), rest, env, loop)
            others = test.values[1:]
            inner_test = others[0] if len(others) == 1 else ast.BoolOp(op=ast.And(), values=others)
            inner = ast.If(test=inner_test, body=s.body, orelse=s.orelse)
            return self.if_stmt(ast.If(test=notnone, body=[inner], orelse=s.orelse), rest, env, loop)
        if isinstance(test, ast.UnaryOp) and isinstance(test.op, ast.Not) and isinstance(test.operand, ast.Name) and self.spec.get("p2") \
                and (env.get(test.operand.id) == O("str") or (isinstance(env.get(test.operand.id), tuple) and env[test.operand.id][0] == "opt"
                                                              and isinstance(env[test.operand.id][1], tuple) and env[test.operand.id][1][0] in ("list", "set", "dict"))):
            # NORMAL FORM: `if not x: A else: B` is `if x: B else: A` (so that x is narrowed in B and after an A that always exits)
            return self.if_stmt(ast.If(test=test.operand, body=list(s.orelse) or [ast.Pass()], orelse=list(s.body)), rest, env, loop)
        c, tc = self.expr(test, env, binds)
        c = self.truthy(c, tc)
        if not exits(s.body) and not exits(s.orelse):
            # join on the variables the branches assign (that exist afterwards)
            names = [n for n in assigned(list(s.body) + list(s.orelse))]
            names = [self.aliases.get(n, n) for n in names]
            join = []
            for n in sorted((x for x in set(names) if x in env), key=lambda x: (lean_ty(env[x]), x)):    # NORMAL FORM: joined variables ordered by type, then name
                if n in env and n not in [j for j, _ in join]:
                    join.append((n, env[n]))
            if not join:
                # the branches only introduce NEW locals (e.g. `chosen = a` / `chosen = b`): duplicate the continuation instead of joining
                a = self.block(list(s.body) + rest, env, loop)
                b = self.block(list(s.orelse) + rest, env, loop)
                return self.with_binds(binds, [f"if {c} = true then"] + ind(a) + ["else"] + ind(b))
            saved = self.ret_ty
            log0 = len(self.let_log)
            a = self.block_join(list(s.body), env, join)
            b = self.block_join(list(s.orelse), env, join)
            self.check_carried(log0, env, [n for n, _ in join], "the joined `if`")
            nm = self.fresh("j")
            head = [f"(if {c} = true then"] + ind(a) + ["else"] + ind(b) + [f") >>= fun ({nm} : {self.state_ty(join)}) =>"]
            lets = []
            if len(join) == 1:
                lets.append(self.let(join[0][0], join[0][1], nm))
            else:
                proj = nm
                for k, (n, t) in enumerate(join):
                    if k < len(join) - 1:
                        lets.append(self.let(n, t, f"{proj}.1"))
                        proj = f"{proj}.2"
                    else:
                        lets.append(self.let(n, t, proj))
            return self.with_binds(binds, head + lets + self.block(rest, env, loop))
        a = self.block(list(s.body) + ([] if always_exits(s.body) else rest), env, loop)
        b = self.block(list(s.orelse) + ([] if (s.orelse and always_exits(s.orelse)) else rest), env, loop)
        return self.with_binds(binds, [f"if {c} = true then"] + ind(a) + ["else"] + ind(b))

    def block_join(self, stmts, env, join):
        """an exit-free block as a term of type R (joined variables)"""
        marker = ast.Expr(value=ast.Constant(value=Ellipsis))
        return self.block_j(stmts, env, join)

    def block_j(self, stmts, env, join):
        # reuse `block` with a pseudo-loop whose `.next state` we unwrap: simpler — translate with a special finish
        saved_finish = self.finish
        try:
            self.finish = lambda env2, loop2: ([f".ok {self.state_term(env2, join)}"] if loop2 is None else saved_finish(env2, loop2))
            return self.block(stmts, env, None)
        finally:
            self.finish = saved_finish

    def loop_stmt(self, s, rest, env, loop, is_for):
        if s.orelse:
            raise Unsupported("loop with else clause")
        if not is_for:
            # NORMAL FORMS of `while` (so that equivalent spellings give the same Lean text):
            #   `while True: if not C: break; REST`  ==>  `while C: REST`
            #   `while (x := e): B`                  ==>  `while True: if x := e: B else: break`
            t = s.test
            if isinstance(t, ast.Constant) and t.value is True and s.body and isinstance(s.body[0], ast.If) and not s.body[0].orelse \
                    and len(s.body[0].body) == 1 and isinstance(s.body[0].body[0], ast.Break) \
                    and isinstance(s.body[0].test, ast.UnaryOp) and isinstance(s.body[0].test.op, ast.Not) and len(s.body) > 1:
                s = ast.While(test=s.body[0].test.operand, body=s.body[1:], orelse=[])
            elif isinstance(t, ast.NamedExpr):
                s = ast.While(test=ast.Constant(value=True), body=[ast.If(test=t, body=s.body, orelse=[ast.Break()])], orelse=[])
        if is_for and isinstance(s.iter, ast.Call) and isinstance(s.iter.func, ast.Name) and s.iter.func.id == "enumerate" and len(s.iter.args) == 1 \
                and [k.arg for k in s.iter.keywords] == ["start"] and isinstance(s.iter.keywords[0].value, ast.Constant) \
                and isinstance(s.iter.keywords[0].value.value, int) and isinstance(s.target, ast.Tuple) and len(s.target.elts) == 2 \
                and all(isinstance(x, ast.Name) for x in s.target.elts):
            # NORMAL FORM: `for j, x in enumerate(xs, start=k)` is `for i, x in enumerate(xs)` with every `j` read as `i + k`
            j, k_ = s.target.elts[0].id, s.iter.keywords[0].value.value
            if any(isinstance(n, ast.Name) and n.id == j and isinstance(n.ctx, ast.Store) for st in s.body for n in ast.walk(st)):
                raise Unsupported("the counter of enumerate(start=…) is re-assigned")

            class Shift(ast.NodeTransformer):
                def visit_Name(self, node):
                    if node.id == j and isinstance(node.ctx, ast.Load):
                        return ast.BinOp(left=ast.Name(id="i", ctx=ast.Load()), op=ast.Add(), right=ast.Constant(value=k_))
                    return node
            if any(isinstance(n, ast.Name) and n.id == "i" for st in s.body for n in ast.walk(st)) or "i" in env:
                raise Unsupported("enumerate(start=…): the name `i` is taken")
            body2 = [Shift().visit(ast.parse(ast.unparse(st)).body[0]) for st in s.body]
            s = ast.For(target=ast.Tuple(elts=[ast.Name(id="i", ctx=ast.Store()), s.target.elts[1]], ctx=ast.Store()),
                        iter=ast.Call(func=s.iter.func, args=s.iter.args, keywords=[]), body=body2, orelse=[])
        if not is_for and isinstance(s.test, ast.Constant) and s.test.value is True:
            # NORMAL FORM: a `while True:` without `break` whose every `return` (outside nested loops) is `return x` for one name x: nothing after it is
            # reachable, and it is the same as the loop with `break` in their place followed by `return x`
            def top_nodes(stmts):
                for st in stmts:
                    stack = [st]
                    while stack:
                        n = stack.pop()
                        yield n
                        for ch in ast.iter_child_nodes(n):
                            if not isinstance(ch, (ast.For, ast.While, ast.FunctionDef)):
                                stack.append(ch)
                            elif isinstance(ch, (ast.For, ast.While)):
                                # returns inside a nested loop leave the function too, but cannot become `break`
                                for m in ast.walk(ch):
                                    if isinstance(m, ast.Return):
                                        yield ast.Return(value=None)
            tn = list(top_nodes(s.body))
            rets = [n for n in tn if isinstance(n, ast.Return)]
            if not any(isinstance(n, ast.Break) for n in tn) and rets and all(isinstance(r.value, ast.Name) for r in rets) \
                    and len({r.value.id for r in rets}) == 1:
                rest = [ast.Return(value=ast.Name(id=rets[0].value.id, ctx=ast.Load()))]
        if rest and isinstance(rest[0], ast.Return) and isinstance(rest[0].value, ast.Name):
            # NORMAL FORM: `return x` inside the loop (not in a nested loop) when the statement after the loop is `return x`: the same as `break`
            x_ = rest[0].value.id

            class Brk(ast.NodeTransformer):
                def visit_For(self, node):
                    return node
                def visit_While(self, node):
                    return node
                def visit_FunctionDef(self, node):
                    return node
                def visit_Return(self, node):
                    if isinstance(node.value, ast.Name) and node.value.id == x_:
                        return ast.Break()
                    return node
            new_body = [Brk().visit(ast.parse(ast.unparse(st)).body[0]) for st in s.body]
            if ast.dump(ast.Module(body=new_body, type_ignores=[])) != ast.dump(ast.Module(body=list(s.body), type_ignores=[])):
                s = (ast.For(target=s.target, iter=s.iter, body=new_body, orelse=[]) if is_for else ast.While(test=s.test, body=new_body, orelse=[]))
        binds = []
        env_body = dict(env)
        loopvars = []
        if is_for:
            clash = [n for n in self.for_targets(s) if self.aliases.get(n, n) in env]
            if clash and isinstance(s.target, ast.Name):
                # Python keeps a loop variable's last value after the loop: a target that re-uses an existing variable is an ASSIGNMENT to it at
                # the start of every pass (and the variable is carried by the loop state)
                it = s.target.id + "_it"
                s = ast.For(target=ast.Name(id=it, ctx=ast.Store()), iter=s.iter,
                            body=[ast.Assign(targets=[ast.Name(id=s.target.id, ctx=ast.Store())], value=ast.Name(id=it, ctx=ast.Load()))] + list(s.body), orelse=[])
            elif clash:
                raise Unsupported(f"loop variable(s) {clash} re-use an existing variable")
            src, ts, pat = self.for_source(s, env, binds, env_body)
        names = [self.aliases.get(n, n) for n in assigned(list(s.body))]
        state = []
        # NORMAL FORM: the loop state is ordered by the TYPE of the variable (its Lean text), then by name — not by the order of assignment in the
        # source, and not changed by renaming a local unless another carried variable has exactly the same type
        for n in sorted((x for x in set(names) if x in env), key=lambda x: (lean_ty(env[x]), x)):
            if n in env and n not in [x for x, _ in state] and not (is_for and n in self.for_targets(s)):
                state.append((n, env[n]))
        # variables first assigned inside the loop and used afterwards are not supported (Lean reports the unbound name)
        log0 = len(self.let_log)
        pre_body = []
        if is_for and getattr(self, "file_iter", None) and isinstance(s.iter, ast.Name) and s.iter.id == self.file_iter[0]:
            # the file position moves past the line before the body runs
            if "fh_pos" not in env:
                raise Unsupported("file iteration without the position variable")
            if "fh_pos" not in [n for n, _ in state]:
                state.append(("fh_pos", "int"))
            pre_body = [self.let("fh_pos", "int", f"(fh_pos + (Int.ofNat ({mg(self.file_iter[1])}).length))")]
        body = pre_body + self.block(list(s.body), env_body, state)
        self.check_carried(log0, env, [n for n, _ in state] + (self.for_targets(s) if is_for else []), "the loop state")
        res = self.fresh("lp")
        rho = "_"
        if is_for:
            head = [f"PyRt.forIn {src} {self.state_term(env, state)} (fun {pat} {self.state_pat(state)} =>"] + ind(body) + [f") >>= fun {res} =>"]
        else:
            self.uses_fuel = True
            cb = []
            c, tc = self.expr(s.test, env, cb)
            cond = self.wrap_term(cb, f"(.ok {self.truthy(c, tc)})")
            head = [f"PyRt.whileLoop fuel {self.state_term(env, state)} (fun {self.state_pat(state)} => {cond}) (fun {self.state_pat(state)} =>"] \
                + ind(body) + [f") >>= fun {res} =>"]
        after = self.block(rest, env, loop)
        prop = [f".ok (.ret r)"] if loop is not None else [".ok r"]
        tail = [f"match {res} with", "| .returned r =>"] + ind(prop) + [f"| .fell {self.state_pat(state)} =>"] + ind(after)
        return self.with_binds(binds, head + tail)

    def for_targets(self, s):
        return [el.id for el in (s.target.elts if isinstance(s.target, ast.Tuple) else [s.target]) if isinstance(el, ast.Name)]

    def for_source(self, s, env, binds, env_body):
        it = s.iter
        if isinstance(it, ast.Call) and isinstance(it.func, ast.Name) and it.func.id == "range" and not it.keywords and isinstance(s.target, ast.Name):
            args = [self.expr(a, env, binds) for a in it.args]
            if any(t != "int" for _, t in args):
                raise Unsupported("range bound")
            if len(args) == 1:
                src = f"(PyRt.rangeUp 0 {args[0][0]})"
            elif len(args) == 2:
                src = f"(PyRt.rangeUp {args[0][0]} {args[1][0]})"
            elif len(args) == 3 and ast.unparse(it.args[2]) == "-1":
                src = f"(PyRt.rangeDown {args[0][0]} {args[1][0]})"
            else:
                raise Unsupported("range() step")
            env_body[s.target.id] = "int"
            return src, L("int"), f"({mg(s.target.id)} : Int)"
        if isinstance(it, ast.Call) and isinstance(it.func, ast.Name) and it.func.id == "enumerate" and len(it.args) == 1 \
                and [k.arg for k in it.keywords] == ["start"] and isinstance(it.keywords[0].value, ast.Constant) and isinstance(it.keywords[0].value.value, int) \
                and isinstance(s.target, ast.Tuple) and len(s.target.elts) == 2 and all(isinstance(x, ast.Name) for x in s.target.elts):
            raise Unsupported("internal: enumerate(start=…) must have been normalised by loop_stmt")
        if isinstance(it, ast.Call) and isinstance(it.func, ast.Name) and it.func.id == "enumerate" and len(it.args) == 1 and not it.keywords \
                and isinstance(s.target, ast.Tuple) and len(s.target.elts) == 2 and all(isinstance(x, ast.Name) for x in s.target.elts):
            t, ty = self.expr(it.args[0], env, binds)
            if self.spec.get("p2"):
                if isinstance(ty, tuple) and ty[0] == "opt" and isinstance(ty[1], tuple) and ty[1][0] == "list":
                    nm = self.fresh()
                    binds.append((nm, f"(PyRt.needIter {t})", ty[1]))      # enumerate(None): TypeError
                    t, ty = nm, ty[1]
                t, ty = self.keys_of(t, ty)
            if not (isinstance(ty, tuple) and ty[0] == "list"):
                raise Unsupported("enumerate of a non-list")
            i, x = s.target.elts[0].id, s.target.elts[1].id
            env_body[i], env_body[x] = "int", ty[1]
            return f"(PyRt.enumerate {t})", ty, f"(({mg(i)}, {mg(x)}) : Int × {lean_ty(ty[1])})"
        if isinstance(s.target, ast.Tuple) and all(isinstance(x, ast.Name) for x in s.target.elts):
            t, ty = self.expr(it, env, binds)
            if isinstance(ty, tuple) and ty[0] == "opt" and isinstance(ty[1], tuple) and ty[1][0] == "list":
                nm = self.fresh()
                binds.append((nm, f"(PyRt.needIter {t})", ty[1]))      # iterating None: TypeError
                t, ty = nm, ty[1]
            if not (isinstance(ty, tuple) and ty[0] == "list" and isinstance(ty[1], tuple) and ty[1][0] == "tuple" and len(ty[1][1]) == len(s.target.elts)):
                raise Unsupported("tuple loop target over a non-list-of-tuples")
            for x, tx in zip(s.target.elts, ty[1][1]):
                env_body[x.id] = tx
            return t, ty, "((" + ", ".join(mg(x.id) for x in s.target.elts) + ") : " + " × ".join(lean_ty(tx) for tx in ty[1][1]) + ")"
        if isinstance(s.target, ast.Name) and isinstance(it, ast.Name) and it.id in self.spec.get("file_lines", {}):
            # iterating a binary file: the declared list of its lines (bytes, each with its line ending); `fh.tell()` inside the body is the
            # offset just after the current line
            prm = self.spec["file_lines"][it.id]
            self.param(prm, L("bytes"))
            env_body[s.target.id] = "bytes"
            self.file_iter = (it.id, s.target.id)
            return prm, L("bytes"), f"({mg(s.target.id)} : List Nat)"
        if isinstance(s.target, ast.Name):
            t, ty = self.expr(it, env, binds)
            if isinstance(ty, tuple) and ty[0] == "opt" and isinstance(ty[1], tuple) and ty[1][0] in ("list", "set"):
                nm = self.fresh()
                binds.append((nm, f"(PyRt.needIter {t})", ty[1]))      # iterating None: TypeError
                t, ty = nm, ty[1]
            if isinstance(ty, tuple) and ty[0] == "set":
                ty = L(ty[1])
            if isinstance(ty, tuple) and ty[0] == "dict" and self.spec.get("p2"):
                t, ty = self.keys_of(t, ty)
            if not (isinstance(ty, tuple) and ty[0] == "list"):
                raise Unsupported("loop over a non-list")
            env_body[s.target.id] = ty[1]
            return t, ty, f"({mg(s.target.id)} : {lean_ty(ty[1])})"
        raise Unsupported("for-loop shape")


def ind(lines):
    return ["  " + l for l in lines]


def dotted(e):
    parts = []
    while isinstance(e, ast.Attribute):
        parts.append(e.attr)
        e = e.value
    if isinstance(e, ast.Name):
        parts.append(e.id)
        return ".".join(reversed(parts))
    return None


def sink_name(path):
    return "sink_" + path.replace(".", "_")


def char_lit(c):
    return {"\t": "'\\t'", "\n": "'\\n'", "\r": "'\\r'"}.get(c, f"'{c}'")


def uses_only_in(node, name):
    return True


def nonempty_text(e):
    """is this string expression non-empty whatever its fields hold? (it contains a non-empty literal part)"""
    if isinstance(e, ast.Constant) and isinstance(e.value, str):
        return len(e.value) > 0
    if isinstance(e, ast.JoinedStr):
        return any(isinstance(v, ast.Constant) and isinstance(v.value, str) and v.value for v in e.values)
    if isinstance(e, ast.BinOp) and isinstance(e.op, ast.Add):
        return nonempty_text(e.left) or nonempty_text(e.right)
    return False


def find_def(tree, qual):
    node = tree
    for part in qual.split("."):
        nxt = None
        for ch in ast.iter_child_nodes(node):
            if isinstance(ch, (ast.FunctionDef, ast.ClassDef)) and ch.name == part:
                nxt = ch
                break
        if nxt is None:
            return None
        node = nxt
    return node


def translate(spec):
    rel, qual, lean_name = spec["file"], spec["qual"], spec["lean"]
    try:
        text = (SRC / rel).read_text()
        tree = ast.parse(text)
    except Exception as e:
        return f"/- {rel}::{qual}: cannot parse ({e!r}) -/\ndef {lean_name}_UNSUPPORTED : Unit := ()\n"
    fn = find_def(tree, qual)
    if fn is None:
        return f"/- {rel}::{qual}: not found in the source -/\ndef {lean_name}_UNSUPPORTED : Unit := ()\n"
    src = ast.get_source_segment(text, fn) or ""
    doc = "\n".join("    " + x for x in src.splitlines()).replace("-/", "- /")
    if (spec.get("p2") or spec.get("km")) and "." in qual:
        spec.setdefault("cls", qual.split(".")[0])
        KM[(qual.split(".")[0], qual.split(".")[-1])] = lean_name       # registered before the body is translated only for lookup by LATER kernels (SIGS is filled at the end)
    k = Kernel(spec)
    try:
        k.ret_ty = spec.get("returns", "unit")
        env = {}
        for r in spec.get("roots", []):
            ty = spec["params"][r] if r in spec.get("params", {}) else None
            if ty is None:
                raise Unsupported(f"root {r} is not a parameter")
            env[r] = ty
            k.roots.append((r, ty))
            k.param(mg(r), ty)
        for p, ty in spec.get("sinks", {}).items():
            env[sink_name(p)] = ty
            k.roots.append((sink_name(p), ty))
        if spec.get("heap"):
            env["store"] = "store"
            k.roots.append(("store", "store"))
            k.param("store", "store")
            if spec.get("oid_counter"):
                env["nextOid"] = "nat"
                k.roots.append(("nextOid", "nat"))
                k.param("nextOid", "nat")
        if spec.get("arena"):
            env["heap_sc"] = L("scaffold")
            k.roots.append(("heap_sc", L("scaffold")))
        if spec.get("leftover_arena"):
            env["heap_lo"] = L(LO_T)
            k.roots.append(("heap_lo", L(LO_T)))
            env["added_lo"] = L("lref")
            k.roots.append(("added_lo", L("lref")))
        if spec.get("build_arena"):
            env["heap_b"] = L("scaffold")
            k.roots.append(("heap_b", L("scaffold")))
            env["heap_lo"] = L(LO_T)
            k.param("heap_lo", L(LO_T))
        if spec.get("found_arena"):
            env["heap_ff"] = L("found")
            k.roots.append(("heap_ff", L("found")))
            k.param("heap_ff", L("found"))
        if spec.get("oid_counter") and not spec.get("heap"):
            env["nextOid"] = "nat"
            k.roots.append(("nextOid", "nat"))
            k.param("nextOid", "nat")
        if "yields" in spec:
            env["yielded_"] = L(spec["yields"])
            k.roots.append(("yielded_", L(spec["yields"])))
        for p, ty in spec.get("extra_roots", {}).items():
            env[p] = ty
            k.roots.append((p, ty))
        for p, ty in spec.get("dict_roots", {}).items():
            nm = p.replace(".", "_")
            env[nm] = ty
            k.roots.append((nm, ty))
            if p not in spec.get("init_empty", []):
                k.param(nm, ty)
        if spec.get("ctor"):
            # a constructor: `self` starts as a blank object of the class and is the result; EVERY attribute of the class must be assigned
            cty = spec["ctor"]
            env["self"] = cty
            k.roots.append(("self", cty))
            assigned_attrs = {t.attr.lstrip("_") for n in ast.walk(fn) if isinstance(n, ast.Assign) for t in n.targets
                              if isinstance(t, ast.Attribute) and isinstance(t.value, ast.Name) and t.value.id == "self"}
            missing = sorted(set(CTOR_FIELDS[cty]) - assigned_attrs)
            if missing:
                raise Unsupported(f"the constructor does not assign {missing}")
            if cty == "frag":
                k.param("newOid", "nat")
        for p, ty in spec.get("reads", {}).items():
            env[p] = ty                     # a shared arena (or other value) the kernel only reads: a parameter, not a result
            k.param(p, ty)
        for p, ty in spec.get("params", {}).items():
            if ty in ("sink_str", "sink_bytes"):
                env[p] = ty
                k.roots.append((p, ty))
            elif p not in env:
                env[p] = ty
                k.param(mg(p), ty)
        body = list(fn.body)
        if spec.get("inline_closures"):
            # local helper functions (closures over the enclosing variables, `nonlocal`) are expanded at every call BEFORE translation, so
            # that the scans for assigned variables and early exits see their bodies
            import copy
            defs = {n.name: n for n in fn.body if isinstance(n, ast.FunctionDef) and n.name in spec["inline_closures"]}
            for d in defs.values():
                if d.args.args or any(isinstance(x, (ast.Return, ast.Yield)) for st in d.body for x in ast.walk(st)):
                    raise Unsupported("closure to inline")

            def expand(stmts, depth=0):
                out = []
                for st in stmts:
                    if isinstance(st, ast.Expr) and isinstance(st.value, ast.Call) and isinstance(st.value.func, ast.Name) and st.value.func.id in defs \
                            and not st.value.args and not st.value.keywords:
                        if depth > 4:
                            raise Unsupported("recursive closure")
                        out += expand([x for x in copy.deepcopy(defs[st.value.func.id].body)
                                       if not (isinstance(x, ast.Expr) and isinstance(x.value, ast.Constant))], depth + 1)
                        continue
                    for fld in ("body", "orelse"):
                        if hasattr(st, fld) and isinstance(getattr(st, fld), list) and not isinstance(st, ast.FunctionDef):
                            setattr(st, fld, expand(getattr(st, fld), depth))
                    out.append(st)
                return out
            body = expand([x for x in body if not (isinstance(x, ast.FunctionDef) and x.name in defs)])
        lines = k.block(body, env, None)
    except Unsupported as e:
        return f"/- {rel}::{qual}: outside the translated subset: {e}\n{doc}\n-/\ndef {lean_name}_UNSUPPORTED : Unit := ()\n"
    except Exception as e:       # a construct the translator does not even recognise: never crash, refuse this kernel only
        return f"/- {rel}::{qual}: outside the translated subset: translator error {type(e).__name__}: {e}\n{doc}\n-/\ndef {lean_name}_UNSUPPORTED : Unit := ()\n"
    # result type
    parts = [lean_ty(t) for _, t in k.roots]
    if k.ret_ty != "unit":
        parts.append(lean_ty(k.ret_ty))
    rty = "Unit" if not parts else " × ".join(parts)
    ctor_init = [f"  let self : {lean_ty(spec['ctor'])} := {CTOR_INIT[spec['ctor']]}"] if spec.get("ctor") else []
    sink_inits = ctor_init + [f"  let {mg(n)} : {lean_ty(t)} := {'0' if t == 'int' else ('none' if isinstance(t, tuple) and t[0] == 'opt' else '[]')}" for n, t in k.roots if t in ("sink_str", "sink_bytes") or n == "yielded_" or (n in ("heap_sc", "heap_b") and n not in spec.get("dict_roots", {})) or (n in ("heap_lo", "added_lo") and spec.get("leftover_arena")) or n in spec.get("extra_roots", {}) or n in [p.replace(".", "_") for p in spec.get("init_empty", [])]]
    # parameter order = the order of the kernel's declaration (params, attr_params, opaque, then newOid): independent of the order of use
    order = ["fs_exists", "fs_mtime", "fs_open", "store", "nextOid", "heap_ff", "heap_lo"] + list(spec.get("reads", {})) + [p.replace(".", "_") for p in spec.get("dict_roots", {})] + [mg(n) for n in spec.get("params", {})] + [p.replace(".", "_") for p in spec.get("attr_params", {})] \
        + [p.replace(".", "_") for p in spec.get("opaque", {})] + ["newOid"]
    k.params.sort(key=lambda nt: order.index(nt[0]) if nt[0] in order else len(order))
    params = ("(fuel : Nat) " if k.uses_fuel else "") + " ".join(f"({n} : {lean_ty(t)})" for n, t in k.params)
    extra = ""
    if spec.get("ctor"):
        # the constructor applied to the DEFAULT values of its signature (those that are literals): what `Class(required…)` builds
        args_ = [a for a in fn.args.args if a.arg != "self"]
        defaults = dict(zip([a.arg for a in args_][len(args_) - len(fn.args.defaults):], fn.args.defaults))
        terms, free = [], []
        ok = True
        for n, t in k.params:
            base = n[:-2] if n.endswith("_v") and n[:-2] in RESERVED else n
            if base in defaults:
                d = defaults[base]
                try:
                    dt, dty = Kernel(spec).expr(d, {}, [])
                    terms.append(Kernel(spec).coerce(dt, dty, t))
                except Unsupported as e:
                    ok = False
                    extra = f"\n/- the default `{base}={ast.unparse(d)}` of {qual} has no value of the declared type {t}: {e} -/\ndef {lean_name}_defaults_UNSUPPORTED : Unit := ()\n"
                    break
            else:
                terms.append(n)
                free.append((n, t))
        if ok:
            extra = (f"\n/- {qual} with the default values of its signature ({', '.join(f'{a}={ast.unparse(v)}' for a, v in defaults.items())}) -/\n"
                     f"def {lean_name}_defaults " + " ".join(f"({n} : {lean_ty(t)})" for n, t in free) + f" : R ({rty}) :=\n  {lean_name} " + " ".join(terms) + "\n")
    SIGS[lean_name] = dict(params=list(k.params), roots=list(k.roots), ret=k.ret_ty, fuel=k.uses_fuel, spec=spec,
                           pyargs=[a.arg for a in fn.args.args if a.arg != "self"], stopiter=any("PyRt.iterNext" in l for l in lines))
    return (f"/- translated from {rel}::{qual}\n{doc}\n-/\ndef {lean_name} {params} : R ({rty}) :=\n" + "\n".join(sink_inits + ["  " + l for l in lines]) + "\n" + extra)


IMP_KERNELS_2 = [
    dict(file="assembly/indexed_assembly.py", qual="IndexedAssembly.add_scaffold", lean="IndexedAssembly_add_scaffold",
         params={"scffld": "scaffold"}, locals={"idx": L("int")},
         dict_roots={"self._scaffold_dict": ("dict", "str", "scaffold"), "self._scaffold_index": ("dict", "str", L("int"))}),
    dict(file="assembly/build_assembly.py", qual="BuildAssembly.qc_sub_fragments", lean="BuildAssembly_qc_sub_fragments",
         params={"sub_fragments": L("frag")}, attr_params={"fnd.fragment": "frag"},
         locals={"pairs_with_gaps": L(("tuple", ["frag", "frag", O("int")]))}, messages=["msg"], ignore_locals=["pixels"]),
    dict(file="assembly/scaffold.py", qual="Scaffold.append_scaffold", lean="Scaffold_append_scaffold",
         params={"self": "scaffold", "othr": "scaffold", "gap": O("row")}, roots=["self"]),      # `gap`: whatever row object the caller passes (or None)
    dict(file="assembly/overlap_result.py", qual="OverlapResult.to_scaffold", lean="OverlapResult_to_scaffold",
         params={"self": "ovres"}, returns="scaffold"),
    dict(file="assembly/fragment.py", qual="Fragment.reverse", lean="Fragment_reverse", params={"self": "frag"}, returns="frag", km=True),
    dict(file="assembly/format.py", qual="format_tpf", lean="format_tpf_imp",
         params={"file": "sink_str"}, attr_params={"asm.header": L("str"), "asm.scaffolds": L("scaffold")},
         opaque={"uppercase_and_underscore_to_dash": ([], "trtable", False)}),
]

IMP_KERNELS_3 = [
    dict(file="fasta/index.py", qual="FastaIndex.get_gap_iter", lean="FastaIndex_get_gap_iter_imp", yields="bytesio",
         params={"gap": "gap", "gap_character": "bytes"}, attr_params={"self.buffer_size": "int"}),
    dict(file="fasta/index.py", qual="FastaIndex.fwd_chunks", lean="FastaIndex_fwd_chunks_imp", yields="bytesio",
         params={"info": "fastainfo", "start": "int", "end": "int"}, attr_params={"self.buffer_size": "int"},
         opaque={"self.sequence_bytes": (["fastainfo", "int", "int"], "bytesio", True)}),
    dict(file="fasta/index.py", qual="FastaIndex.rev_chunks", lean="FastaIndex_rev_chunks_imp", yields="bytesio",
         params={"info": "fastainfo", "start": "int", "end": "int"}, attr_params={"self.buffer_size": "int"},
         opaque={"self.sequence_bytes": (["fastainfo", "int", "int"], "bytesio", True), "revcomp_bytes_io": (["bytesio"], "bytesio", False)}),
    dict(file="fasta/index.py", qual="FastaIndex.get_info", lean="FastaIndex_get_info", returns="fastainfo",
         params={"name": "str"}, attr_params={"self.index": ("dict", "str", "fastainfo")}),
    dict(file="fasta/index.py", qual="FastaIndex.get_sequence_iter", lean="FastaIndex_get_sequence_iter", returns=L("bytesio"),
         params={"frag": "frag"},
         opaque={"self.get_info": (["str"], "fastainfo", True), "self.rev_chunks": (["fastainfo", "int", "int"], L("bytesio"), True),
                 "self.fwd_chunks": (["fastainfo", "int", "int"], L("bytesio"), True)}),
    dict(file="fasta/simple.py", qual="reverse_complement", lean="reverse_complement_imp", returns="bytes", params={"seq": "bytes"}),
    dict(file="fasta/simple.py", qual="revcomp_bytes_io", lean="revcomp_bytes_io_imp", returns="bytesio", params={"seq": "bytesio"},
         opaque={"reverse_complement": (["bytes"], "bytes", False)}),
    dict(file="assembly/scaffold.py", qual="Scaffold.fragment_tags", lean="Scaffold_fragment_tags", returns=("set", "str"),
         params={"self": "scaffold"}, locals={"tag_set": ("set", "str")}),
    dict(file="assembly/scaffold.py", qual="Scaffold.length", lean="Scaffold_length_imp", returns="int", params={"self": "scaffold"}),
    dict(file="assembly/scaffold.py", qual="Scaffold.fragments_length", lean="Scaffold_fragments_length", returns="int", params={"self": "scaffold"}),
    dict(file="assembly/assembly.py", qual="Assembly.all_vs_all_fragments", lean="Assembly_all_vs_all_fragments_detect",
         attr_params={"self.scaffolds": L("scaffold")}, locals={"frags": L(("tuple", ["frag", "scaffold"]))},
         inline_callbacks={"compare_func": "Assembly.find_overlapping_fragments.detect_overlap"},
         extra_roots={"over_pairs": L(("tuple", [("tuple", ["frag", "scaffold"]), ("tuple", ["frag", "scaffold"])]))}),
]

KEY_T = ("tuple", ["str", "int", "int"])
LO_T = ("tuple", ["scaffold", O(("tuple", ["row", L("row")]))])      # a left-over Scaffold object and its `input_predecessor` attribute
IMP_KERNELS_4 = [
    # the eight one-line methods of the two premise classes (`self.scaffold` is a reference into the store)
    *[dict(file="assembly/build_utils.py", qual=f"{cls}.{m}", lean=f"{cls}_{m}", heap=True, returns="int", attr_params={"self.scaffold": "ovref"})
      for cls in ("StartOverhangPremise", "EndOverhangPremise") for m in ("bait_overlap", "overhang_if_applied", "overhang_error_delta_if_applied")],
    *[dict(file="assembly/build_utils.py", qual=f"{cls}.apply", lean=f"{cls}_apply", heap=True, attr_params={"self.scaffold": "ovref"})
      for cls in ("StartOverhangPremise", "EndOverhangPremise")],
    dict(file="assembly/build_utils.py", qual="OverhangResolver.add_overhang_premise", lean="OverhangResolver_add_overhang_premise", heap=True,
         params={"fragment": "frag", "scffld": "ovref"}, dict_roots={"self.premises_by_fragment_key": ("dict", KEY_T, L("premise"))}),
    dict(file="assembly/build_utils.py", qual="OverhangResolver.make_fixes", lean="OverhangResolver_make_fixes_imp", heap=True,
         returns=L("premise"), locals={"fixes_made": L("premise")},
         attr_params={"self.premises_by_fragment_key": ("dict", KEY_T, L("premise")), "self.error_length": "int"}),
    dict(file="assembly/build_assembly.py", qual="BuildAssembly.cut_fragments", lean="BuildAssembly_cut_fragments", heap=True, oid_counter=True,
         locals={"sub_fragments": L("frag")}, attr_params={"fnd.fragment": "frag", "fnd.scaffolds": L("ovref")},
         dict_roots={"self.assembly_stats.cuts": "int"}, opaque={"self.qc_sub_fragments": (["skip", L("frag")], "unit", True)}),
]

IMP_KERNELS_5 = [
    dict(file="assembly/build_assembly.py", qual="BuildAssembly.input_predecessor", lean="BuildAssembly_input_predecessor",
         params={"scffld": "scaffold", "i": "int"}, locals={"gaps": L("row")}, returns=O(("tuple", ["row", L("row")]))),
    dict(file="assembly/build_assembly.py", qual="BuildAssembly.gaps_before_leftover", lean="BuildAssembly_gaps_before_leftover",
         params={"build_scffld": "scaffold"}, returns=L("row"),
         attr_params={"scffld.input_predecessor": O(("tuple", ["row", L("row")])), "self.default_gap": O("gap")}),   # the stored pair as it is: (row object, gap rows)
]

IMP_KERNELS_6 = [
    dict(file="assembly/parser.py", qual="parse_agp", lean="parse_agp_imp", arena=True, oid_counter=True, assembly_objects=["asm"],
         params={"file": L("str")}, locals={"scaffold": O("scref")},
         dict_roots={"asm.header": L("str"), "asm.scaffolds": L("scref")}, init_empty=["asm.header", "asm.scaffolds"]),
    dict(file="assembly/parser.py", qual="parse_tpf", lean="parse_tpf_imp", arena=True, oid_counter=True, assembly_objects=["asm"],
         params={"file": L("str")}, locals={"scaffold": O("scref")}, opaque={"lowercase_and_dash_to_underscore": ([], "trtable", False)},
         dict_roots={"asm.header": L("str"), "asm.scaffolds": L("scref")}, init_empty=["asm.header", "asm.scaffolds"]),
]

FF_DICT = ("dict", KEY_T, "ffref")
IMP_KERNELS_7 = [
    dict(file="assembly/build_assembly.py", qual="BuildAssembly.store_fragments_found", lean="BuildAssembly_store_fragments_found", heap=True, found_arena=True,
         params={"scffld": "ovref"}, dict_roots={"self.found_fragments": FF_DICT, "self.fragments_found_more_than_once": FF_DICT}),
    dict(file="assembly/build_assembly.py", qual="BuildAssembly.discard_overhanging_fragments", lean="BuildAssembly_discard_overhanging_fragments",
         heap=True, found_arena=True, attr_params={"self.error_length": "int"}, dict_roots={"self.fragments_found_more_than_once": FF_DICT}),
]

NAMER_FILE = "assembly/build_utils.py"
IMP_KERNELS_8 = [
    dict(file=NAMER_FILE, qual="ScaffoldNamer.get_set_haplotype", lean="ScaffoldNamer_get_set_haplotype", params={"self": "namer", "haplotype": "str"}, roots=["self"], returns="str"),
    dict(file=NAMER_FILE, qual="ScaffoldNamer.haplotig_name", lean="ScaffoldNamer_haplotig_name", params={"self": "namer"}, roots=["self"], returns="str"),
    dict(file=NAMER_FILE, qual="ScaffoldNamer.unloc_name", lean="ScaffoldNamer_unloc_name", params={"self": "namer"}, roots=["self"], returns="str"),
    dict(file=NAMER_FILE, qual="ScaffoldNamer.haplotype_from_first_row_name", lean="ScaffoldNamer_haplotype_from_first_row_name",
         params={"self": "namer", "scaffold": "scaffold"}, roots=["self"], returns=O("str")),
    dict(file=NAMER_FILE, qual="ScaffoldNamer.make_scaffold_name", lean="ScaffoldNamer_make_scaffold_name",
         params={"self": "namer", "scaffold": "scaffold", "fragment_tags": O(("set", "str"))}, roots=["self"],
         locals={"scaffold_name": O("str"), "haplotype": O("str"), "rank": O("int")}),
    dict(file=NAMER_FILE, qual="ScaffoldNamer.label_scaffold", lean="ScaffoldNamer_label_scaffold", heap=True,
         params={"self": "namer", "scaffold": "ovref", "fragment": "frag", "scaffold_tags": ("set", "str"), "original_name": "str"}, roots=["self"],
         locals={"name": O("str"), "rank": O("int")}),
    dict(file=NAMER_FILE, qual="ScaffoldNamer.rename_by_size", lean="ScaffoldNamer_rename_by_size", heap=True, params={"scaffolds": L("ovref")}),
]

BA = "assembly/build_assembly.py"
IMP_KERNELS_9 = [
    dict(file=NAMER_FILE, qual="ScaffoldNamer.rename_unlocs_by_size", lean="ScaffoldNamer_rename_unlocs_by_size", heap=True, params={"self": "namer"}),
    dict(file=NAMER_FILE, qual="ScaffoldNamer.rename_haplotigs_by_size", lean="ScaffoldNamer_rename_haplotigs_by_size", heap=True, params={"self": "namer"}),
    dict(file=BA, qual="BuildAssembly.find_assembly_overlaps", lean="BuildAssembly_find_assembly_overlaps", heap=True, found_arena=True, build_assembly=True,
         attr_params={"prtxt_asm.scaffolds": L("scaffold"), "self.error_length": "int"}, locals={"found": O("ovref")},
         alloc_calls={"input_asm.find_overlaps": ["frag"]},
         dict_roots={"self.scaffold_namer": "namer", "self.found_fragments": FF_DICT, "self.fragments_found_more_than_once": FF_DICT}),
    dict(file=BA, qual="BuildAssembly.cut_remaining_overhangs", lean="BuildAssembly_cut_remaining_overhangs", heap=True, oid_counter=True, found_arena=True,
         build_assembly=True, dict_roots={"self.fragments_found_more_than_once": FF_DICT, "self.assembly_stats.cuts": "int"}),
]

IMP_KERNELS_10 = [
    dict(file=BA, qual="BuildAssembly.add_missing_scaffolds_from_input", lean="BuildAssembly_add_missing_scaffolds_from_input", leftover_arena=True, build_assembly=True,
         attr_params={"input_asm.scaffolds": L("scaffold"), "self.default_gap": "gap", "self.found_fragments": FF_DICT},
         locals={"new_scffld": O("lref"), "last_added_i": O("int")}, dict_roots={"self.scaffold_namer": "namer"}),
]

STATE = ["store", "heap_ff", "self_scaffold_namer", "self_found_fragments", "self_fragments_found_more_than_once"]
IMP_KERNELS_11 = [
    # the driver of phase 1.  NOT translated (listed, visible in the source comment above the definition): the default of `bp_per_texel` (a float; the
    # error length derived from it is a parameter) and the reference to the input assembly kept for the statistics.
    dict(file=BA, qual="BuildAssembly.remap_to_input_assembly", lean="BuildAssembly_remap_to_input_assembly", heap=True, oid_counter=True, found_arena=True,
         leftover_arena=True, build_assembly=True,
         skip_statements=["if not self.bp_per_texel", "self.assembly_stats.input_assembly = "],
         params={"prtxt_asm_scaffolds": L("scaffold"), "input_asm_scaffolds": L("scaffold"), "self_error_length": "int", "self_default_gap": "gap",
                 "input_asm_find_overlaps": ("fun", ["frag"], O("ovres"), True)},
         dict_roots={"self.scaffold_namer": "namer", "self.found_fragments": FF_DICT, "self.fragments_found_more_than_once": FF_DICT,
                     "self.assembly_stats.cuts": "int"},
         call_templates={
             "self.find_assembly_overlaps": ("BuildAssembly_find_assembly_overlaps", STATE + ["prtxt_asm_scaffolds", "self_error_length", "input_asm_find_overlaps"],
                                             ["store", "heap_ff", "self_scaffold_namer", "self_found_fragments", "self_fragments_found_more_than_once"]),
             "self.discard_overhanging_fragments": ("BuildAssembly_discard_overhanging_fragments", ["fuel", "store", "heap_ff", "self_fragments_found_more_than_once", "self_error_length"],
                                                    ["store", "heap_ff", "self_fragments_found_more_than_once"]),
             "self.cut_remaining_overhangs": ("BuildAssembly_cut_remaining_overhangs", ["store", "nextOid", "heap_ff", "self_fragments_found_more_than_once", "self_assembly_stats_cuts"],
                                              ["store", "nextOid", "heap_ff", "self_fragments_found_more_than_once", "self_assembly_stats_cuts"]),
             "self.scaffold_namer.rename_haplotigs_by_size": ("ScaffoldNamer_rename_haplotigs_by_size", ["store", "self_scaffold_namer"], ["store"]),
             "self.add_missing_scaffolds_from_input": ("BuildAssembly_add_missing_scaffolds_from_input", ["self_scaffold_namer", "input_asm_scaffolds", "self_default_gap", "self_found_fragments"],
                                                       ["heap_lo", "added_lo", "self_scaffold_namer"]),
         }),
]

IMP_KERNELS_12 = [
    dict(file="fasta/index.py", qual="index_fasta_file", lean="index_fasta_file_imp", oid_counter=True, assembly_objects=["asm"],
         inline_closures=["store_info", "process_seq_buffer"], file_lines={"fh": "lines"},
         params={"buffer_size": "int"},
         locals={"name": O("str"), "seq_length": O("int"), "file_offset": O("int"), "residues_per_line": O("int"), "region_start": O("int"),
                 "region_end": O("int"), "seq_regions": O(L(("tuple", ["int", "int"]))), "line_end_bytes": O("int"),
                 "idx_dict": ("dict", "str", "fastainfo"), "prev": ("tuple", ["int", "int"])},
         extra_roots={"idx_dict": ("dict", "str", "fastainfo"), "fh_pos": "int"},
         dict_roots={"asm.scaffolds": L("scaffold")}, init_empty=["asm.scaffolds"]),
]

JSET = ("set", "junction")
IMP_KERNELS_13 = [
    dict(file="assembly/assembly.py", qual="Assembly.fragment_junction_set", lean="Assembly_fragment_junction_set", returns=JSET,
         attr_params={"self.scaffolds": L("scaffold")}, locals={"junctions": JSET},
         opaque={"scffld.fragment_junction_set": ([], JSET, True)}),
    dict(file="assembly/assembly_stats.py", qual="AssemblyStats.make_stats", lean="AssemblyStats_make_stats", km=True,
         params={"output_assemblies": ("dict", O("str"), "assembly")},
         locals={"input_set": JSET, "output_set": JSET, "output_junction_sets": ("dict", O("str"), JSET)},
         opaque={"self.input_assembly.fragment_junctions_by_asm_prefix": ([], ("dict", O("str"), JSET), True)},
         dict_roots={"self.breaks": "int", "self.joins": "int", "self.per_assembly_stats": ("dict", "str", ("dict", "str", "int"))}),
]

CLI = "assembly/scripts/pretext_to_asm.py"
ASM_DICT = ("dict", O("str"), "assembly")
IMP_KERNELS_14 = [
    dict(file=CLI, qual="merge_assemblies", lean="merge_assemblies_imp", params={"asm_list": L("assembly")}, returns="assembly", locals={"new": "assembly"}),
    dict(file=CLI, qual="name_assemblies", lean="name_assemblies_imp", cli_kernels=True, params={"asm_dict": ASM_DICT, "root": "str", "version": "str"},
         returns=ASM_DICT, locals={"ret_asm": ASM_DICT, "other_asm": L("assembly")}),
]

IMP_KERNELS_15 = [
    dict(file="fasta/index.py", qual="FastaIndex.check_for_index_files", lean="FastaIndex_check_for_index_files", returns="bool",
         attr_params={"self.fasta_file": "path", "self.fai_file": "path", "self.agp_file": "path"}),
]

IMP_KERNELS_16 = [
    dict(file=CLI, qual="get_output_filehandle", lean="get_output_filehandle_imp", returns="fh",
         params={"path": "path", "clobber": "bool", "mode": "str"}),
]

BKEY = ("tuple", [O("str"), O("str"), "str"])
IMP_KERNELS_17 = [
    dict(file=BA, qual="BuildAssembly.scaffolds_fused_by_name", lean="BuildAssembly_scaffolds_fused_by_name", heap=True, km=True, build_arena=True, build_assembly=True,
         yields="bsref", attr_params={"self.default_gap": O("gap"), "self.scaffolds": L("bref")},
         locals={"gap": O("row"), "hap_name_scaffold": ("dict", BKEY, "bsref")}),
]

IMP_KERNELS_18 = [
    dict(file="assembly/assembly.py", qual="Assembly.name_natural_key", lean="Assembly_name_natural_key", returns=L("keytok"), km=True,
         attr_params={"obj.name": "str"}),
]

# ---------------------------------------------------------------------------------------------------------------- PHASE 2 (Gen/Imp2.lean)
HB = L("scaffold")
CN_ROOTS = {"self.scaffolds": L(("tuple", ["str", "bsref"])), "self.haplotypes_seen": ("dict", "str", "bool"), "self.groups": O(L("gref"))}
P2_KERNELS = [
    # ChrGroup: its only attribute is `data`
    dict(file=NAMER_FILE, qual="ChrGroup.__init__", lean="ChrGroup___init__", p2=True, params={"haplotypes": ("dict", "str", "bool")},
         dict_roots={"self.data": GDATA}, init_empty=["self.data"]),
    dict(file=NAMER_FILE, qual="ChrGroup.haplotype_dict", lean="ChrGroup_haplotype_dict", p2=True, params={"hap_name": "str"},
         attr_params={"self.data": GDATA}, returns=O(HAPSET)),
    dict(file=NAMER_FILE, qual="ChrGroup.add_scaffold_to_haplotype", lean="ChrGroup_add_scaffold_to_haplotype", p2=True,
         reads={"heap_b": HB}, params={"hap_name": "str", "scaffold": "bsref"}, dict_roots={"self.data": GDATA}),
    dict(file=NAMER_FILE, qual="ChrGroup.original_tags_of_haplotype_scaffold", lean="ChrGroup_original_tags_of_haplotype_scaffold", p2=True,
         reads={"heap_b": HB}, params={"hap_name": "str", "scffld_name": O("str")}, attr_params={"self.data": GDATA}, returns=L("str")),
    dict(file=NAMER_FILE, qual="ChrGroup.length_of_first_haplotype", lean="ChrGroup_length_of_first_haplotype", p2=True,
         reads={"heap_b": HB}, attr_params={"self.data": GDATA}, returns="int", locals={"length": "int"}),
    dict(file=NAMER_FILE, qual="ChrGroup.multi_chr_list", lean="ChrGroup_multi_chr_list", p2=True, params={"chr_name": "str", "multi_count": "int"},
         returns=L("str"), locals={"chr_list": L("str")}),
    dict(file=NAMER_FILE, qual="ChrGroup.max_hap_set_count", lean="ChrGroup_max_hap_set_count", p2=True, attr_params={"self.data": GDATA}, returns="int"),
    dict(file=NAMER_FILE, qual="ChrGroup.name_chromosome", lean="ChrGroup_name_chromosome", p2=True, params={"chr_prefix": "str", "chr_n": "int"},
         attr_params={"self.data": GDATA}, dict_roots={"heap_b": HB}),
    # ChrNamer: chr_prefix, scaffolds [(haplotype text, scaffold)], haplotypes_seen {text: True}, groups (None until name_chromosomes)
    dict(file=NAMER_FILE, qual="ChrNamer.__init__", lean="ChrNamer___init__", p2=True, params={"chr_prefix": "str"},
         dict_roots={"self.chr_prefix": "str", **CN_ROOTS}, init_empty=["self.chr_prefix"] + list(CN_ROOTS)),
    dict(file=NAMER_FILE, qual="ChrNamer.add_scaffold", lean="ChrNamer_add_scaffold", p2=True, params={"hap": O("str"), "scffld": "bsref"},
         dict_roots={"self.scaffolds": CN_ROOTS["self.scaffolds"], "self.haplotypes_seen": CN_ROOTS["self.haplotypes_seen"]}),
    dict(file=NAMER_FILE, qual="ChrNamer.new_group", lean="ChrNamer_new_group", p2=True, returns="gref",
         attr_params={"self.haplotypes_seen": CN_ROOTS["self.haplotypes_seen"]}, dict_roots={"heap_g": L(GDATA), "self.groups": CN_ROOTS["self.groups"]}),
    dict(file=NAMER_FILE, qual="ChrNamer.add_chr_prefix", lean="ChrNamer_add_chr_prefix", p2=True, params={"scffld": "bsref"},
         attr_params={"self.chr_prefix": "str"}, dict_roots={"heap_b": HB}),
    dict(file=NAMER_FILE, qual="ChrNamer.check_for_painted_scaffolds_missing_haplotype_tag", lean="ChrNamer_check_for_painted_scaffolds_missing_haplotype_tag", p2=True,
         attr_params={"self.haplotypes_seen": CN_ROOTS["self.haplotypes_seen"], "self.scaffolds": CN_ROOTS["self.scaffolds"]}, ignore_locals=["untagged"]),
    # the table check_groups draws is abstracted to "was an error marked" (`tabres`); the cells' texts are evaluated and dropped
    dict(file=NAMER_FILE, qual="ChrNamer.check_groups", lean="ChrNamer_check_groups", p2=True, returns="tabres", reads={"heap_b": HB, "heap_g": L(GDATA)},
         attr_params={"self.haplotypes_seen": CN_ROOTS["self.haplotypes_seen"], "self.groups": CN_ROOTS["self.groups"]}),
    dict(file=NAMER_FILE, qual="ChrNamer.build_groups", lean="ChrNamer_build_groups", p2=True, reads={"heap_b": HB},
         attr_params={"self.haplotypes_seen": CN_ROOTS["self.haplotypes_seen"], "self.scaffolds": CN_ROOTS["self.scaffolds"]},
         dict_roots={"heap_g": L(GDATA), "self.groups": CN_ROOTS["self.groups"]}, locals={"last_haplotype": O("str"), "last_orig": O("str")}, ignore_locals=["s"]),
    dict(file=NAMER_FILE, qual="ChrNamer.name_chromosomes", lean="ChrNamer_name_chromosomes", p2=True,
         attr_params={"self.haplotypes_seen": CN_ROOTS["self.haplotypes_seen"], "self.scaffolds": CN_ROOTS["self.scaffolds"], "self.chr_prefix": "str"},
         dict_roots={"heap_b": HB, "heap_g": L(GDATA), "self.groups": CN_ROOTS["self.groups"]}),
    dict(file="assembly/assembly.py", qual="Assembly.smart_sort_scaffolds", lean="Assembly_smart_sort_scaffolds", p2=True, reads={"heap_b": HB},
         dict_roots={"self.scaffolds": L("bsref")}),
    # the driver of phase 2.  The Assembly objects it returns live in `heap_a` (their scaffolds are references into `heap_b`); the statistics
    # read a snapshot (PyRt.asmDictView).  `self.autosome_prefix` is the property `return self.scaffold_namer.autosome_prefix` (checked).
    dict(file=BA, qual="BuildAssembly.assemblies_with_scaffolds_fused", lean="BuildAssembly_assemblies_with_scaffolds_fused", p2=True,
         reads={"store": "store", "heap_lo": L(LO_T)}, drop_results=["store"],
         field_objects={"chr_namer": "ChrNamer"}, path_objects={"self.assembly_stats": "AssemblyStats"},
         properties={"self.autosome_prefix": "self.scaffold_namer.autosome_prefix"},
         attr_params={"self.scaffold_namer": "namer", "self.name": "str", "self.default_gap": O("gap"), "self.scaffolds": L("bref")},
         params={"self_assembly_stats_input_assembly_fragment_junctions_by_asm_prefix": ("fun", [], ("dict", O("str"), JSET), True)},
         dict_roots={"heap_b": HB, "heap_g": L(GDATA), "heap_a": L("asmobj"), "self.assembly_stats.breaks": "int", "self.assembly_stats.joins": "int",
                     "self.assembly_stats.per_assembly_stats": ("dict", "str", ("dict", "str", "int"))},
         init_empty=["heap_b", "heap_g", "heap_a"], locals={"asm_key": O("str"), "assemblies": ("dict", O("str"), "aref")},
         returns=("dict", O("str"), "aref")),
]

P3_KERNELS = [
    # CONSTRUCTORS.  Everywhere else a constructor call `Scaffold(name)`, `Gap(n, t)` … is emitted as the model's structure literal, whose unset
    # fields take the MODEL's defaults; these kernels translate the `__init__` bodies and their signature defaults, and the guard theorems
    # (`Properties/C*ImpCtor.lean`) prove that they build exactly those literals.
    dict(file="assembly/scaffold.py", qual="Scaffold.__init__", lean="Scaffold___init__", p2=True, ctor="scaffold",
         params={"name": "str", "rows": O(L("row")), "tag": O("str"), "haplotype": O("str"), "rank": "int", "original_name": O("str"),
                 "original_tags": O(L("str"))}),
    dict(file="assembly/gap.py", qual="Gap.__init__", lean="Gap___init__", p2=True, ctor="gap", params={"length": "int", "gap_type": "str"}),
    dict(file="assembly/fragment.py", qual="Fragment.__init__", lean="Fragment___init__", p2=True, ctor="frag",
         params={"name": "str", "start": "int", "end": "int", "strand": "int", "tags": L("str")}),
    dict(file="fasta/index.py", qual="FastaInfo.__init__", lean="FastaInfo___init__", p2=True, ctor="fastainfo",
         params={"length": "int", "file_offset": "int", "residues_per_line": "int", "max_line_length": "int"}),
    # the chromosome-list CSV (C10): `csv_str` is a text buffer
    dict(file="assembly/assembly_stats.py", qual="AssemblyStats.chromosome_name_csv", lean="AssemblyStats_chromosome_name_csv", p2=True,
         params={"asm": "assembly"}, attr_params={"self.autosome_prefix": "str"}, returns=O("str"),
         locals={"orig_chr_name": ("dict", O("str"), "str"), "localised": "str", "chr_name": "str"}),
    # the junction sets the statistics compare (C11): iterators are the lists of items still to come
    # random access to the FASTA file (C03 / C14): the file handle is its bytes and a position
    dict(file="fasta/index.py", qual="FastaIndex.sequence_bytes", lean="FastaIndex_sequence_bytes_imp", p2=True,
         params={"info": "fastainfo", "start": "int", "end": "int"}, dict_roots={"self.fasta_fileandle": "binfile"}, returns="bytesio"),
    # the .fai cache (C17 warm = cold): one row written, the file read back
    dict(file="fasta/index.py", qual="FastaInfo.fai_row", lean="FastaInfo_fai_row", p2=True, params={"self": "fastainfo", "name": "str"}, returns="str"),
    dict(file="fasta/index.py", qual="FastaIndex.load_index", lean="FastaIndex_load_index", p2=True, text_lines={"idx": "fai_lines"},
         dict_roots={"self.index": ("dict", "str", "fastainfo")}, locals={"idx_dict": ("dict", "str", "fastainfo")}),
    # the whole FASTA output (C03): one record per scaffold, through the translated write_scaffold
    dict(file="fasta/stream.py", qual="FastaStream.write_assembly", lean="FastaStream_write_assembly", p2=True,
         params={"assembly": "assembly", "self_index_get_gap_iter": ("fun", ["row", "bytes"], L("bytesio"), False),
                 "self_index_get_sequence_iter": ("fun", ["row"], L("bytesio"), True)},
         sinks={"self.out": "sink_bytes"}, attr_params={"self.line_length": "int", "self.gap_character": "bytes"}),
    # reversal (C14): new Fragment objects get fresh object ids from the counter
    dict(file="assembly/scaffold.py", qual="Scaffold.reverse", lean="Scaffold_reverse_imp", p2=True, oid_counter=True,
         params={"self": "scaffold"}, returns="scaffold", locals={"new": "scaffold"}),
    dict(file="assembly/scaffold.py", qual="Scaffold.fragment_junction_set", lean="Scaffold_fragment_junction_set", p2=True,
         params={"self": "scaffold"}, returns=JSET, locals={"junctions": JSET}),
    dict(file="assembly/assembly.py", qual="Assembly.fragment_junctions_by_asm_prefix", lean="Assembly_fragment_junctions_by_asm_prefix", p2=True,
         attr_params={"self.scaffolds": L("scaffold")}, returns=("dict", O("str"), JSET),
         locals={"prefix_junctions": ("dict", O("str"), JSET), "asm_name": O("str")}),
]

IMP_KERNELS = [
    dict(file="assembly/indexed_assembly.py", qual="IndexedAssembly.find_overlaps", lean="IndexedAssembly_find_overlaps",
         params={"bait": "frag"}, returns=O("ovres"), locals={"ovr": O("int")},
         opaque={"self.scaffold_by_name": (["str"], "scaffold", True), "self._scaffold_index.get": (["str"], L("int"), False)}),
    dict(file="assembly/overlap_result.py", qual="OverlapResult.discard_start", lean="OverlapResult_discard_start",
         params={"self": "ovres"}, roots=["self"]),
    dict(file="assembly/overlap_result.py", qual="OverlapResult.discard_end", lean="OverlapResult_discard_end",
         params={"self": "ovres"}, roots=["self"]),
    dict(file="assembly/overlap_result.py", qual="OverlapResult.overhang_if_start_removed", lean="OverlapResult_overhang_if_start_removed",
         params={"self": "ovres"}, returns="int"),
    dict(file="assembly/overlap_result.py", qual="OverlapResult.overhang_if_end_removed", lean="OverlapResult_overhang_if_end_removed",
         params={"self": "ovres"}, returns="int"),
    dict(file="assembly/overlap_result.py", qual="OverlapResult.trim_large_overhangs", lean="OverlapResult_trim_large_overhangs_imp",
         params={"self": "ovres", "err_length": "int"}, roots=["self"]),
    dict(file="assembly/overlap_result.py", qual="OverlapResult.fragment_start_if_trimmed", lean="OverlapResult_fragment_start_if_trimmed",
         params={"self": "ovres", "frag": "frag"}, returns="int"),
    dict(file="assembly/overlap_result.py", qual="OverlapResult.trim_fragment", lean="OverlapResult_trim_fragment",
         params={"self": "ovres", "trim": "frag", "keep_start": "bool", "keep_end": "bool"}, roots=["self"], returns="frag",
         locals={"idx": O("int")}),
    dict(file="assembly/format.py", qual="format_agp", lean="format_agp_imp",
         params={"file": "sink_str"}, attr_params={"asm.header": L("str"), "asm.scaffolds": L("scaffold")}),
    dict(file="fasta/stream.py", qual="FastaStream.write_scaffold", lean="FastaStream_write_scaffold", km=True,
         params={"scaffold": "scaffold"}, sinks={"self.out": "sink_bytes"},
         attr_params={"self.line_length": "int", "self.gap_character": "bytes", "self.index": "opaque_obj"},
         opaque={"self_index.get_gap_iter": (["row", "bytes"], L("bytesio"), False), "self_index.get_sequence_iter": (["row"], L("bytesio"), True)}),
]


TRUTHY_CLASSES = ["Fragment", "Gap", "Scaffold", "OverlapResult", "Assembly", "IndexedAssembly", "BuildAssembly", "FoundFragment", "FastaInfo",
                  "OverhangPremise", "StartOverhangPremise", "EndOverhangPremise", "ScaffoldNamer"]


def truthiness_guard():
    """The translation reads `if obj:` / `not obj` / `a and obj` on objects of these classes as a None-test.  That is right only while none of them (nor
    a base class) defines `__bool__` or `__len__`: checked here on the current source; otherwise every kernel is refused."""
    bad = []
    for f in sorted(SRC.rglob("*.py")):
        try:
            tree = ast.parse(f.read_text())
        except Exception:
            continue
        for n in ast.walk(tree):
            if isinstance(n, ast.ClassDef) and n.name in TRUTHY_CLASSES:
                for m in n.body:
                    if isinstance(m, ast.FunctionDef) and m.name in ("__bool__", "__len__"):
                        bad.append(f"{n.name}.{m.name}")
    return bad


def order_guard():
    """`BuildAssembly.scaffolds` (the list `self.add_scaffold` appends to) is not carried as a list by the translation of phase 1: a result that was
    added is MARKED in the store (`PyRt.markAdded`), left-overs are listed in `added_lo`, and phase 2 is handed "the added results in store order, then
    the left-overs" (Proofs/ImpPhase2.lean, `phase2Scaffolds`).  That is the order of the appends only while (1) `self.add_scaffold` is called in exactly
    two methods of the class: `find_assembly_overlaps`, on the very object `input_asm.find_overlaps(…)` returned in the same pass of the loop (so results
    are appended in the order they are allocated), and `add_missing_scaffolds_from_input`; (2) `add_scaffold` is `self.scaffolds.append(…)`; (3) nothing
    else in the package mutates `.scaffolds` of the BuildAssembly (no `insert`, `sort`, `reverse`, `pop`, `remove`, `del`, assignment) outside `__init__`.
    Checked here on the current source; otherwise every kernel is refused.  (The order of the two CALLS inside `remap_to_input_assembly` is in the
    translated driver itself.)"""
    bad = []
    try:
        tree = ast.parse((SRC / "assembly" / "build_assembly.py").read_text())
        cls = find_def(tree, "BuildAssembly")
        asm_tree = ast.parse((SRC / "assembly" / "assembly.py").read_text())
        add = find_def(asm_tree, "Assembly.add_scaffold")
    except Exception as e:
        return [f"cannot parse ({e!r})"]
    if cls is None or add is None:
        return ["BuildAssembly / Assembly.add_scaffold not found"]
    if find_def(tree, "BuildAssembly.add_scaffold") is not None:
        bad.append("BuildAssembly overrides add_scaffold")
    body = [st for st in add.body if not (isinstance(st, ast.Expr) and isinstance(st.value, ast.Constant))]
    if not (len(body) == 1 and ast.unparse(body[0]) == f"self.scaffolds.append({add.args.args[1].arg})"):
        bad.append("Assembly.add_scaffold is not `self.scaffolds.append(x)`")
    for m in cls.body:
        if not isinstance(m, ast.FunctionDef):
            continue
        calls_ = [n for n in ast.walk(m) if isinstance(n, ast.Call) and dotted(n.func) == "self.add_scaffold"]
        if calls_ and m.name not in ("find_assembly_overlaps", "add_missing_scaffolds_from_input"):
            bad.append(f"self.add_scaffold called in {m.name}")
        if m.name == "find_assembly_overlaps":
            walrus = [n.target.id for n in ast.walk(m) if isinstance(n, ast.NamedExpr) and isinstance(n.value, ast.Call) and dotted(n.value.func) == "input_asm.find_overlaps"]
            for c in calls_:
                if not (len(c.args) == 1 and isinstance(c.args[0], ast.Name) and c.args[0].id in walrus):
                    bad.append("find_assembly_overlaps adds something other than the result just found")
        if m.name != "__init__":
            for n in ast.walk(m):
                if isinstance(n, ast.Call) and isinstance(n.func, ast.Attribute) and dotted(n.func.value) == "self.scaffolds" \
                        and n.func.attr in ("insert", "sort", "reverse", "pop", "remove", "clear", "extend", "append"):
                    bad.append(f"self.scaffolds.{n.func.attr} in {m.name}")
                if isinstance(n, (ast.Assign, ast.AugAssign, ast.Delete)):
                    for t in (n.targets if not isinstance(n, ast.AugAssign) else [n.target]):
                        root = t.value if isinstance(t, ast.Subscript) else t
                        if dotted(root) == "self.scaffolds":
                            bad.append(f"self.scaffolds re-bound or edited in {m.name}")
    return bad


def main():
    bad = truthiness_guard()
    bad2 = order_guard()
    if bad2:
        txt = ("/- GENERATED by harness/translate_imp.py — REFUSED: the order of `BuildAssembly.scaffolds` is no longer what the translation assumes: "
               + "; ".join(bad2) + " -/\nimport AgpTpf.Model.PyRt\nnamespace AgpTpf.Gen.Imp\ndef ORDER_GUARD_FAILED : Unit := ()\nend AgpTpf.Gen.Imp\n")
        if not OUT.exists() or OUT.read_text() != txt:
            OUT.write_text(txt)
        return 0
    if bad:
        txt = ("/- GENERATED by harness/translate_imp.py — REFUSED: " + ", ".join(bad) + " is defined; the translation of truthiness tests on objects "
               "assumes these classes are always truthy -/\nimport AgpTpf.Model.PyRt\nnamespace AgpTpf.Gen.Imp\ndef TRUTHINESS_GUARD_FAILED : Unit := ()\nend AgpTpf.Gen.Imp\n")
        if not OUT.exists() or OUT.read_text() != txt:
            OUT.write_text(txt)
        return 0
    parts = ["/- GENERATED by harness/translate_imp.py from /repo/src — do not edit -/", "import AgpTpf.Model.PyRt", "import AgpTpf.Model.PyRtHeap", "import AgpTpf.Model.Lookup",
             "import AgpTpf.Model.Fasta", "import AgpTpf.Model.Text", "set_option linter.unusedVariables false", "namespace AgpTpf.Gen.Imp", "open AgpTpf", ""]
    for spec in IMP_KERNELS + IMP_KERNELS_2 + IMP_KERNELS_3 + IMP_KERNELS_4 + IMP_KERNELS_5 + IMP_KERNELS_6 + IMP_KERNELS_7 + IMP_KERNELS_8 + IMP_KERNELS_9 + IMP_KERNELS_10 + IMP_KERNELS_11 + IMP_KERNELS_12 + IMP_KERNELS_13 + IMP_KERNELS_14 + IMP_KERNELS_15 + IMP_KERNELS_16 + IMP_KERNELS_17 + IMP_KERNELS_18:
        parts.append(translate(spec))
    parts.append("end AgpTpf.Gen.Imp\n")
    txt = "\n".join(parts)
    if not OUT.exists() or OUT.read_text() != txt:
        OUT.write_text(txt)
    # phase 2 of the remap: a file of its own (it calls kernels of the first file)
    parts = ["/- GENERATED by harness/translate_imp.py from /repo/src — do not edit -/", "import AgpTpf.Gen.Imp", "import AgpTpf.Model.PyRtPhase2",
             "set_option linter.unusedVariables false", "namespace AgpTpf.Gen.Imp", "open AgpTpf", ""]
    for spec in P2_KERNELS:
        parts.append(translate(spec))
    parts.append("end AgpTpf.Gen.Imp\n")
    txt = "\n".join(parts)
    if not OUT2.exists() or OUT2.read_text() != txt:
        OUT2.write_text(txt)
    parts = ["/- GENERATED by harness/translate_imp.py from /repo/src — do not edit -/", "import AgpTpf.Gen.Imp2", "import AgpTpf.Model.PyRtText",
             "set_option linter.unusedVariables false", "namespace AgpTpf.Gen.Imp", "open AgpTpf", ""]
    for spec in P3_KERNELS:
        parts.append(translate(spec))
    parts.append("end AgpTpf.Gen.Imp\n")
    txt = "\n".join(parts)
    if not OUT3.exists() or OUT3.read_text() != txt:
        OUT3.write_text(txt)
    return 0


if __name__ == "__main__":
    sys.exit(main())
