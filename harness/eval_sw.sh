#!/bin/bash
# usage: eval_sw.sh <worktree-of-the-sub-agent> <property> [more props]
# Confirms a seeded change left UNCOMMITTED in a sub-agent's scratch worktree (patch applies to /repo HEAD, tests pass, demo fails with /
# passes without) and runs the property's quick check against it — everything in an isolated copy (eval_iso.sh).  Writes
# <worktree>/_eval/{m1.patch.diff,m1_demo.py,m1_meta.json} in the layout archive_mutant.py expects.
WT=$1; shift
OUT=$WT/_eval; mkdir -p $OUT
git -C $WT diff -- src > $OUT/m1.patch.diff
[ -s $OUT/m1.patch.diff ] || { echo "EMPTY PATCH"; exit 2; }
cp $WT/demo.py $OUT/m1_demo.py || exit 2
/venv/bin/python - "$WT" "$1" > $OUT/m1_meta.json <<'PY'
import json, subprocess, sys
wt, prop = sys.argv[1], sys.argv[2]
notes = open(wt + "/NOTES.md").read() if __import__("os").path.exists(wt + "/NOTES.md") else ""
files = subprocess.run(["git", "-C", wt, "diff", "--name-only", "--", "src"], capture_output=True, text=True).stdout.split()
print(json.dumps({"property": prop, "summary": notes[:6000], "needs": "see summary (sub-agent's NOTES.md)", "files": files}, indent=1))
PY
EXTRA="${EXTRA-}" bash "$(dirname "$0")/eval_iso.sh" $OUT 1 "$@"
