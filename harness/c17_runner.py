#!/usr/bin/env python3
"""runs one CLI of the real code with a given default stream buffer size: c17_runner.py <repo_src> <buffer|-> <tool> args..."""
import sys
src, buf, tool = sys.argv[1], sys.argv[2], sys.argv[3]
sys.path.insert(0, src)
if buf != "-":
    import tola.fasta.index as ix
    d = list(ix.FastaIndex.__init__.__defaults__)
    d[-1] = int(buf)
    ix.FastaIndex.__init__.__defaults__ = tuple(d)
if tool == "pretext-to-asm":
    from tola.assembly.scripts.pretext_to_asm import cli
else:
    from tola.assembly.scripts.asm_format import cli
sys.argv = [tool] + sys.argv[4:]
cli()
