"""
Shared infrastructure of the checks: paths, real-code import, Lean build/audit/driver, evidence, verdicts.
"""
import hashlib, json, os, random, re, subprocess, sys, time
from pathlib import Path

VERIF = Path(__file__).resolve().parent.parent
LEAN = VERIF / "lean"
HARNESS = VERIF / "harness"
EVIDENCE = VERIF / "evidence"
REPLAYS = VERIF / "replays"
REPO = Path(os.environ.get("AGP_TPF_REPO", "/repo"))
DRIVER = LEAN / ".lake" / "build" / "bin" / "driver"
ALLOWED_AXIOMS = {"propext", "Classical.choice", "Quot.sound"}
FORBIDDEN = re.compile(r"\bsorry\b|\badmit\b|^\s*axiom\s|native_decide|bv_decide|implemented_by|\bunsafe\s|maxHeartbeats\s+0\b", re.M)


def seed_from_env():
    try:
        return int(os.environ.get("VERIF_SEED", "20260929"))
    except ValueError:
        return 20260929


def import_real_code():
    """Put /repo/src first and make sure `tola` resolves there (working tree, not an installed copy)."""
    src = str(REPO / "src")
    if src in sys.path:
        sys.path.remove(src)
    sys.path.insert(0, src)
    for m in [k for k in sys.modules if k == "tola" or k.startswith("tola.")]:
        del sys.modules[m]
    import logging
    logging.disable(logging.CRITICAL)
    import tola.assembly.fragment as fr
    assert str(Path(fr.__file__).resolve()).startswith(str((REPO / "src").resolve())), fr.__file__
    return True


def run(cmd, cwd=None, timeout=3600, env=None):
    e = dict(os.environ)
    if env:
        e.update(env)
    p = subprocess.run(cmd, cwd=cwd, stdout=subprocess.PIPE, stderr=subprocess.STDOUT, timeout=timeout, env=e, text=True)
    return p.returncode, p.stdout


_lake_lock = None


def lake_lock():
    """serialise lake invocations of concurrently running checks (flock on a file next to the project)."""
    global _lake_lock
    import fcntl
    if _lake_lock is None:
        _lake_lock = open(LEAN / ".verif_lake.lock", "w")
    fcntl.flock(_lake_lock, fcntl.LOCK_EX)


def lake_unlock():
    import fcntl
    if _lake_lock is not None:
        fcntl.flock(_lake_lock, fcntl.LOCK_UN)


def regenerate_and_build(targets):
    """T1 + rebuild.  Returns dict(ok=bool, log=str, driver=bool, gen_changed=[...])."""
    lake_lock()
    try:
        rc0, out0 = run([sys.executable, str(HARNESS / "extract_constants.py")])
        res = {"gen_log": out0.strip(), "targets": {}}
        ok_all = True
        for t in targets:
            rc, out = run(["lake", "build", t], cwd=LEAN, timeout=3000)
            out = "\n".join(l for l in out.splitlines() if "conda" not in l)
            res["targets"][t] = {"ok": rc == 0, "log": out[-6000:]}
            ok_all = ok_all and rc == 0
        res["ok"] = ok_all
        return res
    finally:
        lake_unlock()


def strip_comments(text):
    text = re.sub(r"/-.*?-/", "", text, flags=re.S)
    text = re.sub(r"--.*", "", text)
    return text


def lean_sources_for(prop_module_file):
    """transitively imported AgpTpf files of a property file"""
    seen, todo = [], [prop_module_file]
    while todo:
        f = todo.pop()
        if f in seen or not f.exists():
            continue
        seen.append(f)
        for m in re.findall(r"^import\s+(AgpTpf\.[\w\.]+)", f.read_text(), flags=re.M):
            todo.append(LEAN / (m.replace(".", "/") + ".lean"))
    return seen


def prop_modules(prop_id):
    """all property files of one property: Properties/Cxx.lean and Properties/Cxx<Suffix>.lean"""
    d = LEAN / "AgpTpf" / "Properties"
    # only files registered in the library root count (a property file that exists but is not imported there is work in progress)
    root = (LEAN / "AgpTpf.lean").read_text()
    registered = set(re.findall(r"^import AgpTpf\.Properties\.(\w+)\s*$", root, re.M))
    return sorted(p for p in d.glob(f"{prop_id}*.lean") if re.fullmatch(prop_id + r"([A-Za-z_]\w*)?", p.stem) and p.stem in registered)


def audit(prop_id):
    """grep for forbidden constructs + `#print axioms` of every theorem of the property's files.
    Returns dict(theorems=[...], axioms={thm: [...]}, forbidden=[...], ok=bool, log=str)."""
    files = prop_modules(prop_id)
    res = {"theorems": [], "axioms": {}, "forbidden": [], "ok": False, "log": "", "modules": [f.stem for f in files]}
    if not files:
        res["log"] = "no property file"
        return res
    seen = set()
    for pf in files:
        for f in lean_sources_for(pf):
            if f in seen:
                continue
            seen.add(f)
            body = strip_comments(f.read_text())
            for m in FORBIDDEN.finditer(body):
                res["forbidden"].append(f"{f.relative_to(LEAN)}: {m.group(0).strip()}")
    lines, fulls = [f"import AgpTpf.Properties.{pf.stem}" for pf in files], []
    for pf in files:
        text = strip_comments(pf.read_text())
        # theorems with the namespace that is open at their position
        ns_stack = []
        for m in re.finditer(r"^\s*(namespace\s+([\w\.]+)|end\s+([\w\.]+)|(private\s+|protected\s+)?theorem\s+([^\s\(\{\[:]+))", text, flags=re.M):
            if m.group(2):
                ns_stack.append(m.group(2))
            elif m.group(3):
                if ns_stack and ns_stack[-1].split(".")[-1] == m.group(3).split(".")[-1]:
                    ns_stack.pop()
            elif m.group(5):
                # a `private theorem` cannot be named from the audit file; its axioms are inherited by every public theorem that uses it
                if not (m.group(4) or "").startswith("private"):
                    fulls.append(".".join(ns_stack + [m.group(5)]))
    res["theorems"] = [f.split(".")[-1] for f in fulls]
    for full in fulls:
        lines.append(f"#print axioms {full}")
    audit_file = LEAN / ".lake" / f"audit_{prop_id}.lean"
    audit_file.parent.mkdir(exist_ok=True)
    audit_file.write_text("\n".join(lines) + "\n")
    lake_lock()
    try:
        rc, out = run(["lake", "env", "lean", str(audit_file)], cwd=LEAN, timeout=1200)
    finally:
        lake_unlock()
    res["log"] = out[-4000:]
    reported = {}
    for m in re.finditer(r"'([^\n]+?)' (depends on axioms: \[([^\]]*)\]|does not depend on any axioms)", out):
        ax = [a.strip() for a in (m.group(3) or "").split(",") if a.strip()]
        reported[m.group(1)] = ax
    for full in fulls:
        if full in reported:
            res["axioms"][full.split(".")[-1]] = reported[full]
    bad = {t: a for t, a in res["axioms"].items() if not set(a) <= ALLOWED_AXIOMS}
    res["bad_axioms"] = bad
    res["missing"] = [f for f in fulls if f not in reported]
    res["ok"] = rc == 0 and not res["forbidden"] and not bad and not res["missing"] and len(fulls) > 0
    return res


class Driver:
    """batch interface to the native model driver"""

    def __init__(self):
        self.available = DRIVER.exists()

    def batch(self, requests, timeout=1800):
        if not self.available:
            return None
        data = "".join(json.dumps(r, separators=(",", ":")) + "\n" for r in requests)
        p = subprocess.run([str(DRIVER)], input=data.encode(), stdout=subprocess.PIPE, stderr=subprocess.PIPE, timeout=timeout)
        outs = [json.loads(l) for l in p.stdout.decode().split("\n") if l.strip()]
        if len(outs) != len(requests):
            raise RuntimeError(f"driver answered {len(outs)} of {len(requests)} requests; rc={p.returncode}; stderr={p.stderr.decode()[-500:]}")
        res = []
        for o in outs:
            if "driver_error" in o:
                raise RuntimeError("driver_error: " + str(o["driver_error"]))
            res.append(o["r"])
        return res


def canon(x):
    return json.dumps(x, sort_keys=True, separators=(",", ":"))


def digest(x):
    return hashlib.sha256(canon(x).encode()).hexdigest()[:12]


class Outcome:
    """collects what one check run saw"""

    def __init__(self, prop_id, tier, seed):
        self.prop_id, self.tier, self.seed = prop_id, tier, seed
        self.t0 = time.time()
        self.evaluations = 0
        self.programs = 0            # correspondence cases (model vs implementation)
        self.nontrivial = set()
        self.samples = []
        self.hist = {}
        self.disagreements = []      # dict(stream, input, impl, model)
        self.oracle_failures = []    # dict(stream, input, what, finding)
        self.boundary = 0
        self.notes = []
        self.streams = {}
        self.exhaustive = False

    def count(self, key, n=1):
        self.hist[key] = self.hist.get(key, 0) + n

    def case(self, stream, inp, nontrivial_key=None, sample=True):
        self.evaluations += 1
        self.streams[stream] = self.streams.get(stream, 0) + 1
        if nontrivial_key is not None:
            self.nontrivial.add(nontrivial_key)
        if sample and len(self.samples) < 6 and self.streams[stream] <= 2:
            self.samples.append({"stream": stream, "input": inp})

    def compare(self, stream, inp, impl, model, nontrivial_key=None):
        """one correspondence case"""
        self.programs += 1
        self.case(stream, inp, nontrivial_key)
        if canon(impl) != canon(model):
            if len(self.disagreements) < 50:
                self.disagreements.append({"stream": stream, "input": inp, "impl": impl, "model": model})
            self.count("disagreement:" + stream)
            return False
        return True

    def oracle_fail(self, stream, inp, what, finding=None, detail=None):
        self.count("oracle_fail:" + (finding or "NEW") + ":" + stream)
        # keep every class of failure visible: cap per finding id (known findings must never crowd out new failures)
        self._kept = getattr(self, "_kept", {})
        k = finding or "NEW"
        self._kept[k] = self._kept.get(k, 0) + 1
        if self._kept[k] <= (200 if finding is None else 5):
            self.oracle_failures.append({"stream": stream, "input": inp, "what": what, "finding": finding, "detail": detail})


def load_known_findings():
    p = VERIF / "known_findings.json"
    if not p.exists():
        return []
    return json.loads(p.read_text()).get("findings", [])


def write_replay(prop_id, payload):
    REPLAYS.mkdir(exist_ok=True)
    path = REPLAYS / f"{prop_id}-{digest(payload)}.json"
    path.write_text(json.dumps(payload, indent=1, sort_keys=True, default=str))
    return path


def size_of(x):
    return len(canon(x))
