#!/usr/bin/env python3
"""
T1b: a small TRANSLATOR from Python to Lean for the arithmetic kernels of /repo/src/tola.

For every function listed in KERNELS the CURRENT source text is parsed (ast, no import of the code) and its body is
translated into a Lean definition in lean/AgpTpf/Gen/Kernels.lean.  The hand-written model functions are then proved EQUAL
to these regenerated definitions (lean/AgpTpf/Proofs/Kernels.lean, imported by the property files that rest on them), so that
for these kernels the theorems are re-checked against what the code says now, for all inputs — not only on the inputs the
differential harness samples.  A change of a kernel that changes its meaning makes the equality proof fail to build (a broken
proof obligation, routed to the failing-input search); a rewrite that keeps the meaning is absorbed by the proofs
(`grind`/`omega` after unfolding), or breaks them harmlessly — never a violation by itself.

Supported subset (anything else → the kernel is emitted as `def <name>_UNSUPPORTED : Unit := ()` with the reason in a comment,
which breaks the equality proof's build — loudly, never silently):
  statements : docstring, `x = e`, `x += e`, `x -= e`, `return e`, `if c: … [elif/else: …]`, `a, b = e1, e2`
  expressions: int constants, True/False/None, names, attribute chains (`self.bait.start` → variable `self_bait_start`; a leading
               underscore of an attribute is dropped: `self._end` and `self.end` are the same variable), constant subscripts
               (`self.rows[0].length` → `self_rows_0_length`, `[-1]` → `_m1`), `+ - *`, `//` `%` (→ `pyDiv`/`pyMod`, floor
               semantics; ZeroDivisionError is NOT part of a kernel), unary `-`/`not`, comparisons (chains allowed), `and`/`or`,
               `max`/`min` (2 args), `abs`, `bool(…)`, conditional expressions.
Typing: a variable whose name ends in `name` is text (`List Char`), every other variable is `Int`; the result is `Bool` if some
`return` yields a comparison / True / False / bool(…), `Option Int` if some `return None` occurs, else `Int`.
Truthiness (`if x:` on an Int) is not supported on purpose.
"""
import ast, os, sys
from pathlib import Path

REPO = Path(os.environ.get("AGP_TPF_REPO", "/repo"))
SRC = REPO / "src" / "tola"
HERE = Path(__file__).resolve().parent
OUT = HERE.parent / "lean" / "AgpTpf" / "Gen" / "Kernels.lean"

# (file, Class.method, lean name[, mode]); mode "value" (default): the function's result; "gen": a generator whose body is
# `assignments; for i in range(..): assignments; yield <expr>` → the list of the int payloads yielded (the maximal sub-expressions
# of the yielded expression built only from locals); "plan": a function doing file I/O → the list of its seek/skip/read operations;
# "tests": every `if` test of the function, in source order, as one Bool definition each (`<name>_test<i>`) — the guards of a function
# whose body mutates objects; local assignments before a test are inlined as `let`s; a method call `x.m(args)` inside a test is a Bool
# variable `x_m`
KERNELS = [
    ("assembly/fragment.py", "Fragment.length", "Fragment_length"),
    ("assembly/fragment.py", "Fragment.overlaps", "Fragment_overlaps"),
    ("assembly/fragment.py", "Fragment.overlap_length", "Fragment_overlap_length"),
    ("assembly/fragment.py", "Fragment.abuts", "Fragment_abuts"),
    ("assembly/fragment.py", "Fragment.gap_between", "Fragment_gap_between"),
    ("assembly/overlap_result.py", "OverlapResult.length", "OverlapResult_length"),
    ("assembly/overlap_result.py", "OverlapResult.start_overhang", "OverlapResult_start_overhang"),
    ("assembly/overlap_result.py", "OverlapResult.end_overhang", "OverlapResult_end_overhang"),
    ("assembly/overlap_result.py", "OverlapResult.start_row_bait_overlap", "OverlapResult_start_row_bait_overlap"),
    ("assembly/overlap_result.py", "OverlapResult.end_row_bait_overlap", "OverlapResult_end_row_bait_overlap"),
    ("assembly/fragment.py", "Fragment.junction_tuple", "Fragment_junction_tuple"),
    ("assembly/build_utils.py", "OverhangPremise.improves", "OverhangPremise_improves"),
    ("assembly/overlap_result.py", "OverlapResult.trim_large_overhangs", "OverlapResult_trim_large_overhangs", "tests"),
    ("assembly/build_utils.py", "OverhangResolver.make_fixes", "OverhangResolver_make_fixes", "tests"),
    ("fasta/index.py", "FastaIndex.fwd_chunks", "FastaIndex_fwd_chunks", "gen"),
    ("fasta/index.py", "FastaIndex.rev_chunks", "FastaIndex_rev_chunks", "gen"),
    ("fasta/index.py", "FastaIndex.get_gap_iter", "FastaIndex_get_gap_iter", "gen"),
    ("fasta/index.py", "FastaIndex.sequence_bytes", "FastaIndex_sequence_bytes_plan", "plan"),
]
FILE_HANDLE_ATTRS = {"self_fasta_fileandle", "self_fasta_filehandle"}   # what `fh = …` may alias in plan mode


class Unsupported(Exception):
    pass


def find_def(tree, qual):
    node = tree
    for part in qual.split("."):
        nxt = None
        for ch in ast.iter_child_nodes(node):
            if isinstance(ch, (ast.FunctionDef, ast.ClassDef)) and ch.name == part:
                nxt = ch
                break
        if nxt is None:
            return None
        node = nxt
    return node


LEAN_RESERVED = {"end", "from", "at", "in", "do", "then", "else", "if", "let", "have", "show", "fun", "match", "with", "where", "by",
                 "open", "section", "namespace", "def", "theorem", "instance", "structure", "class", "deriving", "import", "max", "min"}


def mangle(n):
    return n + "_v" if n in LEAN_RESERVED else n


def var_of(e):
    """attribute chain / constant subscript → variable name, else None"""
    if isinstance(e, ast.Name):
        return mangle(e.id)
    if isinstance(e, ast.Attribute):
        b = var_of(e.value)
        return None if b is None else b + "_" + e.attr.lstrip("_")
    if isinstance(e, ast.Subscript):
        b = var_of(e.value)
        i = e.slice
        if b is None:
            return None
        if isinstance(i, ast.Constant) and isinstance(i.value, int):
            return f"{b}_{i.value}"
        if isinstance(i, ast.UnaryOp) and isinstance(i.op, ast.USub) and isinstance(i.operand, ast.Constant) and isinstance(i.operand.value, int):
            return f"{b}_m{i.operand.value}"
    return None


def is_text(v):
    return v.endswith("name")


def is_list(v):
    return v.endswith("rows") or v.endswith("list")


class Tr:
    def __init__(self, mode="value"):
        self.mode = mode
        self.files = set()      # plan mode: local names aliasing the input file handle
        self.bufs = set()       # plan mode: local names of the BytesIO being filled
        self.payload_n = None   # gen mode: number of ints per yielded item
        self.boolvars = set()   # Bool-typed locals
        self.pairs = set()      # locals bound to a `(text, int)` pair (the two results of `sorted((…, …))`)
        self.aliases = {}       # tests mode: local name -> (lean text, type) for non-int locals
        self.tests = []         # tests mode: (lets, lean text) per `if`
        self.free = []          # free variables in first-use order
        self.bound = set()
        self.kinds = set()      # kinds of returned values: 'int', 'bool', 'none'

    def use(self, v):
        if v not in self.bound and v not in self.free:
            self.free.append(v)
        return v

    # ---- expressions; returns (lean text, type) with type in {'int','bool','text','none'}
    def expr(self, e):
        if isinstance(e, ast.Constant):
            if e.value is True:
                return "true", "bool"
            if e.value is False:
                return "false", "bool"
            if e.value is None:
                return "none", "none"
            if isinstance(e.value, int):
                return (f"({e.value} : Int)" if e.value >= 0 else f"(({e.value}) : Int)"), "int"
            raise Unsupported(f"constant {e.value!r}")
        if isinstance(e, ast.Subscript) and isinstance(e.value, ast.Name) and mangle(e.value.id) in self.pairs \
                and isinstance(e.slice, ast.Constant) and e.slice.value in (0, 1):
            return (f"{mangle(e.value.id)}.1", "text") if e.slice.value == 0 else (f"{mangle(e.value.id)}.2", "int")
        v = var_of(e)
        if v is not None:
            if v in self.aliases:
                return self.aliases[v]
            if v in self.boolvars:
                return v, "bool"
            if is_list(v):
                self.use("len_" + v)
                return "len_" + v, "list"          # only its truthiness / length can be used
            self.use(v)
            return v, ("text" if is_text(v) else "int")
        if isinstance(e, ast.BinOp):
            a, ta = self.expr(e.left)
            b, tb = self.expr(e.right)
            if ta != "int" or tb != "int":
                raise Unsupported("arithmetic on non-int")
            if isinstance(e.op, ast.Add):
                return f"({a} + {b})", "int"
            if isinstance(e.op, ast.Sub):
                return f"({a} - {b})", "int"
            if isinstance(e.op, ast.Mult):
                return f"({a} * {b})", "int"
            if isinstance(e.op, ast.FloorDiv):
                return f"(pyDiv {a} {b})", "int"
            if isinstance(e.op, ast.Mod):
                return f"(pyMod {a} {b})", "int"
            raise Unsupported(f"operator {type(e.op).__name__}")
        if isinstance(e, ast.UnaryOp):
            a, ta = self.expr(e.operand)
            if isinstance(e.op, ast.USub) and ta == "int":
                return f"(-{a})", "int"
            if isinstance(e.op, ast.Not) and ta == "bool":
                return f"(!{a})", "bool"
            if isinstance(e.op, ast.Not) and ta == "list":
                return f"(decide ({a} = 0))", "bool"
            raise Unsupported("unary operator")
        if isinstance(e, ast.Compare):
            parts, left = [], e.left
            for op, right in zip(e.ops, e.comparators):
                a, ta = self.expr(left)
                b, tb = self.expr(right)
                if ta != tb or ta not in ("int", "text"):
                    raise Unsupported("comparison of different / unsupported types")
                sym = {ast.Eq: "=", ast.NotEq: "≠", ast.Lt: "<", ast.LtE: "≤", ast.Gt: ">", ast.GtE: "≥"}.get(type(op))
                if sym is None or (ta == "text" and sym not in ("=", "≠")):
                    raise Unsupported("comparison operator")
                parts.append(f"decide ({a} {sym} {b})")
                left = right
            return ("(" + " && ".join(parts) + ")"), "bool"
        if isinstance(e, ast.BoolOp):
            xs = [self.expr(v) for v in e.values]
            if any(t != "bool" for _, t in xs):
                raise Unsupported("and/or on non-bool (truthiness)")
            op = " && " if isinstance(e.op, ast.And) else " || "
            return "(" + op.join(x for x, _ in xs) + ")", "bool"
        if isinstance(e, ast.IfExp):
            c, tc = self.expr(e.test)
            a, ta = self.expr(e.body)
            b, tb = self.expr(e.orelse)
            if tc != "bool" or ta != tb:
                raise Unsupported("conditional expression")
            return f"(if {c} = true then {a} else {b})", ta
        if isinstance(e, ast.Call) and isinstance(e.func, ast.Name) and e.func.id == "len" and len(e.args) == 1 and not e.keywords:
            v = var_of(e.args[0])
            if v is None:
                raise Unsupported("len() of an expression")
            self.use("len_" + v)
            return "len_" + v, "int"
        if isinstance(e, ast.Call) and isinstance(e.func, ast.Name) and not e.keywords:
            f = e.func.id
            args = [self.expr(a) for a in e.args]
            if f in ("max", "min") and len(args) == 2 and all(t == "int" for _, t in args):
                return f"({f} {args[0][0]} {args[1][0]})", "int"
            if f == "abs" and len(args) == 1 and args[0][1] == "int":
                return f"(if {args[0][0]} < 0 then -{args[0][0]} else {args[0][0]})", "int"
            if f == "bool" and len(args) == 1 and args[0][1] == "bool":
                return args[0][0], "bool"
            if f == "int" and len(args) == 1 and args[0][1] == "int":
                return args[0][0], "int"
            raise Unsupported(f"call {f}")
        if isinstance(e, ast.Call) and isinstance(e.func, ast.Attribute) and self.mode == "tests" and not e.keywords:
            v = var_of(e.func)
            if v is not None:
                self.use("b_" + v)
                return "b_" + v, "bool"
        raise Unsupported(type(e).__name__)

    # ---- statements with continuation; returns a list of lines of a Lean term
    def block(self, stmts, ind):
        pad = "  " * ind
        if not stmts:
            raise Unsupported("control reaches the end of the function without return")
        s, rest = stmts[0], stmts[1:]
        if isinstance(s, ast.Expr) and isinstance(s.value, ast.Constant) and isinstance(s.value.value, str):
            return self.block(rest, ind)
        if self.mode == "plan":
            r = self.plan_stmt(s, rest, ind)
            if r is not None:
                return r
        if isinstance(s, ast.Raise):
            exc = s.exc
            name = exc.func.id if isinstance(exc, ast.Call) and isinstance(exc.func, ast.Name) else (exc.id if isinstance(exc, ast.Name) else None)
            err = {"ValueError": "value", "IndexError": "index", "KeyError": "key", "TypeError": "type"}.get(name)
            if err is None:
                raise Unsupported("raise of an unsupported exception")
            self.kinds.add("raise")
            return [pad + f"RAISE({err})"]
        if isinstance(s, ast.Assign) and len(s.targets) == 1 and isinstance(s.targets[0], ast.Name) \
                and isinstance(s.value, (ast.JoinedStr,)) :
            return self.block(rest, ind)          # an error message being built: messages are never modelled
        if isinstance(s, ast.Assign) and len(s.targets) == 1 and isinstance(s.targets[0], ast.Tuple) and len(s.targets[0].elts) == 2 \
                and all(isinstance(n, ast.Name) for n in s.targets[0].elts) and isinstance(s.value, ast.Call) \
                and isinstance(s.value.func, ast.Name) and s.value.func.id == "sorted" and len(s.value.args) == 1 \
                and isinstance(s.value.args[0], ast.Tuple) and len(s.value.args[0].elts) == 2:
            # `a, b = sorted(((n1, c1), (n2, c2)) [, reverse=True])` on two (text, int) pairs: Python's tuple order (`endLe`), stable
            rev = False
            for kw in s.value.keywords:
                if kw.arg == "reverse" and isinstance(kw.value, ast.Constant) and kw.value.value in (True, False):
                    rev = kw.value.value
                else:
                    raise Unsupported("sorted() keyword")
            prs = []
            for pe in s.value.args[0].elts:
                if not (isinstance(pe, ast.Tuple) and len(pe.elts) == 2):
                    raise Unsupported("sorted() of something else than two pairs")
                (n1, t1), (c1, t2) = self.expr(pe.elts[0]), self.expr(pe.elts[1])
                if (t1, t2) != ("text", "int"):
                    raise Unsupported("sorted() pair types")
                prs.append(f"({n1}, {c1})")
            a, b = (mangle(n.id) for n in s.targets[0].elts)
            cond = f"endLe {prs[1]} {prs[0]}" if rev else f"endLe {prs[0]} {prs[1]}"
            saved_b, saved_p = set(self.bound), set(self.pairs)
            self.bound |= {a, b}; self.pairs |= {a, b}
            out = [pad + f"let srt : (List Char × Int) × (List Char × Int) := if {cond} = true then ({prs[0]}, {prs[1]}) else ({prs[1]}, {prs[0]})",
                   pad + f"let {a} : List Char × Int := srt.1", pad + f"let {b} : List Char × Int := srt.2"] + self.block(rest, ind)
            self.bound, self.pairs = saved_b, saved_p
            return out
        if isinstance(s, ast.Return) and isinstance(s.value, ast.Tuple):
            cells = []
            for el in s.value.elts:
                x, t = self.expr(el)
                if t == "text":
                    cells.append(f"JCell.s {x}")
                elif t == "int":
                    cells.append(f"JCell.i {x}")
                else:
                    raise Unsupported("tuple element type")
            self.kinds.add(f"tuple{len(cells)}")
            return [pad + "RET((" + ", ".join(cells) + "))"]
        if isinstance(s, ast.Return):
            if s.value is None:
                self.kinds.add("none")
                return [pad + "RET_NONE"]
            x, t = self.expr(s.value)
            if t == "none":
                self.kinds.add("none")
                return [pad + "RET_NONE"]
            if t not in ("int", "bool"):
                raise Unsupported("returns text")
            self.kinds.add(t)
            return [pad + f"RET({x})"]
        if isinstance(s, ast.Assign) and len(s.targets) == 1:
            t = s.targets[0]
            if isinstance(t, ast.Name):
                x, ty = self.expr(s.value)
                if ty == "bool":
                    saved, savedb = set(self.bound), set(self.boolvars)
                    self.bound.add(mangle(t.id)); self.boolvars.add(mangle(t.id))
                    out = [pad + f"let {mangle(t.id)} : Bool := {x}"] + self.block(rest, ind)
                    self.bound, self.boolvars = saved, savedb
                    return out
                if ty != "int":
                    raise Unsupported("non-int local")
                saved = set(self.bound)
                self.bound.add(mangle(t.id))
                out = [pad + f"let {mangle(t.id)} : Int := {x}"] + self.block(rest, ind)
                self.bound = saved
                return out
            if isinstance(t, ast.Tuple) and isinstance(s.value, ast.Tuple) and len(t.elts) == len(s.value.elts) and all(isinstance(n, ast.Name) for n in t.elts):
                xs = [self.expr(v) for v in s.value.elts]
                if any(ty != "int" for _, ty in xs):
                    raise Unsupported("non-int local")
                saved = set(self.bound)
                tmp = [f"tmp_{n.id}" for n in t.elts]
                names = [mangle(n.id) for n in t.elts]
                lines = [pad + f"let {a} : Int := {x}" for a, (x, _) in zip(tmp, xs)]
                lines += [pad + f"let {n} : Int := {a}" for n, a in zip(names, tmp)]
                self.bound |= set(names)
                out = lines + self.block(rest, ind)
                self.bound = saved
                return out
            raise Unsupported("assignment target")
        if isinstance(s, ast.AugAssign) and isinstance(s.target, ast.Name) and isinstance(s.op, (ast.Add, ast.Sub)):
            cur, _ = self.expr(s.target)
            x, ty = self.expr(s.value)
            if ty != "int":
                raise Unsupported("non-int local")
            op = "+" if isinstance(s.op, ast.Add) else "-"
            saved = set(self.bound)
            self.bound.add(mangle(s.target.id))
            out = [pad + f"let {mangle(s.target.id)} : Int := {cur} {op} {x}"] + self.block(rest, ind)
            self.bound = saved
            return out
        if isinstance(s, ast.If):
            c, tc = self.expr(s.test)
            if tc == "int":
                c, tc = f"(decide ({c} ≠ 0))", "bool"      # truthiness of an int
            if tc != "bool":
                raise Unsupported("truthiness test")
            a = self.block(list(s.body) + ([] if always_returns(s.body) else rest), ind + 1)
            b = self.block(list(s.orelse) + ([] if (s.orelse and always_returns(s.orelse)) else rest), ind + 1)
            return [pad + f"if {c} = true then"] + a + [pad + "else"] + b
        if self.mode == "gen" and isinstance(s, ast.For):
            return self.gen_loop(s, rest, ind)
        raise Unsupported(type(s).__name__)

    # ---- tests mode -----------------------------------------------------------------------------------------------
    def collect_tests(self, stmts, lets):
        """walk the statements in source order; `lets` = list of (name, lean) for int locals assigned so far on this path"""
        for s in stmts:
            if isinstance(s, ast.Assign) and len(s.targets) == 1 and isinstance(s.targets[0], ast.Name):
                try:
                    x, t = self.expr(s.value)
                except Unsupported:
                    continue
                nm = mangle(s.targets[0].id)
                if t == "int":
                    lets = lets + [(nm, x)]
                    self.bound.add(nm)
                else:
                    self.aliases[nm] = (x, t)
            elif isinstance(s, ast.Assign) and len(s.targets) == 1 and isinstance(s.targets[0], ast.Tuple):
                # `frst, scnd = prem_list`: the names stay free variables (objects)
                continue
            elif isinstance(s, ast.If):
                c, t = self.expr(s.test)
                if t == "int":
                    c, t = f"(decide ({c} ≠ 0))", "bool"
                if t == "list":
                    c, t = f"(decide ({c} ≠ 0))", "bool"
                if t != "bool":
                    raise Unsupported("test is not boolean")
                self.tests.append((list(lets), c))
                self.collect_tests(s.body, lets)
                self.collect_tests(s.orelse, lets)
            elif isinstance(s, (ast.For, ast.While)):
                self.collect_tests(s.body, lets)

    # ---- gen mode -------------------------------------------------------------------------------------------------
    def range_of(self, it):
        """`range(n)` / `range(a, -1, -1)` → Lean `List Nat` term"""
        if not (isinstance(it, ast.Call) and isinstance(it.func, ast.Name) and it.func.id == "range" and not it.keywords):
            raise Unsupported("loop over something else than range()")
        args = it.args
        if len(args) == 1:
            n, t = self.expr(args[0])
            if t != "int":
                raise Unsupported("range bound")
            return f"(List.range ({n}).toNat)"
        if len(args) == 3:
            def const(e):
                if isinstance(e, ast.UnaryOp) and isinstance(e.op, ast.USub) and isinstance(e.operand, ast.Constant):
                    return -e.operand.value
                return e.value if isinstance(e, ast.Constant) else None
            if const(args[1]) == -1 and const(args[2]) == -1:
                a, t = self.expr(args[0])
                if t != "int":
                    raise Unsupported("range bound")
                return f"(if {a} < 0 then [] else (List.range (({a}).toNat + 1)).reverse)"
        raise Unsupported("range() form")

    def payload(self, e):
        """maximal sub-expressions of `e` whose names are all bound locals (and that contain a name)"""
        names = [n for n in ast.walk(e) if isinstance(n, ast.Name)]
        if names and all(mangle(n.id) in self.bound for n in names) and not any(isinstance(n, (ast.Call, ast.Attribute)) for n in ast.walk(e)):
            return [e]
        out = []
        for ch in ast.iter_child_nodes(e):
            if isinstance(ch, ast.expr):
                out += self.payload(ch)
        return out

    def gen_loop(self, s, rest, ind):
        pad = "  " * ind
        if rest or s.orelse or not isinstance(s.target, ast.Name):
            raise Unsupported("generator shape (statements after the loop)")
        rng = self.range_of(s.iter)
        i = mangle(s.target.id)
        saved = set(self.bound)
        self.bound.add(i)
        body = list(s.body)
        if not body or not (isinstance(body[-1], ast.Expr) and isinstance(body[-1].value, ast.Yield) and body[-1].value.value is not None):
            raise Unsupported("generator shape (loop body must end in a yield)")
        lines = [pad + f"{rng}.map (fun ({i}_nat : Nat) =>", pad + f"  let {i} : Int := Int.ofNat {i}_nat"]
        for st in body[:-1]:
            if isinstance(st, ast.Assign) and len(st.targets) == 1 and isinstance(st.targets[0], ast.Name):
                x, ty = self.expr(st.value)
                if ty != "int":
                    raise Unsupported("non-int local in loop")
                nm = mangle(st.targets[0].id)
                self.bound.add(nm)
                lines.append(pad + f"  let {nm} : Int := {x}")
            else:
                raise Unsupported("statement in generator loop")
        pl = self.payload(body[-1].value.value)
        if not pl:
            raise Unsupported("yield without int payload")
        xs = [self.expr(e)[0] for e in pl]
        self.payload_n = len(xs)
        lines.append(pad + "  " + (xs[0] if len(xs) == 1 else "(" + ", ".join(xs) + ")") + ")")
        self.bound = saved
        return lines

    # ---- plan mode ------------------------------------------------------------------------------------------------
    def plan_stmt(self, s, rest, ind):
        pad = "  " * ind
        if isinstance(s, ast.Assign) and len(s.targets) == 1 and isinstance(s.targets[0], ast.Name):
            v = s.value
            if isinstance(v, ast.Call) and isinstance(v.func, ast.Name) and v.func.id == "BytesIO" and not v.args:
                self.bufs.add(s.targets[0].id)
                return self.block(rest, ind)
            if var_of(v) in FILE_HANDLE_ATTRS:
                self.files.add(s.targets[0].id)
                return self.block(rest, ind)
            return None
        if isinstance(s, ast.Return):
            if isinstance(s.value, ast.Name) and s.value.id in self.bufs:
                return [pad + "[]"]
            raise Unsupported("plan: returns something else than the buffer")
        if isinstance(s, ast.Expr) and isinstance(s.value, ast.Call):
            op = self.plan_call(s.value)
            if op is not None:
                return [pad + f"{op} ::"] + self.block(rest, ind)
        if isinstance(s, ast.For):
            if s.orelse:
                raise Unsupported("for/else")
            if not (isinstance(s.iter, ast.Call) and isinstance(s.iter.func, ast.Name) and s.iter.func.id == "range" and len(s.iter.args) == 1):
                raise Unsupported("plan: loop over something else than range(n)")
            n, t = self.expr(s.iter.args[0])
            if t != "int":
                raise Unsupported("range bound")
            ops = []
            for st in s.body:
                op = self.plan_call(st.value) if (isinstance(st, ast.Expr) and isinstance(st.value, ast.Call)) else None
                if op is None:
                    raise Unsupported("plan: loop body may only contain seek/read calls")
                ops.append(op)
            return [pad + f"(List.replicate ({n}).toNat [{', '.join(ops)}]).flatten ++ ("] + self.block(rest, ind + 1) + [pad + ")"]
        return None

    def plan_call(self, c):
        """`fh.seek(e)`, `fh.seek(e, 1)`, `seq.write(fh.read(e))` → Lean IOp term, else None"""
        f = c.func
        if not (isinstance(f, ast.Attribute) and isinstance(f.value, ast.Name)) or c.keywords:
            return None
        if f.value.id in self.files and f.attr == "seek":
            if len(c.args) == 1:
                x, t = self.expr(c.args[0])
                return f"IOp.seek {x}" if t == "int" else None
            if len(c.args) == 2 and isinstance(c.args[1], ast.Constant) and c.args[1].value == 1:
                x, t = self.expr(c.args[0])
                return f"IOp.skip {x}" if t == "int" else None
            return None
        if f.value.id in self.bufs and f.attr == "write" and len(c.args) == 1:
            r = c.args[0]
            if isinstance(r, ast.Call) and isinstance(r.func, ast.Attribute) and isinstance(r.func.value, ast.Name) \
                    and r.func.value.id in self.files and r.func.attr == "read" and len(r.args) == 1 and not r.keywords:
                x, t = self.expr(r.args[0])
                return f"IOp.read {x}" if t == "int" else None
        return None


def always_returns(stmts):
    for s in stmts:
        if isinstance(s, ast.Return):
            return True
        if isinstance(s, ast.If) and s.orelse and always_returns(s.body) and always_returns(s.orelse):
            return True
    return False


def translate(rel, qual, lean_name, mode="value"):
    try:
        tree = ast.parse((SRC / rel).read_text())
    except Exception as e:
        return f"/- {rel}::{qual}: cannot parse ({e!r}) -/\ndef {lean_name}_UNSUPPORTED : Unit := ()\n"
    fn = find_def(tree, qual)
    if fn is None:
        return f"/- {rel}::{qual}: not found in the source -/\ndef {lean_name}_UNSUPPORTED : Unit := ()\n"
    tr = Tr(mode)
    if mode == "tests":
        try:
            tr.collect_tests(list(fn.body), [])
            if not tr.tests:
                raise Unsupported("no if-test found")
        except Unsupported as e:
            return f"/- {rel}::{qual}: outside the translated subset: {e} -/\ndef {lean_name}_UNSUPPORTED : Unit := ()\n"
        src = ast.get_source_segment((SRC / rel).read_text(), fn) or ""
        doc = "\n".join("    " + x for x in src.splitlines()).replace("-/", "- /")
        out = [f"/- the `if` tests of {rel}::{qual}, in source order\n{doc}\n-/"]
        for i, (lets, c) in enumerate(tr.tests):
            sub = Tr("tests")
            # free variables of this test only
            import re as _re
            ident = lambda txt: set(_re.findall(r"[A-Za-z_][A-Za-z_0-9]*", txt))
            names = ident(c)
            used = []
            for n, x in reversed(lets):          # keep only the lets the test (transitively) uses; a later let shadows an earlier one
                if n in names and n not in {u for u, _ in used}:
                    used.insert(0, (n, x))
                    names |= ident(x)
            letnames = {n for n, _ in used}
            free = sorted(v for v in tr.free if v in names and v not in letnames)
            def ty(v):
                return "Bool" if v.startswith("b_") else ("List Char" if is_text(v) else "Int")
            params = " ".join(f"({v} : {ty(v)})" for v in free)
            body = "".join(f"  let {n} : Int := {x}\n" for n, x in used) + f"  {c}"
            out.append(f"def {lean_name}_test{i} {params} : Bool :=\n{body}\n")
        return "\n".join(out)
    try:
        lines = tr.block(list(fn.body), 1)
        if "bool" in tr.kinds and len(tr.kinds) > 1:
            raise Unsupported("mixed Bool / Int / None results")
        if "raise" in tr.kinds and not any(k.startswith("tuple") for k in tr.kinds):
            raise Unsupported("raise outside a tuple-valued kernel")
    except Unsupported as e:
        return f"/- {rel}::{qual}: outside the translated subset: {e} -/\ndef {lean_name}_UNSUPPORTED : Unit := ()\n"
    if mode == "gen":
        rty, ret, retn = ("List Int" if tr.payload_n == 1 else "List (" + " × ".join(["Int"] * (tr.payload_n or 1)) + ")"), (lambda x: x), None
    elif mode == "plan":
        rty, ret, retn = "List IOp", (lambda x: x), None
    elif any(k.startswith("tuple") for k in tr.kinds):
        ks = {k for k in tr.kinds if k != "raise"}
        if len(ks) != 1:
            return f"/- {rel}::{qual}: outside the translated subset: mixed result shapes -/\ndef {lean_name}_UNSUPPORTED : Unit := ()\n"
        n = int(next(iter(ks))[5:])
        rty, ret, retn = "R (" + " × ".join(["JCell"] * n) + ")", (lambda x: f".ok {x}"), None
    elif "bool" in tr.kinds:
        rty, ret, retn = "Bool", (lambda x: x), None
    elif "none" in tr.kinds:
        rty, ret, retn = "Option Int", (lambda x: f"some {x}"), "none"
    else:
        rty, ret, retn = "Int", (lambda x: x), None
    body = []
    for l in lines:
        s = l.strip()
        pad = l[: len(l) - len(l.lstrip())]
        if s.startswith("RAISE(") and s.endswith(")"):
            body.append(pad + (f".error .{s[6:-1]}" if rty.startswith("R ") else "RAISE_IN_NON_R"))
        elif s == "RET_NONE":
            body.append(pad + retn)
        elif s.startswith("RET(") and s.endswith(")"):
            body.append(pad + ret(s[4:-1]))
        else:
            body.append(l)
    def ty(v):
        return "Bool" if v.startswith("b_") else ("List Char" if is_text(v) else "Int")
    params = " ".join(f"({v} : {ty(v)})" for v in sorted(tr.free))
    src = ast.get_source_segment((SRC / rel).read_text(), fn) or ""
    doc = "\n".join("    " + x for x in src.splitlines())
    return f"/- translated from {rel}::{qual}\n{doc}\n-/\ndef {lean_name} {params} : {rty} :=\n" + "\n".join(body) + "\n"


def main():
    parts = ["/- GENERATED by harness/translate_kernels.py from /repo/src — do not edit -/", "import AgpTpf.Model.Basic", "namespace AgpTpf.Gen.K", "open AgpTpf", ""]
    parts += ["/-- one file operation of an I/O kernel: absolute seek, relative seek (`seek(n, 1)`), read of `n` bytes appended to the result -/",
              "inductive IOp where", "  | seek (n : Int)", "  | skip (n : Int)", "  | read (n : Int)", "  deriving DecidableEq, Repr", ""]
    for k in KERNELS:
        parts.append(translate(*k))
    parts.append("end AgpTpf.Gen.K\n")
    txt = "\n".join(parts)
    if not OUT.exists() or OUT.read_text() != txt:
        OUT.write_text(txt)
    return 0


if __name__ == "__main__":
    sys.exit(main())
