#!/usr/bin/env python3
"""runs pretext-to-asm of the real code on MANY input pairs in ONE interpreter (so that one PYTHONHASHSEED covers many inputs):
c17_batch.py <repo_src> <cases_root> <out_root>  — every <cases_root>/<k>/{in.agp,ptx.agp} is run with outputs <out_root>/<k>/xx.1.agp"""
import logging, shutil, sys
from pathlib import Path
src, cases, outroot = sys.argv[1], Path(sys.argv[2]), Path(sys.argv[3])
sys.path.insert(0, src)
from tola.assembly.scripts.pretext_to_asm import cli
for c in sorted(cases.iterdir(), key=lambda p: int(p.name)):
    d = outroot / c.name
    d.mkdir(parents=True)
    for n in ("in.agp", "ptx.agp"):
        shutil.copy(c / n, d / n)
    try:
        cli.main(args=["-a", str(d / "in.agp"), "-p", str(d / "ptx.agp"), "-o", str(d / "xx.1.agp")], standalone_mode=False)
        rc = "0"
    except SystemExit as e:
        rc = f"exit:{e.code}"
    except BaseException as e:  # noqa: BLE001
        rc = f"raise:{type(e).__name__}"
    logging.shutdown()
    (d / "exit").write_text(rc)
