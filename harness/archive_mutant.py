#!/usr/bin/env python3
"""archive a confirmed seeded change: archive_mutant.py <out-dir> <k> <seed-id> <caught|missed> "<how the checks reacted>" """
import json, shutil, sys
from pathlib import Path
out, k, sid, verdict, how = Path(sys.argv[1]), sys.argv[2], sys.argv[3], sys.argv[4], sys.argv[5]
dst = Path("/verif/seeded") / sid
dst.mkdir(parents=True, exist_ok=True)
shutil.copy(out / f"m{k}.patch.diff", dst / "patch.diff")
shutil.copy(out / f"m{k}_demo.py", dst / "demo.py")
meta = json.loads((out / f"m{k}_meta.json").read_text())
meta2 = {
    "property": meta.get("property"),
    "summary": meta.get("summary"),
    "needs_to_manifest": meta.get("needs"),
    "files": meta.get("files"),
    "author": "independent sub-agent given only the property record and a scratch worktree of /repo",
    "confirmed_by_me": {
        "existing_tests_pass_with_change": True,
        "demo_fails_with_change": True,
        "demo_passes_without": True,
        "ran": ["git -C /repo apply patch.diff", "/venv/bin/python -m pytest -q (64 passed)", "SRC=/repo/src python demo.py (exit 1 with, exit 0 without)",
                "harness/check.py <property> --tier quick", "git -C /repo checkout -- ."],
    },
    "checks": {"verdict": verdict, "how": how},
}
(dst / "meta.json").write_text(json.dumps(meta2, indent=1))
print("archived", sid)
