"""C15 — a stale, partial or concurrently rewritten index cache is never silently used."""
import itertools, json, os, subprocess, sys
from pathlib import Path
import conv
import common
import fasta_lib as F

LEVEL = "proof"
LEVEL_TEXT = ("cache_safety is proved in Lean for the protocol model (any number of processes, steps, crashes, FASTA edits between runs); the model is tied to the real "
              "auto_load by executing histories, crash points and interleavings on the REAL code in controlled child processes (every file operation gated by the "
              "controller, mtimes set from the model clock) and comparing operation traces, file-system states and results. Outside: fsync/power loss, real timestamp "
              "granularity, the OS scheduler (interleavings are executed only at file-operation granularity).")
RULE = ("histories over {tick, rewrite FASTA, delete .fai, delete .agp, auto_load}; every crash point of an indexing run (before/between/after each cache-file operation "
        "and at every write/flush boundary) followed by a fresh auto_load; interleavings of 2 (thorough: 3) processes with bounded preemptions from cold/warm/stale "
        "starts — each executed on the real code and on the Lean model. Non-trivial = distinct (scenario kind, op-label trace) pairs.")
TRUSTED = ["controller + child process harness (harness/cache_child.py): gating of Path.stat/exists/open, write, close, os.replace; os._exit as process crash",
           "modelled not verified: OS file semantics (truncate on open('w'), rename atomicity, mtime), Python buffered I/O (each write() flushed at once = finest flush granularity)"]
ASSUMPTIONS = ["no FASTA edit while an auto_load of that file is in progress", "FASTA rewrites carry a later mtime (the model clock)", "process crashes only (completed writes persist)"]
EXPLANATION = LEVEL_TEXT

CHILD = Path(__file__).resolve().parent.parent / "cache_child.py"
BASE = 1_000_000_000
STEP = 0.5      # seconds per model clock tick (same constant in cache_child.py); sub-second on purpose: real edits can be < 1 s apart


def content_bytes(cid):
    """FASTA content number cid: always two records without N-runs (so every rendering has the same number of write calls)"""
    a = ("ACGT" * 7 + "ACG" * (cid % 5 + 1))[: 20 + cid % 7]
    b = ("TTGCA" * 6 + "C" * (cid % 3))[: 15 + (cid * 3) % 11]
    return (f">r1\n{a[:12]}\n{a[12:]}\n>r2\n{b}\n").encode()


class Child:
    def __init__(self, fasta, mode="each"):
        self.p = subprocess.Popen([sys.executable, str(CHILD), str(common.REPO / "src"), str(fasta), mode], stdin=subprocess.PIPE, stdout=subprocess.PIPE,
                                  stderr=subprocess.DEVNULL, text=True, bufsize=1)
        self.pending = None      # label of the op the child is blocked on
        self.result = None
        self.trace = []
        self._advance()

    def _advance(self):
        line = self.p.stdout.readline()
        if not line:
            self.pending, self.result = None, self.result or {"err": "ChildDied"}
            return
        line = line.strip()
        if line.startswith("OP "):
            self.pending = line[3:]
        elif line.startswith("RESULT "):
            self.pending = None
            self.result = json.loads(line[7:])
            self.p.wait(timeout=10)

    def go(self, clock):
        """let the blocked op happen; silent ops (exists before stat, exists before overwrite) are folded into the next gated one"""
        assert self.pending is not None
        self.trace.append(self.pending)
        self.p.stdin.write(f"go {clock}\n"); self.p.stdin.flush()
        self._advance()

    def die(self):
        if self.p.poll() is None:
            try:
                self.p.stdin.write("die\n"); self.p.stdin.flush()
            except Exception:
                pass
            try:
                self.p.wait(timeout=5)
            except Exception:
                self.p.kill()
        self.pending = None

    def done(self):
        return self.pending is None


# real label -> model label; None = silent (performed together with the next model step of that process)
def model_label(real, prev_model):
    t = {"stat fasta": "stat fasta", "open-r fasta": "read fasta", "open-r fai": "read fai", "open-r agp": "read agp",
         "open-w fai": "open-w fai", "open-w agp": "open-w agp", "write fai": "write fai", "write agp": "write agp",
         "close fai": "close fai", "close agp": "close agp", "replace fai": "replace fai", "replace agp": "replace agp"}
    if real in t:
        return t[real]
    if real == "exists fasta":
        return None
    if real in ("exists fai", "exists agp"):
        w = real.split()[1]
        # inside write_index/write_assembly the exists() only feeds a log message
        if prev_model in ("read fasta", "close fai", "replace fai") or (prev_model or "").startswith("write"):
            return None
        return "check " + w
    if real in ("stat fai", "stat agp"):
        return None       # second half of "check"
    return real


class World:
    """one scenario executed on the real code in a scratch directory, in lock step with a list of model ops"""

    def __init__(self, scratch, tag, mode="each"):
        self.mode = mode
        self.dir = scratch.path / f"w{tag}"
        self.dir.mkdir()
        self.fasta = self.dir / "x.fa"
        self.clock = 1
        self.cid = 0
        self.write_fasta(mtime=0)
        self.children = []
        self.ops = []           # model ops
        self.labels = []        # real labels per model op (None for env ops)
        self.results = {}

    def write_fasta(self, mtime):
        self.fasta.write_bytes(content_bytes(self.cid))
        os.utime(self.fasta, (BASE + mtime * STEP, BASE + mtime * STEP))

    # environment
    def tick(self):
        self.clock += 1; self.ops.append({"op": "tick"}); self.labels.append("env")

    def rewrite(self):
        self.cid += 1; self.write_fasta(self.clock); self.ops.append({"op": "rewrite"}); self.labels.append("env")

    def delete(self, which):
        for p in self.dir.glob(f"x.fa.{which}"):
            p.unlink()
        self.ops.append({"op": "del" + which}); self.labels.append("env")

    def spawn(self):
        c = Child(self.fasta, self.mode)
        c.prev = None
        self.children.append(c)
        self.ops.append({"op": "spawn"}); self.labels.append("env")
        self._skip_silent(c)
        return len(self.children) - 1

    def _skip_silent(self, c):
        while c.pending is not None and model_label(c.pending, c.prev) is None:
            c.go(self.clock)

    def step(self, p):
        """one MODEL step of process p (possibly several real ops); returns False if the process has finished"""
        c = self.children[p]
        if c.done():
            return False
        lab = model_label(c.pending, c.prev)
        c.go(self.clock)
        c.prev = lab
        # silent continuation ops that belong to this model step
        while c.pending is not None and model_label(c.pending, c.prev) is None:
            c.go(self.clock)
        self.ops.append({"op": "step", "p": p}); self.labels.append(lab)
        if c.done():
            self.results[p] = (c.result, self.cid)
        return True

    def crash(self, p):
        self.children[p].die()
        self.ops.append({"op": "crash", "p": p}); self.labels.append("env")

    def run_to_end(self, p, limit=80):
        while limit and self.step(p):
            limit -= 1

    def close(self):
        for c in self.children:
            if c.p.poll() is None:
                c.die()

    def fs_state(self):
        """classify the cache files: (content id rendered | None, complete?, mtime clock)"""
        out = {}
        for which in ("fai", "agp"):
            p = self.dir / f"x.fa.{which}"
            if not p.exists():
                out[which] = None
                continue
            data = p.read_bytes()
            mt = (p.stat().st_mtime - BASE) / STEP
            mt = int(mt) if mt == int(mt) else mt
            src = None
            for cid in range(self.cid + 1):
                full = rendering(cid, which, self.fasta)
                if full.startswith(data) and (data or True):
                    src = cid if (data == full or len(data) > 0 or True) else None
                    complete = data == full
                    if data == full:
                        break
            out[which] = [src, data == rendering(src, which, self.fasta) if src is not None else False, mt]
        return out


_render_cache = {}


def rendering(cid, which, fasta_path):
    """bytes of the complete cache file for content cid (computed with the real indexer on a private copy; C04/C05 tie those)"""
    key = (cid, which, str(fasta_path))
    if key not in _render_cache:
        import io, tempfile
        import tola.fasta.index as ix
        from tola.assembly.format import format_agp
        with tempfile.TemporaryDirectory(prefix="agptpf_c15_") as td:
            p = Path(td) / fasta_path.name
            p.write_bytes(content_bytes(cid))
            idx, asm = ix.index_fasta_file(p, 64)
            fai = "".join(i.fai_row(n) for n, i in idx.items())
            buf = io.StringIO()
            # the header names the absolute path of the real file
            asm.header = [f"Built from FASTA file '{fasta_path.absolute()}'"]
            format_agp(asm, buf)
            exp = {"index": [[n, i.length, i.file_offset, i.residues_per_line, i.max_line_length] for n, i in idx.items()],
                   "assembly": [[s.name, [[r.name, r.start, r.end, r.strand] if hasattr(r, "name") else ["GAP", r.length, r.gap_type] for r in s.rows]] for s in asm.scaffolds]}
        _render_cache[(cid, "fai", str(fasta_path))] = fai.encode()
        _render_cache[(cid, "agp", str(fasta_path))] = buf.getvalue().encode()
        _render_cache[(cid, "result", str(fasta_path))] = exp
    return _render_cache[key]


def detect_protocol():
    """does the current code write the cache in place or via temp file + os.replace? (read from the source, cf. Gen)"""
    src = (common.REPO / "src" / "tola" / "fasta" / "index.py").read_text()
    return "os.replace" in src


def totals(atomic):
    """number of write() calls for .fai / .agp of a two-record, gap-free content (constant over content ids)"""
    return 2, 1 + 2 * 2


def judge(world, out, stream, scenario):
    """oracle on the real results + correspondence with the model on labels / final fs / result classification"""
    atomic = detect_protocol()
    ft, at = totals(atomic)
    inp = {"scenario": scenario, "ops": world.ops, "atomic_protocol_in_source": atomic, "write_mode": world.mode}
    # ---- oracle: every finished auto_load failed loudly or returned exactly the rendering of the then-current content
    bad = None
    for p, (res, cid_then) in world.results.items():
        if res is None or "err" in res:
            continue
        exp = rendering(cid_then, "result", world.fasta)
        if res["ok"] != exp:
            bad = f"process {p}: auto_load returned an index/assembly that is not the rendering of the FASTA's current content (content #{cid_then})"
    key = (scenario["kind"], tuple(l for l in world.labels if l != "env"))
    if ctx_driver[0] is not None:
        m = ctx_driver[0].batch([{"id": 0, "kind": "cache", "atomic": atomic, "fai_total": ft, "agp_total": at, "ops": world.ops}])[0]
        model_labels = [s["label"] for s in m]
        real_labels = [l for l in world.labels]
        model_last = m[-1] if m else None
        real_view = {"labels": real_labels, "fs": (world.fs_state() if world.mode == "each" else "not-compared (buffered writes)"), "good": bad is None}
        fs_m = None
        if model_last:
            def cv(f):
                return None if f is None else [f[0], f[1] == f[2], f[3]]
            fs_m = {"fai": cv(model_last["fai"]), "agp": cv(model_last["agp"])}
        model_view = {"labels": model_labels, "fs": (fs_m if world.mode == "each" else "not-compared (buffered writes)"), "good": (model_last["safe"] if model_last else True)}
        out.compare(stream, inp, real_view, model_view, key)
    else:
        out.case(stream, inp, key)
    if bad:
        out.oracle_fail(stream, inp, bad, detail={"results": {str(k): v[0] for k, v in world.results.items()}})


ctx_driver = [None]


def scenario_history(rng, sc, tag, length):
    w = World(sc, tag)
    desc = []
    try:
        for _ in range(length):
            k = rng.choice(["tick", "tick", "rewrite", "delfai", "delagp", "load", "load", "load"])
            desc.append(k)
            if k == "tick":
                w.tick()
            elif k == "rewrite":
                if rng.random() < 0.5:
                    w.tick()          # otherwise the FASTA is rewritten within the same timestamp as the last cache write
                w.rewrite()
            elif k == "delfai":
                w.delete("fai")
            elif k == "delagp":
                w.delete("agp")
            else:
                p = w.spawn(); w.run_to_end(p)
        return w, {"kind": "history", "script": desc}
    finally:
        w.close()


def scenario_crash(rng, sc, tag, prefix, k, mode="each"):
    w = World(sc, tag, mode)
    try:
        for a in prefix:
            if a == "tick":
                w.tick()
            elif a == "rewrite":
                w.tick(); w.rewrite()
            elif a == "rewrite-same-tick":
                w.rewrite()
            elif a == "load":
                p = w.spawn(); w.run_to_end(p)
        p = w.spawn()
        n = 0
        while n < k and w.step(p):
            n += 1
        if not w.children[p].done():
            w.crash(p)
        w.tick()
        q = w.spawn(); w.run_to_end(q)
        return w, {"kind": "crash", "prefix": prefix, "crash_after_steps": k, "steps_done": n}
    finally:
        w.close()


def scenario_interleave(rng, sc, tag, prefix, nproc, schedule):
    w = World(sc, tag)
    try:
        for a in prefix:
            if a == "tick":
                w.tick()
            elif a == "rewrite":
                w.tick(); w.rewrite()
            elif a == "rewrite-same-tick":
                w.rewrite()
            elif a == "load":
                p = w.spawn(); w.run_to_end(p)
        ps = [w.spawn() for _ in range(nproc)]
        for who in schedule:
            if who == "t":
                w.tick()
            else:
                w.step(ps[who])
        for p in ps:
            w.run_to_end(p)
        return w, {"kind": "interleave", "prefix": prefix, "nproc": nproc, "schedule": schedule}
    finally:
        w.close()


def scenario_probe(rng, sc, tag, prefix, a, b, crash, a2=0):
    """two indexing runs racing (the first has made `a` steps, the second `b`), optionally the second dies there; the first makes `a2`
    more steps (-1 = runs to its end); a READER then loads (it must fail loudly or see exactly the current content); the writers finish;
    a last fresh load"""
    w = World(sc, tag)
    try:
        for x in prefix:
            if x == "tick":
                w.tick()
            elif x == "rewrite":
                w.tick(); w.rewrite()
            elif x == "rewrite-same-tick":
                w.rewrite()
            elif x == "load":
                p = w.spawn(); w.run_to_end(p)
        p0, p1 = w.spawn(), w.spawn()
        for _ in range(a):
            w.step(p0)
        for _ in range(b):
            w.step(p1)
        if crash:
            w.crash(p1)
        if a2 < 0:
            w.run_to_end(p0)
        else:
            for _ in range(a2):
                w.step(p0)
        r = w.spawn(); w.run_to_end(r)
        w.run_to_end(p0)
        if not crash:
            w.run_to_end(p1)
        w.tick()
        r2 = w.spawn(); w.run_to_end(r2)
        return w, {"kind": "writers-and-reader", "prefix": prefix, "a": a, "b": b, "second_writer_dies": crash, "first_writer_then": a2}
    finally:
        w.close()


PREFIXES = [[], ["load", "tick"], ["load", "tick", "rewrite", "tick"], ["load", "rewrite-same-tick"],
            ["load", "rewrite-same-tick", "load", "rewrite"]]


def object_before_edit(ctx, count):
    """history with the OBJECT in it: a FastaIndex is constructed while FASTA and cache are consistent, the FASTA is then edited (newer
    time stamp, as any editor gives), and only then auto_load() is called on that object — it must fail loudly or describe the CURRENT
    content (observed at FastaIndex.index / .assembly), exactly like an object constructed after the edit"""
    import os
    from tola.fasta.index import FastaIndex
    rng = ctx.rng
    with F.Scratch() as sc:
        for i in range(count):
            def content(k):
                recs = [f">r{j}_{k}\n" + "".join(rng.choice("ACGTN") for _ in range(rng.randint(5, 90))) + "\n" for j in range(rng.randint(1, 3))]
                return "".join(recs).encode()
            p = sc.path / f"obe{i}.fa"
            old, new = content(0), content(1)
            p.write_bytes(old); os.utime(p, (1000, 1000))
            inp = {"old_fasta": old.decode(), "new_fasta": new.decode(), "history": None}
            objs = []
            try:
                f0 = FastaIndex(p); f0.auto_load(); objs.append(f0)
                os.utime(f0.fai_file, (1500, 1500)); os.utime(f0.agp_file, (1500, 1500))
                hist = rng.choice(["construct, edit, auto_load", "construct, auto_load, edit, auto_load again on the same object"])
                inp["history"] = hist
                f1 = FastaIndex(p); objs.append(f1)
                if hist.startswith("construct, auto_load"):
                    f1.auto_load()
                p.write_bytes(new); os.utime(p, (2000, 2000))
                f1.auto_load()
                ref = FastaIndex(p); objs.append(ref)
                ref.auto_load()
                got = ([[k, v.length, v.file_offset, v.residues_per_line, v.max_line_length] for k, v in f1.index.items()], [s_.name for s_ in f1.assembly.scaffolds])
                want = ([[k, v.length, v.file_offset, v.residues_per_line, v.max_line_length] for k, v in ref.index.items()], [s_.name for s_ in ref.assembly.scaffolds])
                ctx.out.case("object-before-edit", inp, ("obe", hist[:20]))
                names_now = [l[1:].split()[0] for l in new.decode().splitlines() if l.startswith(">")]
                if got != want or [r[0] for r in got[0]] != names_now:
                    ctx.out.oracle_fail("object-before-edit", inp, "auto_load() on an object constructed before the FASTA was edited silently yields the OLD content's index/assembly")
            except Exception as e:
                ctx.out.case("object-before-edit", inp, ("obe", "raised"))      # failing loudly is allowed
            finally:
                for o in objs:
                    try:
                        o.fasta_fileandle.close()
                    except Exception:
                        pass


def run(ctx):
    object_before_edit(ctx, 200 if ctx.thorough else 30)
    rng, out = ctx.rng, ctx.out
    ctx_driver[0] = ctx.driver
    with F.Scratch() as sc:
        tag = itertools.count()
        # histories
        for _ in range(40 if ctx.thorough else 8):
            w, d = scenario_history(rng, sc, next(tag), rng.randint(3, 8))
            judge(w, out, "histories", d)
        # every crash point of an indexing run, from cold / warm-then-stale starts
        maxk = 16
        for prefix in (PREFIXES if ctx.thorough else [PREFIXES[0], PREFIXES[2], PREFIXES[3], PREFIXES[4]]):
            for k in range(0, maxk):
                w, d = scenario_crash(rng, sc, next(tag), prefix, k)
                judge(w, out, "crash-points", d)
                if d["steps_done"] < k:
                    break
        # the same crash points when written data only reaches the file on close() (what buffered I/O does to small files)
        for prefix in ([PREFIXES[0], PREFIXES[2]] if ctx.thorough else [PREFIXES[0]]):
            for k in range(0, maxk):
                w, d = scenario_crash(rng, sc, next(tag), prefix, k, mode="buffered")
                judge(w, out, "crash-points-buffered-writes", d)
                if d["steps_done"] < k:
                    break
        out.exhaustive = True
        # interleavings with bounded preemptions
        scheds = []
        nsteps = 14
        for a in range(0, nsteps, 1 if ctx.thorough else 3):
            for b in range(0, nsteps, 2 if ctx.thorough else 4):
                scheds.append([0] * a + [1] * b + ["t"] + [0] * 3 + [1] * 3)
        rng.shuffle(scheds)
        for s in scheds[: (120 if ctx.thorough else 14)]:
            w, d = scenario_interleave(rng, sc, next(tag), rng.choice(PREFIXES), 2, s)
            judge(w, out, "interleavings", d)
        # a reader (and a later fresh load) while two indexing runs race, the second possibly dying: quick = a seeded sample of the
        # (a, b, dies) grid, thorough = the whole grid from a cold start + a sample from the stale start
        grid = [(a, b, c, a2) for a in range(0, 16) for b in range(0, 16) for c in (False, True) for a2 in (0, 1, 2, -1)]
        picks = grid if ctx.thorough else rng.sample(grid, 24)
        for a, b, c, a2 in picks:
            w, d = scenario_probe(rng, sc, next(tag), PREFIXES[0], a, b, c, a2)
            judge(w, out, "writers-and-reader", d)
        if ctx.thorough:
            for a, b, c, a2 in rng.sample(grid, 120):
                w, d = scenario_probe(rng, sc, next(tag), PREFIXES[2], a, b, c, a2)
                judge(w, out, "writers-and-reader", d)
        if ctx.thorough:
            for _ in range(30):
                s = [rng.choice([0, 1, 2, "t"]) for _ in range(rng.randint(5, 30))]
                w, d = scenario_interleave(rng, sc, next(tag), rng.choice(PREFIXES), 3, s)
                judge(w, out, "interleavings-3", d)


def search(ctx, broken):
    new = [f for f in ctx.out.oracle_failures if not f.get("finding")]
    if new:
        return min(new, key=lambda f: len(str(f["input"])))
    # directed: all crash points from every prefix, oracle only
    n0 = len(ctx.out.oracle_failures)
    saved, ctx_driver[0] = ctx_driver[0], None
    try:
        with F.Scratch() as sc:
            tag = itertools.count(1000)
            for prefix in PREFIXES:
                for mode in ("each", "buffered"):
                    for k in range(0, 18):
                        w, d = scenario_crash(ctx.rng, sc, next(tag), prefix, k, mode)
                        judge(w, ctx.out, "search-crash-points", d)
            for _ in range(60):
                s = [ctx.rng.choice([0, 1, "t"]) for _ in range(ctx.rng.randint(5, 30))]
                w, d = scenario_interleave(ctx.rng, sc, next(tag), ctx.rng.choice(PREFIXES), 2, s)
                judge(w, ctx.out, "search-interleavings", d)
            # the whole writers-and-reader grid from a cold start (stop at the first failing history); the most telling continuation
            # (first writer runs to its end before the reader comes) first
            for a2 in (-1, 1, 0, 2):
                for a in range(0, 16):
                    for b in range(0, 16):
                        for c in (False, True):
                            w, d = scenario_probe(ctx.rng, sc, next(tag), PREFIXES[0], a, b, c, a2)
                            judge(w, ctx.out, "search-writers-and-reader", d)
                    if any(not f.get("finding") for f in ctx.out.oracle_failures[n0:]):
                        break
                if any(not f.get("finding") for f in ctx.out.oracle_failures[n0:]):
                    break
    finally:
        ctx_driver[0] = saved
    new = [f for f in ctx.out.oracle_failures[n0:] if not f.get("finding")]
    return min(new, key=lambda f: len(str(f["input"]))) if new else None


def replay(ctx, payload):
    return {"fails": True, "note": "re-execute the stored op list with harness/props/C15.py World (spawn/step/crash/tick/rewrite/delete)", "input": payload.get("input")}
