"""C01 — remapping conserves sequence: outputs exactly partition the input contigs."""
import remap_lib as R

EXTRA_ANCHORS = ['assembly/scripts/pretext_to_asm.py']      # files outside the property's anchors whose change escalates the quick budget (T3)
LEVEL = "proof"
RULE = ("random input assemblies (1-4 scaffolds, 1-6 contigs of 1..3000 bp, both strands, gaps 1/17/100/200) x Pretext AGPs from PretextView-model "
        "scripts, perturbed scripts (shifted/dropped/duplicated/overlapping/out-of-range/unknown pieces), arbitrary bait lists, tagged scripts x texel "
        "sizes 1..2326.1. Non-trivial = distinct (stream kind, #pieces, cuts, breaks, joins, #assemblies | error kind).")
TRUSTED = ["correspondence harness props/C01.py + remap_lib.py: real BuildAssembly pipeline vs Lean `remap`, compared on the multiset of output fragment intervals and error/no-error",
           "modelled not verified: Python dict/set/sort semantics as in Model/Py.lean; object identity by object ids"]
ASSUMPTIONS = ["input contigs pairwise disjoint (WFInput): same-named input fragments do not overlap"]
LEVEL_NOTE = 'end-to-end theorem `remap_partitions` (+ `remap_exactly_once`, `remap_nothing_invented`) over the model for every Pretext assembly, texel size and tag set, under `WFInput` (input contig intervals pairwise different and non-overlapping per name, distinct row objects: what every parser/indexer-built assembly of a real genome satisfies; without it the real code silently drops a duplicate interval — documented); tie = differential correspondence on the fragment-interval projection; partition oracle independent of the model'
EXPLANATION = 'End-to-end partition theorem over the Lean model of the whole pipeline; tie by differential correspondence on the fragment-interval projection; oracle = per-contig tiling.'


def oracle(c, real):
    if not R.wf_input(c["input"]):
        return []
    return R.oracle_partition(c["input"], real)


def streams(ctx):
    n = 12 if ctx.thorough else 1
    return [("scripts", "script", 400 * n), ("same-named-contigs", "dupnames", 200 * n), ("tight-scripts", "tightscript", 100 * n), ("perturbed", "perturbed", 400 * n), ("arbitrary-baits", "baits", 300 * n),
            ("tagged", "tagged", 200 * n), ("tagged-2hap", "tagged2", 100 * n), ("tagged-slivers", "slivers", 150 * n), ("exact-ties", "tie", 100 * n), ("holes-between-pieces", "hole", 200 * n)]


def run(ctx):
    for stream, kind, n in streams(ctx):
        cases = [R.make_case(ctx.rng, kind) for _ in range(n)]
        R.run_cases(ctx, stream, cases, R.proj_C01, oracle)
    R.run_history_cases(ctx, "object-history", [R.make_case(ctx.rng, ctx.rng.choice(["script", "perturbed", "tagged"])) for _ in range(240 if ctx.thorough else 40)], R.proj_C01, oracle)
    # the command-line tool end to end: "across all output assemblies together" is about the FILES it writes — every in-memory assembly must be
    # written, under its documented name, with exactly its scaffolds, and the tool must finish (exit 0) whenever the in-process remap does
    # (wave 12, C01j: Primary-mode assemblies never written)
    cli_cases = [R.make_case(ctx.rng, k) for k in ("script", "tagged", "tagged2", "primarymode", "primarynames", "hapmix") for _ in range(40 if ctx.thorough else 6)]
    R.run_cli_cases(ctx, "cli-end-to-end", cli_cases, None, only=["CLI exit", "CLI succeeded", "output file", "does not contain exactly", "unexpected assembly files"])


def search(ctx, broken):
    n0 = len(ctx.out.oracle_failures)
    saved, ctx.driver = ctx.driver, None
    try:
        for stream, kind, n in streams(ctx):
            R.run_cases(ctx, "search-" + stream, [R.make_case(ctx.rng, kind) for _ in range(3000)], R.proj_C01, oracle)
            if len(ctx.out.oracle_failures) > n0:
                break
    finally:
        ctx.driver = saved
    new = [f for f in ctx.out.oracle_failures[n0:] if not f.get("finding")]
    return min(new, key=lambda f: len(str(f["input"]))) if new else None


def shrink(ctx, failure):
    def still(inp):
        real = R.real_remap(inp["input"], inp["ptx"], inp["bpt"])
        return bool(oracle(inp, real))
    return R.shrink_case(ctx, failure, still)


def replay(ctx, payload):
    inp = payload["input"]
    real = R.real_remap(inp["input"], inp["ptx"], inp["bpt"])
    msgs = oracle(inp, real)
    return {"fails": bool(msgs), "oracle": msgs, "real": real}
