"""C17 — outputs are a deterministic function of the input files."""
import itertools, os, random, re, shutil, subprocess, sys
from pathlib import Path
import conv
import common
import remap_lib as R
import fasta_lib as F
import text_lib as T

LEVEL = "proof"
LEVEL_TEXT = ("Lean theorems for the mechanisms that could break determinism in the model (tag-set iteration order: make_scaffold_name_perm; warm = cold via the AGP round trip; "
              "buffer independence; input-format independence) — a pure model is deterministic by construction, so the RUNTIME half is decided by executing the real CLIs: "
              "same inputs under several PYTHONHASHSEEDs, working directories, buffer sizes, cache cold/warm, in-process invocation orders, and input formats, comparing every "
              "output file byte for byte. Interpreter and logging-module state are runtime behaviour outside any model.")
RULE = ("generated (input assembly, Pretext AGP) pairs incl. multi-tag scaffolds, run through pretext-to-asm in subprocesses under PYTHONHASHSEED in {0,1,2,12345}, two working "
        "directories, stream buffer sizes {7, 61, 250000}, index cache cold and warm; sequences of in-process invocations on different inputs in shuffled orders; the same assembly "
        "supplied as FASTA, AGP and TPF; asm-format twice; the real specimens under two hash seeds (thorough: all 12). Non-trivial = distinct (scenario, configuration) pairs.")
TRUSTED = ["harness props/C17.py (subprocess runs of the real CLIs, byte comparison of all output files; log files compared after removing the run's directory names)",
           "modelled not verified: CPython set iteration order per hash seed, functools.cache, logging.basicConfig(force=True)"]
ASSUMPTIONS = ["FASTA records have >= 1 residue for cold = warm (zero-length records are a recorded boundary)"]
EXPLANATION = LEVEL_TEXT

RUNNER = Path(__file__).resolve().parent.parent / "c17_runner.py"


def run_sub(cwd, hashseed, buf, tool, args, timeout=120):
    env = dict(os.environ)
    env["PYTHONHASHSEED"] = str(hashseed)
    env.pop("PYTHONPATH", None)
    p = subprocess.run([sys.executable, str(RUNNER), str(common.REPO / "src"), str(buf), tool] + [str(a) for a in args], cwd=str(cwd), env=env,
                       stdout=subprocess.PIPE, stderr=subprocess.PIPE, timeout=timeout)
    return p.returncode, p.stdout, p.stderr


def snapshot(d, skip=(), norm=()):
    out = {}
    for p in sorted(d.iterdir()):
        if p.name in skip or p.is_dir():
            continue
        b = p.read_bytes()
        for a in norm:
            b = b.replace(str(a).encode(), b"<DIR>")
        out[p.name] = b
    return out


def make_files(rng, d, kind, dirty=False):
    """writes in.agp / in.tpf / in.fa (same assembly: one forward contig per record, no gaps inside records) + ptx.agp.
    dirty=True: in.fa (only) additionally carries N-runs, IUPAC ambiguity codes and lower case, so that the index assembly has
    several contigs per record and the non-ACGT handling is exercised under every configuration (in.agp / in.tpf then do NOT
    describe the same assembly and must not be used)."""
    recs = F.rand_records(rng, nrec=rng.randint(2, 4), maxlen=400)
    for i, r in enumerate(recs):
        r["name"] = f"scaf{i+1}"; r["desc"] = None
        r["seq"] = bytes(rng.choice(b"ACGT") for _ in range(max(30, len(r["seq"]))))
    if dirty:
        fa_recs = []
        for r in recs:
            b = bytearray(r["seq"])
            for _ in range(rng.randint(1, 4)):
                k = rng.random(); pos = rng.randrange(1, len(b) - 1)
                if rng.random() < 0.25:
                    pos = 0 if rng.random() < 0.6 else max(0, len(b) - rng.randint(1, 25))      # a record that BEGINS (or ends) with the run
                    k = 0.5
                if k < 0.4:
                    b[pos] = rng.choice(b"RYKMSWBDHVryk")             # isolated ambiguity code
                elif k < 0.8:
                    n = rng.randint(1, 25); b[pos:pos + n] = (b"N" if rng.random() < 0.8 else b"n") * min(n, len(b) - pos - 1)
                else:
                    n = rng.randint(1, 10); b[pos:pos + n] = bytes(b[pos:pos + n]).lower()
            fa_recs.append(dict(r, seq=bytes(b)))
        (d / "in.fa").write_bytes(F.render(fa_recs, rng.choice([60, 60, 11, 200])))
    else:
        (d / "in.fa").write_bytes(F.render(recs, 60))
    inp = [conv.jscaffold(r["name"], [conv.jfrag(i, r["name"], 1, len(r["seq"]), 1)]) for i, r in enumerate(recs)]
    (d / "in.agp").write_text(R.agp_text(inp))
    (d / "in.tpf").write_text(T.real_format({"header": [], "scaffolds": inp}, "tpf")["ok"])
    bpt = rng.choice(["1", "3", "10.75"])
    ptx, _ = R.pretext_script(rng, inp, bpt)
    if kind == "tie":
        # one record holds a sub-texel contig cut exactly in the middle (equal bait overlaps on both sides)
        c = R.make_case(rng, "tie")
        inp, ptx, bpt = c["input"], c["ptx"], c["bpt"]
        (d / "in.agp").write_text(R.agp_text(inp))
        for n in ("in.fa", "in.tpf"):
            if (d / n).exists():
                (d / n).unlink()
    if kind == "multitag":
        ptx = R.decorate_tags(rng, ptx)
        for ps in ptx:
            frs = [f for f in ps["rows"] if f["t"] == "F"]
            if "Painted" in frs[0]["tags"] and not any(t.lower().startswith("hap") for f in frs for t in f["tags"]):
                k = rng.random()
                if k < 0.35 and len(frs) >= 2:
                    # the same haplotype spelt differently on two rows of one scaffold
                    frs[0]["tags"] = frs[0]["tags"] + ["Hap1"]; frs[1]["tags"] = frs[1]["tags"] + ["HAP1"]
                elif k < 0.6:
                    frs[0]["tags"] = frs[0]["tags"] + ["Hap1", "Singleton", "X"]
                elif k < 0.8:
                    frs[0]["tags"] = frs[0]["tags"] + ["Hap2"] + (["Primary"] if rng.random() < 0.5 else [])
                else:
                    # an empty tag column in the middle of the line (two consecutive tabs) next to a haplotype tag
                    frs[0]["tags"] = frs[0]["tags"] + ["", "Hap1"]
    if kind == "cuttags":
        # EVERY row of a painted scaffold carries the same two or three extra tags (haplotype, name, Singleton), so that contigs CUT
        # for such a row inherit several tags at once (their order in the output must not come from a set)
        ptx = R.decorate_tags(rng, ptx)
        names = ["X", "Y", "W", "Z", "B1", "X1", "A7", "Q", "R2"]
        rng.shuffle(names)
        for ps in ptx:
            frs = [f for f in ps["rows"] if f["t"] == "F"]
            if frs and "Painted" in frs[0]["tags"] and not any(t in names or t.lower().startswith("hap") for f in frs for t in f["tags"]):
                extra = [rng.choice(["Hap1", "Hap2"]), names.pop()] + (["Singleton"] if rng.random() < 0.5 else [])
                rng.shuffle(extra)
                for f in frs:
                    f["tags"] = f["tags"] + extra
    if kind == "tagged":
        ptx = R.decorate_tags(rng, ptx)
        # several tags on one scaffold: exercises set iteration order
        for ps in ptx:
            f0 = next(f for f in ps["rows"] if f["t"] == "F")
            if "Painted" in f0["tags"] and rng.random() < 0.5:
                f0["tags"] = f0["tags"] + ["Hap1"] + (["Singleton"] if rng.random() < 0.3 else [])
    (d / "ptx.agp").write_text(R.agp_text(ptx, header=[f"HiC MAP RESOLUTION: {bpt} bp/texel"]))
    return recs


def scenario_subprocess(ctx, sc, tag):
    rng, out = ctx.rng, ctx.out
    base = sc.path / f"c17_{next(tag)}"
    base.mkdir()
    src = base / "src"; src.mkdir()
    kind = rng.choice(["script", "tagged", "multitag", "multitag", "tie"])
    dirty = kind in ("script", "tagged") and rng.random() < 0.6
    make_files(rng, src, kind, dirty=dirty)
    use_fa = (src / "in.fa").exists()
    confs = []
    for hs in ([0, 1, 2, 3, 5, 12345] if ctx.thorough else [0, 1, 7, 12345]):
        confs.append({"hashseed": hs, "buf": "-", "cwd": "a", "fmt": "fa", "warm": False})
    confs.append({"hashseed": 1, "buf": 7, "cwd": "b", "fmt": "fa", "warm": False})
    confs.append({"hashseed": 2, "buf": 61, "cwd": "a", "fmt": "fa", "warm": True})
    if dirty:
        confs.append({"hashseed": 0, "buf": rng.choice([13, 29, 100, 300]), "cwd": "a", "fmt": "fa", "warm": False})
    ref = None
    for k, cf in enumerate(confs):
        d = base / f"run{k}"; d.mkdir()
        wd = base / f"cwd_{cf['cwd']}_{k}"; wd.mkdir()
        infile = "in.fa" if use_fa else "in.agp"
        outfile = "xx.1.fa" if use_fa else "xx.1.tpf"
        for n in (infile, "ptx.agp"):
            shutil.copy(src / n, d / n)
        if cf["warm"] and use_fa:
            rc, so, se = run_sub(wd, 0, "-", "pretext-to-asm", ["-a", d / "in.fa", "-p", d / "ptx.agp", "-o", d / "warm.1.fa"])
            for p in d.glob("warm.*"):
                p.unlink()
        rc, so, se = run_sub(wd, cf["hashseed"], cf["buf"], "pretext-to-asm", ["-a", d / infile, "-p", d / "ptx.agp", "-o", d / outfile])
        snap = snapshot(d, skip=("in.fa", "in.agp", "ptx.agp", "in.fa.fai", "in.fa.agp"), norm=(d, wd))
        snap["<exit>"] = str(rc).encode()
        inp = {"scenario": "subprocess", "conf": cf, "kind": kind + ("+dirty-fasta" if dirty else ""), "pretext": (src / "ptx.agp").read_text()[:2000], "input": (src / ("in.fa" if use_fa else "in.agp")).read_text()[:600]}
        out.case("hashseed-cwd-buffer-cache", inp, ("sub", cf["hashseed"], cf["buf"], cf["cwd"], cf["warm"]))
        if ref is None:
            ref = snap
            # "running again on the same inputs": the SAME command once more, into the same place (the first run's outputs, its .log included, are
            # there and the default --clobber rewrites them) must leave byte-identical files
            rc2, so2, se2 = run_sub(wd, cf["hashseed"], cf["buf"], "pretext-to-asm", ["-a", d / infile, "-p", d / "ptx.agp", "-o", d / outfile])
            snap2 = snapshot(d, skip=("in.fa", "in.agp", "ptx.agp", "in.fa.fai", "in.fa.agp"), norm=(d, wd))
            snap2["<exit>"] = str(rc2).encode()
            inp2 = dict(inp, scenario="subprocess-rerun-in-place")
            out.case("hashseed-cwd-buffer-cache", inp2, ("rerun", cf["hashseed"]))
            if snap2 != ref:
                diff = [n for n in set(snap2) | set(ref) if snap2.get(n) != ref.get(n)]
                out.oracle_fail("hashseed-cwd-buffer-cache", inp2, f"a second run of the same command into the same place leaves different files: {sorted(diff)[:4]}")
        elif snap != ref:
            diff = [n for n in set(snap) | set(ref) if snap.get(n) != ref.get(n)]
            out.oracle_fail("hashseed-cwd-buffer-cache", inp, f"output files differ from the first run of the same inputs: {sorted(diff)[:4]}")


BATCH = Path(__file__).resolve().parent.parent / "c17_batch.py"


def scenario_hashseed_batch(ctx, sc, tag, count, seeds):
    """MANY input pairs per hash seed: one interpreter per PYTHONHASHSEED runs pretext-to-asm on all of them (same order, so the in-process
    history is the same in every interpreter and only the hash seed differs); every output file is compared byte for byte across seeds"""
    rng, out = ctx.rng, ctx.out
    base = sc.path / f"c17_{next(tag)}"
    cases = base / "cases"; cases.mkdir(parents=True)
    kinds = []
    for k in range(count):
        d = cases / str(k); d.mkdir()
        kind = rng.choice(["cuttags", "cuttags", "multitag", "tagged", "script", "tie"])
        kinds.append(kind)
        make_files(rng, d, kind)
    snaps = {}
    for hs in seeds:
        o = base / f"out_{hs}"
        env = dict(os.environ); env["PYTHONHASHSEED"] = str(hs); env.pop("PYTHONPATH", None)
        p = subprocess.run([sys.executable, str(BATCH), str(common.REPO / "src"), str(cases), str(o)], env=env, cwd=str(base),
                           stdout=subprocess.PIPE, stderr=subprocess.PIPE, timeout=1200)
        if p.returncode != 0:
            raise RuntimeError(f"c17_batch.py failed: {p.stderr.decode()[-400:]}")
        snaps[hs] = {k: snapshot(o / str(k), skip=("in.agp", "ptx.agp"), norm=(o / str(k),)) for k in range(count)}
    ok = 0
    for k in range(count):
        ref = snaps[seeds[0]][k]
        ok += ref.get("exit") == b"0"
        for hs in seeds:
            inp = {"scenario": "hashseed-batch", "hashseed": hs, "kind": kinds[k], "pretext": (cases / str(k) / "ptx.agp").read_text()[:2500],
                   "input": (cases / str(k) / "in.agp").read_text()[:800]}
            out.case("hashseed-batch", inp, ("batch", kinds[k], hs, ref.get("exit", b"?").decode()[:12]))
            if snaps[hs][k] != ref:
                diff = sorted(n for n in set(snaps[hs][k]) | set(ref) if snaps[hs][k].get(n) != ref.get(n))
                a, b = ref.get(diff[0], b""), snaps[hs][k].get(diff[0], b"")
                line = next((f"{x!r} vs {y!r}" for x, y in zip(a.splitlines(), b.splitlines()) if x != y), "")
                out.oracle_fail("hashseed-batch", inp, f"output files differ between PYTHONHASHSEED={seeds[0]} and {hs}: {diff[:4]} first differing line {line[:300]}")
    out.notes.append(f"hashseed-batch: {ok}/{count} input pairs ran to completion (exit 0); the others fail identically under every seed")


def scenario_formats(ctx, sc, tag):
    rng, out = ctx.rng, ctx.out
    base = sc.path / f"c17_{next(tag)}"
    base.mkdir()
    src = base / "src"; src.mkdir()
    make_files(rng, src, rng.choice(["script", "tagged"]))
    ref = None
    for ext in ("fa", "agp", "tpf"):
        d = base / f"fmt_{ext}"; d.mkdir()
        shutil.copy(src / f"in.{ext}", d / f"in.{ext}"); shutil.copy(src / "ptx.agp", d / "ptx.agp")
        rc, so, se = run_sub(d, 0, "-", "pretext-to-asm", ["-a", d / f"in.{ext}", "-p", d / "ptx.agp", "-o", d / "xx.1.tpf", "--no-write-log"])
        snap = {n: b for n, b in snapshot(d, skip=(f"in.{ext}", "ptx.agp", "in.fa.fai", "in.fa.agp")).items()}
        snap["<exit>"] = str(rc).encode()
        inp = {"scenario": "input-format", "format": ext, "pretext": (src / "ptx.agp").read_text()[:2000]}
        out.case("input-format", inp, ("fmt", ext))
        if ref is None:
            ref = snap
        elif snap != ref:
            diff = [n for n in set(snap) | set(ref) if snap.get(n) != ref.get(n)]
            out.oracle_fail("input-format", inp, f"the same assembly supplied as {ext.upper()} gives different outputs than as FASTA: {sorted(diff)[:4]}")


def scenario_inprocess(ctx, sc, tag):
    """consecutive invocations in one process, on different inputs, in different orders"""
    from click.testing import CliRunner
    from tola.assembly.scripts.pretext_to_asm import cli
    from tola.assembly.scripts.asm_format import cli as fmt_cli
    rng, out = ctx.rng, ctx.out
    base = sc.path / f"c17_{next(tag)}"
    base.mkdir()
    jobs = []
    for j in range(3):
        s = base / f"job{j}"; s.mkdir()
        make_files(rng, s, ["tie", "multitag", rng.choice(["script", "tagged", "tie"])][j])
        jobs.append(s)

    def run_job(s, k):
        d = base / f"o{k}"; d.mkdir()
        for n in ("in.agp", "ptx.agp"):
            shutil.copy(s / n, d / n)
        r = CliRunner().invoke(cli, ["-a", str(d / "in.agp"), "-p", str(d / "ptx.agp"), "-o", str(d / "xx.1.agp")])
        r2 = CliRunner().invoke(fmt_cli, ["-f", "TPF", str(d / "in.agp")])
        snap = snapshot(d, skip=("in.agp", "ptx.agp"), norm=(d,))
        snap["<exit>"] = str(r.exit_code).encode(); snap["<fmt>"] = (r2.output or "").encode()
        return snap
    ref = {}
    k = 0
    for order in ([0, 1, 2], [2, 1, 0], [1, 1, 0, 2, 0], [0, 0, 0]):
        for j in order:
            snap = run_job(jobs[j], k); k += 1
            inp = {"scenario": "in-process", "order": order, "job": j, "pretext": (jobs[j] / "ptx.agp").read_text()[:1500]}
            out.case("in-process-order", inp, ("inproc", tuple(order), j))
            if j not in ref:
                ref[j] = snap
            elif snap != ref[j]:
                diff = [n for n in set(snap) | set(ref[j]) if snap.get(n) != ref[j].get(n)]
                out.oracle_fail("in-process-order", inp, f"an earlier invocation in the same process changed the outputs: {sorted(diff)[:4]}")


def scenario_specimens(ctx, sc, tag, count):
    out = ctx.out
    data = common.REPO / "tests" / "data"
    dirs = sorted(p for p in data.iterdir() if p.is_dir())[:count]
    for sp in dirs:
        name = sp.name
        ver = ""
        m = re.search(r"_(\d+)$", name)
        if m:
            ver = "." + m.group(1); name = name[: -len(m.group(0))]
        inp_tpf = sp / f"{name}-input{ver}.tpf"; ptx = sp / f"{name}-pretext{ver}.agp"
        if not inp_tpf.exists() or not ptx.exists():
            continue
        ref = None
        for hs in (0, 31337):
            d = sc.path / f"c17_{next(tag)}"; d.mkdir()
            rc, so, se = run_sub(d, hs, "-", "pretext-to-asm", ["-a", inp_tpf, "-p", ptx, "-o", d / f"{name}-out{ver}.tpf"])
            snap = snapshot(d, norm=(d,)); snap["<exit>"] = str(rc).encode()
            out.case("specimens", {"specimen": sp.name, "hashseed": hs}, ("spec", sp.name, hs))
            if ref is None:
                ref = snap
            elif snap != ref:
                out.oracle_fail("specimens", {"specimen": sp.name, "hashseed": hs}, "specimen outputs depend on PYTHONHASHSEED")


def tag_permutations(ctx, count):
    """ScaffoldNamer.make_scaffold_name accepts the tag collection as an argument: feed it the same tag set in EVERY order
    (what a different PYTHONHASHSEED can do to a set) — outcome must not depend on the order; model compared per order."""
    from tola.assembly.build_utils import ScaffoldNamer
    from tola.assembly.scaffold import Scaffold
    from tola.assembly.fragment import Fragment
    rng, out = ctx.rng, ctx.out
    pool = ["Painted", "Target", "Primary", "Hap1", "HAP1", "hap2", "X", "W1", "I_II", "2RL", "Singleton", "Unloc", "Haplotig", "Contaminant", "Cut", "", "B1", "Hap2"]
    cases = []
    for _ in range(count):
        k = rng.randint(1, 4)
        tags = rng.sample(pool, k)
        first_name = rng.choice(["scaf1", "HAP1_SCAFFOLD_3", "x_y_1", "c"])
        cases.append((tags, first_name))
    reqs, bases = [], []
    for tags, fn in cases:
        # the tag collection as it reaches the namer: Scaffold.fragment_tags() of the Pretext scaffold (a set) — in every order
        base = sorted(Scaffold("Scaffold_7", [Fragment(fn, 1, 100, 1, tuple(tags))]).fragment_tags())
        bases.append(base)
        orders = [list(p) for p in itertools.permutations(base)]
        reqs.append({"id": 0, "kind": "namer", "name": "Scaffold_7", "rows": [conv.jfrag(0, fn, 1, 100, 1, tags)], "tag_orders": orders})
    ms = ctx.driver.batch(reqs) if ctx.driver else [None] * len(reqs)
    for (tags, fn), base, rq, m in zip(cases, bases, reqs, ms):
        res = []
        for order in rq["tag_orders"]:
            n = ScaffoldNamer()
            sc = Scaffold("Scaffold_7", [Fragment(fn, 1, 100, 1, tuple(tags))])
            try:
                n.make_scaffold_name(sc, list(order))
                res.append({"ok": {"name": n.current_scaffold_name, "rank": n.current_rank, "haplotype": n.current_haplotype, "target": n.target_tags,
                                   "primary": n.primary_haplotype, "lc": [[a, b] for a, b in n.haplotype_lc_dict.items()]}})
            except Exception as e:
                res.append({"err": conv.errkind(e)})
        if m is not None:
            m = {"fragment_tags": sorted(m["fragment_tags"]), "results": m["results"]}
        res = {"fragment_tags": base, "results": res}
        inp = {"tags": tags, "first_row_name": fn}
        key = ("perm", tuple(sorted(tags)))
        if m is not None:
            out.compare("tag-permutations", inp, res, m, key)
        else:
            out.case("tag-permutations", inp, key)
        # order independence (the dict of spellings may be filled in a different order; compare it as a mapping)
        def norm(r):
            if "err" in r:
                return r
            d = dict(r["ok"]); d["lc"] = sorted(map(tuple, d["lc"])); return d
        if len({common.canon(norm(r)) for r in res["results"]}) > 1:
            fid = None
            out.oracle_fail("tag-permutations", inp, "the outcome of naming a scaffold depends on the iteration order of its tag set (PYTHONHASHSEED)",
                            finding=fid, detail={"orders": rq["tag_orders"][:6], "results": res["results"][:6]})


def observable(v):
    """what of (index, assembly) can reach an output file: a scaffold without rows (record without residues) is dropped — neither the remapper
    (it walks fragments) nor the writers produce anything for it, and the AGP cache has no line for it; the .fai row is compared"""
    return {"index": v["index"], "scaffolds": [s for s in v["scaffolds"] if s["rows"]]}


def coldwarm(ctx, count):
    """index cache freshly built vs loaded from disk, in process: FastaIndex.auto_load() twice on the same file (cold, then warm) must give the
    same index and the same assembly; both are also compared with the Lean composition (indexFasta, then faiRow/loadIndex and formatAgp/parseAgp)."""
    import fasta_lib as F2
    from pathlib import Path
    from tola.fasta.index import FastaIndex
    out, rng = ctx.out, ctx.rng
    reqs, meta = [], []

    def view(fi):
        return {"index": [[n, i.length, i.file_offset, i.residues_per_line, i.max_line_length] for n, i in fi.index.items()],
                "scaffolds": [{"name": s.name, "rows": [conv.strip_oids(conv.from_real_row(r)) for r in s.rows]} for s in fi.assembly.scaffolds]}
    with F.Scratch() as sc:
        for i in range(count):
            recs = F.rand_records(rng, nrec=rng.randint(1, 4), maxlen=120, allow_empty=(rng.random() < 0.15))
            odd = rng.random()
            for k, r in enumerate(recs):
                if odd < 0.35:
                    # names as bytes.split() leaves them: anything but ASCII white space (separators 0x1C-0x1F, '#', '|', ':' …)
                    r["name"] = rng.choice(["a\x1cb", "x\x1f", "#c", "c#1", "|q", "s:1-5", "=", "N"]) + str(k)
            w = rng.choice([7, 60, 60, 200])
            le = rng.choice([b"\n", b"\n", b"\r\n"])
            data = F.render(recs, w, le=le, final_newline=rng.random() < 0.85)
            bs = rng.choice([1, 7, 61, 250000])
            p = sc.path / f"cw{i}.fa"
            p.write_bytes(data)
            res = {}
            try:
                cold = FastaIndex(p, buffer_size=bs); cold.auto_load(); res["cold"] = view(cold)
                warm = FastaIndex(p, buffer_size=bs)
                res["used_cache"] = bool(warm.check_for_index_files())
                if not res["used_cache"]:
                    # same timestamp tick as the FASTA: make the cache strictly newer, as any later run would see it
                    import os
                    t = p.stat().st_mtime + 5
                    for q in (warm.fai_file, warm.agp_file):
                        os.utime(q, (t, t))
                warm = FastaIndex(p, buffer_size=bs)
                warm.auto_load(); res["warm"] = view(warm)
            except Exception as e:
                res["err"] = conv.errkind(e) if "cold" in res else "cold:" + conv.errkind(e)
            names = [r["name"] for r in recs]
            inp = {"scenario": "cold-warm", "fasta": data.decode("latin-1")[:600], "bs": bs, "names": names}
            key = ("coldwarm", len(recs), odd < 0.35, any(len(r["seq"]) == 0 for r in recs), "err" in res)
            fid = None
            if any(n.startswith("#") for n in names):
                fid = "F18-record-name-starting-with-hash"
            meta.append((inp, res, key, fid))
            reqs.append({"id": 0, "kind": "warm", "file": list(data), "bs": bs, "path": str(p.absolute())})
    ms = ctx.driver.batch(reqs) if ctx.driver else [None] * len(reqs)
    for (inp, res, key, fid), m in zip(meta, ms):
        if m is not None:
            if "ok" in m:
                mv = {"cold": {"index": m["ok"]["cold_index"], "scaffolds": [{"name": x["name"], "rows": [conv.strip_oids(r) for r in x["rows"]]} for x in m["ok"]["cold_scaffolds"]]},
                      "warm": {"index": m["ok"]["warm_index"], "scaffolds": [{"name": x["name"], "rows": [conv.strip_oids(r) for r in x["rows"]]} for x in m["ok"]["warm_scaffolds"]]}}
                rv = {k: res[k] for k in ("cold", "warm") if k in res}
                if "err" in res:
                    rv["err"] = res["err"]
            else:
                mv = {"err": m["err"]}
                rv = {"err": (res.get("err") or "none").replace("cold:", "")}
            out.compare("cold-warm", inp, rv, mv, key)
        else:
            out.case("cold-warm", inp, key)
        if "err" in res and not res["err"].startswith("cold:"):
            out.oracle_fail("cold-warm", inp, f"the cold run succeeds but the warm run (cache loaded from disk) fails: {res['err']}")
        elif "warm" in res and observable(res["warm"]) != observable(res["cold"]):
            # the recorded finding is exactly: the warm assembly lacks the scaffolds named '#…' and nothing else differs
            oc, ow = observable(res["cold"]), observable(res["warm"])
            if not (fid and ow["index"] == oc["index"] and ow["scaffolds"] == [x for x in oc["scaffolds"] if not x["name"].startswith("#")]):
                fid = None
            out.oracle_fail("cold-warm", inp, "index / assembly loaded from the cache differ from the freshly built ones", finding=fid,
                            detail={"cold": res["cold"], "warm": res["warm"]})


def run(ctx):
    tag_permutations(ctx, 1500 if ctx.thorough else 300)
    coldwarm(ctx, 600 if ctx.thorough else 120)
    tag = itertools.count()
    with F.Scratch() as sc:
        for _ in range(10 if ctx.thorough else 4):
            scenario_subprocess(ctx, sc, tag)
        scenario_hashseed_batch(ctx, sc, tag, 400 if ctx.thorough else 60, [0, 1, 2, 3, 7, 12345] if ctx.thorough else [0, 1, 7, 12345])
        for _ in range(4 if ctx.thorough else 1):
            scenario_formats(ctx, sc, tag)
        for _ in range(6 if ctx.thorough else 2):
            scenario_inprocess(ctx, sc, tag)
        scenario_specimens(ctx, sc, tag, 12 if ctx.thorough else 3)


def search(ctx, broken):
    new = [f for f in ctx.out.oracle_failures if not f.get("finding")]
    return min(new, key=lambda f: len(str(f["input"]))) if new else None


def replay(ctx, payload):
    return {"fails": True, "note": "re-run the stored inputs under the stored configuration and the first configuration and compare all output files", "input": payload.get("input")}
