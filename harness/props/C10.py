"""C10 — chromosome, unloc and haplotig names are unique and ranked by size."""
import remap_lib as R

LEVEL = "proof"
RULE = ('tagged PretextView-model maps (painted scaffolds incl. equal sizes, 0..k unlocs and haplotigs, sex/B tags, one or two haplotypes) x input assemblies. Non-trivial = distinct (kind, #pieces, #autosomes, #unlocs, #haplotigs | error).')
TRUSTED = ['correspondence harness props/C10.py + remap_lib.py: real BuildAssembly pipeline vs Lean `remap` on the projection `proj_names`', 'modelled not verified: Python dict/set/sort semantics as in Model/Py.lean; object identity by object ids; PretextView edit-script model (spec side)']
ASSUMPTIONS = ['input names outside the generated <prefix>.., H_.., Scaffold_.. namespaces (generator)', 'consistent tagging as generated']
LEVEL_NOTE = "proved over the model: counters (H_n, _unloc_n without holes), rename_by_size, chromosome csv; single-haplotype maps: the whole numbering/uniqueness/order chain (`numbering_single`, `names_unique_autosomes`, `output_order`, `unloc_directly_after`); several haplotypes (Properties/C10Multi.lean): `build_groups_multi` (grouping = explicit segmentation, fails only for a missing Pretext name), `group_errors_multi`, `numbering_multi` (groups numbered 1..n by non-increasing FIRST-haplotype length, stable), `homologues_share_number`, `names_unique_multi` (per haplotype); side condition everywhere: the Pretext scaffold name does not occur inside `_unloc_<k>` (`name_group_replace_counterexample`); the link from `remap`'s output to the namer's input list is `assemblies_fused_single/_multi`; tie = correspondence on names/ranks/order/csv; direct oracle incl. `twohap` stream"
EXPLANATION = 'naming theorems (counters, rename_by_size, ChrNamer with one or several haplotypes, uniqueness, output order, csv) over the model; tie by correspondence on names/ranks/order/csv; oracle = direct statement.'
PROJ = R.proj_names


def oracle(c, real):
    if "err" in real:
        return []
    return R.oracle_names(c["input"], c["ptx"], real, single_hap=(c["kind"] != "tagged2"), bpt_s=c["bpt"])

KW = {"tagged": {"paint": 0.85}}
def CLASSIFY(c, real, msg):
    """F20: in a multi-haplotype map the homologues of a name-tagged chromosome share the tag, and their FalseDuplicate / Contaminant
    pieces are all named after it: duplicate names in the false-duplicates / contaminants assembly"""
    import re
    m = re.search(r"duplicate scaffold names in assembly '(FalseDuplicate|Contaminant)': \[(.*)\]", msg)
    if m and "ok" in real:
        dups = set(re.findall(r"'([^']+)'", m.group(2)))
        nametags = {t for ps in c["ptx"] for f in ps["rows"] if f["t"] == "F" for t in f["tags"] if R.is_chr_tag(t)}
        haps = {t for ps in c["ptx"] for f in ps["rows"] if f["t"] == "F" for t in f["tags"] if t not in R.KNOWN and not R.is_chr_tag(t)}
        if len(haps) >= 2 and dups and dups <= nametags:
            return "F20-homologues-share-name-in-tagged-assembly"
    # the same defect seen in the written file: two scaffolds of one name in xx.1.falseduplicates.agp / contaminants.agp read back as one
    m2 = re.search(r"xx\.1\.(falseduplicates|contaminants)\.agp does not contain exactly", msg)
    if m2 and "ok" in real:
        key = {"falseduplicates": "FalseDuplicate", "contaminants": "Contaminant"}[m2.group(1)]
        names = [s_["name"] for a in real["ok"]["assemblies"] if a["key"] == key for s_ in a["scaffolds"]]
        dups = {n for n in names if names.count(n) > 1}
        prefix = "SUPER_"
        nametags = {t for ps in c["ptx"] for f in ps["rows"] if f["t"] == "F" for t in f["tags"] if R.is_chr_tag(t)}
        haps = {t for ps in c["ptx"] for f in ps["rows"] if f["t"] == "F" for t in f["tags"] if t not in R.KNOWN and not R.is_chr_tag(t)}
        if len(haps) >= 2 and dups and {d[len(prefix):] if d.startswith(prefix) else d for d in dups} <= nametags:
            return "F20-homologues-share-name-in-tagged-assembly"
    return None


def streams(ctx):
    n = 16 if ctx.thorough else 1
    return [("tagged", "tagged", 700 * n), ("tagged-2hap", "tagged2", 200 * n), ("homologous-groups", "twohap", 200 * n), ("tagged-slivers", "slivers", 150 * n), ("unloc-rich", "unlocs", 300 * n), ("homologues-share-name-tag", "homtag", 120 * n), ("untagged", "script", 150 * n)]


def gen(ctx, kind):
    return R.make_case(ctx.rng, kind, **KW.get(kind, {}))


def classify(c, real, msg):
    return CLASSIFY(c, real, msg) if CLASSIFY else None


def run(ctx):
    for stream, kind, n in streams(ctx):
        cases = [gen(ctx, kind) for _ in range(n)]
        R.run_cases(ctx, stream, cases, PROJ, oracle, classify)
    # the CLI end to end (info yaml, file names, csv files) on a sample of the same generators
    cli_cases = [gen(ctx, kind) for stream, kind, n in streams(ctx) for _ in range(max(8, n // 25))]
    cli_cases += [R.make_case(ctx.rng, ctx.rng.choice(["primarymode", "primarynames"])) for _ in range(60 if ctx.thorough else 12)]     # merged all_haplotigs files keep each haplotype's order
    R.run_cli_cases(ctx, "cli-end-to-end", cli_cases, classify, only=["chromosome list", "does not contain exactly", "unexpected assembly files"])
    # history: the same maps remapped AFTER other maps of the same input on ONE IndexedAssembly object (in-process state must not matter)
    hk = ['tagged', 'unlocs']
    R.run_history_cases(ctx, "object-history", [R.make_case(ctx.rng, ctx.rng.choice(hk)) for _ in range(240 if ctx.thorough else 40)], PROJ, oracle, (classify if "classify" in globals() else None))


def search(ctx, broken):
    n0 = len(ctx.out.oracle_failures)
    saved, ctx.driver = ctx.driver, None
    try:
        for stream, kind, n in streams(ctx):
            R.run_cases(ctx, "search-" + stream, [gen(ctx, kind) for _ in range(2500)], PROJ, oracle, classify)
            if [f for f in ctx.out.oracle_failures[n0:] if not f.get("finding")]:
                break
    finally:
        ctx.driver = saved
    new = [f for f in ctx.out.oracle_failures[n0:] if not f.get("finding")]
    return min(new, key=lambda f: len(str(f["input"]))) if new else None


def shrink(ctx, failure):
    fid = failure.get("finding")
    def still(inp):
        real = R.real_remap(inp["input"], inp["ptx"], inp["bpt"])
        msgs = oracle(inp, real)
        return bool(msgs) and (classify(inp, real, msgs[0]) == fid)
    return R.shrink_case(ctx, failure, still)


def replay(ctx, payload):
    inp = payload["input"]
    real = R.real_remap(inp["input"], inp["ptx"], inp["bpt"])
    msgs = oracle(inp, real)
    return {"fails": bool(msgs), "oracle": msgs, "real": real}

LEVEL_NOTE = LEVEL_NOTE + ' NEW: name uniqueness in EVERY output assembly (Properties/C10Unique.lean): `remap_names_unique`, `remap_names_unique_named`, `remap_names_unique_curated` under the explicit decidable `NamesOutsideGenerated` (+ one of two clause-7 forms for the Contaminant / FalseDuplicate assemblies), each clause with a `decide +kernel` counter-example through `remap` reproduced on the real code — one of them realistic: open finding F20 (homologues sharing a name tag give duplicate names in the false-duplicates / contaminants assembly); chr_report rows (Properties/C10Report.lean)'
