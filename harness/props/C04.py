"""C04 — FASTA index and derived assembly describe the file exactly."""
import conv
import fasta_lib as F

EXTRA_ANCHORS = ['fasta/stream.py']      # files outside the property's anchors whose change escalates the quick budget (T3)
LEVEL = "proof"
RULE = ("well-formed FASTA bytes: 1-5 records of 1..300 residues (ACGT, N-runs incl. leading/trailing, lower case, IUPAC, odd symbols), line width 1..70 "
        "incl. exact multiples and single-line records, LF/CRLF, final newline present/absent, descriptions, x buffer sizes {1,2,3,5,7,w-1,w,w+1,len,10^6}; "
        "malformed stream (duplicate names, empty file, header only, blank lines, ragged widths, sequence before header) compared on error kind. "
        "Non-trivial = distinct (#records, width class, LE, final newline, buffer class, run pattern class).")
TRUSTED = ["correspondence harness props/C04.py + fasta_lib.py: index_fasta_file / sequence_bytes vs Lean indexFasta / sequenceBytes, byte for byte",
           "modelled not verified: binary file iteration, tell/seek/read, re.finditer over [ACGTacgt]+, bytes.split()"]
ASSUMPTIONS = ["records have >= 1 residue (zero-length records are a recorded boundary)", "record names ASCII without whitespace"]
EXPLANATION = "index_of_rendered / sequence_bytes_slice theorems over the Lean model; tie by byte-level correspondence + oracle computed from the records."


def buffer_sizes(rng, w, n):
    return rng.choice([1, 2, 3, 5, 7, max(1, w - 1), w, w + 1, max(1, n - 1), n, n + 1, 10**6, 250000])


def check_wellformed(ctx, stream, cases):
    out = ctx.out
    reqs = [{"id": i, "kind": "index_fasta", "file": list(c["data"]), "bs": c["bs"]} for i, c in enumerate(cases)]
    model = ctx.driver.batch(reqs) if ctx.driver else [None] * len(reqs)
    with F.Scratch() as sc:
        qreqs, qmeta = [], []
        for c, m in zip(cases, model):
            real, objs = F.real_index(c["data"], c["bs"], sc)
            inp = {"recs": [{"name": r["name"], "desc": r.get("desc"), "seq": r["seq"].decode("latin-1")} for r in c["recs"]],
                   "width": c["width"], "le": c["le"].decode("latin-1"), "final_newline": c["fin"], "bs": c["bs"]}
            key = (len(c["recs"]), min(c["width"], 5), c["le"] == b"\n", c["fin"], min(c["bs"], 8), len(real.get("ok", {}).get("scaffolds", [{}])[0].get("rows", [])) if "ok" in real else "err")
            if m is not None:
                mm = m if "err" in m else {"ok": {"index": m["ok"]["index"], "scaffolds": [{"name": s["name"], "rows": [conv.strip_oids(r) for r in s["rows"]]} for s in m["ok"]["scaffolds"]], "max_buffered": m["ok"]["max_buffered"]}}
                out.compare(stream, inp, real, mm, key)
            else:
                out.case(stream, inp, key)
            if c.get("wellformed"):
                eidx, escs = F.expected_index(c["recs"], c["width"], c["le"], c["fin"])
                if "err" in real:
                    out.oracle_fail(stream, inp, f"indexing a well-formed FASTA failed: {real['err']}", finding=classify(c))
                    continue
                if real["ok"]["index"] != eidx:
                    out.oracle_fail(stream, inp, "faidx quintuples differ from the file's records", finding=classify(c),
                                    detail={"real": real["ok"]["index"], "expected": eidx})
                    continue
                if real["ok"]["scaffolds"] != escs:
                    out.oracle_fail(stream, inp, "derived assembly does not tile the records by maximal ACGT / other runs", finding=classify(c),
                                    detail={"real": real["ok"]["scaffolds"], "expected": escs})
                    continue
                # random access + stream back, through the real index
                qs = []
                for r in c["recs"]:
                    n = len(r["seq"])
                    if n == 0:
                        continue
                    for _ in range(3):
                        a = ctx.rng.randint(1, n); b = ctx.rng.randint(a, n)
                        qs.append({"name": r["name"], "s": a, "e": b})
                    qs.append({"name": r["name"], "s": 1, "e": n})
                got = F.real_seqbytes(c["data"], real["ok"]["index"], qs, sc)
                seqs = {r["name"]: r["seq"] for r in c["recs"]}
                for q, g in zip(qs, got):
                    exp = seqs[q["name"]][q["s"] - 1:q["e"]]
                    if "err" in g or bytes(g["ok"]["data"]) != exp:
                        out.oracle_fail(stream, dict(inp, query=q), "random access does not return exactly the residues of the interval", finding=classify(c))
                        break
                qreqs.append({"id": len(qreqs), "kind": "seqbytes", "file": list(c["data"]), "index": real["ok"]["index"], "queries": qs})
                qmeta.append((inp, qs, got))
                st = F.real_stream(c["data"], real["ok"]["index"], real["ok"]["scaffolds"], c["bs"], 60, sc)
                exp = bytearray()
                for r in c["recs"]:
                    body = bytes(x if x in F.ACGT else ord("N") for x in r["seq"])
                    exp += b">" + r["name"].encode() + b"\n"
                    for i in range(0, len(body), 60):
                        exp += body[i:i + 60] + b"\n"
                if "err" in st or bytes(st["ok"]["out"]) != bytes(exp):
                    out.oracle_fail(stream, inp, "streaming the derived assembly back does not reproduce the records (non-ACGT as N)", finding=classify(c))
            elif c.get("must_reject") and "ok" in real:
                out.oracle_fail(stream, inp, "duplicate record names / file without records accepted")
        if ctx.driver and qreqs:
            mres = ctx.driver.batch(qreqs)
            for (inp, qs, got), mr in zip(qmeta, mres):
                out.compare(stream + ":seqbytes", dict(inp, queries=qs), got, mr, ("seqbytes", len(qs)))


def classify(c):
    return None


def gen_wellformed(rng, allow_empty=False):
    recs = F.rand_records(rng, allow_empty=allow_empty)
    w = rng.choice([1, 2, 3, 5, 10, 60, 70, rng.randint(1, 70)])
    if rng.random() < 0.25:
        # exact multiple of the width / single-line record
        r = rng.choice(recs)
        n = len(r["seq"])
        if n:
            w = rng.choice([n, max(1, n // 2), n + 5])
    le = rng.choice([b"\n", b"\n", b"\r\n"])
    fin = rng.random() < 0.75
    data = F.render(recs, w, le, fin)
    n = max(len(r["seq"]) for r in recs)
    return {"recs": recs, "width": w, "le": le, "fin": fin, "data": data, "bs": buffer_sizes(rng, w, n), "wellformed": True}


def gen_malformed(rng):
    recs = F.rand_records(rng)
    w = rng.randint(1, 30)
    k = rng.random()
    c = {"recs": recs, "width": w, "le": b"\n", "fin": True, "bs": buffer_sizes(rng, w, 50)}
    data = F.render(recs, w)
    if k < 0.2:
        recs.append(dict(recs[0])); data = F.render(recs, w); c["must_reject"] = True
    elif k < 0.3:
        data = b""; c["must_reject"] = True
    elif k < 0.4:
        data = rng.choice([b"\n", b"\n\n", b"   \n"]); 
    elif k < 0.5:
        data = b">only\n"
    elif k < 0.55:
        data = rng.choice([b"ACGT", b"ACGTNN", b"NNNN", b"A"])          # no header, no terminator: one line
    elif k < 0.6:
        data = b"ACGT\n" + data
    elif k < 0.7:
        data = data.replace(b"\n", b"\n\n", 2)
    elif k < 0.8:
        data = b">\n" + data
    elif k < 0.9:
        data = F.render(recs, w, widths=[rng.randint(1, 30) for _ in recs]) + b"ACGTT\n"
    else:
        data = data + b">tail"
    c["data"] = data
    return c


def check_fai_text(ctx, count):
    """FastaInfo.fai_row / FastaIndex.load_index vs Lean faiRow / loadIndex (the warm path of the index), incl. malformed lines"""
    import tempfile
    from pathlib import Path
    from tola.fasta.index import FastaIndex, FastaInfo
    out, rng = ctx.out, ctx.rng
    reqs, meta = [], []
    with F.Scratch() as sc:
        for i in range(count):
            rows = []
            for k in range(rng.randint(1, 4)):
                # names as index_fasta_file can produce them: any bytes but ASCII white space, decoded as UTF-8 — including characters
                # that are white space / line boundaries for `str` methods but not for `bytes.split()`
                odd = rng.choice(["", "", "", "\x1c", "\x1f", "\xa0", "\x85", "\u2028", "\u3000", "é", "#", "|", '"', "'", ",", ";", "\\"])
                rows.append([rng.choice(["chr", "s", "HAP1_SCAFFOLD_"]) + odd + str(k + 1), rng.randint(0, 10**12), rng.randint(0, 10**12), rng.randint(0, 80), rng.randint(0, 82)])
            # the faidx format itself (spec side): five tab-separated columns, one line per record — NOT built with the code under test
            lines = ["\t".join([r[0]] + [str(x) for x in r[1:]]) + "\n" for r in rows]
            mal = rng.random() < 0.35
            if mal and lines:
                j = rng.randrange(len(lines))
                f = lines[j].rstrip("\n").split("\t")
                k = rng.choice(["del", "add", "nonint", "space", "dup", "blank", "crlf", "tabend"])
                if k == "del":
                    del f[rng.randrange(len(f))]
                elif k == "add":
                    f.append("7")
                elif k == "nonint":
                    f[rng.randint(1, 4)] = rng.choice(["x", "1.5", "", "1_0", " 3"])
                elif k == "space":
                    f[0] = f[0] + " extra"
                elif k == "dup" and len(lines) > 1:
                    f[0] = rows[0][0]
                lines[j] = ("\t".join(f) + "\n") if k != "blank" else "\n"
                if k == "crlf":
                    lines[j] = "\t".join(f) + "\r\n"
                elif k == "tabend":
                    lines[j] = "\t".join(f) + "\t\n"
            p = sc.path / f"t{i}.fa"
            p.write_bytes(b">x\nA\n")
            fai = FastaIndex(p)
            fai.fai_file.write_text("".join(lines), encoding="utf-8", newline="")
            try:
                fai.load_index()
                real_load = {"ok": [[n, x.length, x.file_offset, x.residues_per_line, x.max_line_length] for n, x in fai.index.items()]}
            except Exception as e:
                real_load = {"err": conv.errkind(e)}
            # what write_index() puts on disk for these index entries (observed at <fasta>.fai)
            p2 = sc.path / f"w{i}.fa"
            p2.write_bytes(b">x\nA\n")
            fw = FastaIndex(p2)
            try:
                fw.index = {r[0]: FastaInfo(*r[1:]) for r in rows}
                fw.write_index()
                written = fw.fai_file.read_bytes().decode("utf-8")
                real_rows = [l + "\n" for l in written.split("\n")[:-1]] if written.endswith("\n") else ["<no final newline>", written]
            except Exception as e:
                real_rows = ["<write_index raised " + conv.errkind(e) + ">"]
            names = [r[0] for r in rows]
            spec_rows = ["\t".join([r[0]] + [str(x) for x in r[1:]]) + "\n" for r in rows] if len(set(names)) == len(names) else None
            reqs.append({"id": 0, "kind": "fai", "lines": lines, "index": rows})
            meta.append(({"lines": lines, "rows": rows}, {"load": real_load, "rows": real_rows if spec_rows is not None else [l for l in ["\t".join([r[0]] + [str(x) for x in r[1:]]) + "\n" for r in rows]]}, mal))
            if spec_rows is not None and real_rows != spec_rows:
                out.oracle_fail("fai-text", {"lines": lines, "rows": rows}, "the .fai written for these index entries is not the faidx format (name, length, offset, residues per line, bytes per line; tab separated)",
                                detail={"written": real_rows[:4], "expected": spec_rows[:4]})
    ms = ctx.driver.batch(reqs) if ctx.driver else [None] * len(reqs)
    for (inp, real, mal), m in zip(meta, ms):
        key = ("fai", len(inp["lines"]), mal, "err" in real["load"])
        if m is not None:
            out.compare("fai-text", inp, real, m, key)
        else:
            out.case("fai-text", inp, key)
        if not mal and real["load"].get("ok") != inp["rows"]:
            out.oracle_fail("fai-text", inp, "reading back written .fai rows does not give the index that was written")


def check_replaced_file(ctx, count):
    """the index must describe the file AS IT IS: the FASTA is replaced and only ONE of the two cache files is brought up to date
    (e.g. `samtools faidx` rewrites the .fai and leaves the old .agp); mtimes are set explicitly.  `auto_load()` must then yield the
    quintuples / assembly of the CURRENT content (it rebuilds both) — observed at FastaIndex.index / .assembly."""
    import os
    from tola.fasta.index import FastaIndex
    rng = ctx.rng
    with F.Scratch() as sc:
        for i in range(count):
            old = gen_wellformed(rng); new = gen_wellformed(rng)
            p = sc.path / f"r{i}.fa"
            p.write_bytes(old["data"]); os.utime(p, (1000, 1000))
            inp = {"old": old["data"].decode("latin-1"), "new": new["data"].decode("latin-1"), "which_cache_is_fresh": None}
            try:
                f0 = FastaIndex(p); f0.auto_load()
                fai, agp = f0.fai_file, f0.agp_file
                os.utime(fai, (1100, 1100)); os.utime(agp, (1100, 1100))
                p.write_bytes(new["data"]); os.utime(p, (2000, 2000))
                which = rng.choice(["fai", "agp", "none", "equal"])
                inp["which_cache_is_fresh"] = which
                if which == "fai":
                    os.utime(fai, (2100, 2100))          # its content is still the OLD index: only the time stamp says "fresh"
                elif which == "agp":
                    os.utime(agp, (2100, 2100))
                elif which == "equal":                   # same time stamp as the FASTA: not STRICTLY newer, must be rebuilt
                    os.utime(fai, (2000, 2000)); os.utime(agp, (2000, 2000))
                f1 = FastaIndex(p); f1.auto_load()
                got_idx = [[k, v.length, v.file_offset, v.residues_per_line, v.max_line_length] for k, v in f1.index.items()]
                got_asm = [[s_.name, [conv.strip_oids(conv.from_real_row(r)) for r in s_.rows]] for s_ in f1.assembly.scaffolds]
                (sc.path / f"cold{i}.fa").write_bytes(new["data"])
                cold = FastaIndex(sc.path / f"cold{i}.fa")
                cold.auto_load()
                want_idx = [[k, v.length, v.file_offset, v.residues_per_line, v.max_line_length] for k, v in cold.index.items()]
                want_asm = [[s_.name, [conv.strip_oids(conv.from_real_row(r)) for r in s_.rows]] for s_ in cold.assembly.scaffolds]
                ctx.out.case("replaced-file", inp, ("replaced", which))
                if got_idx != want_idx or got_asm != want_asm:
                    ctx.out.oracle_fail("replaced-file", inp, f"after the FASTA was replaced (fresh time stamp on: {which}) auto_load() describes the OLD file, not the current one")
            except Exception as e:
                ctx.out.case("replaced-file", inp, ("replaced", "error"))
                # failing loudly is allowed by the cache property, silently wrong is not; a crash on a well-formed file is neither
                if not isinstance(e, ValueError):
                    ctx.out.oracle_fail("replaced-file", inp, f"auto_load() after replacing the FASTA raised {conv.errkind(e)}")
            finally:
                for o in ("f0", "f1", "cold"):
                    try:
                        locals()[o].fasta_fileandle.close()
                    except Exception:
                        pass


def run(ctx):
    n = 16 if ctx.thorough else 1
    check_replaced_file(ctx, 25 * n)
    check_fai_text(ctx, 150 * n)
    check_wellformed(ctx, "wellformed", [gen_wellformed(ctx.rng) for _ in range(500 * n)])
    check_wellformed(ctx, "malformed", [gen_malformed(ctx.rng) for _ in range(150 * n)])


def search(ctx, broken):
    n0 = len(ctx.out.oracle_failures)
    saved, ctx.driver = ctx.driver, None
    try:
        check_wellformed(ctx, "search-wellformed", [gen_wellformed(ctx.rng) for _ in range(3000)])
        check_wellformed(ctx, "search-malformed", [gen_malformed(ctx.rng) for _ in range(500)])
    finally:
        ctx.driver = saved
    new = [f for f in ctx.out.oracle_failures[n0:] if not f.get("finding")]
    return min(new, key=lambda f: len(str(f["input"]))) if new else None


def replay(ctx, payload):
    inp = payload["input"]
    recs = [{"name": r["name"], "desc": r.get("desc"), "seq": r["seq"].encode("latin-1")} for r in inp["recs"]]
    le = inp["le"].encode("latin-1")
    c = {"recs": recs, "width": inp["width"], "le": le, "fin": inp["final_newline"], "bs": inp["bs"], "wellformed": True,
         "data": F.render(recs, inp["width"], le, inp["final_newline"])}
    ctx.out.oracle_failures.clear()
    check_wellformed(ctx, "replay", [c])
    return {"fails": bool(ctx.out.oracle_failures or ctx.out.disagreements), "oracle": ctx.out.oracle_failures, "disagreements": ctx.out.disagreements}
