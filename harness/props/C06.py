"""C06 — every AGP the tools write is coordinate-valid."""
import io
import conv
import text_lib as T
import remap_lib as R
import fasta_lib as F

EXTRA_ANCHORS = ['fasta/stream.py', 'assembly/scripts/pretext_to_asm.py']      # files outside the property's anchors whose change escalates the quick budget (T3)
LEVEL = "proof"
RULE = ("AGP text written by format_agp for random assemblies (gaps >= 1), by the asm-format CLI, for every output assembly of remapped (input, Pretext) pairs "
        "(scripts, perturbed, tagged), and as the .agp cache beside indexed random FASTA files — each parsed by an independent AGP reader (columns 1-9). "
        "Non-trivial = distinct (source, #objects, #rows class, has gaps).")
TRUSTED = ["correspondence harness props/C06.py: format_agp text vs Lean formatAgp text; independent AGP reader text_lib.validate_agp_text",
           "modelled not verified: file writing; the remap pipeline and the indexer are tied by C01/C04's correspondence"]
ASSUMPTIONS = ["gap lengths >= 1 (an AGP gap line needs a positive length; zero/negative gaps only arise from invalid input)"]
EXPLANATION = "format_agp_valid proved in Lean by induction with the running position, and composed with the builders: every assembly remap returns (remap_agp_valid, written_agp_valid incl. name_assemblies) and every assembly index_fasta_file derives (index_agp_valid, last end = record length) is written as a strictly valid AGP; tie by text-level correspondence; oracle = independent AGP validator."
LEVEL_NOTE = ("writer: `format_agp_valid(_strict)` for all assemblies with writable strands; builders: `remap_rows_strict` → `remap_agp_valid` / `written_agp_valid` (input rows strict: fragments start ≤ end, gaps ≥ 1 with a type) and `index_rows_strict` → `index_agp_valid` (any well-formed FASTA, any buffer size, LF/CRLF, open last line), `fasta_remap_agp_valid` (FASTA in → AGP out, no row hypothesis left); "
              "garbage in, garbage out is proved too: parse_agp accepts a zero-length gap row and it is written back as end = start − 1 (`parse_agp_accepts_empty_gap`, `remap_keeps_empty_gap`): input validation is not part of the property; " + "; ".join(TRUSTED))


def lengths(scs):
    return {s["name"]: R.slen(s["rows"]) for s in scs}


def check_asms(ctx, stream, asms, source):
    out = ctx.out
    ms = ctx.driver.batch([{"id": 0, "kind": "format_agp", "asm": a} for a in asms]) if ctx.driver else [None] * len(asms)
    for a, m in zip(asms, ms):
        real = T.real_format(a, "agp")
        inp = {"asm": a, "source": source}
        key = (source, min(len(a["scaffolds"]), 4), min(sum(len(s["rows"]) for s in a["scaffolds"]), 10), any(r["t"] == "G" for s in a["scaffolds"] for r in s["rows"]))
        if m is not None:
            out.compare(stream, inp, real, m if "err" in m else {"ok": "".join(m["ok"])}, key)
        else:
            out.case(stream, inp, key)
        if "err" in real:
            out.oracle_fail(stream, inp, f"format_agp failed: {real['err']}")
            continue
        names = [s["name"] for s in a["scaffolds"]]
        errs = T.validate_agp_text(real["ok"], lengths(a["scaffolds"]) if len(set(names)) == len(names) else None)
        if errs:
            out.oracle_fail(stream, inp, "written AGP is not coordinate-valid: " + errs[0], detail={"text": real["ok"][:500]})


def run(ctx):
    rng = ctx.rng
    n = 6 if ctx.thorough else 1
    asms = []
    for _ in range(400 * n):
        a = T.rand_assembly(rng, "agp")
        # distinct object names so that objects can be told apart by the reader
        seen = set()
        for s in a["scaffolds"]:
            while s["name"] in seen:
                s["name"] += "_"
            seen.add(s["name"])
        asms.append(a)
    check_asms(ctx, "format-random", asms, "format_agp")
    # remap outputs
    outs = []
    for kind, cnt in (("script", 200 * n), ("perturbed", 100 * n), ("tagged", 150 * n)):
        for _ in range(cnt):
            c = R.make_case(rng, kind)
            real = R.real_remap(c["input"], c["ptx"], c["bpt"])
            if "ok" in real:
                for a in real["ok"]["assemblies"]:
                    outs.append({"header": [], "scaffolds": [{"name": s["name"], "rows": s["rows"]} for s in a["scaffolds"]]})
    check_asms(ctx, "remap-outputs", outs, "pretext-to-asm")
    # FASTA cache .agp
    from tola.fasta.index import FastaIndex
    with F.Scratch() as sc:
        for i in range(60 * n):
            recs = F.rand_records(rng)
            wi = rng.choice([1, 7, 60, rng.randint(1, 70)])
            data = F.render(recs, wi, rng.choice([b"\n", b"\r\n"]), rng.random() < 0.8)
            p = sc.path / f"f{i}.fa"
            p.write_bytes(data)
            inp = {"fasta": data.decode("latin-1"), "source": "fasta-cache"}
            ctx.out.case("fasta-cache-agp", inp, ("cache", len(recs), min(wi, 8)))
            try:
                fai = FastaIndex(p, buffer_size=rng.choice([1, 7, 250000]))
                fai.auto_load()
                text = fai.agp_file.read_text()
            except Exception as e:
                ctx.out.oracle_fail("fasta-cache-agp", inp, f"indexing failed: {conv.errkind(e)}")
                continue
            errs = T.validate_agp_text(text, {r["name"]: len(r["seq"]) for r in recs})
            objs = {l.split("\t")[0] for l in text.splitlines() if l.strip() and not l.startswith("#")}
            missing = [r["name"] for r in recs if len(r["seq"]) > 0 and r["name"] not in objs]
            if missing:
                errs.append(f"record(s) {missing} have no object in the cache AGP (last object end cannot equal the record length)")
            if errs:
                ctx.out.oracle_fail("fasta-cache-agp", inp, "cache AGP is not coordinate-valid: " + errs[0])
    # FASTA + AGP companion written by pretext_to_asm.write_assembly: AGP last object end = FASTA record length
    from tola.assembly.scripts.pretext_to_asm import write_assembly
    from tola.assembly.assembly import Assembly
    from tola.fasta.index import FastaIndex, FastaInfo
    with F.Scratch() as sc:
        for i in range(40 * n):
            recs = F.rand_records(rng)
            wi = rng.choice([7, 60, rng.randint(1, 70)])
            data = F.render(recs, wi)
            idx, _ = F.expected_index(recs, wi)
            bs = rng.choice([1, 2, 3, 5, 7, 16, 250000])
            gaps = [0, 1, bs, 2 * bs, 3 * bs, bs + 1, 200] if bs <= 16 else [0, 1, 200]
            scs = F.rand_scaffolds_over(rng, recs, zero_strand=0.0, big_gaps=gaps)
            for s_ in scs:
                # an output scaffold neither starts nor ends with a gap in the tools' own outputs, but nothing forbids it
                pass
            p = sc.path / f"w{i}.fa"; p.write_bytes(data)
            fai = FastaIndex(p, bs)
            fai.index = {r[0]: FastaInfo(r[1], r[2], r[3], r[4]) for r in idx}
            outp = sc.path / f"o{i}.fa"
            inp = {"fasta": data.decode("latin-1"), "scaffolds": scs, "bs": bs, "source": "write_assembly-FASTA"}
            ctx.out.case("fasta-with-agp", inp, ("fa+agp", min(bs, 20), len(scs)))
            try:
                write_assembly(fai, Assembly("x", scaffolds=[conv.to_real_scaffold(s_) for s_ in scs]), outp, "FASTA", True)
            except BaseException as e:
                ctx.out.oracle_fail("fasta-with-agp", inp, f"write_assembly failed: {conv.errkind(e)}")
                continue
            finally:
                try:
                    fai.fasta_fileandle.close()
                except Exception:
                    pass
            import gc; gc.collect()
            agp = outp.with_suffix(".agp")
            recl, cur = {}, None
            for l in outp.read_bytes().split(b"\n"):
                if l.startswith(b">"):
                    cur = l[1:].decode(); recl[cur] = 0
                elif cur is not None:
                    recl[cur] += len(l)
            errs = T.validate_agp_text(agp.read_text(), recl) if agp.exists() else ["no AGP written beside the FASTA"]
            if errs:
                ctx.out.oracle_fail("fasta-with-agp", inp, "AGP beside the FASTA: " + errs[0])
    # AGP text as OTHER tools write it (GenBank-style: 'N' gaps, linkage 'no', evidence 'na' / 'paired-ends' …, objects not starting
    # at part 1 in the file's own numbering): whatever was read, what the tools WRITE must be valid and carry U / yes / a gap type
    foreign = []
    for _ in range(150 * n):
        a = T.rand_assembly(rng, "agp")
        seen = set()
        for s_ in a["scaffolds"]:
            while s_["name"] in seen:
                s_["name"] += "_"
            seen.add(s_["name"])
        t = T.real_format(a, "agp")
        if "err" in t:
            continue
        lines = []
        for l in t["ok"].split("\n"):
            f = l.split("\t")
            if len(f) >= 9 and f[4] == "U":
                f[4] = rng.choice(["U", "N", "N"])
                f[7] = rng.choice(["no", "yes", "no"])
                f[8] = rng.choice(["na", "paired-ends", "map", "proximity_ligation", "align_genus;pcr"])
                if rng.random() < 0.3:
                    f[3] = str(rng.randint(1, 99))         # part numbers are not read back
            elif len(f) >= 9 and f[4] == "W" and rng.random() < 0.2:
                f[1], f[2] = str(rng.randint(1, 10**6)), str(rng.randint(1, 10**6))   # neither are object coordinates
            lines.append("\t".join(f))
        foreign.append("\n".join(lines))
    fm = ctx.driver.batch([{"id": 0, "kind": "parse_agp", "lines": T.py_lines(t_)} for t_ in foreign]) if ctx.driver else [None] * len(foreign)
    import io as _io
    from tola.assembly.parser import parse_agp
    from tola.assembly.format import format_agp
    for t_, m in zip(foreign, fm):
        inp = {"agp": t_, "source": "foreign-agp"}
        try:
            asm = parse_agp(_io.StringIO(t_), "x")
            buf = _io.StringIO(); format_agp(asm, buf); written = buf.getvalue()
        except Exception as e:
            ctx.out.case("foreign-agp", inp, ("foreign", "err"))
            ctx.out.oracle_fail("foreign-agp", inp, f"parse/format of a GenBank-style AGP failed: {conv.errkind(e)}")
            continue
        if m is not None and "ok" in m:
            m2 = ctx.driver.batch([{"id": 0, "kind": "format_agp", "asm": m["ok"]}])[0]
            ctx.out.compare("foreign-agp", inp, {"ok": written}, m2 if "err" in m2 else {"ok": "".join(m2["ok"])}, ("foreign", "ok"))
        else:
            ctx.out.case("foreign-agp", inp, ("foreign", "ok"))
        errs = T.validate_agp_text(written)
        if errs:
            ctx.out.oracle_fail("foreign-agp", inp, "AGP re-written from a GenBank-style AGP is not valid: " + errs[0], detail={"text": written[:500]})
    # object histories: a Scaffold that has already been written / indexed once is CHANGED (append_scaffold with or without a gap,
    # add_row, rows replaced or removed in place — all of which the tools do) and written again: the AGP must be the one a freshly
    # built scaffold with the same rows gives, and valid
    import copy as _copy
    from tola.assembly.assembly import Assembly as _Assembly
    from tola.assembly.indexed_assembly import IndexedAssembly as _IA
    from tola.assembly.gap import Gap as _Gap
    from tola.assembly.fragment import Fragment as _Fragment
    for _ in range(120 * n):
        a = T.rand_assembly(rng, "agp")
        seen = set()
        for s_ in a["scaffolds"]:
            while s_["name"] in seen:
                s_["name"] += "_"
            seen.add(s_["name"])
        if not a["scaffolds"]:
            continue
        scs = [conv.to_real_scaffold(s_) for s_ in a["scaffolds"]]
        asm = _Assembly("x", scaffolds=scs)
        hist = []
        try:
            for step in range(rng.randint(1, 4)):
                op = rng.choice(["format", "index", "append", "append-gap", "add-row", "pop", "trim-last", "length"])
                tgt = rng.choice(scs)
                hist.append(op)
                if op == "format":
                    format_agp(asm, _io.StringIO())
                elif op == "index":
                    _IA.new_from_assembly(asm)
                elif op == "length":
                    _ = tgt.length, tgt.fragments_length
                elif op in ("append", "append-gap"):
                    other = conv.to_real_scaffold(rng.choice(a["scaffolds"]))
                    tgt.append_scaffold(other, _Gap(rng.choice([1, 200]), "scaffold") if op == "append-gap" else None)
                elif op == "add-row":
                    tgt.add_row(_Fragment("ctgNEW", 1, rng.randint(1, 50), 1))
                elif op == "pop" and len(tgt.rows) > 1:
                    tgt.rows.pop()
                elif op == "trim-last" and tgt.rows and isinstance(tgt.rows[-1], _Fragment) and tgt.rows[-1].length > 1:
                    f_ = tgt.rows[-1]
                    tgt.rows[-1] = _Fragment(f_.name, f_.start, f_.end - 1, f_.strand, f_.tags)
            buf = _io.StringIO(); format_agp(asm, buf); got = buf.getvalue()
            snap = {"header": [], "scaffolds": [{"name": s_.name, "rows": [conv.strip_oids(conv.from_real_row(r)) for r in s_.rows]} for s_ in scs]}
            want = T.real_format(snap, "agp")
        except Exception as e:
            ctx.out.case("object-history", {"asm": a, "history": hist}, ("history", "err"))
            continue
        inp = {"asm": a, "history": hist, "rows_at_the_end": snap, "source": "object-history"}
        ctx.out.case("object-history", inp, ("history", tuple(hist)))
        if "ok" in want and got != want["ok"]:
            ctx.out.oracle_fail("object-history", inp, "AGP written for a scaffold that was written/indexed before and then changed differs from the AGP of a fresh scaffold with the same rows",
                                detail={"got": got[:400], "want": want["ok"][:400]})
            continue
        names = [s_["name"] for s_ in snap["scaffolds"]]
        errs = T.validate_agp_text(got, lengths(snap["scaffolds"]) if len(set(names)) == len(names) else None) if all(R.flen(r) >= 1 for s_ in snap["scaffolds"] for r in s_["rows"] if r["t"] == "G") else []
        if errs:
            ctx.out.oracle_fail("object-history", inp, "AGP of a changed scaffold is not coordinate-valid: " + errs[0])
    # FASTA files as they occur in the wild: sequence lines with trailing blanks / tabs, a header ending in LF over CRLF sequence
    # lines, lower case, IUPAC codes.  Whatever the indexer makes of such a file, the AGP written beside a FASTA output must be valid and
    # its object ends must equal the lengths of the records written with it (pretext-to-asm, FASTA in, FASTA out, every record painted whole).
    from click.testing import CliRunner as _CR
    from tola.assembly.scripts.pretext_to_asm import cli as _p2a
    import logging as _logging
    with F.Scratch() as sc:
        for i in range(25 * n):
            nrec = rng.randint(1, 3)
            w = rng.choice([7, 20, 40, 60])
            pad = rng.choice([b" ", b"\t", b"  ", b""])
            le = rng.choice([b"\n", b"\r\n"])
            data = bytearray(); lens = {}
            for k in range(nrec):
                L = rng.randint(w + 1, 5 * w)
                seq = bytes(rng.choice(b"ACGTACGTacgtNRY") for _ in range(L))
                name = f"ctg{k+1}"
                data += b">" + name.encode() + (b" some description" if rng.random() < 0.3 else b"") + rng.choice([b"\n", le])
                for j in range(0, L, w):
                    data += seq[j:j + w] + pad + le
                lens[name] = L
            d = sc.path / f"dirty{i}"; d.mkdir()
            (d / "in.fa").write_bytes(bytes(data))
            lines = ["##agp-version\t<NA>", "# HiC MAP RESOLUTION: 1 bp/texel"]
            inp = {"fasta": bytes(data).decode("latin-1"), "source": "dirty-fasta-cli", "line_padding": pad.decode()}
            ctx.out.case("dirty-fasta-cli", inp, ("dirty", nrec, w, len(pad), len(le)))
            # first run: learn the record lengths the indexer assigns (trailing blanks count as residues for the unchanged code)
            try:
                from tola.fasta.index import FastaIndex as _FI
                fi = _FI(d / "in.fa"); fi.auto_load()
                rl = {k_: v.length for k_, v in fi.index.items()}
                fi.fasta_fileandle.close()
            except Exception as e:
                ctx.out.oracle_fail("dirty-fasta-cli", inp, f"indexing raised {conv.errkind(e)}")
                continue
            for k, (name, L) in enumerate(rl.items()):
                lines.append("\t".join([f"Scaffold_{k+1}", "1", str(L), "1", "W", name, "1", str(L), "+", "Painted"]))
            (d / "ptx.agp").write_text("\n".join(lines) + "\n")
            _logging.disable(_logging.CRITICAL)
            res = _CR().invoke(_p2a, ["-a", str(d / "in.fa"), "-p", str(d / "ptx.agp"), "-o", str(d / "out.fa"), "--no-write-log"])
            for h in list(_logging.getLogger().handlers):
                try:
                    h.close()
                except Exception:
                    pass
                _logging.getLogger().removeHandler(h)
            if res.exit_code != 0:
                ctx.out.oracle_fail("dirty-fasta-cli", inp, f"pretext-to-asm failed on a FASTA with padded lines (exit {res.exit_code}: {res.exception!r})")
                continue
            for fa_out in d.glob("out.*.fa"):
                agp = fa_out.with_suffix(".agp")
                recl, cur = {}, None
                bad_line = False
                for l in fa_out.read_bytes().split(b"\n"):
                    if l.startswith(b">"):
                        cur = l[1:].decode(); recl[cur] = 0
                    elif cur is not None:
                        recl[cur] += len(l)
                        if len(l) > 60:
                            bad_line = True
                errs = T.validate_agp_text(agp.read_text(), recl) if agp.exists() else ["no AGP written beside the FASTA"]
                if bad_line:
                    errs.append("a FASTA output line is longer than 60")
                if errs:
                    ctx.out.oracle_fail("dirty-fasta-cli", inp, f"{fa_out.name} / {agp.name}: " + errs[0])
                    break
    # asm-format CLI
    from click.testing import CliRunner
    from tola.assembly.scripts.asm_format import cli
    for a in asms[: 25 * n]:
        t = T.real_format(a, "agp")
        if "err" in t:
            continue
        r = CliRunner().invoke(cli, ["-i", "AGP", "-f", "AGP"], input=t["ok"])
        ctx.out.case("cli-asm-format", {"agp": t["ok"]}, ("cli", r.exit_code))
        errs = T.validate_agp_text(r.output) if r.exit_code == 0 else [f"exit {r.exit_code}"]
        if errs:
            ctx.out.oracle_fail("cli-asm-format", {"agp": t["ok"]}, "asm-format wrote an invalid AGP: " + errs[0])


def search(ctx, broken):
    new = [f for f in ctx.out.oracle_failures if not f.get("finding")]
    if new:
        return min(new, key=lambda f: len(str(f["input"])))
    n0 = len(ctx.out.oracle_failures)
    saved, ctx.driver = ctx.driver, None
    try:
        check_asms(ctx, "search-format", [T.rand_assembly(ctx.rng, "agp") for _ in range(4000)], "format_agp")
    finally:
        ctx.driver = saved
    new = [f for f in ctx.out.oracle_failures[n0:] if not f.get("finding")]
    return min(new, key=lambda f: len(str(f["input"]))) if new else None


def replay(ctx, payload):
    inp = payload["input"]
    ctx.out.oracle_failures.clear()
    if "asm" in inp:
        check_asms(ctx, "replay", [inp["asm"]], inp.get("source", "format_agp"))
    return {"fails": bool(ctx.out.oracle_failures or ctx.out.disagreements), "oracle": ctx.out.oracle_failures}

LEVEL_NOTE = LEVEL_NOTE + ' NEW: `asm_format_writes_valid_agp`, `asm_format_files_write_valid_agp` (Properties/C06Cli.lean) over the CLI model; `GapsStrict` is the one hypothesis (parse_agp accepts zero/negative gaps)'
