"""C14 — reversal and reverse-complement are involutions that commute with output."""
import conv
import fasta_lib as F

EXTRA_ANCHORS = ['assembly/scripts/pretext_to_asm.py']      # files outside the property's anchors whose change escalates the quick budget (T3)
LEVEL = "proof"
RULE = ("complement table exhaustively over all 256 byte values (model table regenerated from the source vs bytes.translate vs an independent IUPAC statement); "
        "random byte strings; random scaffolds (strands +,-,?; gaps; tags) reversed once and twice; streaming a reversed scaffold vs revcomp of streaming the "
        "original over random FASTA files and buffer sizes. Non-trivial = distinct (#rows, strand set, buffer class).")
TRUSTED = ["correspondence harness props/C14.py: Scaffold.reverse / reverse_complement / streaming vs the Lean model", "the 256-entry table is regenerated from simple.py on every run (T1)"]
ASSUMPTIONS = ["the streaming law is asserted for rows with known strand (+/-); unknown-strand rows are a recorded finding"]
EXPLANATION = "involution theorems in Lean (table by decide over 256 values of the regenerated table); tie by exhaustive table comparison + random scaffolds/streams."


def reverse_oracle(sc, rev):
    errs = []
    if len(rev["rows"]) != len(sc["rows"]):
        return ["row count changed"]
    for a, b in zip(reversed(sc["rows"]), rev["rows"]):
        if a["t"] != b["t"]:
            errs.append("row kinds not in inverted order"); break
        if a["t"] == "G":
            if (a["len"], a["type"]) != (b["len"], b["type"]):
                errs.append("gap changed"); break
        else:
            if (a["name"], a["start"], a["end"], a["tags"]) != (b["name"], b["start"], b["end"], b["tags"]) or b["strand"] != -a["strand"]:
                errs.append("fragment interval/tags not preserved or strand not negated"); break
    return errs


def run(ctx):
    from tola.fasta.simple import reverse_complement, IUPAC_COMPLEMENT
    out, rng = ctx.out, ctx.rng
    # table, exhaustive
    allb = bytes(range(256))
    m = ctx.driver.batch([{"id": 0, "kind": "revcomp", "bytes": list(allb)}])[0] if ctx.driver else None
    real_table = list(allb.translate(IUPAC_COMPLEMENT))
    if m is not None:
        out.compare("table-256", {"bytes": "0..255"}, {"table": real_table, "rc": list(reverse_complement(allb))}, {"table": m["table"], "rc": m["rc"]}, ("table",))
    for b in range(256):
        out.case("table-256", {"byte": b}, ("byte", b), sample=(b in (65, 110)))
        if real_table[real_table[b]] != b:
            out.oracle_fail("table-256", {"byte": b}, "complement is not an involution on this byte")
        if real_table[b] != F.spec_revcomp(bytes([b]))[0]:
            out.oracle_fail("table-256", {"byte": b}, "complement differs from the case-preserving IUPAC table")
    out.exhaustive = True
    n = 12 if ctx.thorough else 1
    strs = [bytes(rng.randrange(256) for _ in range(rng.randint(0, 60))) for _ in range(300 * n)] + [F.rand_residues(rng, rng.randint(0, 80)) for _ in range(300 * n)]
    # long inputs (beyond any block / buffer size an implementation might use): involution + spec, real code only
    for ln in [65536, 65537, 262144, 262145, 300001, 2**20 + 3][: (6 if ctx.thorough else 4)]:
        blk = F.rand_residues(rng, 997)
        big = (blk * (ln // len(blk) + 1))[:ln]
        rc = reverse_complement(big)
        inp = {"length": ln, "block": blk.decode("latin-1")[:60]}
        out.case("revcomp-long", inp, ("long", ln))
        if len(rc) != ln or reverse_complement(rc) != big or rc != F.spec_revcomp(big):
            out.oracle_fail("revcomp-long", inp, f"reverse complement of a {ln}-byte string is wrong / not an involution")
    ms = ctx.driver.batch([{"id": i, "kind": "revcomp", "bytes": list(s)} for i, s in enumerate(strs)]) if ctx.driver else [None] * len(strs)
    for s, mm in zip(strs, ms):
        rc = reverse_complement(s)
        inp = {"bytes": s.decode("latin-1")}
        if mm is not None:
            out.compare("revcomp-random", inp, list(rc), mm["rc"], ("rc", min(len(s), 10)))
        else:
            out.case("revcomp-random", inp, ("rc", min(len(s), 10)))
        if reverse_complement(rc) != s:
            out.oracle_fail("revcomp-random", inp, "reverse-complementing twice does not return the input")
        if rc != F.spec_revcomp(s):
            out.oracle_fail("revcomp-random", inp, "not the case-preserving IUPAC reverse complement")
    # scaffolds
    with F.Scratch() as scr:
        for _ in range(250 * n):
            recs = F.rand_records(rng)
            wi = rng.choice([3, 7, 60, rng.randint(1, 70)])
            data = F.render(recs, wi)
            idx, _ = F.expected_index(recs, wi)
            scs = F.rand_scaffolds_over(rng, recs, zero_strand=0.15)
            for s in scs:
                for r in s["rows"]:
                    if r["t"] == "F":
                        r["tags"] = rng.choice([[], ["Painted"], ["Cut", "Hap1"]])
            bs = rng.choice([1, 2, 5, 7, 61, 10**6])
            for s in scs:
                rs = conv.to_real_scaffold(s)
                r1 = rs.reverse(); r2 = r1.reverse()
                j1 = conv.canon_scaffold(conv.from_real_scaffold(r1)); j2 = conv.canon_scaffold(conv.from_real_scaffold(r2))
                inp = {"scaffold": s, "fasta": data.decode("latin-1"), "bs": bs}
                strands = tuple(sorted({r["strand"] for r in s["rows"] if r["t"] == "F"}))
                out.case("scaffold-reverse", inp, (len(s["rows"]), strands, min(bs, 8)))
                e = reverse_oracle(s, j1)
                if e:
                    out.oracle_fail("scaffold-reverse", inp, "; ".join(e))
                if j2["rows"] != [conv.strip_oids(r) for r in s["rows"]]:
                    out.oracle_fail("scaffold-reverse", inp, "reversing twice does not give back the original rows")
                if sum((r["len"] if r["t"] == "G" else r["end"] - r["start"] + 1) for r in j1["rows"]) != rs.length:
                    out.oracle_fail("scaffold-reverse", inp, "length not preserved")
                a = F.real_stream(data, idx, [s], bs, 60, scr)
                b = F.real_stream(data, idx, [dict(j1, name=s["name"])], bs, 60, scr)
                if "err" in a or "err" in b:
                    out.oracle_fail("scaffold-reverse", inp, "streaming failed")
                    continue
                body = lambda o: b"".join(bytes(o).split(b"\n")[1:])
                if body(b["ok"]["out"]) != F.spec_revcomp(body(a["ok"]["out"])):
                    fid = "F9-unknown-strand-streams-forward" if 0 in strands else None
                    out.oracle_fail("scaffold-reverse", inp, "streaming the reversed scaffold is not the reverse complement of streaming the original", finding=fid)


    object_histories(ctx, 150 * n)


def object_histories(ctx, count):
    """the same Scaffold OBJECT reversed, edited the way the builder edits scaffolds (add_row, append_scaffold, direct row
    replacement, pop), and reversed again: every reversal must be the reversal of the rows as they are NOW"""
    from tola.assembly.scaffold import Scaffold
    from tola.assembly.fragment import Fragment
    from tola.assembly.gap import Gap
    out, rng = ctx.out, ctx.rng

    def rand_row(i):
        if rng.random() < 0.3:
            return Gap(rng.choice([1, 10, 200]), "scaffold")
        st = rng.randint(1, 50)
        return Fragment(f"c{i}", st, st + rng.randint(0, 40), rng.choice([1, -1]), rng.choice([(), ("Painted",)]))

    for _ in range(count):
        sc = Scaffold("h", [rand_row(i) for i in range(rng.randint(1, 5))])
        script, k = [], 10
        objs = [sc]
        for step in range(rng.randint(2, 7)):
            target = rng.choice(objs)
            op = rng.choice(["reverse", "reverse", "add_row", "append", "setrow", "pop"])
            script.append(op)
            if op == "reverse":
                r = target.reverse()
                want = [conv.strip_oids(conv.from_real_row(x)) for x in target.rows]
                got = conv.canon_scaffold(conv.from_real_scaffold(r))
                e = reverse_oracle({"rows": want}, got)
                inp = {"script": list(script), "rows_now": want}
                out.case("object-histories", inp, ("hist", tuple(script)))
                if e:
                    out.oracle_fail("object-histories", inp, "reversal of an edited scaffold is not the reversal of its current rows: " + e[0])
                    break
                back = conv.canon_scaffold(conv.from_real_scaffold(r.reverse()))
                if back["rows"] != want:
                    out.oracle_fail("object-histories", inp, "reversing twice does not give back the current rows")
                    break
                if len(objs) < 3:
                    objs.append(r)
            elif op == "add_row":
                k += 1; target.add_row(rand_row(k))
            elif op == "append":
                k += 1; target.append_scaffold(Scaffold("o", [rand_row(k)]), rng.choice([None, Gap(200, "scaffold")]))
            elif op == "setrow" and target.rows:
                k += 1; target.rows[rng.randrange(len(target.rows))] = rand_row(k)
            elif op == "pop" and len(target.rows) > 1:
                target.rows.pop(rng.choice([0, -1]))


def search(ctx, broken):
    new = [f for f in ctx.out.oracle_failures if not f.get("finding")]
    return min(new, key=lambda f: len(str(f["input"]))) if new else None


def replay(ctx, payload):
    return {"fails": True, "note": "re-run: reverse the stored scaffold and stream both over the stored FASTA", "input": payload.get("input")}
