"""C09 — tags route sequence to the documented destination assembly."""
import remap_lib as R

LEVEL = "proof"
RULE = ('PretextView-model scripts decorated with consistent tagging: Haplotig/Contaminant/FalseDuplicate on single pieces (first or later) of painted or unpainted scaffolds, Unloc, name tags, Target mode on/off, one or two haplotypes x input assemblies x texel sizes. Non-trivial = distinct (kind, #pieces, tag kinds present, #assemblies | error).')
TRUSTED = ['correspondence harness props/C09.py + remap_lib.py: real BuildAssembly pipeline vs Lean `remap` on the projection `proj_routing`', 'modelled not verified: Python dict/set/sort semantics as in Model/Py.lean; object identity by object ids; PretextView edit-script model (spec side)']
ASSUMPTIONS = ['consistent tagging as generated (one special tag per piece, name tags agree within a scaffold, one haplotype tag per scaffold)']
EXPLANATION = 'routing theorems over label_scaffold / fuse / split in the model; tie by correspondence on (assembly key, curated, fragment) triples; oracle = expected key per piece core.'
PROJ = R.proj_routing


def oracle(c, real):
    if "err" in real:
        return []
    return R.oracle_routing(c["input"], c["ptx"], real, c["bpt"])

KW = {}
def CLASSIFY(c, real, msg):
    """F10: an input scaffold name of the shape <x>_<y>_<n> creates haplotype <x> although no tag declares it"""
    import re
    m = re.search(r"written to assembly '([^']+)'.*expected None", msg)
    if m:
        hap = m.group(1)
        declared = {t.lower() for ps in c["ptx"] for f in ps["rows"] if f["t"] == "F" for t in f["tags"]}
        if hap.lower() not in declared and any(R.hap_like(s["name"]) and s["name"].lower().startswith(hap.lower() + "_") for s in c["input"]):
            return "F10-haplotype-invented-from-name"
    return None


def streams(ctx):
    n = 16 if ctx.thorough else 1
    return [("tagged", "tagged", 600 * n), ("tagged-2hap", "tagged2", 300 * n), ("hap-named-input", "hapnames", 150 * n), ("hap-tags-other-case", "hapmix", 250 * n), ("target-mode-pieces-removed", "targetdrop", 200 * n), ("untagged", "script", 150 * n)]


def gen(ctx, kind):
    return R.make_case(ctx.rng, kind, **KW.get(kind, {}))


def classify(c, real, msg):
    return CLASSIFY(c, real, msg) if CLASSIFY else None


def run(ctx):
    for stream, kind, n in streams(ctx):
        cases = [gen(ctx, kind) for _ in range(n)]
        R.run_cases(ctx, stream, cases, PROJ, oracle, classify)
    # the CLI end to end (info yaml, file names, csv files) on a sample of the same generators
    cli_cases = [gen(ctx, kind) for stream, kind, n in streams(ctx) for _ in range(max(8, n // 25))]
    # … and Primary-mode maps (one haplotype tagged Primary, the other merged into all_haplotigs) with Contaminant / FalseDuplicate / Haplotig pieces:
    # the only place where the FILE an assembly is written to is decided by more than its key (wave 12, C09j)
    cli_cases += [R.make_case(ctx.rng, ctx.rng.choice(["primarymode", "primarynames"])) for _ in range(60 if ctx.thorough else 14)]
    R.run_cli_cases(ctx, "cli-end-to-end", cli_cases, classify, only=["output file", "does not contain exactly", "unexpected assembly files"], names_model=True)
    # history: the same maps remapped AFTER other maps of the same input on ONE IndexedAssembly object (in-process state must not matter)
    hk = ['tagged', 'tagged2']
    R.run_history_cases(ctx, "object-history", [R.make_case(ctx.rng, ctx.rng.choice(hk)) for _ in range(240 if ctx.thorough else 40)], PROJ, oracle, (classify if "classify" in globals() else None))


def search(ctx, broken):
    n0 = len(ctx.out.oracle_failures)
    saved, ctx.driver = ctx.driver, None
    try:
        for stream, kind, n in streams(ctx):
            R.run_cases(ctx, "search-" + stream, [gen(ctx, kind) for _ in range(2500)], PROJ, oracle, classify)
            if [f for f in ctx.out.oracle_failures[n0:] if not f.get("finding")]:
                break
    finally:
        ctx.driver = saved
    new = [f for f in ctx.out.oracle_failures[n0:] if not f.get("finding")]
    return min(new, key=lambda f: len(str(f["input"]))) if new else None


def shrink(ctx, failure):
    fid = failure.get("finding")
    def still(inp):
        real = R.real_remap(inp["input"], inp["ptx"], inp["bpt"])
        msgs = oracle(inp, real)
        return bool(msgs) and (classify(inp, real, msgs[0]) == fid)
    return R.shrink_case(ctx, failure, still)


def replay(ctx, payload):
    inp = payload["input"]
    real = R.real_remap(inp["input"], inp["ptx"], inp["bpt"])
    msgs = oracle(inp, real)
    return {"fails": bool(msgs), "oracle": msgs, "real": real}

LEVEL_NOTE = "; ".join(TRUSTED) + '. NEW: the geometry half end to end (Properties/C09Route.lean): `store_tag_stable`, `piece_tag` (which Pretext piece created which result; tag by FalseDuplicate > Haplotig > Contaminant-or-Target-mode), `remap_routes_store` (every result and every left-over lies in the unique assembly keyed tag-else-haplotype, and every output fragment comes from one), `tagged_piece_never_curated` (under the decidable `NoTagWordHaplotype`, the F16 side condition), `target_mode_leftovers`, `haplotype_leftovers_*` (F10 stated as it is)'
