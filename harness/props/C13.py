"""C13 — streaming is buffer-size independent and memory-bounded."""
import io, tracemalloc
import conv
import fasta_lib as F

EXTRA_ANCHORS = ['assembly/scripts/pretext_to_asm.py']      # files outside the property's anchors whose change escalates the quick budget (T3)
LEVEL = "proof"
LEVEL_TEXT = ("Lean theorems bound what the MODEL holds (chunk sizes, read sizes, indexer buffer occupancy) and give buffer independence of results; the tie compares "
              "the real code's read(n)/chunk/buffer observations with the model's on every case; CPython's real allocations are measured with tracemalloc "
              "(partial by nature: interpreter memory is runtime behaviour no model exhibits).")
RULE = ("FASTA files x assemblies over them, each run under several buffer sizes {1,2,3,5,7,w-1,w+1,len-1,len+1,10^6}: results must be byte-identical; every "
        "chunk / file read <= buffer size; indexer buffer <= buffer size + one line (observed on the real code by wrapping BytesIO, the file handle and the chunk "
        "iterators, compared with the model's sequence); tracemalloc peak on sequences/fragments/gaps hundreds of buffers long. Non-trivial = distinct "
        "(buffer class, #rows, width class).")
TRUSTED = ["correspondence harness props/C13.py: read sizes, chunk sizes, buffer occupancy of the real code vs the Lean model", "tracemalloc peak measurement (runtime, not modelled)"]
ASSUMPTIONS = ["buffer size >= 1"]
EXPLANATION = LEVEL_TEXT


def gen(rng):
    recs = F.rand_records(rng, maxlen=400)
    wi = rng.choice([1, 3, 7, 60, 61, rng.randint(1, 70)])
    le = rng.choice([b"\n", b"\r\n"])
    data = F.render(recs, wi, le, True)
    n = max(len(r["seq"]) for r in recs)
    sizes = sorted({1, 2, rng.choice([3, 5, 7]), max(1, wi - 1), wi + 1, max(1, n - 1), n + 1, 10**6})
    scs = F.rand_scaffolds_over(rng, recs, big_gaps=[0, 1, 7, 60, 200])
    return {"recs": recs, "data": data, "width": wi, "le": le, "sizes": sizes, "scaffolds": scs}


def check(ctx, stream, cases):
    out = ctx.out
    reqs, meta = [], []
    for ci, c in enumerate(cases):
        for bs in c["sizes"]:
            reqs.append({"id": len(reqs), "kind": "index_fasta", "file": list(c["data"]), "bs": bs})
            meta.append((ci, bs, "index"))
    model = ctx.driver.batch(reqs) if ctx.driver else [None] * len(reqs)
    mi = 0
    sreqs, smeta = [], []
    with F.Scratch() as sc:
        for ci, c in enumerate(cases):
            maxline = max(len(l) for l in c["data"].split(b"\n")) + 1
            base = None
            inp0 = {"fasta": c["data"].decode("latin-1"), "scaffolds": c["scaffolds"], "sizes": c["sizes"]}
            for bs in c["sizes"]:
                m = model[mi]; mi += 1
                real, _ = F.real_index(c["data"], bs, sc)
                inp = dict(inp0, bs=bs)
                if m is not None:
                    mm = m if "err" in m else {"ok": {"index": m["ok"]["index"], "scaffolds": [{"name": s["name"], "rows": [conv.strip_oids(r) for r in s["rows"]]} for s in m["ok"]["scaffolds"]], "max_buffered": m["ok"]["max_buffered"]}}
                    out.compare(stream + ":index", inp, real, mm, ("index", min(bs, 8), len(c["recs"])))
                else:
                    out.case(stream + ":index", inp, ("index", min(bs, 8)))
                if "err" in real:
                    out.oracle_fail(stream, inp, f"indexing failed with {real['err']}")
                    continue
                core = (real["ok"]["index"], real["ok"]["scaffolds"])
                if base is None:
                    base = core
                elif core != base:
                    out.oracle_fail(stream, inp, "index / derived assembly depends on the buffer size")
                if real["ok"]["max_buffered"] > bs + maxline:
                    out.oracle_fail(stream, inp, f"indexer buffered {real['ok']['max_buffered']} bytes > buffer size {bs} + one line ({maxline})")
            if base is None:
                continue
            sbase = None
            for bs in c["sizes"]:
                st = F.real_stream(c["data"], base[0], c["scaffolds"], bs, 60, sc)
                inp = dict(inp0, bs=bs)
                sreqs.append({"id": len(sreqs), "kind": "stream", "file": list(c["data"]), "index": base[0], "scaffolds": c["scaffolds"], "bs": bs, "w": 60})
                smeta.append((inp, st, bs))
                if "err" in st:
                    out.oracle_fail(stream, inp, f"streaming failed with {st['err']}")
                    continue
                if sbase is None:
                    sbase = st["ok"]["out"]
                elif st["ok"]["out"] != sbase:
                    out.oracle_fail(stream, inp, "streamed FASTA depends on the buffer size")
                if any(x > bs for x in st["ok"]["chunks"]):
                    out.oracle_fail(stream, inp, f"a chunk of {max(st['ok']['chunks'])} residues exceeds the buffer size {bs}")
                if any(x > bs for x in st["ok"]["reads"]):
                    out.oracle_fail(stream, inp, f"a file read of {max(st['ok']['reads'])} bytes exceeds the buffer size {bs}")
        if ctx.driver and sreqs:
            ms = ctx.driver.batch(sreqs)
            for (inp, st, bs), m in zip(smeta, ms):
                out.compare(stream + ":stream", inp, st, m, ("stream", min(bs, 8)))


def memory_probe(ctx, nbuf):
    """tracemalloc peak while indexing + streaming a sequence, a fragment and a gap `nbuf` buffers long"""
    from tola.fasta.stream import FastaStream
    from tola.assembly.assembly import Assembly
    import tola.fasta.index as ix
    out = ctx.out
    bs = 4096
    n = bs * nbuf
    rng = ctx.rng
    seq = (b"ACGT" * 64 + b"NN" * 8) * (n // 272 + 1)
    seq = seq[:n]
    with F.Scratch() as sc:
        p = sc.path / "big.fa"
        with p.open("wb") as fh:
            fh.write(b">big\n")
            for i in range(0, n, 60):
                fh.write(seq[i:i + 60] + b"\n")
        limit = 8 * bs + 65536

        class Sink(io.RawIOBase):
            def __init__(self): self.n = 0
            def write(self, b): self.n += len(b); return len(b)
        tracemalloc.start()
        try:
            idx, asm = ix.index_fasta_file(p, bs)
            _, peak_idx = tracemalloc.get_traced_memory()
        finally:
            tracemalloc.stop()
        # the run list of the assembly itself is O(#runs); measure it separately and subtract: build it again without tracing
        nrows = sum(len(s.rows) for s in asm.scaffolds)
        fai = ix.FastaIndex(p, bs)
        fai.index = idx
        from tola.assembly.scaffold import Scaffold
        from tola.assembly.fragment import Fragment
        from tola.assembly.gap import Gap
        big = Scaffold("big_out", [Fragment("big", 1, n, 1), Gap(n, "scaffold"), Fragment("big", 1, n, -1)])
        sink = Sink()
        tracemalloc.start()
        try:
            FastaStream(sink, fai).write_scaffold(big)
            _, peak_st = tracemalloc.get_traced_memory()
        finally:
            tracemalloc.stop()
        fai.fasta_fileandle.close()
        inp = {"buffer_size": bs, "buffers": nbuf, "rows_in_index_assembly": nrows}
        out.case("memory-probe", inp, ("mem", nbuf))
        out.notes.append(f"tracemalloc peaks: indexing {peak_idx} B (assembly rows: {nrows}), streaming {peak_st} B, limit {limit} B for buffer {bs}")
        # indexing necessarily keeps the run list (O(#runs) small objects): allow 400 B per row on top of the buffer bound
        if peak_idx > limit + 400 * nrows:
            out.oracle_fail("memory-probe", inp, f"indexing peak {peak_idx} B exceeds {limit} + 400 B/row for a sequence {nbuf} buffers long")
        if peak_st > limit:
            out.oracle_fail("memory-probe", inp, f"streaming peak {peak_st} B exceeds {limit} B for fragment/gap {nbuf} buffers long")


def long_line_probe(ctx):
    """output line length far above the buffer size: no single write to the output handle and no allocation may exceed the
    buffer size (the consumer must not collect a line before writing it); bytes must still equal the reference"""
    import io
    from tola.fasta.stream import FastaStream
    from tola.assembly.scaffold import Scaffold
    from tola.assembly.fragment import Fragment
    from tola.assembly.gap import Gap
    import tola.fasta.index as ix
    out = ctx.out
    bs, n = 1000, 400_000
    seq = (b"ACGTTGCA" * 125) * (n // 1000)
    with F.Scratch() as sc:
        p = sc.path / "long.fa"
        with p.open("wb") as fh:
            fh.write(b">big\n")
            for i in range(0, n, 60):
                fh.write(seq[i:i + 60] + b"\n")
        idx, _ = ix.index_fasta_file(p, bs)
        for w in (10**9, 70, 59):
            fai = ix.FastaIndex(p, bs); fai.index = idx

            class Sink(io.RawIOBase):
                def __init__(self): self.n = 0; self.maxw = 0
                def write(self, b): self.n += len(b); self.maxw = max(self.maxw, len(b)); return len(b)
            sink = Sink()
            big = Scaffold("o", [Fragment("big", 1, n, 1), Gap(50_000, "scaffold"), Fragment("big", 1, n, -1)])
            tracemalloc.start()
            try:
                FastaStream(sink, fai, line_length=w).write_scaffold(big)
                _, peak = tracemalloc.get_traced_memory()
            finally:
                tracemalloc.stop()
            fai.fasta_fileandle.close()
            inp = {"buffer_size": bs, "line_length": w, "residues": 2 * n + 50_000}
            out.case("long-line-probe", inp, ("longline", w))
            body = 2 * n + 50_000
            expect = 3 + body + ((body + w - 1) // w)
            if sink.n != expect:
                out.oracle_fail("long-line-probe", inp, f"{sink.n} bytes written, expected {expect}")
            if sink.maxw > bs + 1:
                out.oracle_fail("long-line-probe", inp, f"a single write of {sink.maxw} bytes exceeds the buffer size {bs}: the writer accumulated output")
            if peak > 8 * bs + 65536:
                out.oracle_fail("long-line-probe", inp, f"streaming peak {peak} B with buffer {bs} and line length {w}")


def gap_character_stream(ctx, count, reassign=False):
    """one FastaIndex object streamed several times with DIFFERENT gap characters (FastaStream's `gap_character`), gaps of 0..3 buffer
    lengths, every buffer size: each output must be the spec with the character asked for — whatever was streamed before.
    `reassign`: the public attribute `buffer_size` of that one object is ALSO set to another value between the passes (stream
    `buffer-size-reassigned`): the bytes must not depend on the sizes used before."""
    stream = "buffer-size-reassigned" if reassign else "gap-characters"
    import io
    from tola.fasta.index import FastaIndex, FastaInfo
    from tola.fasta.stream import FastaStream
    from tola.assembly.assembly import Assembly
    rng = ctx.rng
    with F.Scratch() as sc:
        for i in range(count):
            recs = F.rand_records(rng, nrec=2, maxlen=120)
            data = F.render(recs, 60)
            idx, _ = F.expected_index(recs, 60)
            bs = rng.choice([1, 2, 3, 5, 7, 16])
            scs = F.rand_scaffolds_over(rng, recs, zero_strand=0.0, big_gaps=[1, bs, bs + 1, 2 * bs, 3 * bs, 3 * bs + 2])
            p = sc.path / f"g{i}.fa"; p.write_bytes(data)
            fai = FastaIndex(p, bs)
            fai.index = {r[0]: FastaInfo(r[1], r[2], r[3], r[4]) for r in idx}
            chars = [rng.choice([b"N", b"n", b"X", b"-"]) for _ in range(rng.randint(2, 3))]
            if reassign:
                chars = [chars[0]] * rng.randint(2, 4) if rng.random() < 0.7 else chars
            sizes = [bs] + [rng.choice([1, 2, 3, 5, 7, 16, 2 * bs, max(1, bs // 2), 1000]) if reassign else bs for _ in chars[1:]]
            seqs = {r["name"]: r["seq"] for r in recs}
            asm = Assembly("x", scaffolds=[conv.to_real_scaffold(s_) for s_ in scs])
            inp = {"fasta": data.decode("latin-1"), "scaffolds": scs, "bs": bs, "gap_characters_in_order": [c.decode() for c in chars],
                   "buffer_sizes_in_order": sizes}
            ctx.out.case(stream, inp, ("gapchar", bs, len(chars), tuple(sizes) if reassign else ()))
            try:
                for ch, bs_k in zip(chars, sizes):
                    fai.buffer_size = bs_k
                    buf = io.BytesIO()
                    FastaStream(buf, fai, gap_character=ch).write_assembly(asm)
                    exp = bytearray()
                    for s_ in scs:
                        body = bytearray()
                        for r in s_["rows"]:
                            if r["t"] == "G":
                                body += ch * r["len"]
                            else:
                                piece = seqs[r["name"]][r["start"] - 1:r["end"]]
                                body += F.spec_revcomp(piece) if r["strand"] == -1 else piece
                        exp += b">" + s_["name"].encode() + b"\n"
                        for k in range(0, len(body), 60):
                            exp += body[k:k + 60] + b"\n"
                    if buf.getvalue() != bytes(exp):
                        ctx.out.oracle_fail(stream, inp, f"stream with gap character {ch!r} (buffer sizes in order {sizes}, now {bs_k}) differs from the spec: the bytes depend on what was streamed before / on the buffer size")
                        break
            except Exception as e:
                ctx.out.oracle_fail(stream, inp, f"streaming raised {conv.errkind(e)}")
            finally:
                try:
                    fai.fasta_fileandle.close()
                except Exception:
                    pass


def run(ctx):
    gap_character_stream(ctx, 400 if ctx.thorough else 60)
    gap_character_stream(ctx, 400 if ctx.thorough else 60, reassign=True)
    long_line_probe(ctx)
    n = 12 if ctx.thorough else 1
    check(ctx, "buffers", [gen(ctx.rng) for _ in range(120 * n)])
    memory_probe(ctx, 300 if ctx.thorough else 120)


def search(ctx, broken):
    n0 = len(ctx.out.oracle_failures)
    saved, ctx.driver = ctx.driver, None
    try:
        check(ctx, "search-buffers", [gen(ctx.rng) for _ in range(600)])
        memory_probe(ctx, 300)
    finally:
        ctx.driver = saved
    new = [f for f in ctx.out.oracle_failures[n0:] if not f.get("finding")]
    return min(new, key=lambda f: len(str(f["input"]))) if new else None


def replay(ctx, payload):
    return {"fails": True, "note": "re-run: index and stream the stored FASTA/scaffolds with the stored buffer size", "input": payload.get("input")}


LEVEL_NOTE = "; ".join(TRUSTED) + '. NEW (T1b): the chunk arithmetic of fwd_chunks / rev_chunks / get_gap_iter is translated from the current source and the tiling / bound theorems are restated on the translation (Properties/C13Source.lean)'
