"""C16 — --no-clobber never alters an existing file."""
import itertools, os, sys
from pathlib import Path
import conv
import common
import remap_lib as R
import fasta_lib as F

LEVEL = "proof"
LEVEL_TEXT = ("Lean theorems over the output-opening model (every pre-existing path unchanged; exit status and first colliding path; clobber rewrites everything), with the two open-mode "
              "expressions and the list of all open() calls regenerated from the script's source; tie: the real CLI is run for subsets of pre-existing outputs, its opens are "
              "observed with an audit hook, and exit status / final directory are compared with the model's prediction. Outside: click and logging internals.")
RULE = ("real pretext-to-asm CLI x output formats {AGP, TPF, FASTA} x --write-log/--no-write-log x single- and multi-assembly maps x non-empty subsets of the run's output files "
        "pre-created with sentinel bytes (quick: all singletons + the full set + random subsets; thorough: every subset up to 2^8, random beyond) under --no-clobber and --clobber. "
        "Non-trivial = distinct (format, write-log, #outputs, subset signature).")
TRUSTED = ["correspondence harness props/C16.py: audit-hook observation of every open() of the real run vs Lean Outputs.runOutputs",
           "modelled not verified: click option handling, logging.basicConfig opening the log file exactly once with the given mode"]
ASSUMPTIONS = ["output paths of one run are pairwise different"]
EXPLANATION = LEVEL_TEXT

_events = []
_recording = [False]


def _hook(event, args):
    if _recording[0] and event == "open":
        path, mode, flags = args
        try:
            if isinstance(mode, str) and any(c in mode for c in "wxa+") and isinstance(path, (str, bytes, os.PathLike)):
                _events.append((os.fspath(path), mode))
        except Exception:
            pass


_hook_installed = [False]


def install_hook():
    if not _hook_installed[0]:
        sys.addaudithook(_hook)
        _hook_installed[0] = True


def make_inputs(rng, fmt):
    """returns dict(files={name: bytes}, args=[...]) for one CLI configuration"""
    kind = rng.choice(["script", "tagged", "tagged"])
    if fmt == "fa":
        recs = F.rand_records(rng, nrec=rng.randint(1, 4), maxlen=300)
        for i, r in enumerate(recs):
            r["name"] = f"scaf{i+1}"
            if not any(x in F.ACGT for x in r["seq"]):
                r["seq"] = b"ACGT" + r["seq"]
        data = F.render(recs, 60)
        _, inp = F.expected_index(recs, 60)
        bpt = rng.choice(["1", "3", "10.75"])
        ptx, _ = R.pretext_script(rng, inp, bpt)
        if kind == "tagged":
            ptx = R.decorate_tags(rng, ptx)
        out_name = rng.choice(["xx.1.fa", "xx.1.fa", "yy.fasta", "zz.3.FA"])
        return {"files": {"in.fa": data, "ptx.agp": R.agp_text(ptx, header=[f"HiC MAP RESOLUTION: {bpt} bp/texel"]).encode()}, "assembly": "in.fa", "out": out_name,
                "case": {"input": inp, "ptx": ptx, "bpt": bpt}}
    c = R.make_case(rng, kind)
    return {"files": {"in.agp": R.agp_text(c["input"]).encode(), "ptx.agp": R.agp_text(c["ptx"], header=[f"HiC MAP RESOLUTION: {c['bpt']} bp/texel"]).encode()},
            "assembly": "in.agp", "out": rng.choice(["xx.1." + fmt, "xx.1." + fmt, "yy." + fmt, "a.b.7." + fmt.upper(), "xx.2." + fmt + "_v2"]), "case": c}


def run_cli(d, cfg, clobber, write_log):
    from click.testing import CliRunner
    from tola.assembly.scripts.pretext_to_asm import cli
    args = ["-a", str(d / cfg["assembly"]), "-p", str(d / "ptx.agp"), "-o", str(d / cfg["out"]),
            "--clobber" if clobber else "--no-clobber", "--write-log" if write_log else "--no-write-log"]
    import logging
    _events.clear()
    _recording[0] = True
    logging.disable(logging.NOTSET)      # the harness silences logging elsewhere; here the error message is part of the property
    try:
        res = CliRunner().invoke(cli, args)
    finally:
        _recording[0] = False
        logging.disable(logging.CRITICAL)
        for h in list(logging.getLogger().handlers):
            try:
                h.close()
            except Exception:
                pass
            logging.getLogger().removeHandler(h)
    opens = [(Path(p).name, m) for p, m in _events if Path(p).parent == d and not Path(p).name.startswith("in.")]
    return res, opens


def setup_dir(sc, tag, cfg):
    d = sc.path / f"c16_{tag}"
    d.mkdir()
    for n, b in cfg["files"].items():
        (d / n).write_bytes(b)
    return d


def outputs_of(d, cfg):
    skip = set(cfg["files"]) | {"in.fa.fai", "in.fa.agp"}
    return {p.name: p.read_bytes() for p in d.iterdir() if p.name not in skip and not p.name.endswith(".tmp")}


def sentinel(name, kind="text"):
    """what a pre-existing file holds: some text; NOTHING (a zero-length file left by `touch` / an aborted run); or far more bytes
    than the run writes (an old tail must not survive a rewrite)"""
    if kind == "empty":
        return b""
    if kind == "long":
        return (b"OLD CONTENT OF " + name.encode() + b"\n") * 4000
    return b"OLD CONTENT OF " + name.encode() + b"\n"


def check_config(ctx, sc, tag, cfg, write_log, subsets_budget):
    out, rng = ctx.out, ctx.rng
    d0 = setup_dir(sc, next(tag), cfg)
    res0, opens0 = run_cli(d0, cfg, True, write_log)
    base = {"format": cfg["out"].split(".")[-1], "write_log": write_log}
    if res0.exit_code != 0:
        out.count("baseline-run-failed")
        return
    O = outputs_of(d0, cfg)
    order = []
    for n, m in opens0:
        if n in O and n not in order:
            order.append(n)
    names = sorted(O)
    if set(order) != set(names):
        out.oracle_fail("baseline", dict(base, outputs=names, opens=opens0), "an output file was created without an observable open() for writing")
        return
    if any("x" in m for n, m in opens0):
        out.oracle_fail("baseline", dict(base, opens=opens0), "a file was opened with exclusive mode under --clobber")
    # the output PLAN of the model (Model/CliPlan.lean: which files, under which names, in which order) for the assemblies the real
    # in-process remap returns, against the opens observed in the real run
    if ctx.driver and cfg.get("case"):
        c = cfg["case"]
        real = R.real_remap(c["input"], c["ptx"], c["bpt"])
        if "ok" in real:
            req = {"id": 0, "kind": "cliplan", "assemblies": [{"key": a["key"], "curated": a["curated"], "scaffolds": a["scaffolds"]} for a in real["ok"]["assemblies"]],
                   "out": cfg["out"], "write_log": write_log, "prefix": "SUPER_", "stats": real["ok"]["stats"]}
            m = ctx.driver.batch([req])[0]
            inp = dict(base, out=cfg["out"], assemblies=[[a["key"], a["curated"], len(a["scaffolds"])] for a in real["ok"]["assemblies"]])
            out.compare("output-plan", inp, {"ok": order}, m["plan"], ("plan", base["format"], write_log, len(order)))
    # history: a second run IN THE SAME PROCESS and the same directory, where the pre-existing files are the ones the first run
    # wrote (state carried from one invocation to the next must not matter): --no-clobber with everything present, then with the log
    # file removed (so that the collision is found by get_output_filehandle, not by setup_logging), then without --write-log
    for variant in ("all-present", "log-removed", "no-write-log"):
        before = outputs_of(d0, cfg)
        if variant == "log-removed":
            for x in list(before):
                if x.endswith(".log"):
                    (d0 / x).unlink(); before.pop(x)
        wl = write_log and variant != "no-write-log"
        res, opens = run_cli(d0, cfg, False, wl)
        after = outputs_of(d0, cfg)
        inp = dict(base, history=["--clobber run", f"--no-clobber run in the same process and directory ({variant})"], preexisting=sorted(before))
        out.case("history", inp, ("history", base["format"], write_log, variant))
        if res.exit_code == 0:
            out.oracle_fail("history", inp, "second run succeeded although its output files already existed")
        for x in sorted(before):
            if x.endswith(".log") and variant != "log-removed" and not wl:
                pass
            if after.get(x) != before[x]:
                what = "was DELETED" if x not in after else "was altered"
                out.oracle_fail("history", inp, f"pre-existing file {x} {what} by a --no-clobber run")
                break
        # restore what the variant removed / what a faulty run destroyed, for the next variant
        for x, b in O.items():
            if not (d0 / x).exists():
                (d0 / x).write_bytes(b)
    # subsets
    n = len(names)
    subsets = [[x] for x in names] + [list(names)]
    if n <= 8 and ctx.thorough:
        subsets = [list(c) for k in range(1, n + 1) for c in itertools.combinations(names, k)]
    else:
        for _ in range(subsets_budget):
            k = rng.randint(2, max(2, n - 1))
            subsets.append(sorted(rng.sample(names, min(k, n))))
    seen = set()
    reqs, meta = [], []
    for S in subsets:
        key = tuple(S)
        if key in seen:
            continue
        seen.add(key)
        for clobber in (False, True):
          for skind in (("text", "empty", "long") if (len(S) == len(names) or len(S) == 1) else (rng.choice(["text", "empty", "long"]),)):
              d = setup_dir(sc, next(tag), cfg)
              for x in S:
                  (d / x).write_bytes(sentinel(x, skind))
              res, opens = run_cli(d, cfg, clobber, write_log)
              after = outputs_of(d, cfg)
              inp = dict(base, outputs_in_open_order=order, preexisting=S, clobber=clobber, preexisting_content=skind)
              sig = (base["format"], write_log, n, tuple(order.index(x) for x in S), clobber, skind)
              real_fs = sorted([x, ("old" if (x in S and after[x] == sentinel(x, skind)) else "new")] for x in after)
              real = {"exit": 1 if res.exit_code != 0 else 0, "fs": real_fs}
              reqs.append({"id": 0, "kind": "outputs", "clobber": clobber, "existing": S, "outputs": order})
              meta.append((inp, real, sig))
              text = (res.output or "") + (res.stderr if getattr(res, "stderr_bytes", None) else "")
              logn = str(Path(cfg["out"]).with_suffix(".log"))
              logf = d / logn
              if logf.exists() and after.get(logn) != sentinel(logn, skind):
                  text += logf.read_text(errors="replace")
              if not clobber:
                  if res.exit_code == 0:
                      out.oracle_fail("no-clobber", inp, "run succeeded although output files already existed")
                  for x in S:
                      if after.get(x) != sentinel(x, skind):
                          out.oracle_fail("no-clobber", inp, f"pre-existing file {x} was altered under --no-clobber")
                          break
                  if res.exit_code != 0 and not any(x in text for x in S):
                      out.oracle_fail("no-clobber", inp, "the error does not name a colliding file", detail={"output": text[-400:]})
                  if any("w" in m for nme, m in opens if nme in O):
                      out.oracle_fail("no-clobber", inp, f"an output was opened with a truncating mode under --no-clobber: {opens}")
              else:
                  if res.exit_code != 0:
                      out.oracle_fail("clobber", inp, f"--clobber run failed (exit {res.exit_code})")
                  else:
                      for x in names:
                          if x.endswith(".log"):
                              if x not in after or (sentinel(x, skind).strip() in after[x] if skind != "empty" else len(after[x]) == 0):
                                  out.oracle_fail("clobber", inp, "log file not completely rewritten under --clobber (old content survives)")
                          elif after.get(x) != O[x]:
                              out.oracle_fail("clobber", inp, f"output {x} not completely rewritten under --clobber")
                              break
    ms = ctx.driver.batch(reqs) if ctx.driver else [None] * len(reqs)
    for (inp, real, sig), m in zip(meta, ms):
        if m is not None:
            mv = {"exit": m["exit"], "fs": sorted(m["fs"])}
            out.compare("subsets", inp, real, mv, sig)
        else:
            out.case("subsets", inp, sig)


TRICKY_NAMES = ["x.2.fa", "x.fa", "x.FA", "x.1.fab", "x.agp", "x.2.tpf", "x.agp.fa", "x.fa.agp", "a.b.3.fa_x", "x", ".fa", "..fa", "x.12.Fasta", "x.log.fa",
                "x.info.yaml.agp", "x.chr_report.csv.tpf", "x.1.primary.curated.fa", "x.tpf.gz", "x.", "x..", ".x", "x.1.", "x.01.agp", "x.1.2.agp", "x.-1.agp", "x.1a.agp",
                "x.agp1", "x.Agp_", "x.fas", "x.fast", "x.fasta9", "x.fa-", "x.f", "1.agp", ".1.agp", "x.1.AGP", "x y.2.tpf", "x.tpf.1"]


def path_parse_stream(ctx):
    """pathlib name arithmetic, format_from_file_extn and parse_output_file: real functions vs Model/CliPlan.lean on file NAMES (ASCII, no '/')"""
    from tola.assembly.scripts.pretext_to_asm import parse_output_file
    from tola.assembly.parser import format_from_file_extn
    rng = ctx.rng
    names = list(TRICKY_NAMES)
    alpha = [".", ".", "a", "A", "1", "0", "_", "f", "g", "p", "t", "s", "-"]
    # exhaustive short names over a small alphabet + random longer ones
    small = [".", "a", "1", "f"]
    for n in range(1, 5):
        for t in itertools.product(small, repeat=n):
            names.append("".join(t))
    for _ in range(600 if ctx.thorough else 150):
        stem = "".join(rng.choice(alpha) for _ in range(rng.randint(0, 6)))
        ext = rng.choice(["agp", "tpf", "fa", "fasta", "AGP", "Tpf", "FA", "fAsTa", "fab", "agp2", "tpf_", "txt", "", "fa_1"])
        ver = rng.choice(["", "", ".1", ".12", ".007", ".1a", "."])
        names.append(stem + ver + ("." + ext if ext or rng.random() < 0.5 else ""))
    names = [n for n in dict.fromkeys(names) if n and "/" not in n]
    ms = ctx.driver.batch([{"id": 0, "kind": "pathparse", "names": names}])[0] if ctx.driver else [None] * len(names)

    def R_(f):
        try:
            return {"ok": f()}
        except Exception as e:
            return {"err": conv.errkind(e)}
    for n, m in zip(names, ms):
        p = Path(n)
        if p.name != n:            # pathlib normalises "." etc.: not a file name
            continue
        fmt = format_from_file_extn(p)
        def po():
            r = parse_output_file(p)
            return [r[0], r[2], r[3], r[4]]
        real = {"suffix": p.suffix, "stem": p.stem, "fmt": fmt, "parse": R_(po), "log": R_(lambda: p.with_suffix(".log").name),
                "yaml": R_(lambda: p.with_name(p.stem + ".info.yaml").name), "report": R_(lambda: p.with_suffix(".chr_report.csv").name),
                "agp": R_(lambda: p.with_suffix(".agp").name)}
        key = ("pathparse", fmt, "err" in real["parse"], min(len(n), 6))
        if m is not None:
            ctx.out.compare("path-parse", {"name": n}, real, m, key)
        else:
            ctx.out.case("path-parse", {"name": n}, key)


def run(ctx):
    install_hook()
    path_parse_stream(ctx)
    tag = itertools.count()
    nconf = 6 if ctx.thorough else 2
    with F.Scratch() as sc:
        for fmt in ("agp", "tpf", "fa"):
            for write_log in (True, False):
                for _ in range(nconf if fmt != "fa" else max(1, nconf // 2)):
                    cfg = make_inputs(ctx.rng, fmt)
                    check_config(ctx, sc, tag, cfg, write_log, 10 if ctx.thorough else 2)


def search(ctx, broken):
    new = [f for f in ctx.out.oracle_failures if not f.get("finding")]
    return min(new, key=lambda f: len(str(f["input"]))) if new else None


def replay(ctx, payload):
    return {"fails": True, "note": "re-run pretext-to-asm in a directory where the listed files pre-exist", "input": payload.get("input")}


LEVEL_NOTE = "; ".join(TRUSTED) + '. NEW: the list of files a run opens, their names and ORDER are in the model (Model/CliPlan.lean: pathlib name arithmetic, parse_output_file, name_assemblies as a dict, log/yaml/assembly/.agp/chromosome.list/chr_report); `output_plan_nodup` discharges the `Nodup` hypothesis; `no_clobber_run`, `clobber_run` over the plan (Properties/C16Plan.lean); tie: `path-parse` stream (exhaustive short names + random) and `output-plan` stream (opens observed by the audit hook, in order) + a `history` scenario (second run in the same process)'
