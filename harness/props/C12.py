"""C12 — overlap lookup equals a brute-force scan of the scaffold."""
import itertools
import conv

LEVEL = "proof"
RULE = ("exhaustive small scope: every scaffold of <=4 rows over {gap 0,1,2; fragment 1,2,3} x every query 1<=a<=b<=L+2; plus random large "
        "scaffolds (<=40 rows, lengths to 10^9) with boundary-hugging queries. Non-trivial = distinct (row-kind pattern, first/last hit index, "
        "none/some) signatures.")
TRUSTED = ["correspondence harness props/C12.py (IndexedAssembly.find_overlaps vs Lean findOverlaps)",
           "modelled not verified: Python list slicing/indexing semantics as in Model/Py.lean (pyGet, pySlice)"]
ASSUMPTIONS = ["queries have 1 <= a <= b (Fragment enforces a <= b)", "zero-length rows are gaps"]
EXPLANATION = "find_overlaps_spec proved in Lean for all scaffolds and queries; tie by exhaustive small-scope and random correspondence + brute-force oracle."


def brute(rows, a, b):
    """independent statement of the property"""
    pos, spans = 0, []
    for r in rows:
        ln = r["len"] if r["t"] == "G" else r["end"] - r["start"] + 1
        spans.append((pos + 1, pos + ln))
        pos += ln
    hit = [k for k, (r, (s, e)) in enumerate(zip(rows, spans)) if r["t"] == "F" and s <= e and s <= b and e >= a]
    if not hit:
        return None
    i, j = hit[0], hit[-1]
    return {"start": spans[i][0], "end": spans[j][1], "oids": [r.get("oid", -1) if r["t"] == "F" else -1 for r in rows[i:j + 1]], "n": j - i + 1}


def real_lookup(rows, queries):
    from tola.assembly.indexed_assembly import IndexedAssembly
    from tola.assembly.fragment import Fragment
    from tola.assembly.gap import Gap
    sc = conv.to_real_scaffold({"name": "s", "rows": rows})
    oid_of = {id(r): jr["oid"] for r, jr in zip(sc.rows, rows) if jr["t"] == "F"}
    try:
        ia = IndexedAssembly("x", scaffolds=[sc])
    except Exception as e:   # the scaffold could not even be indexed: every query on it fails
        return [{"err": conv.errkind(e)} for _ in queries]
    res = []
    for a, b in queries:
        try:
            o = ia.find_overlaps(Fragment("s", a, b, 1))
            if o is None:
                res.append({"ok": None})
            else:
                res.append({"ok": {"start": o.start, "end": o.end, "n": len(o.rows),
                                   "oids": [oid_of.get(id(r), -1) if not isinstance(r, Gap) else -1 for r in o.rows]}})
        except Exception as e:
            res.append({"err": conv.errkind(e)})
    return res


def classify(rows, a, b):
    """known findings by cause"""
    return None


def check_scaffolds(ctx, stream, cases):
    out = ctx.out
    reqs = [{"id": i, "kind": "lookup", "rows": rows, "queries": [{"a": a, "b": b} for a, b in qs]} for i, (rows, qs) in enumerate(cases)]
    model = ctx.driver.batch(reqs) if ctx.driver else [None] * len(reqs)
    for (rows, qs), m in zip(cases, model):
        real = real_lookup(rows, qs)
        pat = "".join("G" if r["t"] == "G" else "F" for r in rows)
        for k, ((a, b), r) in enumerate(zip(qs, real)):
            inp = {"rows": rows, "a": a, "b": b}
            exp = brute(rows, a, b)
            key = (pat, None if exp is None else (exp["n"], exp["start"] == 1))
            if m is not None:
                out.compare(stream, inp, r, m[k], key)
            else:
                out.case(stream, inp, key)
            if "err" in r:
                out.oracle_fail(stream, inp, f"lookup raised {r['err']} (must never fail)", finding=classify(rows, a, b))
            elif r["ok"] != exp:
                out.oracle_fail(stream, inp, "lookup result differs from brute-force scan", detail={"real": r["ok"], "expected": exp})


def small_scope(maxrows):
    opts = [("G", 0), ("G", 1), ("G", 2), ("F", 1), ("F", 2), ("F", 3)]
    for n in range(1, maxrows + 1):
        for combo in itertools.product(opts, repeat=n):
            rows, oid = [], 0
            for t, ln in combo:
                if t == "G":
                    rows.append(conv.jgap(ln))
                else:
                    rows.append(conv.jfrag(oid, f"c{oid}", 5, 5 + ln - 1, 1))
                    oid += 1
            L = sum(ln for _, ln in combo)
            qs = [(a, b) for a in range(1, L + 3) for b in range(a, L + 3)]
            yield rows, qs


def random_case(rng):
    rows, oid = [], 0
    for _ in range(rng.randint(1, 40)):
        if rng.random() < 0.4:
            rows.append(conv.jgap(rng.choice([0, 1, 2, 100, 200, rng.randint(0, 10**6)])))
        else:
            ln = rng.choice([1, 1, 2, rng.randint(1, 1000), rng.randint(1, 10**9), rng.randint(1, 10**9), 2**31, 2**32, 2**32 + 1, 2**63, 10**15])
            st = rng.randint(1, 10**6)
            rows.append(conv.jfrag(oid, f"c{oid}", st, st + ln - 1, rng.choice([1, -1, 0])))
            oid += 1
    # boundary-hugging queries
    pos, bounds = 0, [1]
    for r in rows:
        pos += r["len"] if r["t"] == "G" else r["end"] - r["start"] + 1
        bounds += [pos, pos + 1]
    qs = []
    for _ in range(30):
        a = max(1, rng.choice(bounds) + rng.choice([-1, 0, 0, 1]))
        b = max(a, rng.choice(bounds) + rng.choice([-1, 0, 0, 1, rng.randint(0, 5)]))
        qs.append((a, b))
    return rows, qs


def history_stream(ctx, count):
    """one IndexedAssembly, many lookups; between lookups the returned (mutable) results are edited with their own public
    operations — a later lookup must still equal the brute-force scan of the (unchanged) scaffold"""
    from tola.assembly.indexed_assembly import IndexedAssembly
    from tola.assembly.fragment import Fragment
    from tola.assembly.gap import Gap
    out, rng = ctx.out, ctx.rng
    for _ in range(count):
        rows, _qs = random_case(rng) if rng.random() < 0.3 else (None, None)
        if rows is None:
            rows, oid = [], 0
            for _k in range(rng.randint(1, 6)):
                if rows and rng.random() < 0.35:
                    rows.append(conv.jgap(rng.choice([1, 2, 5])))
                ln = rng.randint(1, 9)
                rows.append(conv.jfrag(oid, f"c{oid}", 3, 3 + ln - 1, rng.choice([1, -1]))); oid += 1
        rows = [r for r in rows if not (r["t"] == "F" and r["end"] - r["start"] > 10**6)] or [conv.jfrag(0, "c0", 1, 5, 1)]
        L = sum(r["len"] if r["t"] == "G" else r["end"] - r["start"] + 1 for r in rows)
        sc = conv.to_real_scaffold({"name": "s", "rows": rows})
        oid_of = {id(r): jr["oid"] for r, jr in zip(sc.rows, rows) if jr["t"] == "F"}
        try:
            ia = IndexedAssembly("x", scaffolds=[sc])
        except Exception:
            continue
        script = []
        for step in range(rng.randint(2, 6)):
            prev = [x for x in script if x[0] == "lookup"]
            if prev and rng.random() < 0.4:
                _, a, b = rng.choice(prev)              # the SAME region again (results of one region must not share state)
            else:
                a = rng.randint(1, max(1, L)); b = rng.randint(a, min(L + 2, a + rng.choice([0, 1, 3, L])))
            script.append(["lookup", a, b])
            inp = {"rows": rows, "script": [list(x) for x in script]}
            try:
                o = ia.find_overlaps(Fragment("s", a, b, 1))
            except Exception as e:
                out.case("lookup-histories", inp, ("hist", len(script)))
                out.oracle_fail("lookup-histories", inp, f"lookup raised {conv.errkind(e)} after a history of lookups/edits")
                break
            got = None if o is None else {"start": o.start, "end": o.end, "n": len(o.rows),
                                          "oids": [oid_of.get(id(r), -1) if not isinstance(r, Gap) else -1 for r in o.rows]}
            exp = brute(rows, a, b)
            out.case("lookup-histories", inp, ("hist", len(script), exp is None))
            if got != exp:
                out.oracle_fail("lookup-histories", inp, "lookup after a history of lookups/edits differs from the brute-force scan",
                                detail={"real": got, "expected": exp})
                break
            if o is not None and o.rows:
                op = rng.choice(["none", "trim_last", "trim_first", "discard_end", "discard_start", "trim_large"])
                try:
                    if op == "trim_last":
                        o.trim_fragment(o.rows[-1])
                    elif op == "trim_first":
                        o.trim_fragment(o.rows[0])
                    elif op == "discard_end":
                        o.discard_end()
                    elif op == "discard_start":
                        o.discard_start()
                    elif op == "trim_large":
                        o.trim_large_overhangs(rng.choice([1, 3]))
                except Exception:
                    pass
                script.append([op])


def reindex_stream(ctx, count):
    """a Scaffold object that has been indexed once is CHANGED (a row replaced by one of another length, a gap inserted in front, the
    rows reversed, a row removed) and put into a NEW IndexedAssembly: lookups must equal the brute-force scan of the rows as they are now"""
    from tola.assembly.indexed_assembly import IndexedAssembly
    from tola.assembly.fragment import Fragment
    from tola.assembly.gap import Gap
    out, rng = ctx.out, ctx.rng
    for _ in range(count):
        rows, oid = [], 0
        for _k in range(rng.randint(2, 6)):
            if rows and rng.random() < 0.4:
                rows.append(conv.jgap(rng.choice([1, 2, 5])))
            ln = rng.randint(1, 9)
            rows.append(conv.jfrag(oid, f"c{oid}", 3, 3 + ln - 1, rng.choice([1, -1]))); oid += 1
        sc = conv.to_real_scaffold({"name": "s", "rows": rows})
        try:
            IndexedAssembly("first", scaffolds=[sc])
        except Exception:
            continue
        edit = rng.choice(["replace", "insert-front", "reverse", "remove", "append"])
        rows2 = [dict(r) for r in rows]
        if edit == "replace":
            i = rng.randrange(len(rows2))
            rows2[i] = conv.jfrag(oid, f"c{oid}", 1, rng.randint(1, 12), 1); oid += 1
            sc.rows[i] = conv.to_real_scaffold({"name": "x", "rows": [rows2[i]]}).rows[0]
        elif edit == "insert-front":
            g = conv.jgap(rng.choice([1, 4]))
            rows2.insert(0, g); sc.rows.insert(0, Gap(g["len"], g["type"]))
        elif edit == "reverse":
            rows2.reverse(); sc.rows.reverse()
        elif edit == "remove" and len(rows2) > 1:
            i = rng.randrange(len(rows2)); rows2.pop(i); sc.rows.pop(i)
        else:
            f = conv.jfrag(oid, f"c{oid}", 1, rng.randint(1, 9), 1); oid += 1
            rows2.append(f); sc.add_row(conv.to_real_scaffold({"name": "x", "rows": [f]}).rows[0])
        for k, r in enumerate(rows2):
            if r["t"] == "F":
                r["oid"] = k
        oid_of = {id(r): jr["oid"] for r, jr in zip(sc.rows, rows2) if jr["t"] == "F"}
        L = sum(r["len"] if r["t"] == "G" else r["end"] - r["start"] + 1 for r in rows2)
        try:
            ia = IndexedAssembly("second", scaffolds=[sc])
        except Exception as e:
            continue
        for _q in range(4):
            a = rng.randint(1, max(1, L)); b = rng.randint(a, min(L + 2, a + rng.choice([0, 1, 3, L])))
            inp = {"rows_when_first_indexed": rows, "edit": edit, "rows": rows2, "query": [a, b]}
            out.case("reindexed-after-edit", inp, ("reindex", edit))
            try:
                o = ia.find_overlaps(Fragment("s", a, b, 1))
            except Exception as e:
                out.oracle_fail("reindexed-after-edit", inp, f"lookup raised {conv.errkind(e)} on a scaffold that was indexed before it was changed")
                break
            got = None if o is None else {"start": o.start, "end": o.end, "n": len(o.rows),
                                          "oids": [oid_of.get(id(r), -1) if not isinstance(r, Gap) else -1 for r in o.rows]}
            exp = brute(rows2, a, b)
            if got != exp:
                out.oracle_fail("reindexed-after-edit", inp, "lookup on a scaffold indexed again after a change differs from the brute-force scan of its current rows",
                                detail={"real": got, "expected": exp})
                break


def run(ctx):
    history_stream(ctx, 3000 if ctx.thorough else 500)
    reindex_stream(ctx, 1500 if ctx.thorough else 250)
    cases = list(small_scope(4 if ctx.thorough else 3))
    check_scaffolds(ctx, "small-scope-exhaustive", cases)
    ctx.out.exhaustive = True
    check_scaffolds(ctx, "random-large", [random_case(ctx.rng) for _ in range(3000 if ctx.thorough else 300)])


def search(ctx, broken):
    ctx2_cases = list(small_scope(4))
    n0 = len(ctx.out.oracle_failures)
    saved = ctx.driver
    ctx.driver = None
    try:
        check_scaffolds(ctx, "search-small-scope", ctx2_cases)
        check_scaffolds(ctx, "search-random", [random_case(ctx.rng) for _ in range(3000)])
    finally:
        ctx.driver = saved
    new = [f for f in ctx.out.oracle_failures[n0:] if not f.get("finding")]
    return min(new, key=lambda f: len(str(f["input"]))) if new else None


def replay(ctx, payload):
    inp = payload["input"]
    ctx.out.oracle_failures.clear()
    check_scaffolds(ctx, "replay", [(inp["rows"], [(inp["a"], inp["b"])])])
    return {"fails": bool(ctx.out.oracle_failures or ctx.out.disagreements), "oracle": ctx.out.oracle_failures, "disagreements": ctx.out.disagreements}
