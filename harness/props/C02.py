"""C02 — curated layout follows the Pretext edits to within three texel widths."""
import remap_lib as R

EXTRA_ANCHORS = ['assembly/scripts/pretext_to_asm.py', 'fasta/index.py']      # files outside the property's anchors whose change escalates the quick budget (T3)
LEVEL = "proof"
RULE = ('PretextView-model edit scripts (T floor/ceil, sub-texel scaffolds present/absent, cuts on the texel grid with pieces >= 2 texels, any permutation/orientation/grouping, painted or not, forward and reverse input contigs, contigs 1..3000 bp incl. a small-geometry stream of 1..40 bp contigs) x texel sizes 1..2326.1. Non-trivial = distinct (#pieces, cuts, breaks, joins, #assemblies | error).')
TRUSTED = ['correspondence harness props/C02.py + remap_lib.py: real BuildAssembly pipeline vs Lean `remap` on the projection `proj_rows`', 'modelled not verified: Python dict/set/sort semantics as in Model/Py.lean; object identity by object ids; PretextView edit-script model (spec side)']
ASSUMPTIONS = ['input contigs pairwise disjoint; contig names unique (generator)']
LEVEL_NOTE = "mechanism theorems M1–M7 at full strength + end-to-end placement theorems for contig-aligned edit scripts (`aligned_map_rearranges`, `aligned_painted_map_rearranges`: pieces within the error length of contig boundaries, claiming disjoint contigs, any order/orientation/regrouping; output = the pieces' rows in Pretext order, reversed per piece strand, joined by the join gap, left-overs re-added); scripts cutting inside contigs: cut position/orientation/order are theorems per stage, their composition is decided by correspondence on complete rows + the Placement oracle on every generated script (the PretextView script model is a Python generator)"
EXPLANATION = 'Placement theorems in Lean: mechanisms (guards, cut position, orientation, order) for all scripts, end-to-end rearrangement theorem for contig-aligned scripts; full statement decided by correspondence + Placement oracle on every script.'
PROJ = R.proj_rows


def oracle(c, real):
    if "err" in real and c.get("kind") == "hapnames" and real["err"] in ("ChrNamerError", "TaggingError"):
        # input scaffolds named for DIFFERENT haplotypes and painted in an order the autosome namer rejects: the tool's own validation of
        # the haplotype pattern (ChrNamerError), not a remapping failure — `painted_none_none_hap_raises` (C02Returns.lean) is the
        # kernel-checked witness that the uniform-haplotype hypothesis of `script_remap_ok_uniform` cannot be dropped; model and code
        # are still compared on it
        return []
    if "err" in real:
        return [f"remapping a PretextView-model script failed with {real['err']}"]
    return R.oracle_placement(c["input"], c["ptx"], real, c["bpt"])

KW = {"script": {}, "small": {"small": True}}
CLASSIFY = None


def streams(ctx):
    n = 16 if ctx.thorough else 1
    return [("scripts", "script", 700 * n), ("scripts-rev", "script", 300 * n),
            ("scripts-one-haplotype-names", "hapuniform", 150 * n), ("scripts-mixed-haplotype-names", "hapnames", 150 * n)]


def gen(ctx, kind):
    return R.make_case(ctx.rng, kind, **KW.get(kind, {}))


def classify(c, real, msg):
    return CLASSIFY(c, real, msg) if CLASSIFY else None


def script_model_stream(ctx, count):
    """the spec side: every map the Python generator of PretextView scripts produces is `ptxOf` of a WELL-FORMED `Script` of
    Model/Pretext.lean (the object the theorems of C02Script.lean quantify over), and the error length of the header text is `errLen`"""
    import math
    from fractions import Fraction
    rng = ctx.rng
    reqs, meta = [], []
    for _ in range(count):
        bpt = rng.choice(R.BPTS)
        inp = R.rand_input(rng, revp=rng.choice([0.0, 0.3]), maxlen=(40 if rng.random() < 0.3 else 3000))
        ptx, script = R.pretext_script(rng, inp, bpt, cutp=rng.choice([0.5, 0.8]), force_floor=(rng.random() < 0.3))
        lean = dict(script.lean)
        # group numbers: the generator numbers groups 1, 2, … and skips none unless a group came out empty
        if [g["n"] for g in lean["groups"]] != list(range(1, len(lean["groups"]) + 1)):
            continue
        reqs.append({"id": 0, "kind": "script", "input": inp, "script": lean})
        meta.append((inp, ptx, bpt, lean))
    ms = ctx.driver.batch(reqs) if ctx.driver and reqs else [None] * len(reqs)
    for (inp, ptx, bpt, lean), m in zip(meta, ms):
        real = {"wf": True, "err_len": 1 + math.floor(Fraction(bpt)),
                "ptx": [{"name": ps["name"], "rows": [conv_strip(r) for r in ps["rows"]]} for ps in ptx]}
        key = ("script-model", len(ptx), bpt)
        case = {"input": inp, "script": lean, "bpt": bpt}
        if m is None:
            ctx.out.case("script-model", case, key)
            continue
        mv = {"wf": m["wf"], "err_len": m["err_len"], "ptx": [{"name": ps["name"], "rows": [conv_strip(r) for r in ps["rows"]]} for ps in m["ptx"]]}
        ctx.out.compare("script-model", case, real, mv, key)


def conv_strip(r):
    import conv
    r = conv.strip_oids(r)
    return {k: v for k, v in r.items()}


def run(ctx):
    script_model_stream(ctx, 1600 if ctx.thorough else 200)
    for stream, kind, n in streams(ctx):
        cases = [gen(ctx, kind) for _ in range(n)]
        R.run_cases(ctx, stream, cases, PROJ, oracle, classify)
    # history: the same maps remapped AFTER other maps of the same input on ONE IndexedAssembly object (in-process state must not matter)
    hk = ['script', 'script', 'tightscript', 'dupnames']
    R.run_history_cases(ctx, "object-history", [R.make_case(ctx.rng, ctx.rng.choice(hk)) for _ in range(240 if ctx.thorough else 40)], PROJ, oracle, (classify if "classify" in globals() else None))
    fasta_cold_warm(ctx, 60 if ctx.thorough else 10)
    # the command-line tool end to end on a sample of the same generators: what is proved / compared about the in-memory result holds for the FILES
    # only if the tool finishes whenever the remap does and writes every assembly with exactly its scaffolds (waves 11-12)
    cli_cases = [gen(ctx, kind) for stream, kind, n in streams(ctx) for _ in range(max(3, n // 100))]
    R.run_cli_cases(ctx, "cli-end-to-end", cli_cases, (classify if "classify" in globals() else None),
                    only=["CLI exit", "CLI succeeded", "output file", "does not contain exactly", "unexpected assembly files"])


def fasta_cold_warm(ctx, count):
    """FASTA input (records with N-runs, also at their very start / end): the tool run twice — first indexing the FASTA, then loading the index
    cache the first run left — must write the same layout both times (the cached assembly is the coordinate system of the remap: wave 13, C02k)"""
    import itertools, logging
    import fasta_lib as F
    from click.testing import CliRunner
    from tola.assembly.scripts.pretext_to_asm import cli
    import props.C17 as C17
    rng, out = ctx.rng, ctx.out
    with F.Scratch() as sc:
        for i in range(count):
            d = sc.path / f"cw{i}"; d.mkdir()
            C17.make_files(rng, d, "script", dirty=True)
            snaps = []
            for k in (1, 2):
                o = d / f"out{k}"; o.mkdir()
                logging.disable(logging.NOTSET)
                try:
                    res = CliRunner().invoke(cli, ["-a", str(d / "in.fa"), "-p", str(d / "ptx.agp"), "-o", str(o / "xx.1.agp")])
                finally:
                    logging.disable(logging.CRITICAL)
                    for h in list(logging.getLogger().handlers):
                        try:
                            h.close()
                        except Exception:
                            pass
                        logging.getLogger().removeHandler(h)
                snaps.append((res.exit_code, {p.name: p.read_bytes() for p in sorted(o.iterdir()) if p.suffix in (".agp", ".csv", ".yaml")}))
            inp = {"scenario": "fasta-cold-then-warm", "fasta": (d / "in.fa").read_text()[:1500], "pretext": (d / "ptx.agp").read_text()[:2000]}
            out.case("fasta-cold-warm", inp, ("coldwarm", snaps[0][0], len(snaps[0][1])))
            if snaps[0] != snaps[1]:
                diff = sorted(n for n in set(snaps[0][1]) | set(snaps[1][1]) if snaps[0][1].get(n) != snaps[1][1].get(n))
                out.oracle_fail("fasta-cold-warm", inp, f"the run that loads the cached index writes a different layout than the run that built it: exit {snaps[0][0]} vs {snaps[1][0]}, files {diff[:4]}")


def search(ctx, broken):
    n0 = len(ctx.out.oracle_failures)
    saved, ctx.driver = ctx.driver, None
    try:
        for stream, kind, n in streams(ctx):
            R.run_cases(ctx, "search-" + stream, [gen(ctx, kind) for _ in range(2500)], PROJ, oracle, classify)
            if [f for f in ctx.out.oracle_failures[n0:] if not f.get("finding")]:
                break
    finally:
        ctx.driver = saved
    new = [f for f in ctx.out.oracle_failures[n0:] if not f.get("finding")]
    return min(new, key=lambda f: len(str(f["input"]))) if new else None


def shrink(ctx, failure):
    fid = failure.get("finding")
    def still(inp):
        real = R.real_remap(inp["input"], inp["ptx"], inp["bpt"])
        msgs = oracle(inp, real)
        return bool(msgs) and (classify(inp, real, msgs[0]) == fid)
    return R.shrink_case(ctx, failure, still)


def replay(ctx, payload):
    inp = payload["input"]
    real = R.real_remap(inp["input"], inp["ptx"], inp["bpt"])
    msgs = oracle(inp, real)
    return {"fails": bool(msgs), "oracle": msgs, "real": real}

LEVEL_NOTE = LEVEL_NOTE + " NEW: `deep_map_rearranges` (Properties/C02Deep.lean): maps that cut DEEP inside contigs (> 3·err bases of the shared contig on both sides of every cut, any number of cuts per contig, both strands, untagged class) are remapped to the explicit spec with cuts = incidences − shared contigs, and `deep_cut_position` gives the exact cut coordinate (last sentence of C02); the guards the margin rests on (`trim_large_overhangs` tests, `improves` with the −3·err guard, the `make_fixes` tests) are TRANSLATED from the current source and proved equal to the model's (Properties/C02Source.lean, T1b)"

LEVEL_NOTE = LEVEL_NOTE + " NEWER: `Properties/C02Core.lean` — the 3·err margin for ALL maps with pairwise disjoint Pretext fragments (`PtxDisjoint`, what every PretextView map satisfies): `ops_keep_core` (K1, per result, any guarded operation sequence), `remap_keeps_core` (K2, every resolver round), `remap_core_in_one_scaffold` (K3: the core's rows are one contiguous run of one output scaffold in the assembly routeKey prescribes, reversed and strand-negated iff the piece is minus), `deep_cut_exact_any_map` (K4: a cut deeper than 3·err inside a contig splits it exactly at the Pretext coordinate, any map) with kernel-checked counter-examples for the dropped side conditions; `Properties/C02Script.lean` + `Model/Pretext.lean` — the PretextView edit-script model as a Lean object (`Script`, `wfScript`, `ptxOf`; tiling `script_pieces_tile`, piece length, `null_script_unedited`, `aligned_script_is_Aligned`, `deep_script_is_DeepCut`, `script_leftovers_are_suffix`), tied to the Python generator by the `script-model` stream (driver kind `script`). "

LEVEL_NOTE = LEVEL_NOTE + (" NEWEST (waves 7–8): `Properties/C02Order.lean` — `remap_pretext_order` / `core_order`: pieces of one Pretext scaffold that share a destination follow each other "
    "in Pretext order, for ALL disjoint maps; `Properties/C02NoError.lean` — `script_remap_to_input_ok`: for EVERY well-formed `Script` (Model/Pretext.lean) `remapToInput` returns "
    "(holders of a contig are consecutive, the cut QC passes for tilings: `cut_qc_passes_for_tiling`); `Properties/C02Returns.lean` — `script_remap_ok` / `script_remap_ok_uniform`: the WHOLE "
    "`remap` (naming, routing, ChrNamer, stats) returns `.ok` for every well-formed script, painted, unpainted or mixed, over inputs whose scaffold names carry one haplotype "
    "(or none), and `script_c02` bundles no-error + K2 + K3 + O2 + K4 about one and the same run — i.e. the C02 statement as a single theorem over the Lean script model. The hypothesis "
    "is sharp: `painted_none_none_hap_raises` (kernel-evaluated) shows that inputs named for DIFFERENT haplotypes and painted in an order the autosome namer rejects give ChrNamerError in "
    "model AND code (the tool's own validation of the haplotype pattern; streams `scripts-one-haplotype-names` must never raise, `scripts-mixed-haplotype-names` compare model and code).")
