"""C05 — AGP and TPF parse/format round-trip without loss."""
import io
import conv
import text_lib as T

LEVEL = "proof"
RULE = ("random assemblies (names over letters/digits/_:-|.#+ and inner spaces, coordinates to 10^12, strands +,-,?, 0-3 tags, AGP gap types incl. upper-case/dash/"
        "type_2, 1-3 scaffolds, optional header lines) formatted and re-parsed in both formats, real vs model, as values and as text; canonical texts re-formatted; "
        "line-level corruptions (column deleted, bad strand, bad coordinates, start>end, GAP first, field count) compared on error kind; asm-format CLI. "
        "Non-trivial = distinct (format, #rows, strand set, tag count, gap-type class, corruption kind).")
TRUSTED = ["correspondence harness props/C05.py + text_lib.py: parse_agp/parse_tpf/format_agp/format_tpf vs the Lean line grammars, on values, on text, on error kinds",
           "modelled not verified: text-mode file iteration (line splitting is done by Python for both sides), re/str methods as hand-written matchers, int() on ASCII"]
ASSUMPTIONS = ["WFAgp / WFTpf as stated in Properties/C05.lean (names non-empty without tab/newline/surrounding whitespace, consecutive scaffolds differently named, tags single words, …)"]
EXPLANATION = "round-trip theorems over the Lean model of both grammars; tie by value- and text-level correspondence incl. malformed lines."


def model_batch(ctx, reqs):
    return ctx.driver.batch(reqs) if ctx.driver else [None] * len(reqs)


def check_roundtrip(ctx, stream, asms, wf):
    out = ctx.out
    freqs = []
    for a in asms:
        freqs.append({"id": 0, "kind": "format_agp", "asm": a})
        freqs.append({"id": 0, "kind": "format_tpf", "asm": a})
    fm = model_batch(ctx, freqs)
    preqs, pmeta = [], []
    for i, a in enumerate(asms):
        for k, fmt in enumerate(("agp", "tpf")):
            real = T.real_format(a, fmt)
            m = fm[2 * i + k]
            inp = {"asm": a, "fmt": fmt}
            strands = tuple(sorted({r["strand"] for s in a["scaffolds"] for r in s["rows"] if r["t"] == "F"}))
            key = (fmt, min(sum(len(s["rows"]) for s in a["scaffolds"]), 8), strands, wf)
            if m is not None:
                mm = m if "err" in m else {"ok": "".join(m["ok"])}
                out.compare(stream + ":format", inp, real, mm, key)
            else:
                out.case(stream + ":format", inp, key)
            if "err" in real:
                if wf == "both" or (wf == "agp" and fmt == "agp"):
                    out.oracle_fail(stream, inp, f"formatting a well-formed assembly failed: {real['err']}")
                continue
            text = real["ok"]
            back = T.real_parse(text, fmt)
            preqs.append({"id": 0, "kind": "parse_" + fmt, "lines": T.py_lines(text)})
            pmeta.append((inp, back, text, fmt))
            if wf == "both" or (wf == "agp" and fmt == "agp"):
                want = T.val(a, drop_tags=(fmt == "tpf"))
                if "err" in back:
                    out.oracle_fail(stream, inp, f"re-parsing formatted {fmt.upper()} failed: {back['err']}")
                elif back["ok"] != want:
                    out.oracle_fail(stream, inp, f"{fmt.upper()} round trip changed the assembly", detail={"text": text[:400]})
                else:
                    # canonical text reproduces byte for byte
                    again = T.real_format({"header": back["ok"]["header"], "scaffolds": back["ok"]["scaffolds"]}, fmt)
                    if again.get("ok") != text:
                        out.oracle_fail(stream, inp, f"re-formatting parsed canonical {fmt.upper()} text does not reproduce it")
                    # every non-blank, non-comment line = exactly one row
                    nlines = len([l for l in text.splitlines() if l.strip() and not l.startswith("#")])
                    nrows = sum(len(s["rows"]) for s in back["ok"]["scaffolds"])
                    if nlines != nrows:
                        out.oracle_fail(stream, inp, f"{nlines} data lines yielded {nrows} rows")
        if wf == "both":
            # AGP -> TPF -> AGP changes nothing except dropping tags
            t1 = T.real_format(a, "agp")
            p1 = T.real_parse(t1["ok"], "agp") if "ok" in t1 else t1
            if "ok" in p1:
                t2 = T.real_format(p1["ok"], "tpf")
                p2 = T.real_parse(t2["ok"], "tpf") if "ok" in t2 else t2
                t3 = T.real_format(p2["ok"], "agp") if "ok" in p2 else p2
                p3 = T.real_parse(t3["ok"], "agp") if "ok" in t3 else t3
                if "err" in p3 or p3["ok"] != T.val(a, drop_tags=True):
                    out.oracle_fail(stream, {"asm": a, "fmt": "agp>tpf>agp"}, "AGP -> TPF -> AGP changed more than dropping tags")
    pm = model_batch(ctx, preqs)
    for (inp, back, text, fmt), m in zip(pmeta, pm):
        if m is not None:
            out.compare(stream + ":parse", dict(inp, text=text), back, T.canon_parsed(m), ("parse", fmt, len(text) % 7))


def corrupt(rng, text, fmt):
    lines = text.splitlines(keepends=True)
    data = [i for i, l in enumerate(lines) if l.strip() and not l.startswith("#")]
    if not data:
        return text, "none"
    i = rng.choice(data)
    f = lines[i].rstrip("\n").split("\t")
    kind = rng.choice(["delcol", "strand", "coord", "swap", "gapfirst", "addcol", "blank", "emptyname", "space", "crlf", "comment", "lower"])
    if kind == "delcol":
        del f[rng.randrange(len(f))]
    elif kind == "strand":
        f[-1 if fmt == "tpf" else min(8, len(f) - 1)] = rng.choice(["x", "plus", "", "++"])
    elif kind == "coord":
        j = rng.choice([6, 7, 5] if fmt == "agp" else [1, 2])
        if j < len(f):
            f[j] = rng.choice(["12a", "", "1.5", " 7", "1_0", "-3", "+4"]) if fmt == "agp" else rng.choice(["c:12a-5", "c:5", "c:3-2", ":1-2", "c:1-2:3-4", "x", "5"])
    elif kind == "swap" and fmt == "agp" and len(f) > 7:
        f[6], f[7] = f[7], f[6]
    elif kind == "gapfirst":
        g = "GAP\tTYPE-2\t200\n" if fmt == "tpf" else f"{f[0]}\t1\t200\t1\tU\t200\tscaffold\tyes\tproximity_ligation\n"
        lines.insert(data[0], g)
        return "".join(lines), kind
    elif kind == "addcol":
        f.insert(rng.randrange(len(f) + 1), rng.choice(["zz", ""]))
    elif kind == "blank":
        lines.insert(i, rng.choice(["\n", "  \n", "\t\n", "#\n", "# \n", "##x\n", "#  hdr \n"]))
        return "".join(lines), kind
    elif kind == "emptyname":
        f[0 if fmt == "agp" else 2] = ""
    elif kind == "space":
        j = rng.randrange(len(f)); f[j] = f[j] + rng.choice([" ", " ", "\x0b"])
    elif kind == "crlf":
        lines[i] = "\t".join(f) + "\r\n"
        return "".join(lines), kind
    elif kind == "comment":
        f[0] = "#" + f[0]
    elif kind == "lower":
        f = [x.lower() if rng.random() < 0.5 else x for x in f]
    lines[i] = "\t".join(f) + "\n"
    return "".join(lines), kind


def check_corruptions(ctx, stream, asms):
    out, rng = ctx.out, ctx.rng
    reqs, meta = [], []
    for a in asms:
        for fmt in ("agp", "tpf"):
            t = T.real_format(a, fmt)
            if "err" in t:
                continue
            text, kind = corrupt(rng, t["ok"], fmt)
            real = T.real_parse(text, fmt)
            reqs.append({"id": 0, "kind": "parse_" + fmt, "lines": T.py_lines(text)})
            meta.append(({"text": text, "fmt": fmt, "corruption": kind}, real, fmt, kind))
    ms = model_batch(ctx, reqs)
    for (inp, real, fmt, kind), m in zip(meta, ms):
        key = (fmt, kind, real.get("err", "ok"))
        if m is not None:
            out.compare(stream, inp, real, T.canon_parsed(m), key)
        else:
            out.case(stream, inp, key)
        if "ok" in real:
            nlines = len([l for l in io.StringIO(inp["text"], newline="") if l.strip() and not l.startswith("#")])
            nrows = sum(len(s["rows"]) for s in real["ok"]["scaffolds"])
            if nlines != nrows:
                out.oracle_fail(stream, inp, f"{nlines} non-blank non-comment lines yielded {nrows} rows (a line was skipped, merged or re-homed)")


def check_cli(ctx, asms):
    from click.testing import CliRunner
    from tola.assembly.scripts.asm_format import cli
    out = ctx.out
    for a in asms:
        t = T.real_format(a, "agp")
        if "err" in t:
            continue
        r1 = CliRunner().invoke(cli, ["-i", "AGP", "-f", "TPF"], input=t["ok"])
        r2 = CliRunner().invoke(cli, ["-i", "TPF", "-f", "AGP"], input=r1.output) if r1.exit_code == 0 else r1
        out.case("cli-asm-format", {"agp": t["ok"]}, ("cli", r1.exit_code, r2.exit_code))
        want = T.real_format(T.val(a, drop_tags=True), "agp")["ok"]
        if r1.exit_code != 0 or r2.exit_code != 0 or r2.output != want:
            out.oracle_fail("cli-asm-format", {"agp": t["ok"]}, "asm-format AGP -> TPF -> AGP changed more than dropping tags")


def check_cli_files(ctx, count):
    """asm-format with several input files and --output-file: every data line of every input file yields one row in the output"""
    import fasta_lib as F
    from click.testing import CliRunner
    from tola.assembly.scripts.asm_format import cli
    out, rng = ctx.out, ctx.rng
    with F.Scratch() as sc:
        for i in range(count):
            d = sc.path / f"c05_{i}"; d.mkdir()
            k = rng.randint(1, 3)
            texts, nlines = [], 0
            in_fmt = rng.choice(["agp", "tpf"]); out_fmt = rng.choice(["agp", "tpf"])
            args = []
            # file naming: different stems; the SAME stem in different directories (hap1/curated.agp hap2/curated.agp); --name given
            # (every input then carries the same assembly name) — none of which may drop a line
            naming = rng.choice(["distinct", "distinct", "same-stem", "name-option"])
            for j in range(k):
                a = T.rand_assembly(rng, "both")
                a["header"] = []
                for s_ in a["scaffolds"]:
                    s_["name"] = f"f{j}_" + s_["name"].replace("#", "h")
                t = T.real_format(a, in_fmt)["ok"]
                if naming == "same-stem":
                    (d / f"dir{j}").mkdir()
                    fp = d / f"dir{j}" / f"curated.{in_fmt}"
                else:
                    fp = d / f"in{j}.{in_fmt}"
                fp.write_text(t)
                args.append(str(fp))
                nlines += len([l for l in t.splitlines() if l.strip() and not l.startswith("#")])
                texts.append(t)
            outp = d / f"out.{out_fmt}"
            extra = ["-n", "asm"] if naming == "name-option" else []
            r = CliRunner().invoke(cli, args + extra + ["-o", str(outp)])
            inp = {"inputs": texts, "in_fmt": in_fmt, "out_fmt": out_fmt, "file_naming": naming}
            # the same run through the model of the CLI (Model/AsmFormat.lean): text written to the output file and exception class
            if ctx.driver:
                from pathlib import Path as _P
                req = {"id": 0, "kind": "asmformat", "input_format": None, "output_file": outp.name, "format": None,
                       "name": ("asm" if naming == "name-option" else None), "qc": False,
                       "files": [{"name": _P(a_).name, "text": t_} for a_, t_ in zip(args, texts)], "stdin": ""}
                m = ctx.driver.batch([req])[0]
                real_run = {"written": outp.read_text() if outp.exists() else "", "error": (conv.errkind(r.exception) if r.exception is not None and not isinstance(r.exception, SystemExit) else None)}
                out.compare("cli-files:model", inp, real_run, {"written": m["written"], "error": m["error"]}, ("asmformat", k, in_fmt, out_fmt, naming))
            out.case("cli-files", inp, ("cli-files", k, in_fmt, out_fmt, naming, r.exit_code))
            if r.exit_code != 0 or not outp.exists():
                out.oracle_fail("cli-files", inp, f"asm-format failed on well-formed files (exit {r.exit_code})")
                continue
            got = len([l for l in outp.read_text().splitlines() if l.strip() and not l.startswith("#")])
            if got != nlines:
                out.oracle_fail("cli-files", inp, f"{nlines} data lines in {k} input file(s) yielded {got} rows in the output file (lines silently dropped)")


def run(ctx):
    rng = ctx.rng
    n = 16 if ctx.thorough else 1
    check_cli_files(ctx, 40 * n)
    check_roundtrip(ctx, "wf-both", [T.rand_assembly(rng, "both") for _ in range(300 * n)], "both")
    check_roundtrip(ctx, "wf-agp", [T.rand_assembly(rng, "agp") for _ in range(300 * n)], "agp")
    check_roundtrip(ctx, "loose", [T.rand_assembly(rng, "loose") for _ in range(200 * n)], "loose")
    check_corruptions(ctx, "corrupted-lines", [T.rand_assembly(rng, "both") for _ in range(400 * n)])
    check_cli(ctx, [T.rand_assembly(rng, "both") for _ in range(30 * n)])


def search(ctx, broken):
    n0 = len(ctx.out.oracle_failures)
    saved, ctx.driver = ctx.driver, None
    try:
        check_roundtrip(ctx, "search-both", [T.rand_assembly(ctx.rng, "both") for _ in range(2500)], "both")
        check_roundtrip(ctx, "search-agp", [T.rand_assembly(ctx.rng, "agp") for _ in range(2500)], "agp")
        check_corruptions(ctx, "search-corrupt", [T.rand_assembly(ctx.rng, "both") for _ in range(2000)])
    finally:
        ctx.driver = saved
    new = [f for f in ctx.out.oracle_failures[n0:] if not f.get("finding")]
    return min(new, key=lambda f: len(str(f["input"]))) if new else None


def replay(ctx, payload):
    inp = payload["input"]
    ctx.out.oracle_failures.clear()
    if "asm" in inp:
        check_roundtrip(ctx, "replay", [inp["asm"]], "both")
    return {"fails": bool(ctx.out.oracle_failures or ctx.out.disagreements), "oracle": ctx.out.oracle_failures, "disagreements": ctx.out.disagreements[:3]}

LEVEL_NOTE = "; ".join(TRUSTED)
LEVEL_NOTE = LEVEL_NOTE + ' NEW: the asm-format CLI is in the model (Model/AsmFormat.lean: format selection, universal newlines, several input files into one output, error timing); `asm_format_agp_identity`, `asm_format_agp_tpf_agp(_text)`, `asm_format_line_or_error(_files)`, `in_place_run_loses_everything` (Properties/C05Cli.lean); tie: `cli-files:model` stream (output text + exception class)'
