"""C07 — every join carries a gap and retained neighbours keep their input gap."""
import remap_lib as R

EXTRA_ANCHORS = ['assembly/scripts/pretext_to_asm.py']      # files outside the property's anchors whose change escalates the quick budget (T3)
LEVEL = "proof"
RULE = ('all C01 streams for the all-inputs clauses (gapless adjacency only if adjacent in input; no terminal gaps) + PretextView-model scripts incl. unpainted scaffolds with trailing contigs inside the final partial texel, absent scaffolds, cut contigs, for the gap-identity clause. Non-trivial = distinct (kind, #pieces, cuts, breaks, joins, #assemblies | error).')
TRUSTED = ['correspondence harness props/C07.py + remap_lib.py: real BuildAssembly pipeline vs Lean `remap` on the projection `proj_rows`', 'modelled not verified: Python dict/set/sort semantics as in Model/Py.lean; object identity by object ids; PretextView edit-script model (spec side)']
ASSUMPTIONS = ['remapping completes (errors are not in scope)']
LEVEL_NOTE = "both sentences proved end to end over the model for ALL Pretext files: `remap_no_terminal_gaps`, `remap_adjacent_only_from_input` (distinct row objects, join gap configured), `remap_gap_rows_from_input_or_join`, `remap_gap_runs` (every run of gap rows between two output contigs is exactly the join gap or exactly the gap rows the input has between the same two facing contig ends, reversed when read backwards) and `remap_non_neighbours_join_gap`; no side condition on the map since fix 9be92a2 (before it the second sentence was false for maps that placed a contig lying between two left-over contigs); tie = differential correspondence on complete row lists"
EXPLANATION = 'adjacency/terminal-gap theorems over the model; tie by correspondence on complete row lists; oracle = facing-end adjacency + gap identity.'
PROJ = R.proj_rows


def oracle(c, real):
    if "err" in real:
        return []
    return R.oracle_gaps(c["input"], real, pretextview=(c["kind"] in ("script", "null", "nullp")))

KW = {}
CLASSIFY = None


def streams(ctx):
    n = 12 if ctx.thorough else 1
    return [("scripts", "script", 600 * n), ("null-maps", "null", 150 * n), ("null-tight", "nulltight", 150 * n), ("tight-scripts", "tightscript", 300 * n), ("same-named-contigs", "dupnames", 150 * n), ("perturbed", "perturbed", 250 * n), ("arbitrary-baits", "baits", 200 * n),
            ("tagged", "tagged", 150 * n)]


def gen(ctx, kind):
    return R.make_case(ctx.rng, kind, **KW.get(kind, {}))


def classify(c, real, msg):
    return CLASSIFY(c, real, msg) if CLASSIFY else None


def run(ctx):
    for stream, kind, n in streams(ctx):
        cases = [gen(ctx, kind) for _ in range(n)]
        R.run_cases(ctx, stream, cases, PROJ, oracle, classify)
    # history: the same maps remapped AFTER other maps of the same input on ONE IndexedAssembly object (in-process state must not matter)
    hk = ['script', 'tightscript', 'tagged']
    R.run_history_cases(ctx, "object-history", [R.make_case(ctx.rng, ctx.rng.choice(hk)) for _ in range(240 if ctx.thorough else 40)], PROJ, oracle, (classify if "classify" in globals() else None))
    # the command-line tool end to end on a sample of the same generators: what is proved / compared about the in-memory result holds for the FILES
    # only if the tool finishes whenever the remap does and writes every assembly with exactly its scaffolds (waves 11-12)
    cli_cases = [gen(ctx, kind) for stream, kind, n in streams(ctx) for _ in range(max(3, n // 100))]
    cli_cases += [R.make_case(ctx.rng, ctx.rng.choice(["primarymode", "primarynames"])) for _ in range(60 if ctx.thorough else 12)]     # merged all_haplotigs files (wave 13, C07k)
    R.run_cli_cases(ctx, "cli-end-to-end", cli_cases, (classify if "classify" in globals() else None),
                    only=["CLI exit", "CLI succeeded", "output file", "does not contain exactly", "unexpected assembly files"])


def search(ctx, broken):
    n0 = len(ctx.out.oracle_failures)
    saved, ctx.driver = ctx.driver, None
    try:
        for stream, kind, n in streams(ctx):
            R.run_cases(ctx, "search-" + stream, [gen(ctx, kind) for _ in range(2500)], PROJ, oracle, classify)
            if [f for f in ctx.out.oracle_failures[n0:] if not f.get("finding")]:
                break
    finally:
        ctx.driver = saved
    new = [f for f in ctx.out.oracle_failures[n0:] if not f.get("finding")]
    return min(new, key=lambda f: len(str(f["input"]))) if new else None


def shrink(ctx, failure):
    fid = failure.get("finding")
    def still(inp):
        real = R.real_remap(inp["input"], inp["ptx"], inp["bpt"])
        msgs = oracle(inp, real)
        return bool(msgs) and (classify(inp, real, msgs[0]) == fid)
    return R.shrink_case(ctx, failure, still)


def replay(ctx, payload):
    inp = payload["input"]
    real = R.real_remap(inp["input"], inp["ptx"], inp["bpt"])
    msgs = oracle(inp, real)
    return {"fails": bool(msgs), "oracle": msgs, "real": real}
