"""C03 — FASTA output is exactly the output AGP applied to the input FASTA."""
import io, os, re
import conv
import fasta_lib as F

LEVEL = "proof"
RULE = ("random well-formed FASTA (1-5 records, width 1..70, LF/CRLF, N-runs, IUPAC) x random assemblies over the records (mid-line starts/ends, "
        "strands +,-,?, gaps 0..3 buffers) x buffer sizes {1,2,3,5,7,w+-1,len+-1,10^6} x output line lengths 1..80; plus the pretext-to-asm CLI end to end "
        "(written .fa re-derived from written .agp + input FASTA). Non-trivial = distinct (#rows, strand mix, buffer class, width class, wraps across rows).")
TRUSTED = ["correspondence harness props/C03.py + fasta_lib.py: FastaStream.write_assembly vs Lean streamAssembly byte for byte (plus chunk and read sizes)",
           "modelled not verified: BytesIO/file read/seek semantics; click CLI glue (exercised end to end, not modelled)"]
ASSUMPTIONS = ["rows lie within the indexed sequences", "buffer size and line length >= 1"]
EXPLANATION = "stream_scaffold_eq over the Lean model; tie by byte-level correspondence; oracle = independent re-derivation from records."


def gen(rng):
    recs = F.rand_records(rng)
    wi = rng.choice([1, 2, 3, 7, 10, 60, 61, rng.randint(1, 70)])
    le = rng.choice([b"\n", b"\n", b"\r\n"])
    fin = rng.random() < 0.8
    data = F.render(recs, wi, le, fin)
    idx, _ = F.expected_index(recs, wi, le, fin)
    n = max(len(r["seq"]) for r in recs)
    bs = rng.choice([1, 2, 3, 5, 7, max(1, wi - 1), wi + 1, max(1, n - 1), n + 1, 10**6])
    w = rng.choice([1, 2, 3, 59, 60, 61, 80, rng.randint(1, 80)])
    gb = bs if bs <= 150 else 7
    scs = F.rand_scaffolds_over(rng, recs, big_gaps=[0, 1, 2, gb, gb + 1, 2 * gb, 3 * gb + 1, 60, 200])
    return {"recs": recs, "data": data, "index": idx, "scaffolds": scs, "bs": bs, "w": w}


def check(ctx, stream, cases):
    out = ctx.out
    reqs = [{"id": i, "kind": "stream", "file": list(c["data"]), "index": c["index"], "scaffolds": c["scaffolds"], "bs": c["bs"], "w": c["w"]} for i, c in enumerate(cases)]
    model = ctx.driver.batch(reqs) if ctx.driver else [None] * len(reqs)
    with F.Scratch() as sc:
        for c, m in zip(cases, model):
            real = F.real_stream(c["data"], c["index"], c["scaffolds"], c["bs"], c["w"], sc)
            inp = {"fasta": c["data"].decode("latin-1"), "index": c["index"], "scaffolds": c["scaffolds"], "bs": c["bs"], "w": c["w"]}
            nrows = sum(len(s["rows"]) for s in c["scaffolds"])
            key = (min(nrows, 8), tuple(sorted({r.get("strand", 9) for s in c["scaffolds"] for r in s["rows"]})), min(c["bs"], 8), min(c["w"], 8))
            if m is not None:
                out.compare(stream, inp, real, m, key)
            else:
                out.case(stream, inp, key)
            if "err" in real:
                out.oracle_fail(stream, inp, f"streaming failed: {real['err']}")
                continue
            got = bytes(real["ok"]["out"])
            exp = F.expected_stream(c["recs"], c["scaffolds"], c["w"])
            if got != exp:
                out.oracle_fail(stream, inp, "FASTA output differs from rows applied to the input FASTA (N gaps, revcomp minus rows, wrapped)",
                                detail={"got": got.decode("latin-1")[:300], "expected": exp.decode("latin-1")[:300]})
                continue
            # AGP written beside it: object length = record length
            from tola.assembly.format import format_agp
            from tola.assembly.assembly import Assembly
            buf = io.StringIO()
            format_agp(Assembly("x", scaffolds=[conv.to_real_scaffold(s) for s in c["scaffolds"]]), buf)
            ends = {}
            for l in buf.getvalue().splitlines():
                f = l.split("\t")
                ends[f[0]] = int(f[2])
            recl = {}
            cur = None
            for l in got.split(b"\n"):
                if l.startswith(b">"):
                    cur = l[1:].decode(); recl[cur] = 0
                elif cur is not None:
                    recl[cur] += len(l)
            for nm, n in recl.items():
                if ends.get(nm, 0) != n:
                    out.oracle_fail(stream, inp, f"AGP object length {ends.get(nm)} != FASTA record length {n} for {nm}")
                    break


def cli_case(ctx, rng, sc):
    """pretext-to-asm end to end: FASTA in, FASTA + AGP out; re-derive the .fa from the .agp and the input FASTA"""
    import remap_lib as R
    from click.testing import CliRunner
    from tola.assembly.scripts.pretext_to_asm import cli
    recs = F.rand_records(rng, nrec=rng.randint(1, 4), maxlen=400)
    for r in recs:
        r["name"] = r["name"].replace("HAP1_SCAFFOLD_", "scaf")
    primary_mode = rng.random() < 0.12
    if primary_mode:
        # a combined map of three haplotypes of which one is curated (`Primary` tag): the other curated assemblies are merged into
        # the all_haplotigs file by name_assemblies
        recs = F.rand_records(rng, nrec=3, maxlen=300)
        for i, r in enumerate(recs):
            r["name"] = f"HAP{i+1}_SCAFFOLD_1"
            r["seq"] = bytes(rng.choice(b"ACGT") for _ in range(rng.randint(30, 200)))
    wi = rng.choice([7, 60, 61])
    data = F.render(recs, wi, rng.choice([b"\n", b"\r\n"]), rng.random() < 0.8)
    d = sc.path / f"cli{rng.randint(0, 10**9)}"
    d.mkdir()
    fa = d / "in.fa"
    history = None
    if rng.random() < 0.45:
        # the input FASTA REPLACED an earlier file of the same name that had been indexed (cache files beside it): same record names,
        # other residues / line width.  Time stamps (set explicitly): cache older than the new FASTA, EQUAL to it (whole-second file
        # systems, tar/rsync -t), or only one of the two cache files "fresh" (samtools faidx rewrote the .fai).  The run must describe
        # the file as it is now.
        import os
        from tola.fasta.index import FastaIndex
        old_recs = [{"name": r["name"], "desc": r.get("desc"), "seq": bytes(rng.choice(b"ACGTN") for _ in range(max(1, len(r["seq"]) + rng.randint(-3, 9))))} for r in recs]
        fa.write_bytes(F.render(old_recs, rng.choice([5, 50, 60]), b"\n", True))
        os.utime(fa, (1000, 1000))
        try:
            f0 = FastaIndex(fa); f0.auto_load(); f0.fasta_fileandle.close()
            history = rng.choice(["cache-older", "cache-equal", "fai-fresh-only", "agp-fresh-only"])
            t_cache = {"cache-older": 1500, "cache-equal": 2000}.get(history, 1500)
            os.utime(f0.fai_file, (t_cache, t_cache)); os.utime(f0.agp_file, (t_cache, t_cache))
            if history == "fai-fresh-only":
                os.utime(f0.fai_file, (2500, 2500))
            if history == "agp-fresh-only":
                os.utime(f0.agp_file, (2500, 2500))
        except Exception:
            history = None
    fa.write_bytes(data)
    if history:
        import os
        os.utime(fa, (2000, 2000))
    _, inp = F.expected_index(recs, wi)
    inp = [s for s in inp if any(r["t"] == "F" for r in s["rows"])]
    if not inp:
        return
    bpt = rng.choice(["1", "3", "10.75"])
    ptx, _ = R.pretext_script(rng, inp, bpt)
    if primary_mode:
        import conv
        ptx = [conv.jscaffold(f"Scaffold_{i+1}", [conv.jfrag(0, s_["name"], 1, R.slen(s_["rows"]), 1, ["Painted"] + (["Primary"] if i == 0 else []))])
               for i, s_ in enumerate(inp)]
        bpt = "1"
    if not ptx:
        return
    lines = ["##agp-version\t<NA>", f"# HiC MAP RESOLUTION: {bpt} bp/texel"]
    for ps in ptx:
        p = 0
        for i, r in enumerate(ps["rows"]):
            ln = R.flen(r)
            if r["t"] == "G":
                lines.append("\t".join([ps["name"], str(p + 1), str(p + ln), str(i + 1), "U", str(ln), "scaffold", "yes", "proximity_ligation"]))
            else:
                lines.append("\t".join([ps["name"], str(p + 1), str(p + ln), str(i + 1), "W", r["name"], str(r["start"]), str(r["end"]),
                                        "+" if r["strand"] == 1 else "-"] + r["tags"]))
            p += ln
    (d / "ptx.agp").write_text("\n".join(lines) + "\n")
    res = CliRunner().invoke(cli, ["-a", str(fa), "-p", str(d / "ptx.agp"), "-o", str(d / "out.fa")])
    inp_desc = {"fasta": data.decode("latin-1"), "pretext_agp": "\n".join(lines), "bpt": bpt, "cache_history": history}
    ctx.out.case("cli-end-to-end", inp_desc, ("cli", len(recs), res.exit_code, history))
    if res.exit_code != 0:
        ctx.out.count("cli-nonzero-exit")
        return
    seqs = {r["name"]: r["seq"] for r in recs}
    for fa_out in d.glob("out.*.fa"):
        agp = fa_out.with_suffix(".agp")
        if not agp.exists():
            ctx.out.oracle_fail("cli-end-to-end", inp_desc, f"no AGP written beside {fa_out.name}")
            continue
        exp, names = bytearray(), []
        body, cur = bytearray(), None
        def flush():
            nonlocal body
            if cur is not None:
                exp.extend(b">" + cur.encode() + b"\n")
                for i in range(0, len(body), 60):
                    exp.extend(body[i:i + 60] + b"\n")
            body = bytearray()
        for l in agp.read_text().splitlines():
            if not l.strip() or l.startswith("#"):
                continue
            f = l.split("\t")
            if f[0] != cur:
                flush(); cur = f[0]; names.append(cur)
            if f[4] == "U":
                body += b"N" * int(f[5])
            else:
                piece = seqs[f[5]][int(f[6]) - 1:int(f[7])]
                body += F.spec_revcomp(piece) if f[8] == "-" else piece
        flush()
        got = fa_out.read_bytes()
        rec_names = [l[1:].decode() for l in got.split(b"\n") if l.startswith(b">")]
        dup = len(set(rec_names)) != len(rec_names)
        if got != bytes(exp) and not dup:        # with duplicate object names the AGP cannot be re-read object by object
            ctx.out.oracle_fail("cli-end-to-end", inp_desc, f"{fa_out.name} is not its AGP applied to the input FASTA")
        if dup or len(set(names)) != len(names):
            # F21: the `Primary` branch of name_assemblies merges ALL other curated assemblies into all_haplotigs; names are only
            # unique within each of them
            fnd = "F21-all-haplotigs-merge-duplicate-names" if ("all_haplotigs" in fa_out.name and primary_mode) else None
            ctx.out.oracle_fail("cli-end-to-end", inp_desc, f"record names not unique in {fa_out.name}", finding=fnd)


def run(ctx):
    n = 16 if ctx.thorough else 1
    check(ctx, "stream-random", [gen(ctx.rng) for _ in range(500 * n)])
    with F.Scratch() as sc:
        for _ in range(40 * n):
            cli_case(ctx, ctx.rng, sc)


def search(ctx, broken):
    n0 = len(ctx.out.oracle_failures)
    saved, ctx.driver = ctx.driver, None
    try:
        check(ctx, "search-stream", [gen(ctx.rng) for _ in range(3000)])
    finally:
        ctx.driver = saved
    new = [f for f in ctx.out.oracle_failures[n0:] if not f.get("finding")]
    return min(new, key=lambda f: len(str(f["input"]))) if new else None


def replay(ctx, payload):
    inp = payload["input"]
    if "pretext_agp" in inp:
        return {"fails": True, "note": "CLI case: write the stored fasta + pretext_agp to a directory and run pretext-to-asm -o out.fa", "input": inp}
    data = inp["fasta"].encode("latin-1")
    recs, cur = [], None
    for l in data.replace(b"\r\n", b"\n").split(b"\n"):
        if l.startswith(b">"):
            cur = {"name": l[1:].split()[0].decode(), "seq": b""}; recs.append(cur)
        elif cur is not None:
            cur["seq"] += l
    c = {"recs": recs, "data": data, "index": inp["index"], "scaffolds": inp["scaffolds"], "bs": inp["bs"], "w": inp["w"]}
    ctx.out.oracle_failures.clear()
    check(ctx, "replay", [c])
    return {"fails": bool(ctx.out.oracle_failures or ctx.out.disagreements), "oracle": ctx.out.oracle_failures, "disagreements": ctx.out.disagreements}


LEVEL_NOTE = "; ".join(TRUSTED) + '. NEW (T1b): `sequence_bytes` is translated from the current source into a seek/read plan and the model is proved equal to that plan run on a file cursor (`sequence_bytes_plan_eq`, `source_sequence_bytes_slice` in Properties/C03Source.lean)'

LEVEL_NOTE = LEVEL_NOTE + " NEW: `Properties/C03Cli.lean` — a whole `pretext-to-asm -o x.fa` run composed end to end: `cli_written_files` (each named assembly → its .fa and the .agp beside it from the SAME scaffolds), `cli_fasta_records_are_scaffolds`, `cli_fasta_record_names_unique` (under C10's hypotheses + `MergeDisjoint`; without it FALSE: open finding F21), `cli_agp_beside_fasta_same_rows`, `cli_fasta_reindexes`, `cli_every_base_of_every_record`, `fasta_cli_end_to_end`"
