"""C19 — overlap QC = overlapping contig pairs; predicate algebra."""
import io, itertools, re
import conv
from common import canon

LEVEL = "proof"
RULE = ("exhaustive interval pairs over [0,6]^2 x [0,6]^2 x same/different name x strands; random assemblies with duplicate, nested, "
        "abutting, disjoint intervals; asm-format --qc-overlaps through the CLI. Non-trivial = distinct (relation class: overlap/abut/gap/"
        "different-name, nesting) x size signature.")
TRUSTED = ["correspondence harness (harness/props/C19.py): real Fragment predicates and Assembly.find_overlapping_fragments vs the Lean defs",
           "modelled not verified: click output of report_overlaps (parsed back from stderr)"]
ASSUMPTIONS = ["Fragment start <= end (enforced by Fragment.__init__)"]
EXPLANATION = "Lean theorems over all integers for the predicate algebra and the all-vs-all scan; model tied to the code by exhaustive small-scope + random correspondence."


def brute(a, b):
    """independent statement on base sets"""
    same = a["name"] == b["name"]
    sa = set(range(a["start"], a["end"] + 1))
    sb = set(range(b["start"], b["end"] + 1))
    inter = sa & sb
    ov = same and bool(inter)
    ol = len(inter) if ov else None
    if not same:
        return ov, ol, False, None
    if inter:
        return ov, ol, False, None
    lo, hi = (a, b) if a["end"] < b["start"] else (b, a)
    g = hi["start"] - lo["end"] - 1
    return ov, ol, g == 0, g


def real_pred(a, b):
    from tola.assembly.fragment import Fragment
    fa = Fragment(a["name"], a["start"], a["end"], a["strand"])
    fb = Fragment(b["name"], b["start"], b["end"], b["strand"])
    try:
        jt = {"ok": list(fa.junction_tuple(fb))}
    except Exception as e:
        jt = {"err": conv.errkind(e)}
    return {"overlaps": fa.overlaps(fb), "overlap_length": fa.overlap_length(fb), "abuts": fa.abuts(fb),
            "gap_between": fa.gap_between(fb), "junction": jt}


def check_pairs(ctx, stream, pairs):
    out = ctx.out
    reqs = [{"id": i, "kind": "pred", "a": a, "b": b} for i, (a, b) in enumerate(pairs)]
    model = ctx.driver.batch(reqs) if ctx.driver else [None] * len(reqs)
    for (a, b), m in zip(pairs, model):
        r = real_pred(a, b)
        ov, ol, ab, g = brute(a, b)
        cls = ("diff" if a["name"] != b["name"] else "ov" if ov else "abut" if ab else "gap", min(ol or 0, 3), a["strand"], b["strand"])
        inp = {"a": a, "b": b}
        if m is not None:
            out.compare(stream, inp, r, m, cls)
        else:
            out.case(stream, inp, cls)
        # oracle on the real code
        bad = []
        if r["overlaps"] != ov:
            bad.append("overlaps")
        if r["overlap_length"] != ol:
            bad.append("overlap_length")
        if r["abuts"] != ab:
            bad.append("abuts")
        exp_gap = None if (a["name"] != b["name"] or ov) else g
        if r["gap_between"] != exp_gap:
            bad.append("gap_between")
        from tola.assembly.fragment import Fragment
        fa = Fragment(a["name"], a["start"], a["end"], a["strand"])
        fb = Fragment(b["name"], b["start"], b["end"], b["strand"])
        if fa.overlaps(fb) != fb.overlaps(fa):
            bad.append("symmetry")
        if a["name"] == b["name"]:
            n = [bool(r["overlaps"]), bool(r["abuts"]), (r["gap_between"] or 0) > 0]
            if sum(n) != 1:
                bad.append("trichotomy")
        if bad:
            out.oracle_fail(stream, inp, "predicate(s) disagree with base-set arithmetic: " + ",".join(bad))


def rand_assembly(rng, nsc=3, nrows=5, names=("a", "b", "c"), span=30):
    scs, oid = [], 0
    for s in range(rng.randint(1, nsc)):
        rows = []
        for r in range(rng.randint(0, nrows)):
            if rows and rng.random() < 0.3:
                rows.append(conv.jgap(rng.choice([1, 5, 200])))
            st = rng.randint(1, span)
            ln = rng.choice([1, 1, 2, 5, rng.randint(1, span)])
            rows.append(conv.jfrag(oid, rng.choice(names), st, st + ln - 1, rng.choice([1, -1, 0])))
            oid += 1
        scs.append(conv.jscaffold(f"s{s+1}", rows))
    return scs


def scan_oracle(scs):
    frags = [r for s in scs for r in s["rows"] if r["t"] == "F"]
    res = []
    for i in range(len(frags)):
        for j in range(i + 1, len(frags)):
            a, b = frags[i], frags[j]
            if a["name"] == b["name"] and max(a["start"], b["start"]) <= min(a["end"], b["end"]):
                res.append([a["oid"], b["oid"]])
    return res


def real_scan(scs):
    from tola.assembly.assembly import Assembly
    rs = [conv.to_real_scaffold(s) for s in scs]
    # rows with the same oid are ONE Fragment object placed several times (append_scaffold, Scaffold(rows=...) and lookups share row
    # objects): a placement is a fragment of the assembly in its own right
    first = {}
    for s, js in zip(rs, scs):
        for k, jr in enumerate(js["rows"]):
            if jr["t"] == "F":
                if jr["oid"] in first:
                    s.rows[k] = first[jr["oid"]]
                else:
                    first[jr["oid"]] = s.rows[k]
    oid_of = {}
    for s, js in zip(rs, scs):
        for r, jr in zip(s.rows, js["rows"]):
            if jr["t"] == "F":
                oid_of[id(r)] = jr["oid"]
    asm = Assembly("x", scaffolds=rs)
    pairs = asm.find_overlapping_fragments()
    # a pair may (wrongly) contain a fragment object that is not part of this assembly: give it an id nothing matches
    return [[oid_of.get(id(p[0][0]), -7), oid_of.get(id(p[1][0]), -7)] for p in (pairs or [])], (pairs is None)


def check_scans(ctx, stream, asms):
    out = ctx.out
    reqs = [{"id": i, "kind": "ovpairs", "scaffolds": a} for i, a in enumerate(asms)]
    model = ctx.driver.batch(reqs) if ctx.driver else [None] * len(reqs)
    for a, m in zip(asms, model):
        r, none = real_scan(a)
        exp = scan_oracle(a)
        key = (len(exp), len([1 for s in a for _ in s["rows"]]))
        if m is not None:
            out.compare(stream, a, r, m, key)
        else:
            out.case(stream, a, key)
        # as multisets (a shared object gives equal id pairs for different placements; `exp` lists every unordered pair of placements once)
        if sorted(map(tuple, r)) != sorted(map(tuple, exp)):
            out.oracle_fail(stream, a, "scan result differs from brute-force set of overlapping same-name pairs",
                            detail={"real": r, "expected": exp})
        if none != (len(exp) == 0):
            out.oracle_fail(stream, a, "None returned iff no overlaps violated")


def agp_text(scs):
    lines = []
    for s in scs:
        p = 0
        for i, r in enumerate(s["rows"]):
            if r["t"] == "G":
                lines.append("\t".join([s["name"], str(p + 1), str(p + r["len"]), str(i + 1), "U", str(r["len"]), r["type"], "yes", "proximity_ligation"]))
                p += r["len"]
            else:
                ln = r["end"] - r["start"] + 1
                lines.append("\t".join([s["name"], str(p + 1), str(p + ln), str(i + 1), "W", r["name"], str(r["start"]), str(r["end"]), {1: "+", -1: "-", 0: "?"}[r["strand"]]]))
                p += ln
    return "\n".join(lines) + "\n"


def check_cli(ctx, stream, asms):
    from click.testing import CliRunner
    from tola.assembly.scripts.asm_format import cli
    out = ctx.out
    for a in asms:
        a = [s for s in a if s["rows"]]
        if not a:
            continue
        # distinct consecutive scaffold names are given by the generator
        txt = agp_text(a)
        try:
            res = CliRunner(mix_stderr=False).invoke(cli, ["--qc-overlaps", "-i", "AGP", "-f", "AGP"], input=txt)
        except TypeError:
            res = CliRunner().invoke(cli, ["--qc-overlaps", "-i", "AGP", "-f", "AGP"], input=txt)
        err = res.stderr if hasattr(res, "stderr") else res.output
        got = re.findall(r"Overlap:\n(\S+) (\S+):(\d+)-(\d+)\([+\-.]\)\n(\S+) (\S+):(\d+)-(\d+)\([+\-.]\)", err)
        got = sorted((g[1], int(g[2]), int(g[3]), g[5], int(g[6]), int(g[7])) for g in got)
        frag = {r["oid"]: r for s in a for r in s["rows"] if r["t"] == "F"}
        exp = sorted((frag[x]["name"], frag[x]["start"], frag[x]["end"], frag[y]["name"], frag[y]["start"], frag[y]["end"]) for x, y in scan_oracle(a))
        # the model of the CLI (Model/AsmFormat.lean): the report text printed to STDERR and the AGP written to STDOUT
        if ctx.driver and hasattr(res, "stderr"):
            m = ctx.driver.batch([{"id": 0, "kind": "asmformat", "input_format": "AGP", "output_file": None, "format": "AGP", "name": None, "qc": True,
                                   "files": [], "stdin": txt}])[0]
            out.compare(stream + ":model", {"agp": txt}, {"stdout": res.stdout, "stderr": err, "error": (conv.errkind(res.exception) if res.exception is not None and not isinstance(res.exception, SystemExit) else None)},
                        {"stdout": m["written"], "stderr": "".join(x + "\n" for x in []) + "".join(m["reports"]), "error": m["error"]}, ("cli-model", len(exp)))
        else:
            out.case(stream, {"agp": txt}, ("cli", len(exp)))
        if res.exit_code != 0 or got != exp:
            out.oracle_fail(stream, {"agp": txt}, "asm-format --qc-overlaps report differs from brute-force pairs",
                            detail={"got": got, "expected": exp, "exit": res.exit_code})


def run(ctx):
    rng = ctx.rng
    lim = 6 if ctx.thorough else 4
    ivs = [(s, e) for s in range(0, lim + 1) for e in range(s, lim + 1)]
    pairs = []
    for (s1, e1), (s2, e2) in itertools.product(ivs, ivs):
        for nb in ("c", "d"):
            for st in ((1, 1), (1, -1), (-1, 1), (-1, -1)) if (s1 + e2) % 3 == 0 or ctx.thorough else ((1, 1),):
                pairs.append((conv.jfrag(0, "c", s1, e1, st[0]), conv.jfrag(1, nb, s2, e2, st[1])))
    check_pairs(ctx, "pred-exhaustive", pairs)
    ctx.out.exhaustive = True
    big = []
    for _ in range(2000 if ctx.thorough else 300):
        s1 = rng.randint(-10**12, 10**12); l1 = rng.choice([0, 1, rng.randint(0, 10**6)])
        d = rng.choice([-2, -1, 0, 1, 2, rng.randint(-10**6, 10**6)])
        s2 = s1 + l1 + d; l2 = rng.choice([0, 1, rng.randint(0, 10**6)])
        big.append((conv.jfrag(0, "c", s1, s1 + l1, rng.choice([1, -1, 0])), conv.jfrag(1, rng.choice(["c", "c", "d"]), s2, s2 + l2, rng.choice([1, -1, 0]))))
    check_pairs(ctx, "pred-random-large", big)
    asms = [rand_assembly(rng) for _ in range(3000 if ctx.thorough else 400)]
    check_scans(ctx, "scan-random", asms)
    # the same Fragment OBJECT placed twice (in two scaffolds or twice in one), also when every contig name is carried by one object only
    shared = []
    for _ in range(1500 if ctx.thorough else 250):
        a = rand_assembly(rng, names=(("a", "b", "c") if rng.random() < 0.5 else tuple("abcdefghijklmnop")))
        if rng.random() < 0.5:
            # every name on exactly one object
            seen = set()
            for s_ in a:
                s_["rows"] = [r for r in s_["rows"] if r["t"] != "F" or (r["name"] not in seen and not seen.add(r["name"]))]
            a = [s_ for s_ in a if any(r["t"] == "F" for r in s_["rows"])]
        frs = [(si, k) for si, s_ in enumerate(a) for k, r in enumerate(s_["rows"]) if r["t"] == "F"]
        if not frs:
            continue
        for _k in range(rng.randint(1, 2)):
            (si, k) = rng.choice(frs)
            src = a[si]["rows"][k]
            tj = rng.randrange(len(a))
            a[tj]["rows"].insert(rng.randint(0, len(a[tj]["rows"])), dict(src))
        shared.append(a)
    check_scans(ctx, "scan-shared-objects", shared)
    check_cli(ctx, "cli-qc-overlaps", asms[: (200 if ctx.thorough else 25)])


def search(ctx, broken):
    """oracle-only hunt on the real code when proof/correspondence is broken"""
    for f in ctx.out.oracle_failures:
        return f
    return None


def replay(ctx, payload):
    inp = payload["input"]
    ctx.out.oracle_failures.clear()
    if "a" in inp:
        check_pairs(ctx, "replay", [(inp["a"], inp["b"])])
    elif "agp" in inp:
        return {"fails": True, "note": "re-run CLI on the stored AGP text", "input": inp}
    else:
        check_scans(ctx, "replay", [inp])
    return {"fails": bool(ctx.out.oracle_failures or ctx.out.disagreements), "oracle": ctx.out.oracle_failures, "disagreements": ctx.out.disagreements}


LEVEL_NOTE = "; ".join(TRUSTED) + '. NEW (T1b): the four predicates are translated from the current source and the whole algebra (symmetry, intersection size, abut ⇔ gap 0, trichotomy) is proved for the translation (Properties/C19Source.lean)'

LEVEL_NOTE = LEVEL_NOTE + ' NEW: `qc_report_spec`, `qc_never_changes_output`, `qc_reports_of_run` (Properties/C19Cli.lean) over the CLI model; tie: the STDERR report text of `asm-format --qc-overlaps` compared with `reportOverlapsText`'
