"""C20 — scaffold ordering is total, numeric-aware and never fails."""
import itertools
import conv

EXTRA_ANCHORS = ['assembly/scripts/pretext_to_asm.py']      # the order scaffolds are written in is decided there too (merge of haplotypes)
LEVEL = "proof"
RULE = ("exhaustive names of length <=4 (thorough: <=5) over {I,V,X,1,0,_,a}; random names over letters/digits/_-. with I/V/X runs; all "
        "permutations of name sets <=5 through the real sort. Non-trivial = distinct token-shape signatures (text/num/numeral pattern).")
TRUSTED = ["correspondence harness props/C20.py (Assembly.name_natural_key / smart_sort_scaffolds vs Lean naturalKey / smartSort)",
           "modelled not verified: CPython `re.split`, tuple comparison, `sorted` stability; Unicode digits outside the modelled domain (generator is ASCII)"]
ASSUMPTIONS = ["names over ASCII letters, digits, '_', '-', '.' (the property's alphabet)"]
EXPLANATION = "Totality/consistency/numeric-awareness theorems in Lean over the tokeniser model; tie by exhaustive small names + random names + permutations."

ALPHA = "IVX10_a"


def real_keys(names):
    from tola.assembly.assembly import Assembly
    from tola.assembly.scaffold import Scaffold
    res = []
    for n in names:
        try:
            res.append({"ok": list(Assembly.name_natural_key(Scaffold(n)))})
        except Exception as e:
            res.append({"err": conv.errkind(e)})
    return res


def shape(key):
    if "err" in key:
        return "err"
    return tuple("t" if i % 2 == 0 else ("n" if True else "") for i, _ in enumerate(key["ok"]))[:7]


def check_names(ctx, stream, names):
    out = ctx.out
    model = ctx.driver.batch([{"id": 0, "kind": "natkey", "names": names}])[0] if ctx.driver else [None] * len(names)
    real = real_keys(names)
    for n, r, m in zip(names, real, model):
        key = (len(n), "".join("I" if c == "I" else "V" if c == "V" else "d" if c.isdigit() else "x" for c in n)[:6])
        if m is not None:
            out.compare(stream, {"name": n}, r, m, key)
        else:
            out.case(stream, {"name": n}, key)
        if "err" in r:
            out.oracle_fail(stream, {"name": n}, f"natural key raised {r['err']} (ordering must never fail)")
    return real


def order_oracles(ctx, stream, rng, count):
    """direct statements of the ordering clauses on the real code"""
    from tola.assembly.assembly import Assembly
    from tola.assembly.scaffold import Scaffold
    out = ctx.out
    K = lambda n: Assembly.name_natural_key(Scaffold(n))
    prefixes = ["SUPER_", "chr", "Scaffold_", "x.", "R", "a-", "_", "", "HAP1_SCAFFOLD_", "SUPER_Z", "V"]
    for _ in range(count):
        p = rng.choice(prefixes)
        m = rng.randint(0, 500); n = m + rng.randint(1, 500)
        sfx = rng.choice(["", "_unloc", "A", "x", "-b"])
        inp = {"prefix": p, "m": m, "n": n, "suffix": sfx}
        out.case(stream, inp, ("num", p, sfx))
        try:
            if not (K(p + str(m) + sfx) < K(p + str(n) + sfx)):
                out.oracle_fail(stream, inp, "embedded decimal numbers do not compare by value")
            c, c2 = p + str(m), p + str(n)
            k = rng.randint(1, 30)
            u = f"{c}_unloc_{k}"
            if not (K(c) < K(u) < K(c2)):
                out.oracle_fail(stream, inp, "unloc does not sort directly after its own chromosome and before the next")
            u2 = f"{c}_unloc_{k + rng.randint(1, 20)}"
            if not (K(u) < K(u2)):
                out.oracle_fail(stream, inp, "unlocs of one chromosome not in numeric order")
        except Exception as e:
            out.oracle_fail(stream, inp, f"comparison raised {conv.errkind(e)}")
    nums = ["I", "II", "III", "IV"]
    for p in prefixes:
        for sfx in ["", "_1", "L", "_unloc_2"]:
            inp = {"prefix": p, "suffix": sfx, "numerals": True}
            out.case(stream, inp, ("numeral", p, sfx))
            try:
                ks = [K(p + x + sfx) for x in nums]
                if not all(ks[i] < ks[i + 1] for i in range(3)):
                    out.oracle_fail(stream, inp, "nematode numerals I..IV do not compare by value")
            except Exception as e:
                out.oracle_fail(stream, inp, f"comparison raised {conv.errkind(e)}")


def perm_check(ctx, stream, sets):
    from tola.assembly.assembly import Assembly
    from tola.assembly.scaffold import Scaffold
    out = ctx.out
    reqs = []
    for names, ranks in sets:
        # a rank of None = a scaffold that was NEVER ranked: built as plain `Scaffold(name)`, the way the parsers and the FASTA indexer build theirs
        # (the model's structure default, rank 0, is what the source's constructor default must agree with)
        items = [{"name": n, "rank": 0 if r is None else r, "id": str(i)} for i, (n, r) in enumerate(zip(names, ranks))]
        reqs.append({"id": 0, "kind": "sort", "items": items, "smart": True})
    model = ctx.driver.batch(reqs) if ctx.driver else [None] * len(reqs)
    for (names, ranks), m in zip(sets, model):
        inp = {"names": names, "ranks": ranks}
        scs = []
        for i, (n, r) in enumerate(zip(names, ranks)):
            s = Scaffold(n) if r is None else Scaffold(n, rank=r)
            s.original_name = str(i); scs.append(s)
        try:
            asm = Assembly("x", scaffolds=list(scs)); asm.smart_sort_scaffolds()
            real = {"ok": [s.original_name for s in asm.scaffolds]}
        except Exception as e:
            real = {"err": conv.errkind(e)}
        if m is not None:
            out.compare(stream, inp, real, m, ("perm", len(names), len(set(ranks))))
        else:
            out.case(stream, inp, ("perm", len(names)))
        if "err" in real:
            out.oracle_fail(stream, inp, f"sorting raised {real['err']}")
            continue
        # consistency: every permutation gives the same (rank, key) sequence; rank takes precedence
        try:
            base = [(s.rank, Assembly.name_natural_key(s)) for s in asm.scaffolds]
            if [b[0] for b in base] != sorted(b[0] for b in base):
                out.oracle_fail(stream, inp, "rank does not take precedence over name")
            if len(names) <= 5:
                for perm in itertools.permutations(scs):
                    a2 = Assembly("x", scaffolds=list(perm)); a2.smart_sort_scaffolds()
                    if [(s.rank, Assembly.name_natural_key(s)) for s in a2.scaffolds] != base:
                        out.oracle_fail(stream, inp, "sort result depends on the initial order beyond equal keys")
                        break
        except Exception as e:
            out.oracle_fail(stream, inp, f"sorting raised {conv.errkind(e)}")


def rand_name(rng):
    parts = []
    for _ in range(rng.randint(1, 5)):
        k = rng.random()
        if k < 0.25:
            parts.append(str(rng.randint(0, 10**rng.randint(1, 6))).zfill(rng.choice([0, 0, 3])))
        elif k < 0.45:
            parts.append("I" * rng.randint(1, 5) + rng.choice(["", "", "V", "VV", "X"]))
        elif k < 0.55:
            parts.append(rng.choice(["V", "X", "IX", "VI", "XI"]))
        else:
            parts.append("".join(rng.choice("abcSUPERchr_-._") for _ in range(rng.randint(1, 6))))
    return "".join(parts)


def run(ctx):
    rng = ctx.rng
    maxlen = 5 if ctx.thorough else 4
    names = ["".join(t) for n in range(0, maxlen + 1) for t in itertools.product(ALPHA, repeat=n)]
    check_names(ctx, "names-exhaustive", names)
    ctx.out.exhaustive = True
    check_names(ctx, "names-random", [rand_name(rng) for _ in range(20000 if ctx.thorough else 2000)])
    order_oracles(ctx, "order-clauses", rng, 3000 if ctx.thorough else 400)
    long_names(ctx, 12 if ctx.thorough else 3)
    sets = []
    pool = ["SUPER_1", "SUPER_2", "SUPER_10", "SUPER_2_unloc_1", "SUPER_2_unloc_10", "SUPER_02", "SUPER_Z", "SUPER_W1", "I", "II", "IV", "V", "X",
            "scaffold_7", "H_1", "H_12", "a", "a1", "a01", "1a", "", "chrIII", "chrIV_2"]
    for _ in range(800 if ctx.thorough else 120):
        k = rng.randint(1, 5)
        ns = [rng.choice(pool) if rng.random() < 0.7 else rand_name(rng) for _ in range(k)]
        ns = [n for n in ns]
        sets.append((ns, [rng.choice([1, 1, 2, 3]) if rng.random() < 0.75 else None for _ in ns]))
    perm_check(ctx, "sort-permutations", sets)
    object_histories(ctx, 1500 if ctx.thorough else 250)
    unicode_names(ctx, 4000 if ctx.thorough else 600)
    # the order scaffolds are WRITTEN in: every output file of the command-line tool holds its assembly's scaffolds in the (rank, natural key)
    # order computed in memory — also the file that merges several haplotypes in Primary mode (each haplotype keeps its order; wave 13, C20k)
    import remap_lib as R
    cli_cases = [R.make_case(ctx.rng, k) for k in ("tagged", "tagged2", "primarymode", "primarynames", "primarynames", "primarynames") for _ in range(60 if ctx.thorough else 8)]
    R.run_cli_cases(ctx, "cli-file-order", cli_cases, None, only=["does not contain exactly", "unexpected assembly files", "output file"])


def long_names(ctx, reps):
    """the key has no bound on the number of tokens: names with 2 .. 1000 number / numeral tokens (every power of two and its
    neighbours on the way), key compared with the model and "numbers compare by value" checked on the LAST token"""
    from tola.assembly.assembly import Assembly
    from tola.assembly.scaffold import Scaffold
    rng, out = ctx.rng, ctx.out
    counts = sorted({n + d for n in (2, 4, 8, 16, 32, 64, 128, 256, 512, 1000) for d in (-1, 0, 1)} | {3, 100, 300, 700})
    names = []
    for n in counts:
        for _ in range(reps):
            toks = []
            for _i in range(n):
                toks.append(rng.choice(["_", "a", "chr", "-", "."]))
                toks.append(rng.choice([str(rng.randint(0, 99)), str(rng.randint(0, 9)).zfill(2), "I", "II", "III", "IV"]))
            base = "".join(toks[:-1])
            names.append(base + toks[-1])
            inp = {"prefix_tokens": n, "prefix": base}
            out.case("names-long", inp, ("long-order", n))
            try:
                a = Assembly("x", scaffolds=[Scaffold(base + "10"), Scaffold(base + "9"), Scaffold(base + "9_unloc_2"), Scaffold(base + "9_unloc_1")])
                got = [x.name[len(base):] for x in a.scaffolds_sorted_by_name()]
                if got != ["9", "9_unloc_1", "9_unloc_2", "10"]:
                    out.oracle_fail("names-long", inp, f"embedded decimal numbers do not compare by value after {n} earlier tokens: {got}")
            except Exception as e:
                out.oracle_fail("names-long", inp, f"comparison raised {conv.errkind(e)}")
    check_names(ctx, "names-long", names)


def unicode_names(ctx, count):
    """"succeeds for every set of names": names with characters that LOOK like digits or numerals to some string predicates but not to
    others (superscripts, subscripts, circled digits, vulgar fractions, Roman-numeral code points, Arabic-Indic and full-width digits).
    Outside the Lean model's ASCII domain, so this stream is REAL CODE ONLY: the key is built and sets are sorted without an exception,
    and the order does not depend on the initial order."""
    from tola.assembly.assembly import Assembly
    from tola.assembly.scaffold import Scaffold
    rng, out = ctx.rng, ctx.out
    odd = ["\u00b2", "\u00b3", "\u00b9", "\u2082", "\u2460", "\u00bd", "\u2163", "\u0663", "\uff12", "\u0969", "\u2075", "\u3007", "\u4e09"]
    parts = ["SUPER_", "chr", "_", "I", "II", "IV", "V", "X", "1", "2", "10", "02", "a", "_unloc_", "H_"] + odd + odd
    for _ in range(count):
        names = ["".join(rng.choice(parts) for _k in range(rng.randint(1, 4))) for _n in range(rng.randint(1, 4))]
        inp = {"names": names}
        out.case("unicode-names", inp, ("unicode", len(names)))
        try:
            scs = [Scaffold(n, rank=rng.choice([1, 2, 3])) for n in names]
            keys = [Assembly.name_natural_key(s_) for s_ in scs]
            a1 = Assembly("x", scaffolds=list(scs)); a1.smart_sort_scaffolds()
            a2 = Assembly("x", scaffolds=list(reversed(scs))); a2.smart_sort_scaffolds()
            k1 = [(s_.rank, Assembly.name_natural_key(s_)) for s_ in a1.scaffolds]
            k2 = [(s_.rank, Assembly.name_natural_key(s_)) for s_ in a2.scaffolds]
            a3 = Assembly("x", scaffolds=list(scs)); a3.scaffolds_sorted_by_name()
        except Exception as e:
            out.oracle_fail("unicode-names", inp, f"sorting / building the key raised {conv.errkind(e)}")
            continue
        if k1 != k2:
            out.oracle_fail("unicode-names", inp, "sort result depends on the initial order beyond equal keys")


def object_histories(ctx, count):
    """the same Scaffold objects sorted, renamed (as ChrNamer / rename_by_size do), and sorted again: the second order must be
    the order fresh objects with the new names would get"""
    from tola.assembly.assembly import Assembly
    from tola.assembly.scaffold import Scaffold
    out, rng = ctx.out, ctx.rng
    for _ in range(count):
        n = rng.randint(2, 14)
        names = [f"Scaffold_{i+1}" for i in range(n)]
        rng.shuffle(names)
        scs = [Scaffold(nm, rank=rng.choice([1, 1, 2, 3])) for nm in names]
        asm = Assembly("x", scaffolds=list(scs))
        script = []
        try:
            for step in range(rng.randint(1, 3)):
                if rng.random() < 0.5:
                    asm.scaffolds_sorted_by_name(); script.append("sorted_by_name")
                else:
                    asm.smart_sort_scaffolds(); script.append("smart_sort")
                # rename: chromosomes by a new numbering, some unlocs
                order = list(range(1, n + 1)); rng.shuffle(order)
                for s, k in zip(scs, order):
                    s.name = rng.choice(["SUPER_", "chr", ""]) + str(k) + (f"_unloc_{rng.randint(1, 12)}" if rng.random() < 0.2 else "")
                script.append("rename")
            asm.smart_sort_scaffolds()
            got = [(s.rank, s.name) for s in asm.scaffolds]
            fresh = Assembly("y", scaffolds=[Scaffold(s.name, rank=s.rank) for s in scs])
            fresh.smart_sort_scaffolds()
            keyf = lambda rn: (rn[0], Assembly.name_natural_key(Scaffold(rn[1])))
            want_keys = [keyf((s.rank, s.name)) for s in fresh.scaffolds]
            got_keys = [keyf(x) for x in got]
        except Exception as e:
            out.oracle_fail("object-histories", {"script": script, "names": [s.name for s in scs]}, f"sorting raised {conv.errkind(e)}")
            continue
        inp = {"script": script, "final": got}
        out.case("object-histories", inp, ("hist", tuple(script), n))
        if got_keys != want_keys:
            out.oracle_fail("object-histories", inp, "after renaming, the same scaffold objects sort differently from fresh objects with the same names (stale order)")


def search(ctx, broken):
    import random
    n0 = len(ctx.out.oracle_failures)
    saved, ctx.driver = ctx.driver, None
    try:
        names = ["".join(t) for n in range(0, 6) for t in itertools.product(ALPHA, repeat=n)]
        check_names(ctx, "search-names", names)
        order_oracles(ctx, "search-order", ctx.rng, 3000)
        import remap_lib as R
        R.run_cli_cases(ctx, "search-cli-file-order", [R.make_case(ctx.rng, k) for k in ("primarynames", "primarymode", "tagged2") for _ in range(120)], None,
                        only=["does not contain exactly", "unexpected assembly files", "output file"])
        pool = ["SUPER_1", "SUPER_2", "SUPER_10", "scaffold_7", "H_1", "I", "IV", "a1", ""]
        perm_check(ctx, "search-sort", [([ctx.rng.choice(pool) for _ in range(k)], [ctx.rng.choice([None, 0, 1, 2, 3]) for _ in range(k)])
                                        for k in (1, 2, 2, 3, 3, 4) for _ in range(60)])
    finally:
        ctx.driver = saved
    new = [f for f in ctx.out.oracle_failures[n0:] if not f.get("finding")]
    return min(new, key=lambda f: len(str(f["input"]))) if new else None


def replay(ctx, payload):
    inp = payload["input"]
    ctx.out.oracle_failures.clear()
    if "name" in inp:
        check_names(ctx, "replay", [inp["name"]])
    elif "names" in inp:
        perm_check(ctx, "replay", [(inp["names"], inp["ranks"])])
    return {"fails": bool(ctx.out.oracle_failures or ctx.out.disagreements), "oracle": ctx.out.oracle_failures, "disagreements": ctx.out.disagreements}
