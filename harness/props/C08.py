"""C08 — an unedited Pretext map reproduces the input assembly."""
import remap_lib as R

EXTRA_ANCHORS = ['assembly/scripts/pretext_to_asm.py']      # files outside the property's anchors whose change escalates the quick budget (T3)
LEVEL = "proof"
RULE = ('null scripts (every present scaffold whole, forward, uncut; T floor/ceil; sub-texel scaffolds present or absent; last contig >= 1 texel) unpainted and painted x texel sizes x forward/reverse contigs. Non-trivial = distinct (kind, #scaffolds in map, #absent, texel size).')
TRUSTED = ['correspondence harness props/C08.py + remap_lib.py: real BuildAssembly pipeline vs Lean `remap` on the projection `proj_full`', 'modelled not verified: Python dict/set/sort semantics as in Model/Py.lean; object identity by object ids; PretextView edit-script model (spec side)']
ASSUMPTIONS = ["each scaffold's last contig is at least one texel long (the generator enforces it)", 'input scaffold names do not look like <hap>_<x>_<n> in the main stream (separate stream for those)']
LEVEL_NOTE = '`unedited_map_reproduces_input` and `painted_map_changes_only_names` proved end to end over the model under the decidable hypothesis `Unedited`/`PaintedOk` (whole-scaffold pieces at any texel rounding, absent sub-texel scaffolds with any gap rows); the F14 case (piece ends before the last contig starts, painted) is outside the hypothesis and is the recorded open finding; tie = full-output correspondence; equality oracle'
EXPLANATION = 'null-script theorem over the model; tie by full-output correspondence; oracle = equality with the input + zero statistics.'
PROJ = R.proj_full


def oracle(c, real):
    return R.oracle_null(c["input"], c["ptx"], real, c["bpt"], painted=(c["kind"] == "nullp"))

KW = {}
def CLASSIFY(c, real, msg):
    """F14: painted unedited map, a scaffold's last contig starts behind the end of the piece that covers the scaffold"""
    if c["kind"] != "nullp":
        return None
    ends = {f["name"]: f["end"] for ps in c["ptx"] for f in ps["rows"] if f["t"] == "F"}
    for s in c["input"]:
        if s["name"] in ends:
            last_start = R.slen(s["rows"]) - R.flen(s["rows"][-1]) + 1
            if last_start > ends[s["name"]]:
                return "F14-painted-null-map-trailing-contig"
    return None


def streams(ctx):
    n = 16 if ctx.thorough else 1
    return [("null-unpainted", "null", 400 * n), ("null-painted", "nullp", 250 * n),
            ("null-bait-ends-before-last-contig", "nulltight", 250 * n), ("null-absent-small-scaffolds", "nullabsent", 200 * n), ("null-painted-tight", "nulltightp", 100 * n)]


def gen(ctx, kind):
    return R.make_case(ctx.rng, kind, **KW.get(kind, {}))


def classify(c, real, msg):
    return CLASSIFY(c, real, msg) if CLASSIFY else None


def history_stream(ctx, count):
    """the unedited map remapped AFTER an edited / tagged map of the same input, onto the same IndexedAssembly object in the same
    process (state carried from one remap to the next must not matter): the result must be what a fresh run gives — and satisfy C08"""
    import copy
    rng = ctx.rng
    for _ in range(count):
        kind = rng.choice(["null", "null", "nullp"])
        c = R.make_case(rng, kind)
        # earlier map: the same whole-scaffold pieces, tagged (Haplotig / Contaminant / Target mode) and partly reversed, then a cut script
        tagged = copy.deepcopy(c["ptx"])
        for ps in tagged:
            for f in ps["rows"]:
                if f["t"] == "F":
                    r = rng.random()
                    if r < 0.4:
                        f["tags"] = list(f["tags"]) + [rng.choice(["Haplotig", "Contaminant", "FalseDuplicate"])]
                    elif r < 0.55 and "Painted" in f["tags"]:
                        f["tags"] = list(f["tags"]) + ["X"]
                    if rng.random() < 0.3:
                        f["strand"] = -f["strand"]
        script, _ = R.pretext_script(rng, c["input"], c["bpt"], cutp=0.7)
        earlier = [tagged] + ([script] if rng.random() < 0.6 else [])
        rng.shuffle(earlier)
        fresh = R.real_remap(c["input"], c["ptx"], c["bpt"])
        hist = R.real_remap_history(c["input"], earlier + [c["ptx"]], c["bpt"])
        inp = {k: c[k] for k in ("input", "ptx", "bpt", "kind")}
        inp["earlier_maps_on_the_same_IndexedAssembly"] = earlier
        ctx.out.case("object-history", inp, ("history", kind, len(earlier), "err" in hist))
        if PROJ(hist) != PROJ(fresh):
            ctx.out.oracle_fail("object-history", inp, "remapping the unedited map after other maps on the same IndexedAssembly object gives another result than a fresh run")
            continue
        for msg in oracle(c, hist):
            ctx.out.oracle_fail("object-history", inp, msg, finding=classify(c, hist, msg))
            break


def run(ctx):
    for stream, kind, n in streams(ctx):
        cases = [gen(ctx, kind) for _ in range(n)]
        R.run_cases(ctx, stream, cases, PROJ, oracle, classify)
    history_stream(ctx, 240 if ctx.thorough else 40)
    # the command-line tool on the same null maps: it must finish (exit 0) and write exactly the in-memory assemblies (wave 12, C08j: the CLI
    # crashed on every unpainted, untagged map — the chromosome report is empty there)
    cli_cases = [gen(ctx, kind) for stream, kind, n in streams(ctx) for _ in range(max(4, n // 40))]
    R.run_cli_cases(ctx, "cli-end-to-end", cli_cases, classify, only=["CLI exit", "CLI succeeded", "output file", "does not contain exactly", "unexpected assembly files"])


def search(ctx, broken):
    n0 = len(ctx.out.oracle_failures)
    saved, ctx.driver = ctx.driver, None
    try:
        for stream, kind, n in streams(ctx):
            R.run_cases(ctx, "search-" + stream, [gen(ctx, kind) for _ in range(2500)], PROJ, oracle, classify)
            if [f for f in ctx.out.oracle_failures[n0:] if not f.get("finding")]:
                break
    finally:
        ctx.driver = saved
    new = [f for f in ctx.out.oracle_failures[n0:] if not f.get("finding")]
    return min(new, key=lambda f: len(str(f["input"]))) if new else None


def shrink(ctx, failure):
    fid = failure.get("finding")
    def still(inp):
        real = R.real_remap(inp["input"], inp["ptx"], inp["bpt"])
        msgs = oracle(inp, real)
        return bool(msgs) and (classify(inp, real, msgs[0]) == fid)
    return R.shrink_case(ctx, failure, still)


def replay(ctx, payload):
    inp = payload["input"]
    real = R.real_remap(inp["input"], inp["ptx"], inp["bpt"])
    msgs = oracle(inp, real)
    return {"fails": bool(msgs), "oracle": msgs, "real": real}
