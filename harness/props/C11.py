"""C11 — curation statistics count the real cuts, breaks and joins."""
import remap_lib as R

LEVEL = "proof"
RULE = ('all (input, Pretext) pairs of the C01 streams on which remapping completes, with forward and reverse input contigs, 1-bp contigs, cut contigs, any piece orientations. Non-trivial = distinct (kind, cuts, breaks, joins, #assemblies).')
TRUSTED = ['correspondence harness props/C11.py + remap_lib.py: real BuildAssembly pipeline vs Lean `remap` on the projection `proj_stats`', 'modelled not verified: Python dict/set/sort semantics as in Model/Py.lean; object identity by object ids; PretextView edit-script model (spec side)']
ASSUMPTIONS = ["no unknown-strand ('?') input contigs (junction_tuple rejects them)"]
EXPLANATION = 'junction-tuple canonicity/injectivity theorems, make_stats = set differences of adjacencies, and the end-to-end cut equation `remap_cuts_count` (cuts = #output fragments − #input contigs, per contig k pieces add k−1) over the model; tie by correspondence on the statistics; oracle = independent adjacency count.'
LEVEL_NOTE = 'all three counts proved over the model: breaks/joins = sizes of the two set differences of unordered contig-end adjacencies (`make_stats_counts_adjacencies`, reversal-invariant), cuts end to end (`remap_cuts_count`, `remap_cuts_per_contig`, under `WFInput`: needed, `remap_cuts_count_needs_wf`); the haplotig-removal count is CLI glue (oracle side, CLI end-to-end stream); ' + '; '.join(TRUSTED)
PROJ = R.proj_stats


def oracle(c, real):
    if "err" in real:
        return []
    return R.oracle_stats(c["input"], real)

KW = {}
CLASSIFY = None


def streams(ctx):
    n = 16 if ctx.thorough else 1
    return [("scripts", "script", 500 * n), ("same-named-contigs", "dupnames", 300 * n), ("tight-scripts", "tightscript", 100 * n), ("tagged", "tagged", 300 * n), ("perturbed", "perturbed", 200 * n), ("arbitrary-baits", "baits", 150 * n), ("tagged-slivers", "slivers", 200 * n)]


def gen(ctx, kind):
    return R.make_case(ctx.rng, kind, **KW.get(kind, {}))


def classify(c, real, msg):
    return CLASSIFY(c, real, msg) if CLASSIFY else None


def run(ctx):
    for stream, kind, n in streams(ctx):
        cases = [gen(ctx, kind) for _ in range(n)]
        R.run_cases(ctx, stream, cases, PROJ, oracle, classify)
    # the CLI end to end (info yaml, file names, csv files) on a sample of the same generators
    cli_cases = [gen(ctx, kind) for stream, kind, n in streams(ctx) for _ in range(max(10, n // 12))]
    # … and on several-haplotype maps (>= 2 per-assembly rows: only then info.yaml carries TOTALS next to the rows) with contaminants, same-tag
    # homologues and input names with and without a haplotype prefix: breaks / joins OUTSIDE every per-assembly row exist only there, so only there
    # "total = sum of the rows" is false (wave 11, C11i)
    cli_cases += [R.make_case(ctx.rng, k) for k in ("hapstats", "hapstats", "hapstats", "tagged2", "hapmix", "homtag") for _ in range(24 if ctx.thorough else 6)]
    R.run_cli_cases(ctx, "cli-end-to-end", cli_cases, classify, only=["haplotig", "yaml"])
    # history: the same maps remapped AFTER other maps of the same input on ONE IndexedAssembly object (in-process state must not matter)
    hk = ['script', 'dupnames', 'tagged']
    R.run_history_cases(ctx, "object-history", [R.make_case(ctx.rng, ctx.rng.choice(hk)) for _ in range(240 if ctx.thorough else 40)], PROJ, oracle, (classify if "classify" in globals() else None))


def search(ctx, broken):
    n0 = len(ctx.out.oracle_failures)
    saved, ctx.driver = ctx.driver, None
    try:
        for stream, kind, n in streams(ctx):
            R.run_cases(ctx, "search-" + stream, [gen(ctx, kind) for _ in range(2500)], PROJ, oracle, classify)
            if [f for f in ctx.out.oracle_failures[n0:] if not f.get("finding")]:
                break
    finally:
        ctx.driver = saved
    new = [f for f in ctx.out.oracle_failures[n0:] if not f.get("finding")]
    return min(new, key=lambda f: len(str(f["input"]))) if new else None


def shrink(ctx, failure):
    fid = failure.get("finding")
    def still(inp):
        real = R.real_remap(inp["input"], inp["ptx"], inp["bpt"])
        msgs = oracle(inp, real)
        return bool(msgs) and (classify(inp, real, msgs[0]) == fid)
    return R.shrink_case(ctx, failure, still)


def replay(ctx, payload):
    inp = payload["input"]
    real = R.real_remap(inp["input"], inp["ptx"], inp["bpt"])
    msgs = oracle(inp, real)
    return {"fails": bool(msgs), "oracle": msgs, "real": real}

LEVEL_NOTE = LEVEL_NOTE + " NEW: `haplotig_removals_eq` / `info_record_fields` (Properties/C11Info.lean) over the CLI model: the yaml's manual_haplotig_removals = number of scaffolds of the haplotig file in all three naming branches; tie: yaml parsed back and compared with the model's info record on every CLI case"
