"""C18 — overlap results keep span and content consistent under every edit sequence."""
import itertools
import conv

LEVEL = "proof"
RULE = ("small scope: scaffolds <=4 rows over {gap 1,2; fragment 1,2,4 (+/-)} x all baits x op sequences of length <=3 over the 8 operations; "
        "random scaffolds (<=12 rows) x random baits x random op sequences (<=8). Non-trivial = distinct (rows pattern, op sequence, accepted prefix length).")
TRUSTED = ["correspondence harness props/C18.py (real OverlapResult after every operation vs Lean applyOp: span, rows, all derived figures)",
           "object identity (`rows[0] is frag`) modelled by object ids"]
ASSUMPTIONS = ["operations are applied to a result obtained from find_overlaps; a rejected operation (exception) ends the history"]
EXPLANATION = "Inv preserved by every operation, proved in Lean by cases; tie by small-scope exhaustive + random op sequences compared after every step."

OPS = [{"op": "discard_start"}, {"op": "discard_end"}, {"op": "trim_large", "err": 1}, {"op": "trim_large", "err": 3},
       {"op": "trim_first", "ks": False, "ke": False}, {"op": "trim_last", "ks": False, "ke": False},
       {"op": "trim_first", "ks": True, "ke": False}, {"op": "trim_last", "ks": False, "ke": True}]


def enc_ov(o):
    from tola.assembly.gap import Gap
    def safe(f):
        try:
            return {"ok": f()}
        except Exception as e:
            return {"err": conv.errkind(e)}
    return {"start": o.start, "end": o.end, "rows": [conv.strip_oids(conv.from_real_row(r)) for r in o.rows],
            "start_overhang": o.start_overhang, "end_overhang": o.end_overhang, "length": o.length,
            "start_row_bait_overlap": safe(lambda: o.start_row_bait_overlap), "end_row_bait_overlap": safe(lambda: o.end_row_bait_overlap),
            "overhang_if_start_removed": safe(o.overhang_if_start_removed), "overhang_if_end_removed": safe(o.overhang_if_end_removed)}


def real_run(rows, bait, ops):
    from tola.assembly.indexed_assembly import IndexedAssembly
    from tola.assembly.fragment import Fragment
    sc = conv.to_real_scaffold({"name": "s", "rows": rows})
    ia = IndexedAssembly("x", scaffolds=[sc])
    try:
        o = ia.find_overlaps(Fragment("s", bait["start"], bait["end"], bait["strand"], tuple(bait.get("tags", ()))))
    except Exception as e:
        return {"lookup_err": conv.errkind(e)}, None, None
    if o is None:
        return {"lookup": None}, None, None
    res = {"lookup": enc_ov(o), "steps": []}
    src = list(sc.rows)
    for op in ops:
        try:
            k = op["op"]
            if k == "discard_start":
                o.discard_start()
            elif k == "discard_end":
                o.discard_end()
            elif k == "trim_large":
                o.trim_large_overhangs(op["err"])
            elif k == "trim_first":
                o.trim_fragment(o.rows[0], op["ks"], op["ke"])
            elif k == "trim_last":
                o.trim_fragment(o.rows[-1], op["ks"], op["ke"])
            res["steps"].append({"ok": enc_ov(o)})
        except Exception as e:
            res["steps"].append({"err": conv.errkind(e)})
            break
    return res, o, sc


def inv_oracle(rows, bait, enc):
    """the property stated directly: span = coordinates of remaining rows; rows a contiguous run of the source with only
    terminal fragments shortened at their OUTER end; no terminal gap; derived figures = interval arithmetic."""
    bad = []
    rr = enc["rows"]
    ln = lambda r: r["len"] if r["t"] == "G" else r["end"] - r["start"] + 1
    if enc["end"] - enc["start"] + 1 != sum(ln(r) for r in rr):
        bad.append("end-start+1 != total row length")
    if rr and (rr[0]["t"] == "G" or rr[-1]["t"] == "G"):
        bad.append("terminal gap left behind")
    # contiguous run of the source
    src = [conv.strip_oids(r) for r in rows]
    pos, starts = 0, []
    for r in src:
        starts.append(pos + 1); pos += ln(r)
    ok_run = not rr
    def same_contig(a, b):
        return a["t"] == "F" and b["t"] == "F" and a["name"] == b["name"] and a["strand"] == b["strand"] and b["start"] <= a["start"] and a["end"] <= b["end"]
    for i in range(len(src) - len(rr) + 1) if rr else []:
        seg = src[i:i + len(rr)]
        good = True
        for k, (a, b) in enumerate(zip(rr, seg)):
            if k not in (0, len(rr) - 1):
                if a != b:
                    good = False; break
            else:
                if a["t"] == "G":
                    good = a == b
                else:
                    if not same_contig(a, b):
                        good = False; break
                    cut_lo = a["start"] - b["start"]; cut_hi = b["end"] - a["end"]
                    # scaffold coordinates of the remaining part of this row
                    s0 = starts[i + k]
                    # an unknown-strand row has no defined orientation in the scaffold: either reading is accepted
                    orients = {1: [1], -1: [-1], 0: [1, -1]}[b["strand"]]
                    ok_any = False
                    for ori in orients:
                        if ori == -1:
                            rs, re_ = s0 + cut_hi, s0 + ln(b) - 1 - cut_lo
                        else:
                            rs, re_ = s0 + cut_lo, s0 + ln(b) - 1 - cut_hi
                        g2 = True
                        if k == 0 and rs != enc["start"]:
                            g2 = False
                        if k == len(rr) - 1 and re_ != enc["end"]:
                            g2 = False
                        # only the outer end may be shortened unless single row
                        if len(rr) > 1:
                            if k == 0 and re_ != s0 + ln(b) - 1:
                                g2 = False
                            if k == len(rr) - 1 and rs != s0:
                                g2 = False
                        ok_any = ok_any or g2
                    good = good and ok_any
            if not good:
                break
        if good:
            ok_run = True
            break
    if not ok_run:
        bad.append("rows are not a contiguous run of the source with only terminal fragments shortened / span mismatch")
    if enc["start_overhang"] != bait["start"] - enc["start"] or enc["end_overhang"] != enc["end"] - bait["end"]:
        bad.append("overhang != interval arithmetic")
    if rr:
        f_end = enc["start"] + ln(rr[0]) - 1
        exp = max(0, min(bait["end"], f_end) - max(bait["start"], enc["start"]) + 1)
        if enc["start_row_bait_overlap"].get("ok") != exp:
            bad.append("start_row_bait_overlap != |bait ∩ first row|")
        l_st = enc["end"] - ln(rr[-1]) + 1
        exp = max(0, min(bait["end"], enc["end"]) - max(bait["start"], l_st) + 1)
        if enc["end_row_bait_overlap"].get("ok") != exp:
            bad.append("end_row_bait_overlap != |bait ∩ last row|")
    return bad


def check_cases(ctx, stream, cases):
    out = ctx.out
    reqs = [{"id": i, "kind": "ovops", "rows": rows, "bait": bait, "ops": ops} for i, (rows, bait, ops) in enumerate(cases)]
    model = ctx.driver.batch(reqs) if ctx.driver else [None] * len(reqs)
    for (rows, bait, ops), m in zip(cases, model):
        real, o, sc = real_run(rows, bait, ops)
        inp = {"rows": rows, "bait": bait, "ops": ops}
        pat = "".join("G" if r["t"] == "G" else "F" for r in rows)
        nacc = len([s for s in real.get("steps", []) if "ok" in s])
        key = (pat, tuple(op["op"] for op in ops), nacc)
        if m is not None:
            mm = conv.strip_oids(m)
            out.compare(stream, inp, real, mm, key)
        else:
            out.case(stream, inp, key)
        if real.get("lookup"):
            states = [real["lookup"]] + [s["ok"] for s in real["steps"] if "ok" in s]
            for k, st in enumerate(states):
                bad = inv_oracle(rows, bait, st)
                if bad:
                    out.oracle_fail(stream, {"rows": rows, "bait": bait, "ops": ops[:k]}, "; ".join(bad), detail=st)
                    break


def small_scope(rng, maxrows, maxops, sample=None):
    opts = [("G", 1), ("G", 2), ("F", 1), ("F", 2), ("F", 4), ("R", 2), ("R", 4)]
    cases = []
    for n in range(1, maxrows + 1):
        for combo in itertools.product(opts, repeat=n):
            rows, oid = [], 0
            for t, ln in combo:
                if t == "G":
                    rows.append(conv.jgap(ln))
                else:
                    rows.append(conv.jfrag(oid, f"c{oid}", 11, 11 + ln - 1, 1 if t == "F" else -1)); oid += 1
            L = sum(ln for _, ln in combo)
            for a in range(1, L + 1):
                for b in range(a, L + 2):
                    for k in range(0, maxops + 1):
                        for ops in itertools.product(OPS, repeat=k):
                            cases.append((rows, {"name": "s", "start": a, "end": b, "strand": 1, "tags": ["Painted", "Hap1"]}, list(ops)))
    if sample and len(cases) > sample:
        cases = rng.sample(cases, sample)
    return cases


def random_case(rng):
    rows, oid = [], 0
    for _ in range(rng.randint(1, 12)):
        if rows and rng.random() < 0.4:
            rows.append(conv.jgap(rng.choice([1, 2, 10, 200])))
        else:
            ln = rng.choice([1, 2, 5, rng.randint(1, 60)])
            st = rng.randint(1, 50)
            prev = [r for r in rows if r["t"] == "F"]
            if prev and rng.random() < 0.12:
                # the same contig region listed again as a separate row (equal value, different object)
                d = dict(rng.choice(prev)); d["oid"] = oid
                rows.append(d); oid += 1
            else:
                rows.append(conv.jfrag(oid, f"c{oid}", st, st + ln - 1, rng.choice([1, -1, 0]))); oid += 1
    L = sum(r["len"] if r["t"] == "G" else r["end"] - r["start"] + 1 for r in rows)
    a = rng.randint(1, max(1, L)); b = rng.randint(a, L + 5)
    ops = []
    for _ in range(rng.randint(0, 8)):
        op = dict(rng.choice(OPS))
        if op["op"] == "trim_large":
            op["err"] = rng.choice([0, 1, 2, 5, 20])
        if op["op"].startswith("trim_f") or op["op"].startswith("trim_l") and "ks" in op:
            op["ks"] = rng.random() < 0.3; op["ke"] = rng.random() < 0.3
        ops.append(op)
    return rows, {"name": "s", "start": a, "end": b, "strand": rng.choice([1, -1]), "tags": rng.choice([[], ["Painted"], ["Painted", "X"]])}, ops


def shared_lookup_stream(ctx, count):
    """the SAME region looked up several times on one IndexedAssembly: the results must be independent objects — editing one of them
    must leave the others (and later lookups of that region) exactly what a fresh lookup gives, each consistent on its own"""
    from tola.assembly.indexed_assembly import IndexedAssembly
    from tola.assembly.fragment import Fragment
    out, rng = ctx.out, ctx.rng
    for _ in range(count):
        rows, bait, _ops = random_case(rng)
        sc = conv.to_real_scaffold({"name": "s", "rows": rows})
        try:
            ia = IndexedAssembly("x", scaffolds=[sc])
            mk = lambda: ia.find_overlaps(Fragment("s", bait["start"], bait["end"], bait["strand"], tuple(bait.get("tags", ()))))
            r1 = mk(); r2 = mk()
        except Exception:
            continue
        if r1 is None or r2 is None:
            continue
        fresh = enc_ov(r2)
        ops = []
        for _k in range(rng.randint(1, 3)):
            op = rng.choice(["discard_start", "discard_end", "trim_large", "trim_first", "trim_last"])
            ops.append(op)
            try:
                if op == "discard_start": r1.discard_start()
                elif op == "discard_end": r1.discard_end()
                elif op == "trim_large": r1.trim_large_overhangs(rng.choice([1, 3, 10]))
                elif op == "trim_first": r1.trim_fragment(r1.rows[0])
                elif op == "trim_last": r1.trim_fragment(r1.rows[-1])
            except Exception:
                break
        inp = {"rows": rows, "bait": bait, "ops_applied_to_the_first_result": ops}
        out.case("same-region-twice", inp, ("shared", tuple(ops)))
        try:
            r3 = mk()
            after2, after3 = enc_ov(r2), (enc_ov(r3) if r3 is not None else None)
        except Exception as e:
            out.oracle_fail("same-region-twice", inp, f"{conv.errkind(e)} while reading a second result of the same region after the first was edited")
            continue
        if after2 != fresh:
            out.oracle_fail("same-region-twice", inp, "a second result of the same lookup changed when the FIRST one was edited (span/rows no longer consistent)",
                            detail={"before": fresh, "after": after2})
        elif after3 != fresh:
            out.oracle_fail("same-region-twice", inp, "a later lookup of the same region differs from the first lookup after an earlier result was edited",
                            detail={"first": fresh, "later": after3})


def run(ctx):
    rng = ctx.rng
    shared_lookup_stream(ctx, 3000 if ctx.thorough else 400)
    if ctx.thorough:
        check_cases(ctx, "small-scope", small_scope(rng, 3, 2))
        ctx.out.exhaustive = True
        check_cases(ctx, "small-scope-sampled-4rows-3ops", small_scope(rng, 3, 3, sample=25000))
    else:
        check_cases(ctx, "small-scope", small_scope(rng, 2, 1))
        ctx.out.exhaustive = True
        check_cases(ctx, "small-scope-sampled", small_scope(rng, 3, 2, sample=4000))
    check_cases(ctx, "random", [random_case(rng) for _ in range(20000 if ctx.thorough else 2000)])


def search(ctx, broken):
    n0 = len(ctx.out.oracle_failures)
    saved, ctx.driver = ctx.driver, None
    try:
        check_cases(ctx, "search-small", small_scope(ctx.rng, 3, 3, sample=80000))
        check_cases(ctx, "search-random", [random_case(ctx.rng) for _ in range(20000)])
    finally:
        ctx.driver = saved
    new = [f for f in ctx.out.oracle_failures[n0:] if not f.get("finding")]
    return min(new, key=lambda f: len(str(f["input"]))) if new else None


def replay(ctx, payload):
    inp = payload["input"]
    ctx.out.oracle_failures.clear()
    check_cases(ctx, "replay", [(inp["rows"], inp["bait"], inp["ops"])])
    return {"fails": bool(ctx.out.oracle_failures or ctx.out.disagreements), "oracle": ctx.out.oracle_failures, "disagreements": ctx.out.disagreements}


LEVEL_NOTE = "; ".join(TRUSTED) + '. NEW (T1b): the five derived figures are translated from the current source; `model_figures_are_source`, `source_start/end_row_bait_overlap` = interval-intersection size for all integers (Properties/C18Source.lean)'
