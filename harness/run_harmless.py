#!/usr/bin/env python3
"""
"No false alarms" regression: applies harmless/refactors.patch.diff (behaviour-preserving rewrites of /repo: restructured
expressions, renamed locals, other error messages, loops written differently, reordered independent tests) to a scratch
checkout and runs every check's quick tier against it.  Every check must still exit 0.
usage: run_harmless.py <repo-checkout>
"""
import json, os, subprocess, sys
from pathlib import Path
VERIF0 = Path(__file__).resolve().parent.parent
repo = Path(sys.argv[1]).resolve()
# isolated copy of /verif (own lake project and Gen files), see run_seeded.py
ISO = Path(os.environ.get("SEEDED_ENV", "/tmp/seeded_env"))
ISO.mkdir(parents=True, exist_ok=True)
subprocess.run(["rsync", "-a", "--delete", "--exclude", ".git", "--exclude", "replays", "--exclude", "evidence", str(VERIF0) + "/", str(ISO / "verif") + "/"], check=True)
VERIF = ISO / "verif"
subprocess.run(["git", "-C", str(repo), "checkout", "HEAD", "--", "."], check=True)
a = subprocess.run(["git", "-C", str(repo), "apply", "--3way", str(VERIF / "harmless" / "refactors.patch.diff")], capture_output=True, text=True)
if a.returncode != 0:
    print("PATCH-DOES-NOT-APPLY", a.stderr[-400:]); sys.exit(2)
env = dict(os.environ, AGP_TPF_REPO=str(repo))
if os.environ.get("HARMLESS_MODEL_ONLY", "1") == "1":
    env["VERIF_MODEL_ONLY"] = "1"
bad = 0
props = sys.argv[2:] or [f"C{i:02d}" for i in range(1, 21)]
for prop in props:
    p = subprocess.run([sys.executable, str(VERIF / "harness" / "check.py"), prop, "--tier", "quick"], cwd=str(VERIF), env=env, capture_output=True, text=True)
    line = [l for l in p.stdout.splitlines() if l.startswith(prop + " tier=") or l.startswith("VIOLATION")]
    print(prop, "exit", p.returncode, " | ".join(line)[:260], flush=True)
    bad += p.returncode != 0
subprocess.run(["git", "-C", str(repo), "checkout", "HEAD", "--", "."], check=True)
print("SUMMARY alarms on harmless refactors:", bad)
sys.exit(1 if bad else 0)
