#!/usr/bin/env python3
"""
"No false alarms" regression, second set: harmless/singles/h*.diff are 12 INDEPENDENT behaviour-preserving rewrites (written by a sub-agent that
saw nothing of /verif) of functions whose bodies T1c translates.  Each is applied on its own to a scratch checkout and the checks whose tie
theorems it touches (harmless/singles/map.json) are run WITH proofs; every one must exit 0.
usage: run_harmless_singles.py <repo-checkout> [ids...]      (isolated copy of /verif under $SEEDED_ENV, default /tmp/seeded_env)
"""
import json, os, subprocess, sys
from pathlib import Path
VERIF0 = Path(__file__).resolve().parent.parent
repo = Path(sys.argv[1]).resolve()
ISO = Path(os.environ.get("SEEDED_ENV", "/tmp/seeded_env"))
ISO.mkdir(parents=True, exist_ok=True)
subprocess.run(["rsync", "-a", "--delete", "--exclude", ".git", "--exclude", "replays", "--exclude", "evidence", "--exclude", "seeded", str(VERIF0) + "/", str(ISO / "verif") + "/"], check=True)
VERIF = ISO / "verif"
mp = json.loads((VERIF / "harmless" / "singles" / "map.json").read_text())
ids = sys.argv[2:] or sorted(mp)
env = dict(os.environ, AGP_TPF_REPO=str(repo), VERIF_NO_ESCALATE="1")
bad = 0
for h in ids:
    subprocess.run(["git", "-C", str(repo), "checkout", "HEAD", "--", "."], check=True)
    a = subprocess.run(["git", "-C", str(repo), "apply", str(VERIF / "harmless" / "singles" / f"{h}.diff")], capture_output=True, text=True)
    if a.returncode != 0:
        print(h, "PATCH-DOES-NOT-APPLY", a.stderr[-300:]); bad += 1; continue
    for prop in mp[h]:
        p = subprocess.run([sys.executable, str(VERIF / "harness" / "check.py"), prop, "--tier", "quick"], cwd=str(VERIF), env=env, capture_output=True, text=True)
        line = [l for l in p.stdout.splitlines() if l.startswith(prop + " tier=") or l.startswith("VIOLATION")]
        print(h, prop, "exit", p.returncode, " | ".join(line)[:240], flush=True)
        bad += p.returncode != 0
subprocess.run(["git", "-C", str(repo), "checkout", "HEAD", "--", "."], check=True)
print("SUMMARY alarms on harmless single refactors:", bad)
sys.exit(1 if bad else 0)
