#!/bin/bash
# usage: eval_mutant.sh <out-dir> <k> <prop> [more props...]   — applies m<k>.patch.diff to /repo, confirms tests+demo, runs the checks, reverts
OUT=$1; K=$2; shift 2
cd /repo || exit 2
if [ -n "$(git status --porcelain --untracked-files=no)" ]; then echo "REPO DIRTY"; exit 2; fi
echo "== demo WITHOUT mutation:"; SRC=/repo/src /venv/bin/python $OUT/m${K}_demo.py > /tmp/demo_clean.txt 2>&1; echo "exit $?"
git apply $OUT/m${K}.patch.diff || { echo "PATCH DOES NOT APPLY"; git checkout -- .; exit 2; }
echo "== tests WITH mutation:"; /venv/bin/python -m pytest -q -p no:cacheprovider 2>&1 | tail -1
echo "== demo WITH mutation:"; SRC=/repo/src /venv/bin/python $OUT/m${K}_demo.py > /tmp/demo_mut.txt 2>&1; echo "exit $?"; tail -3 /tmp/demo_mut.txt
cd /verif
for P in "$@"; do
  /venv/bin/python harness/check.py $P --tier ${TIER:-quick} ${EXTRA:---model-only} 2>&1 | grep -v conda | grep -E "VIOLATION|^C[0-9]+ tier" | cut -c1-220
done
git -C /repo checkout HEAD -- .
echo "== reverted; status: $(git -C /repo status --porcelain --untracked-files=no | wc -l) dirty files"
