"""generators / runners / oracles for the AGP & TPF text properties (C05, C06)"""
import io
import conv

NAME_ALPHA = "abcXYZ019_:-|.#+ "


def rand_name(rng, plain=False):
    if plain:
        return rng.choice(["scaffold", "chr", "ctg", "SUPER_", "HAP1_SCAFFOLD_"]) + str(rng.randint(1, 99))
    n = rng.randint(1, 8)
    s = "".join(rng.choice(NAME_ALPHA) for _ in range(n))
    return s


def rand_assembly(rng, wf="agp", nsc=3, maxrows=5):
    """wf: 'agp' (WFAgp), 'both' (WFAgp ∧ WFTpf), 'loose' (anything the constructors accept)"""
    scs, hdr = [], []
    if rng.random() < 0.4:
        for _ in range(rng.randint(1, 2)):
            hdr.append(rng.choice(["DESCRIPTION: x", "HiC MAP RESOLUTION: 10.5 bp/texel", "Built from FASTA file '/a b/c.fa'", "x", "tail space ", "a\tb"]))
    prev = None
    oid = 0
    for j in range(rng.randint(1, nsc)):
        while True:
            nm = rand_name(rng, plain=rng.random() < 0.6)
            if wf == "loose" or (nm.strip() == nm and nm and not nm.startswith("#") and nm != prev and nm[0] not in " \t"):
                break
        if wf != "loose":
            nm = nm.strip() or "s"
            if nm == prev:
                nm += "x"
        prev = nm
        rows = []
        gts = (["scaffold", "contig", "centromere", "short_arm", "repeat", "type_9"] if wf != "agp" else
               ["scaffold", "contig", "centromere", "Short-Arm", "type_2", "TYPE-3", "x y"])
        if wf != "both" and rng.random() < 0.15:
            rows.append(conv.jgap(rng.choice([1, 10, 200]), rng.choice(gts)))     # AGP scaffolds may start with a gap (FASTA-derived ones do)
        for r in range(rng.randint(1, maxrows)):
            if rows and rng.random() < 0.35 and (rows[-1]["t"] == "F" or rng.random() < 0.2):
                gt = rng.choice(["scaffold", "contig", "centromere", "short_arm", "repeat", "type_9"] if wf != "agp" else
                                ["scaffold", "contig", "centromere", "Short-Arm", "type_2", "TYPE-3", "x y"])
                rows.append(conv.jgap(rng.choice([1, 100, 200, rng.randint(1, 10**9)]), gt))
            cn = rand_name(rng, plain=rng.random() < 0.5)
            if wf != "loose":
                cn = cn.strip() or "c"
            st = rng.choice([1, rng.randint(0, 10**12), rng.randint(1, 1000)])
            ln = rng.choice([1, rng.randint(1, 10**6)])
            strand = rng.choice([1, -1] if wf == "both" else [1, -1, 0])
            tags = [] if wf == "both" and rng.random() < 0.5 else [rng.choice(["Painted", "Hap1", "X", "Cut", "t-1", "a.b"]) for _ in range(rng.randint(0, 3))]
            rows.append(conv.jfrag(oid, cn, st, st + ln - 1, strand, tags)); oid += 1
        if rng.random() < 0.2:
            rows.append(conv.jgap(rng.choice([1, 100, 200]), rng.choice(gts)))     # a scaffold may end with a gap (telomere etc.)
        scs.append(conv.jscaffold(nm, rows))
    return {"header": hdr, "scaffolds": scs}


def real_format(asm, fmt):
    from tola.assembly.assembly import Assembly
    from tola.assembly.format import format_agp, format_tpf
    a = Assembly("x", header=list(asm["header"]), scaffolds=[conv.to_real_scaffold(s) for s in asm["scaffolds"]])
    buf = io.StringIO()
    try:
        (format_agp if fmt == "agp" else format_tpf)(a, buf)
        return {"ok": buf.getvalue()}
    except Exception as e:
        return {"err": conv.errkind(e)}


def real_parse(text, fmt):
    from tola.assembly.parser import parse_agp, parse_tpf
    try:
        a = (parse_agp if fmt == "agp" else parse_tpf)(io.StringIO(text, newline=""), "x")
        return {"ok": {"header": list(a.header), "scaffolds": [{"name": s.name, "rows": [conv.strip_oids(conv.from_real_row(r)) for r in s.rows]} for s in a.scaffolds]}}
    except Exception as e:
        return {"err": conv.errkind(e)}


def py_lines(text):
    return list(io.StringIO(text, newline=""))


def canon_parsed(m):
    if m is None or "err" in m:
        return m
    return {"ok": {"header": m["ok"]["header"], "scaffolds": [{"name": s["name"], "rows": [conv.strip_oids(r) for r in s["rows"]]} for s in m["ok"]["scaffolds"]]}}


def val(asm, drop_tags=False):
    out = {"header": list(asm["header"]), "scaffolds": []}
    for s in asm["scaffolds"]:
        rows = []
        for r in s["rows"]:
            r = conv.strip_oids(r)
            if drop_tags and r["t"] == "F":
                r = dict(r, tags=[])
            rows.append(r)
        out["scaffolds"].append({"name": s["name"], "rows": rows})
    return out


def validate_agp_text(text, expect_lengths=None):
    """independent AGP reader: columns 1-9 only. Returns list of problems."""
    errs, objs, order = [], {}, []
    for n, l in enumerate(text.splitlines()):
        if not l.strip() or l.startswith("#"):
            continue
        f = l.split("\t")
        if len(f) < 9:
            errs.append(f"line {n+1}: {len(f)} columns"); continue
        if f[0] not in objs:
            objs[f[0]] = []; order.append(f[0])
        objs[f[0]].append(f)
    for name in order:
        pos, part = 0, 0
        for f in objs[name]:
            try:
                s, e, p = int(f[1]), int(f[2]), int(f[3])
            except ValueError:
                errs.append(f"{name}: non-integer object coordinates"); break
            part += 1
            if s != pos + 1:
                errs.append(f"{name}: part {p} starts at {s}, expected {pos + 1} (hole or overlap)")
            if p != part:
                errs.append(f"{name}: part number {p}, expected {part}")
            if f[4] == "W":
                try:
                    cs, ce = int(f[6]), int(f[7])
                except ValueError:
                    errs.append(f"{name}: non-integer component coordinates"); break
                if e - s != ce - cs:
                    errs.append(f"{name}: object span {e - s + 1} != component span {ce - cs + 1}")
                if f[8] not in ("+", "-", "?"):
                    errs.append(f"{name}: orientation {f[8]!r}")
            elif f[4] in ("U", "N"):
                if f[4] != "U":
                    errs.append(f"{name}: gap row not 'U'")
                try:
                    gl = int(f[5])
                except ValueError:
                    errs.append(f"{name}: gap length"); break
                if e - s + 1 != gl:
                    errs.append(f"{name}: gap span {e - s + 1} != stated length {gl}")
                if f[7] != "yes":
                    errs.append(f"{name}: linkage {f[7]!r}")
                if not f[6]:
                    errs.append(f"{name}: empty gap type")
            else:
                errs.append(f"{name}: component type {f[4]!r}")
            pos = e
        if expect_lengths is not None and name in expect_lengths and pos != expect_lengths[name]:
            errs.append(f"{name}: last object end {pos} != scaffold length {expect_lengths[name]}")
    return errs
