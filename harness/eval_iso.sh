#!/bin/bash
# usage: eval_iso.sh <out-dir> <k> <prop> [more props]  — like eval_mutant.sh but in an isolated copy of /verif and /repo
# under /tmp/evalenv (so that neither /repo nor the shared lake project are touched while other work is running)
OUT=$1; K=$2; shift 2
E=${EVALENV:-/tmp/evalenv}
mkdir -p $E
rsync -a --delete --exclude .git --exclude replays --exclude evidence /verif/ $E/verif/
rm -rf $E/repo; cp -r /repo $E/repo; git -C $E/repo checkout -q HEAD -- .
echo "== demo WITHOUT mutation: $(SRC=$E/repo/src /venv/bin/python $OUT/m${K}_demo.py > $E/demo_clean.txt 2>&1; echo exit $?)"
git -C $E/repo apply $OUT/m${K}.patch.diff || { echo "PATCH DOES NOT APPLY"; exit 2; }
echo "== tests WITH mutation: $(cd $E/repo && PYTHONPATH=$E/repo/src /venv/bin/python -m pytest -q -p no:cacheprovider 2>&1 | tail -1)"
echo "== demo WITH mutation: $(SRC=$E/repo/src /venv/bin/python $OUT/m${K}_demo.py > $E/demo_mut.txt 2>&1; echo exit $?)"
cd $E/verif
for P in "$@"; do
  AGP_TPF_REPO=$E/repo /venv/bin/python harness/check.py $P --tier ${TIER:-quick} ${EXTRA:---model-only} 2>&1 | grep -v conda | grep -E "VIOLATION|^C[0-9]+ tier" | cut -c1-220
done
