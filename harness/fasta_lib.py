"""
Shared machinery for the FASTA properties (C03, C04, C13, C14, parts of C06/C15/C17): generators, real-code runners with
read/chunk/buffer recording, model requests, and direct oracles.
"""
import io, os, random, tempfile
from pathlib import Path
import conv

ACGT = b"ACGTacgt"
IUPAC = b"ACGTRYMKSWHBVDNacgtrymkswhbvdn"


def rand_residues(rng, n, flavour=None):
    out = bytearray()
    flavour = flavour or rng.choice(["acgt", "acgt", "nruns", "nruns", "lower", "iupac", "odd"])
    while len(out) < n:
        k = rng.random()
        run = rng.choice([1, 1, 2, 3, 7, 20, rng.randint(1, 80)])
        if flavour == "acgt" or k < 0.6:
            alpha = b"ACGT" if flavour != "lower" else b"ACGTacgt"
            out += bytes(rng.choice(alpha) for _ in range(run))
        elif flavour == "iupac":
            out += bytes(rng.choice(IUPAC) for _ in range(run))
        elif flavour == "odd":
            out += bytes(rng.choice(b"ACGTNnXx*-.UuZ") for _ in range(run))
        else:
            out += bytes([rng.choice(b"Nn")]) * run
    return bytes(out[:n])


def rand_records(rng, nrec=None, maxlen=300, allow_empty=False):
    recs = []
    nrec = nrec or rng.randint(1, 5)
    for i in range(nrec):
        n = rng.choice([1, 2, rng.randint(1, 30), rng.randint(1, maxlen), rng.randint(1, maxlen)])
        if allow_empty and rng.random() < 0.1:
            n = 0
        name = rng.choice(["chr", "seq", "scaffold_", "c", "HAP1_SCAFFOLD_"]) + str(i + 1)
        desc = rng.choice([None, None, "some description", "len=5 x"])
        seq = rand_residues(rng, n)
        if rng.random() < 0.08:
            seq = bytes(rng.choice(b"NNNn") for _ in range(n)) if rng.random() < 0.7 else bytes(rng.choice(b"RYKMSW") for _ in range(n))   # no ACGT at all
        recs.append({"name": name, "desc": desc, "seq": seq})
    return recs


def render(recs, width, le=b"\n", final_newline=True, widths=None):
    """well-formed FASTA bytes: uniform line width within a record"""
    out = bytearray()
    for k, r in enumerate(recs):
        w = widths[k] if widths else width
        out += b">" + r["name"].encode()
        if r.get("desc"):
            out += b" " + r["desc"].encode()
        out += le
        s = r["seq"]
        for i in range(0, len(s), w):
            out += s[i:i + w] + le
    data = bytes(out)
    if not final_newline and data.endswith(le):
        data = data[:-len(le)]
    return data


def expected_index(recs, width, le=b"\n", final_newline=True, widths=None):
    """the faidx quintuples and the run assembly the property prescribes, computed from the records (not the bytes)"""
    idx, scs, off = [], [], 0
    for k, r in enumerate(recs):
        w = widths[k] if widths else width
        hdr = 1 + len(r["name"].encode()) + (1 + len(r["desc"].encode()) if r.get("desc") else 0) + len(le)
        off += hdr
        n = len(r["seq"])
        rpl = min(w, n)
        idx.append([r["name"], n, off, rpl, rpl + len(le)])
        nlines = (n + w - 1) // w
        off += n + nlines * len(le)
        rows, i = [], 0
        s = r["seq"]
        while i < n:
            j = i
            is_acgt = s[i] in ACGT
            while j < n and (s[j] in ACGT) == is_acgt:
                j += 1
            if is_acgt:
                rows.append({"t": "F", "name": r["name"], "start": i + 1, "end": j, "strand": 1, "tags": []})
            else:
                rows.append({"t": "G", "len": j - i, "type": "scaffold"})
            i = j
        scs.append({"name": r["name"], "rows": rows})
    return idx, scs


class RecFile:
    """file proxy that records read sizes"""

    def __init__(self, fh):
        self.fh, self.reads = fh, []

    def read(self, n=-1):
        self.reads.append(n)
        return self.fh.read(n)

    def seek(self, *a):
        return self.fh.seek(*a)

    def tell(self):
        return self.fh.tell()

    def close(self):
        self.fh.close()


class Scratch:
    """scratch directory under the system temp dir, removed on exit"""

    def __enter__(self):
        self.td = tempfile.TemporaryDirectory(prefix="agptpf_verif_")
        self.path = Path(self.td.name)
        return self

    def __exit__(self, *a):
        self.td.cleanup()


def real_index(data: bytes, bs: int, scratch):
    import tola.fasta.index as ix
    p = scratch.path / "t.fa"
    p.write_bytes(data)
    maxbuf = [0]
    orig = ix.BytesIO

    class RecBytesIO(orig):
        def write(self, b):
            r = super().write(b)
            maxbuf[0] = max(maxbuf[0], self.tell())
            return r
    ix.BytesIO = RecBytesIO
    try:
        idx, asm = ix.index_fasta_file(p, bs)
        return {"ok": {"index": [[n, i.length, i.file_offset, i.residues_per_line, i.max_line_length] for n, i in idx.items()],
                       "scaffolds": [{"name": s.name, "rows": [conv.strip_oids(conv.from_real_row(r)) for r in s.rows]} for s in asm.scaffolds],
                       "max_buffered": maxbuf[0]}}, (idx, asm)
    except Exception as e:
        return {"err": conv.errkind(e)}, None
    finally:
        ix.BytesIO = orig


def make_fai(data: bytes, index_rows, scratch, bs):
    """a FastaIndex over `data` with the given index rows (no cache files involved)"""
    from tola.fasta.index import FastaIndex, FastaInfo
    p = scratch.path / "s.fa"
    p.write_bytes(data)
    fai = FastaIndex(p, bs)
    fai.index = {r[0]: FastaInfo(r[1], r[2], r[3], r[4]) for r in index_rows}
    rec = RecFile(p.open("rb"))
    fai.__dict__["fasta_fileandle"] = rec
    return fai, rec


def real_seqbytes(data, index_rows, queries, scratch):
    fai, rec = make_fai(data, index_rows, scratch, 250000)
    res = []
    for q in queries:
        rec.reads.clear()
        try:
            info = fai.get_info(q["name"])
            b = fai.sequence_bytes(info, q["s"], q["e"]).getvalue()
            res.append({"ok": {"data": list(b), "reads": list(rec.reads)}})
        except Exception as e:
            res.append({"err": conv.errkind(e)})
    rec.close()
    return res


def real_stream(data, index_rows, scaffolds, bs, w, scratch):
    from tola.fasta.stream import FastaStream
    from tola.assembly.assembly import Assembly
    fai, rec = make_fai(data, index_rows, scratch, bs)
    chunks = []
    g0, s0 = fai.get_gap_iter, fai.get_sequence_iter

    def wrap(it):
        for c in it:
            chunks.append(len(c.getvalue()))
            yield c
    fai.get_gap_iter = lambda *a, **k: wrap(g0(*a, **k))
    fai.get_sequence_iter = lambda *a, **k: wrap(s0(*a, **k))
    out = io.BytesIO()
    try:
        st = FastaStream(out, fai, line_length=w)
        st.write_assembly(Assembly("x", scaffolds=[conv.to_real_scaffold(s) for s in scaffolds]))
        return {"ok": {"out": list(out.getvalue()), "chunks": chunks, "reads": list(rec.reads)}}
    except Exception as e:
        return {"err": conv.errkind(e)}
    finally:
        rec.close()


COMP = bytes.maketrans(b"ACGTRYMKSWHBVDNacgtrymkswhbvdn", b"TGCAYRKMSWDVBHNtgcayrkmswdvbhn")


def spec_revcomp(b: bytes) -> bytes:
    """case-preserving IUPAC reverse complement, written out independently of the code's table"""
    pairs = {"A": "T", "C": "G", "G": "C", "T": "A", "R": "Y", "Y": "R", "M": "K", "K": "M", "S": "S", "W": "W",
             "H": "D", "D": "H", "B": "V", "V": "B", "N": "N"}
    out = bytearray()
    for x in reversed(b):
        ch = chr(x)
        if ch.upper() in pairs and ch.isascii() and ch.isalpha():
            c = pairs[ch.upper()]
            out.append(ord(c if ch.isupper() else c.lower()))
        else:
            out.append(x)
    return bytes(out)


def expected_stream(recs, scaffolds, w):
    """C03's right-hand side: per scaffold '>name\\n' + wrap(concat rows)"""
    seqs = {r["name"]: r["seq"] for r in recs}
    out = bytearray()
    for sc in scaffolds:
        out += b">" + sc["name"].encode() + b"\n"
        body = bytearray()
        for r in sc["rows"]:
            if r["t"] == "G":
                body += b"N" * max(0, r["len"])
            else:
                piece = seqs[r["name"]][r["start"] - 1:r["end"]]
                body += spec_revcomp(piece) if r["strand"] == -1 else piece
        for i in range(0, len(body), w):
            out += body[i:i + w] + b"\n"
    return bytes(out)


def rand_scaffolds_over(rng, recs, nsc=3, maxrows=6, zero_strand=0.1, big_gaps=None):
    scs = []
    usable = [r for r in recs if len(r["seq"]) > 0]
    for j in range(rng.randint(1, nsc)):
        rows = []
        for _ in range(rng.randint(1, maxrows)):
            if rng.random() < 0.3:
                rows.append(conv.jgap(rng.choice(big_gaps or [0, 1, 2, 10, 60, 61, 200])))
            else:
                r = rng.choice(usable)
                n = len(r["seq"])
                a = rng.randint(1, n); b = rng.randint(a, n)
                st = rng.choice([1, -1]) if rng.random() > zero_strand else 0
                rows.append(conv.jfrag(0, r["name"], a, b, st))
        # LINE-ALIGNED gaps: with some probability a gap row is sized so that it ends exactly on a boundary of the writer's 60-column output lines
        # after filling at least one whole line (a writer that treats "exactly one full line left" differently from "more than one" shows only there)
        if rng.random() < 0.5:
            col = 0
            for k, r_ in enumerate(rows):
                if r_["t"] == "G" and k + 1 < len(rows) and rng.random() < 0.7:
                    r_["len"] = (60 - col) % 60 + 60 * rng.randint(1, 3) if col else 60 * rng.randint(1, 4)
                col = (col + (r_["len"] if r_["t"] == "G" else r_["end"] - r_["start"] + 1)) % 60
        scs.append(conv.jscaffold(f"out{j+1}", rows))
    return scs
