/-
  C02 core (task W6-C02CORE), helper part 8: a stored result that was not appended to `BuildAssembly.scaffolds`
  (`added = false`, its rows were empty after `trim_large_overhangs`) has no rows — through all of
  `remap_to_input_assembly`.  So a result that still has rows at the end WAS appended and is written out.
-/
import AgpTpf.Proofs.C02KCut
namespace AgpTpf.C02
open AgpTpf OverlapResult
open AgpTpf.C01 (foldlM_inv)

def AddedOK (store : List Res) : Prop := ∀ r ∈ store, r.added = false → r.o.rows = []

theorem addedOK_of_resCore (s1 s2 : List Res) (h : s1.map C01.resCore = s2.map C01.resCore) (hs : AddedOK s2) :
    AddedOK s1 := by
  intro r hr ha
  have : C01.resCore r ∈ s2.map C01.resCore := h ▸ List.mem_map_of_mem hr
  obtain ⟨r2, h2, e⟩ := List.mem_map.mp this
  simp only [C01.resCore, Prod.mk.injEq] at e
  rw [← e.2.1]
  exact hs r2 h2 (by rw [e.1]; exact ha)

theorem addedOK_append (store : List Res) (r : Res) (hs : AddedOK store) (hr : r.added = false → r.o.rows = []) :
    AddedOK (store ++ [r]) := by
  intro x hx
  rcases List.mem_append.mp hx with hx | hx
  · exact hs x hx
  · simp only [List.mem_cons, List.not_mem_nil, or_false] at hx; subst hx; exact hr

theorem processBait_addedOK (input : List Scaffold) (scTags : List Str) (orig : Str) (b b' : Build) (bait : Fragment)
    (hS : AddedOK b.store) (h : processBait input scTags orig b bait = .ok b') : AddedOK b'.store := by
  unfold processBait at h
  simp only [bind, Except.bind] at h
  split at h
  · cases h
  · next sc hsc =>
    split at h
    · cases h
    · next fo hfo =>
      split at h
      · simp only [pure, Except.pure, Except.ok.injEq] at h; subst h; exact hS
      · next o0 =>
        split at h
        · cases h
        · next v hv =>
          obtain ⟨n, o1⟩ := v
          simp only at h
          split at h
          · cases h
          · next o2 ho2 =>
            split at h
            · next hemp =>
              simp only [pure, Except.pure, Except.ok.injEq] at h
              subst h
              exact addedOK_append _ _ hS (fun _ => by simpa using hemp)
            · simp only [pure, Except.pure, Except.ok.injEq] at h
              subst h
              rw [C01.storeFragmentsFound_eq]
              obtain ⟨f1, _⟩ := C01.foldl_storeOne_other_fields b.store.length (fragmentsOf o2.rows)
                { b with namer := n, store := b.store ++ [{ o := o2, added := true }] }
              rw [f1]
              exact addedOK_append _ _ hS (fun h => by cases h)

theorem findAssemblyOverlaps_addedOK (input ptx : List Scaffold) (b b' : Build) (hS : AddedOK b.store)
    (h : findAssemblyOverlaps input ptx b = .ok b') : AddedOK b'.store := by
  unfold findAssemblyOverlaps at h
  refine foldlM_inv (fun x : Build => AddedOK x.store) _ ptx ?_ b b' hS h
  intro a ps a' ha hstep
  simp only [bind, Except.bind] at hstep
  split at hstep
  · cases hstep
  · next n hn =>
    split at hstep
    · cases hstep
    · next b2 hb2 =>
      simp only [pure, Except.pure, Except.ok.injEq] at hstep
      subst hstep
      have hmid := foldlM_inv (fun x : Build => AddedOK x.store) _ ps.fragments
        (fun x bait x' hx hs' => processBait_addedOK input _ _ x x' bait hx hs') { a with namer := n } b2 ha hb2
      exact addedOK_of_resCore _ _ (C01.renameBySize_core _ _) hmid

theorem premise_apply_addedOK (p : Premise) (store store' : List Res) (hs : AddedOK store)
    (h : p.apply store = .ok store') : AddedOK store' := by
  obtain ⟨_, _, o', hdisc, hset⟩ := apply_only_touches h
  subst hset
  intro x hx ha
  rcases List.mem_or_eq_of_mem_set hx with hx | rfl
  · exact hs x hx ha
  · simp only at ha ⊢
    have hold : (getRes store p.sid).rows = [] := by
      unfold getRes
      rcases C07.getD_mem_or_default store p.sid with hm | hm
      · exact hs _ hm ha
      · rw [hm]; rfl
    cases hk : p.kind with
    | start =>
      rw [hk] at hdisc
      simp only at hdisc
      rw [C07.discardStart_nil _ hold] at hdisc; cases hdisc
    | stop =>
      rw [hk] at hdisc
      simp only at hdisc
      rw [C07.discardEnd_nil _ hold] at hdisc; cases hdisc

theorem resolverRound_addedOK (b b' : Build) (hS : AddedOK b.store) (h : resolverRound b = .ok (some b')) :
    AddedOK b'.store := by
  unfold resolverRound at h
  simp only [bind, Except.bind] at h
  split at h
  · cases h
  · next prems _ =>
    split at h
    · cases h
    · next v hv =>
      obtain ⟨store, fixes⟩ := v
      simp only at h
      have hst : AddedOK store := by
        refine foldlM_inv (fun (x : List Res × List Premise) => AddedOK x.1) _ _ ?_ (b.store, [])
          (store, fixes) hS hv
        intro a ps a' ha hstep
        obtain ⟨a1, a2⟩ := a
        obtain ⟨a1', a2'⟩ := a'
        rcases C07.fixOne_store _ _ _ _ _ _ hstep with rfl | ⟨p, hp⟩
        · exact ha
        · exact premise_apply_addedOK p _ _ ha hp
      split at h
      · cases h
      · split at h
        · cases h
        · next b2 hb2 =>
          simp only [pure, Except.pure, Except.ok.injEq, Option.some.injEq] at h
          subst h
          have := foldlM_inv (fun x : Build => x.store = store) _ fixes
            (fun x p x' hx hs' => by
              obtain ⟨q1, _⟩ := C07.applyFixBookkeeping_fields (fun _ => True) x x' p hs' (fun _ _ => trivial)
              exact q1.trans hx)
            { b with store := store } b2 rfl hb2
          rw [this]; exact hst

theorem discardOverhanging_addedOK (fuel : Nat) (b b' : Build) (hS : AddedOK b.store)
    (h : discardOverhanging fuel b = .ok b') : AddedOK b'.store := by
  induction fuel generalizing b with
  | zero => simp [discardOverhanging] at h
  | succ n ih =>
    unfold discardOverhanging at h
    split at h
    · cases h; exact hS
    · simp only [bind, Except.bind] at h
      split at h
      · cases h
      · next r hr =>
        split at h
        · simp only [pure, Except.pure, Except.ok.injEq] at h; subst h; exact hS
        · next b1 => exact ih b1 (resolverRound_addedOK b b1 hS hr) h

theorem cutStep_addedOK (f : Fragment) (last : Nat) (b : Build) (subs : List Fragment) (i sid : Nat)
    (acc' : Build × List Fragment × Nat) (hS : AddedOK b.store)
    (h : C01.cutStep f last (b, subs, i) sid = .ok acc') : AddedOK acc'.1.store := by
  unfold C01.cutStep at h
  simp only [bind, Except.bind] at h
  split at h
  · cases h
  · next v hv =>
    obtain ⟨o, new⟩ := v
    simp only [pure, Except.pure, Except.ok.injEq] at h
    subst h
    intro x hx ha
    rcases C07.mem_setAt _ _ _ _ hx with hx | rfl
    · exact hS x hx ha
    · exfalso
      simp only at ha
      have hold : (b.store.getD sid default).o.rows = [] := by
        rcases C07.getD_mem_or_default b.store sid with hm | hm
        · exact hS _ hm ha
        · rw [hm]; rfl
      rw [C07.trimFragment_nil _ _ _ _ _ hold] at hv
      cases hv

theorem cutRemaining_addedOK (b b' : Build) (hS : AddedOK b.store) (h : cutRemaining b = .ok b') :
    AddedOK b'.store := by
  unfold cutRemaining at h
  simp only [bind, Except.bind] at h
  split at h
  · cases h
  · next b1 hb1 =>
    simp only [pure, Except.pure, Except.ok.injEq] at h
    subst h
    exact foldlM_inv (fun x : Build => AddedOK x.store) _ b.multi
      (fun x k x' hx hstep => by
        split at hstep
        · next fnd hfnd =>
          obtain ⟨ordered, b1', subs, n, _, hfold, _, rfl⟩ := C01.cutFragments_ok x x' fnd hstep
          exact foldlM_inv (fun (y : Build × List Fragment × Nat) => AddedOK y.1.store) _ ordered
            (fun y sid y' hy hs' => by
              obtain ⟨yb, ys, yi⟩ := y
              exact cutStep_addedOK _ _ _ _ _ _ _ hy hs')
            (x, [], 0) (b1', subs, n) hx hfold
        · simp only [pure, Except.pure, Except.ok.injEq] at hstep; subst hstep; exact hx)
      b b1 hS hb1

theorem remapToInput_addedOK (input ptx : List Scaffold) (prefix_ : Str) (joinGap : Option Gap) (err : Int) (b : Build)
    (h : remapToInput input ptx prefix_ joinGap err = .ok b) : AddedOK b.store := by
  obtain ⟨b1, b2, b3, h1, h2, h3, h4⟩ := C09.remapToInput_stages input ptx prefix_ joinGap err b h
  have a1 := findAssemblyOverlaps_addedOK input ptx _ b1 (fun r hr => by cases hr) h1
  have a2 := discardOverhanging_addedOK _ b1 b2 a1 h2
  have a3 := cutRemaining_addedOK b2 b3 a2 h3
  rw [(C09.addMissing_store input _ b h4).1]
  exact addedOK_of_resCore _ _ (C01.renameBySize_core _ _) a3

end AgpTpf.C02
