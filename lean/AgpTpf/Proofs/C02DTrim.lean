/-
  C02 (deep cuts), part 4: forward evaluation of `trim_fragment` (the result equals `trimStartSpec` / `trimEndSpec`),
  of the QC of two abutting pieces, and of `cut_fragments` for a contig with two holders.
-/
import AgpTpf.Proofs.C02DResolve
import AgpTpf.Proofs.C02Cut
namespace AgpTpf.C02
open AgpTpf OverlapResult

/-! ### `trim_fragment`, forward -/

theorem setLast_concat {α} (t : List α) (x y : α) : setLast (t ++ [x]) y = t ++ [y] := by
  simp [setLast]

theorem trimFragment_A (o : OverlapResult) (F : Fragment) (oid : Nat) (a : Bool)
    (hs : firstIs o F = .ok a) (he : lastIs o F = .ok true) (c2 : o.bait.stop < o.stop)
    (hsize : o.stop - o.bait.stop ≤ F.stop - F.start) (htags : o.bait.tags = [])
    (hstr : F.strand = 1 ∨ F.strand = -1) :
    o.trimFragment F true false oid =
      .ok ({ o with stop := o.bait.stop,
                    rows := setLast o.rows (.frag (cutFragEnd F (o.stop - o.bait.stop) oid)) },
           cutFragEnd F (o.stop - o.bait.stop) oid) := by
  unfold trimFragment
  have he' : ∀ x, lastIs { o with start := x } F = .ok true := fun x => he
  simp only [hs, bind, Except.bind, pure, Except.pure, endOverhang, startOverhang]
  have hstop : o.stop - (o.stop - o.bait.stop) = o.bait.stop := by omega
  rcases hstr with c3 | c3 <;> cases a <;> simp [c2, c3, he', mkFragment, hstop, htags, cutFragEnd]
  all_goals (rw [if_neg (by omega)])

theorem trimFragment_B (o : OverlapResult) (F : Fragment) (oid : Nat) (b : Bool)
    (hs : firstIs o F = .ok true) (he : lastIs o F = .ok b) (c1 : o.start < o.bait.start)
    (hsize : o.bait.start - o.start ≤ F.stop - F.start) (htags : o.bait.tags = [])
    (hstr : F.strand = 1 ∨ F.strand = -1) :
    o.trimFragment F false true oid =
      .ok ({ o with start := o.bait.start,
                    rows := if b = true then setLast o.rows (.frag (cutFragStart F (o.bait.start - o.start) oid))
                            else match o.rows with
                              | [] => []
                              | _ :: r => .frag (cutFragStart F (o.bait.start - o.start) oid) :: r },
           cutFragStart F (o.bait.start - o.start) oid) := by
  unfold trimFragment
  have he' : ∀ x, lastIs { o with start := x } F = .ok b := fun x => he
  simp only [hs, bind, Except.bind, pure, Except.pure, endOverhang, startOverhang]
  have hstart : o.start + (o.bait.start - o.start) = o.bait.start := by omega
  rcases hstr with c3 | c3 <;> cases b <;> simp [c1, c3, he', mkFragment, hstart, htags, cutFragStart]
  all_goals first | rfl | (rw [if_neg (by omega)]; done) | (rw [if_neg (by omega)]; rfl)

/-- the holder whose LAST row is the contig, called with `keep_start = True, keep_end = False`: the last row is cut at
    the bait's end -/
theorem trimFragment_end_fwd (o : OverlapResult) (F : Fragment) (t : List Row) (oid : Nat)
    (hr : o.rows = t ++ [.frag F]) (hov : 0 < o.endOverhang) (hsize : o.endOverhang < F.length)
    (htags : o.bait.tags = []) (hstr : F.strand = 1 ∨ F.strand = -1) :
    o.trimFragment F true false oid = .ok (trimEndSpec oid o, cutFragEnd F o.endOverhang oid) := by
  have hne : o.rows ≠ [] := by rw [hr]; simp
  obtain ⟨c, hc⟩ := firstIs_ok_of_ne F hne
  have hl : lastIs o F = .ok true := by rw [C18.lastIs_concat o F _ t hr, C18.rowIs_self]
  have hlen : F.length = F.stop - F.start + 1 := rfl
  have heo : o.endOverhang = o.stop - o.bait.stop := rfl
  rw [trimFragment_A o F oid c hc hl (by omega) (by omega) htags hstr, heo]
  congr 2
  unfold trimEndSpec
  rw [hr]
  simp [setLast_concat]

/-- the holder whose FIRST row is the contig, called with `keep_start = False, keep_end = True`: the first row is cut
    at the bait's start -/
theorem trimFragment_start_fwd (o : OverlapResult) (F : Fragment) (r : List Row) (oid : Nat)
    (hr : o.rows = .frag F :: r) (hlast : r = [] ∨ lastIs o F = .ok false)
    (hov : 0 < o.startOverhang) (hsize : o.startOverhang < F.length)
    (htags : o.bait.tags = []) (hstr : F.strand = 1 ∨ F.strand = -1) :
    o.trimFragment F false true oid = .ok (trimStartSpec oid o, cutFragStart F o.startOverhang oid) := by
  have hf : firstIs o F = .ok true := by rw [C18.firstIs_cons o F _ r hr, C18.rowIs_self]
  have hlen : F.length = F.stop - F.start + 1 := rfl
  have hso : o.startOverhang = o.bait.start - o.start := rfl
  have hspec : trimStartSpec oid o =
      { o with start := o.bait.start, rows := .frag (cutFragStart F (o.bait.start - o.start) oid) :: r } := by
    unfold trimStartSpec
    rw [hr]
  rcases hlast with h0 | h0
  · subst h0
    have hl : lastIs o F = .ok true := by rw [C18.lastIs_concat o F _ [] hr, C18.rowIs_self]
    rw [trimFragment_B o F oid true hf hl (by omega) (by omega) htags hstr, hso, hspec]
    simp [hr, setLast]
  · rw [trimFragment_B o F oid false hf h0 (by omega) (by omega) htags hstr, hso, hspec]
    simp [hr]

/-! ### the QC of two abutting pieces -/

theorem qc_two (F x y : Fragment) (hn : x.name = y.name) (hx : x.start ≤ x.stop) (hy : y.start ≤ y.stop)
    (hab : x.stop + 1 = y.start) (hlen : x.length + y.length = F.length) : qcPasses F [x, y] = true := by
  have h1 : lexLe x y = true := by
    unfold lexLe
    have : x.start < y.start := by omega
    simp [this]
  have hs : stableSort lexLe [x, y] = [x, y] := by simp [stableSort, insertBy, h1]
  have habut : x.abuts y = true := by unfold Fragment.abuts; simp [hn, hab]
  have hover : x.overlaps y = false := by
    unfold Fragment.overlaps
    simp only [hn, ne_eq, not_true_eq_false, if_false, decide_eq_false_iff_not]
    omega
  have hgap : x.gapBetween y = some 0 := by
    unfold Fragment.gapBetween
    have h2 : min x.stop y.stop = x.stop := by omega
    have h3 : max x.start y.start = y.start := by omega
    have h4 : x.stop < y.start := by omega
    simp only [hn, ne_eq, not_true_eq_false, if_false, h2, h3, h4, if_true]
    congr 1; omega
  unfold qcPasses
  simp only [hs, List.drop_succ_cons, List.drop_zero, List.zip_cons_cons, List.zip_nil_right, List.filter_cons,
    List.filter_nil, habut, hover, hgap, if_true, Bool.false_eq_true, if_false, List.length_cons, List.length_nil,
    List.map_cons, List.map_nil, sumInts]
  simp [hlen.symm]

/-! ### `cut_fragments` for a contig with two holders -/

theorem cutFragments_pair (bc : Build) (fnd : Found) (s t h1 h2 : Nat) (ks kt : Int) (o1' o2' : OverlapResult)
    (new1 new2 : Fragment)
    (hsc : fnd.scaffolds = [s, t])
    (hks : (getRes bc.store s).fragmentStartIfTrimmed fnd.fragment = .ok ks)
    (hkt : (getRes bc.store t).fragmentStartIfTrimmed fnd.fragment = .ok kt)
    (hord : (if ks ≤ kt then [s, t] else [t, s]) = [h1, h2])
    (hne : h1 ≠ h2)
    (ht1 : (bc.store.getD h1 default).o.trimFragment fnd.fragment (cutFlags fnd.fragment.strand 0 1).1
      (cutFlags fnd.fragment.strand 0 1).2 bc.nextOid = .ok (o1', new1))
    (ht2 : (bc.store.getD h2 default).o.trimFragment fnd.fragment (cutFlags fnd.fragment.strand 1 1).1
      (cutFlags fnd.fragment.strand 1 1).2 (bc.nextOid + 1) = .ok (o2', new2))
    (hqc : qcPasses fnd.fragment [new1, new2] = true) :
    cutFragments bc fnd = .ok { bc with
      store := setAt (setAt bc.store h1 { bc.store.getD h1 default with o := o1' }) h2
        { bc.store.getD h2 default with o := o2' },
      nextOid := bc.nextOid + 1 + 1, cuts := bc.cuts + 1 } := by
  have hsort : (stableSort (fun (a c : Int × Nat) => decide (a.1 ≤ c.1)) [(ks, s), (kt, t)]).map (·.2) = [h1, h2] := by
    rw [← hord]
    by_cases h : ks ≤ kt <;> simp [stableSort, insertBy, h]
  have hget2 : ∀ x, (setAt bc.store h1 x).getD h2 default = bc.store.getD h2 default :=
    fun x => getD_setAt_ne _ _ _ _ _ hne
  have e1 : (0 + 1 + 1 - 1 : Nat) = 1 := rfl
  have e2 : (0 + 1 : Nat) = 1 := rfl
  have e3 : ((([] : List Fragment) ++ [new1]) ++ [new2]) = [new1, new2] := rfl
  have e4 : bc.cuts + (((1 + 1 : Nat) : Int) - 1) = bc.cuts + 1 := by omega
  unfold cutFragments
  simp only [hsc, List.mapM_cons, List.mapM_nil, hks, hkt, bind, Except.bind, pure, Except.pure, hsort]
  by_cases hs : fnd.fragment.strand = -1
  · simp only [cutFlags, hs, if_true] at ht1 ht2
    simp only [List.foldlM_cons, List.foldlM_nil, hs, if_true, bind, Except.bind, pure, Except.pure, List.length_cons,
      List.length_nil, e1, ht1, e2, hget2, ht2, e3, hqc, not_true_eq_false, if_false, e4]
  · simp only [cutFlags, hs, if_false] at ht1 ht2
    simp only [List.foldlM_cons, List.foldlM_nil, hs, if_false, bind, Except.bind, pure, Except.pure, List.length_cons,
      List.length_nil, e1, ht1, e2, hget2, ht2, e3, hqc, not_true_eq_false, e4]

end AgpTpf.C02
