/- `.fai` rows: `splitWords`, `loadIndexLine`, `loadIndex` (C15/C17 warm = cold) -/
import AgpTpf.Model.Cli
import AgpTpf.Proofs.C05Int
import AgpTpf.Proofs.C05Split
import AgpTpf.Proofs.C05Header
namespace AgpTpf.CliFai
open AgpTpf AgpTpf.C05

/-! ### `splitWords` — `line.split()`, how `load_index` read a row BEFORE fix f770cde (kept to document the defect) -/

theorem length_dropWhile_le {α} (p : α → Bool) (l : List α) : (l.dropWhile p).length ≤ l.length := by
  induction l with
  | nil => simp
  | cons a t ih =>
    rw [List.dropWhile_cons]; split
    · simp only [List.length_cons]; omega
    · exact Nat.le_refl _

/-- dropping a non-empty word makes the list strictly shorter -/
theorem length_dropWhile_lt {α} (p : α → Bool) (a : α) (t : List α) (h : p a = true) :
    ((a :: t).dropWhile p).length < (a :: t).length := by
  rw [List.dropWhile_cons, if_pos h]
  have := length_dropWhile_le p t
  simp only [List.length_cons]; omega

theorem head_of_dropWhile_eq_cons {α} (p : α → Bool) (l : List α) (a : α) (r : List α)
    (h : l.dropWhile p = a :: r) : p a = false := by
  induction l with
  | nil => cases h
  | cons x xs ih =>
    rw [List.dropWhile_cons] at h
    split at h
    · exact ih h
    · rename_i hx; cases h; simpa using hx

/-- `splitWords` without its (dead) `[w]` branch -/
theorem splitWords_eq (s : Str) :
    splitWords s =
      if (s.dropWhile isSpace).isEmpty then []
      else ((s.dropWhile isSpace).takeWhile (fun c => !isSpace c)) ::
             splitWords ((s.dropWhile isSpace).dropWhile (fun c => !isSpace c)) := by
  cases s with
  | nil => rw [splitWords]; rfl
  | cons c cs =>
    rw [splitWords]
    case x_1 => intro h; cases h
    generalize ht : (c :: cs).dropWhile isSpace = t
    cases t with
    | nil => simp
    | cons a r =>
      have ha : isSpace a = false := head_of_dropWhile_eq_cons _ _ _ _ ht
      have h1 : ((a :: r).dropWhile (fun c => !isSpace c)).length < (a :: r).length :=
        length_dropWhile_lt _ a r (by simp [ha])
      have h2 : (a :: r).length ≤ (c :: cs).length := by
        rw [← ht]; exact length_dropWhile_le _ _
      simp only [List.isEmpty_cons, Bool.false_eq_true, if_false]
      rw [dif_pos (Nat.lt_of_lt_of_le h1 h2)]

theorem splitWords_nil : splitWords [] = [] := by rw [splitWords]

theorem splitWords_space (c : Char) (s : Str) (hc : isSpace c = true) : splitWords (c :: s) = splitWords s := by
  rw [splitWords_eq (c :: s), splitWords_eq s, List.dropWhile_cons, if_pos hc]

theorem splitWords_all_space (s : Str) (h : ∀ c ∈ s, isSpace c = true) : splitWords s = [] := by
  induction s with
  | nil => exact splitWords_nil
  | cons c cs ih =>
    rw [splitWords_space c cs (h c (by simp))]; exact ih (fun x hx => h x (by simp [hx]))

theorem takeWhile_append_stop {α} (p : α → Bool) (w : List α) (a : α) (r : List α)
    (hw : ∀ x ∈ w, p x = true) (ha : p a = false) : (w ++ a :: r).takeWhile p = w := by
  induction w with
  | nil => simp [ha]
  | cons x xs ih =>
    rw [List.cons_append, List.takeWhile_cons, if_pos (hw x (by simp)), ih (fun y hy => hw y (by simp [hy]))]

theorem dropWhile_append_stop {α} (p : α → Bool) (w : List α) (a : α) (r : List α)
    (hw : ∀ x ∈ w, p x = true) (ha : p a = false) : (w ++ a :: r).dropWhile p = a :: r := by
  induction w with
  | nil => simp [ha]
  | cons x xs ih =>
    rw [List.cons_append, List.dropWhile_cons, if_pos (hw x (by simp)), ih (fun y hy => hw y (by simp [hy]))]

/-- a non-empty space-free word followed by a white-space character is the first word -/
theorem splitWords_word (w : Str) (sp : Char) (rest : Str) (hne : w ≠ [])
    (hw : ∀ c ∈ w, isSpace c = false) (hsp : isSpace sp = true) :
    splitWords (w ++ sp :: rest) = w :: splitWords rest := by
  rw [splitWords_eq]
  have hd : (w ++ sp :: rest).dropWhile isSpace = w ++ sp :: rest := by
    cases w with
    | nil => exact absurd rfl hne
    | cons a t => rw [List.cons_append, List.dropWhile_cons, if_neg (by simp [hw a (by simp)])]
  rw [hd]
  have hemp : (w ++ sp :: rest).isEmpty = false := by cases w <;> simp
  rw [hemp]
  simp only [Bool.false_eq_true, if_false]
  rw [takeWhile_append_stop _ w sp rest (fun x hx => by simp [hw x hx]) (by simp [hsp]),
      dropWhile_append_stop _ w sp rest (fun x hx => by simp [hw x hx]) (by simp [hsp]),
      splitWords_space sp rest hsp]

/-- words never contain white space and are never empty -/
theorem splitWords_words (s : Str) : ∀ w ∈ splitWords s, w ≠ [] ∧ ∀ c ∈ w, isSpace c = false := by
  generalize hn : s.length = n
  induction n using Nat.strongRecOn generalizing s with
  | _ n ih =>
    intro w hw
    rw [splitWords_eq] at hw
    generalize ht : s.dropWhile isSpace = t at hw
    cases t with
    | nil => simp at hw
    | cons a r =>
      have ha : isSpace a = false := head_of_dropWhile_eq_cons _ _ _ _ ht
      simp only [List.isEmpty_cons, Bool.false_eq_true, if_false] at hw
      rcases List.mem_cons.1 hw with rfl | hw
      · constructor
        · rw [List.takeWhile_cons]; simp [ha]
        · intro c hc
          have hall := List.all_takeWhile (l := a :: r) (p := fun c => !isSpace c)
          have := List.all_eq_true.1 hall c hc
          simpa using this
      · have h1 := length_dropWhile_lt (fun c => !isSpace c) a r (by simp [ha])
        have h2 : (a :: r).length ≤ s.length := by rw [← ht]; exact length_dropWhile_le _ _
        exact ih _ (by omega) _ rfl w hw

/-! ### decimal text is a word -/

theorem intToStr_ne_nil (i : Int) : intToStr i ≠ [] := by
  cases i with
  | ofNat n => exact natToStr_ne_nil n
  | negSucc n => intro h; cases h

theorem intToStr_no_space (i : Int) : ∀ c ∈ intToStr i, isSpace c = false := by
  cases i with
  | ofNat n => intro c hc; exact not_isSpace_of_isDigit (isDigit_of_mem_natToStr hc)
  | negSucc n =>
    intro c hc
    show isSpace c = false
    have hc' : c ∈ '-' :: natToStr (n + 1) := hc
    rcases List.mem_cons.1 hc' with rfl | h
    · decide
    · exact not_isSpace_of_isDigit (isDigit_of_mem_natToStr h)

/-! ### one row -/

/-- what the OLD reader (`line.split()`) needed of a name: non-empty, no `str.isspace` character -/
def WordOk (n : Str) : Prop := n ≠ [] ∧ ∀ c ∈ n, isSpace c = false

instance (n : Str) : Decidable (WordOk n) := by unfold WordOk; exact inferInstance

/-- a name usable in a `.fai` file read by `line.rstrip("\n").split("\t")`: no tab; and no newline, so that the row
    stays one line of the file.  (It may be empty and may contain blanks or any other white space.) -/
def NameOk (n : Str) : Prop := '\t' ∉ n ∧ '\n' ∉ n

instance (n : Str) : Decidable (NameOk n) := by unfold NameOk; exact inferInstance

theorem faiRow_eq (e : Str × FastaInfo) :
    faiRow e = e.1 ++ '\t' :: (intToStr e.2.length ++ '\t' :: (intToStr e.2.fileOffset ++ '\t' ::
      (intToStr e.2.rpl ++ '\t' :: (intToStr e.2.mll ++ '\n' :: [])))) := by
  simp [faiRow, joinWith]

/-- the OLD reader on a written row -/
theorem splitWords_faiRow (e : Str × FastaInfo) (h : WordOk e.1) :
    splitWords (faiRow e) =
      [e.1, intToStr e.2.length, intToStr e.2.fileOffset, intToStr e.2.rpl, intToStr e.2.mll] := by
  have ht : isSpace '\t' = true := by decide
  have hn : isSpace '\n' = true := by decide
  rw [faiRow_eq,
    splitWords_word _ _ _ h.1 h.2 ht,
    splitWords_word _ _ _ (intToStr_ne_nil _) (intToStr_no_space _) ht,
    splitWords_word _ _ _ (intToStr_ne_nil _) (intToStr_no_space _) ht,
    splitWords_word _ _ _ (intToStr_ne_nil _) (intToStr_no_space _) ht,
    splitWords_word _ _ _ (intToStr_ne_nil _) (intToStr_no_space _) hn,
    splitWords_nil]

theorem intToStr_no_tab (i : Int) : '\t' ∉ intToStr i := by
  intro h; have := intToStr_no_space i _ h; revert this; decide

theorem intToStr_no_nl (i : Int) : '\n' ∉ intToStr i := by
  intro h; have := intToStr_no_space i _ h; revert this; decide

theorem rstripBy_append_one (p : Char → Bool) (s : Str) (c : Char) (hc : p c = true) :
    rstripBy p (s ++ [c]) = rstripBy p s := by
  unfold rstripBy
  rw [List.reverse_append, List.reverse_singleton, List.singleton_append, List.dropWhile_cons, if_pos hc]

def rowFields (e : Str × FastaInfo) : List Str :=
  [e.1, intToStr e.2.length, intToStr e.2.fileOffset, intToStr e.2.rpl, intToStr e.2.mll]

theorem faiRow_fields (e : Str × FastaInfo) : faiRow e = joinWith '\t' (rowFields e) ++ ['\n'] := rfl

/-- `rstrip("\n")` removes exactly the row's terminator: the last column ends in a digit -/
theorem rstrip_faiRow (e : Str × FastaInfo) :
    rstripBy (· == '\n') (faiRow e) = joinWith '\t' (rowFields e) := by
  rw [faiRow_fields, rstripBy_append_one _ _ _ (by decide)]
  apply rstripBy_eq_self
  intro x hx
  have hj : joinWith '\t' (rowFields e) =
      (e.1 ++ '\t' :: (intToStr e.2.length ++ '\t' :: (intToStr e.2.fileOffset ++ '\t' :: (intToStr e.2.rpl ++ ['\t'])))) ++
        intToStr e.2.mll := by
    simp [rowFields, joinWith]
  rw [hj, List.getLast?_append] at hx
  cases hl : (intToStr e.2.mll).getLast? with
  | none =>
    have := List.getLast?_eq_none_iff.1 hl
    exact absurd this (intToStr_ne_nil _)
  | some y =>
    rw [hl] at hx
    have hxy : y = x := Option.some.inj hx
    subst hxy
    have hy : y ∈ intToStr e.2.mll := List.mem_of_getLast? hl
    have hne : y ≠ '\n' := fun h => intToStr_no_nl e.2.mll (h ▸ hy)
    simpa using hne

/-- the NEW reader on a written row: only a tab inside the name can disturb it -/
theorem splitFaiLine_faiRow (e : Str × FastaInfo) (h : '\t' ∉ e.1) : splitFaiLine (faiRow e) = rowFields e := by
  unfold splitFaiLine
  rw [rstrip_faiRow]
  apply splitOnChar_joinWith _ _ (by simp [rowFields])
  intro f hf
  simp only [rowFields, List.mem_cons, List.not_mem_nil, or_false] at hf
  rcases hf with rfl | rfl | rfl | rfl | rfl
  · exact h
  all_goals exact intToStr_no_tab _

theorem loadIndexLine_faiRow (e : Str × FastaInfo) (h : '\t' ∉ e.1) : loadIndexLine (faiRow e) = .ok e := by
  unfold loadIndexLine
  rw [splitFaiLine_faiRow e h]
  simp only [rowFields, pyInt_intToStr]
  rfl

/-- columns never contain a tab -/
theorem splitFaiLine_no_tab (line : Str) : ∀ f ∈ splitFaiLine line, '\t' ∉ f :=
  not_mem_of_mem_splitOnChar '\t' _

/-- a written row is one complete line of the file when the name has no newline -/
theorem faiRow_lineOk (e : Str × FastaInfo) (h : '\n' ∉ e.1) : LineOk (faiRow e) := by
  refine ⟨joinWith '\t' (rowFields e), faiRow_fields e, ?_⟩
  apply joinWith_no_sep_mem '\t' '\n' _ (by decide)
  intro f hf
  simp only [rowFields, List.mem_cons, List.not_mem_nil, or_false] at hf
  rcases hf with rfl | rfl | rfl | rfl | rfl
  · exact h
  all_goals exact intToStr_no_nl _

/-! ### `pyInt` only raises `ValueError` -/

theorem pyInt_error (s : Str) (e : Err) (h : pyInt s = .error e) : e = .value := by
  rw [pyInt_eq] at h
  split at h
  · cases h; rfl
  · cases h

theorem loadIndexLine_error (line : Str) (e : Err) (h : loadIndexLine line = .error e) : e = .value := by
  unfold loadIndexLine at h
  split at h
  · rename_i n a b c d _
    cases ha : pyInt a with
    | error e1 => rw [ha] at h; cases h; exact pyInt_error _ _ ha
    | ok l =>
      cases hb : pyInt b with
      | error e1 => rw [ha, hb] at h; cases h; exact pyInt_error _ _ hb
      | ok o =>
        cases hc : pyInt c with
        | error e1 => rw [ha, hb, hc] at h; cases h; exact pyInt_error _ _ hc
        | ok r =>
          cases hd : pyInt d with
          | error e1 => rw [ha, hb, hc, hd] at h; cases h; exact pyInt_error _ _ hd
          | ok m => rw [ha, hb, hc, hd] at h; cases h
  · cases h; rfl

theorem loadIndexLine_ok_iff (line : Str) (e : Str × FastaInfo) :
    loadIndexLine line = .ok e ↔
      ∃ a b c d, splitFaiLine line = [e.1, a, b, c, d] ∧ pyInt a = .ok e.2.length ∧ pyInt b = .ok e.2.fileOffset ∧
        pyInt c = .ok e.2.rpl ∧ pyInt d = .ok e.2.mll := by
  constructor
  · intro h
    unfold loadIndexLine at h
    split at h
    · rename_i n a b c d heq
      cases ha : pyInt a with
      | error e1 => rw [ha] at h; cases h
      | ok l =>
        cases hb : pyInt b with
        | error e1 => rw [ha, hb] at h; cases h
        | ok o =>
          cases hc : pyInt c with
          | error e1 => rw [ha, hb, hc] at h; cases h
          | ok r =>
            cases hd : pyInt d with
            | error e1 => rw [ha, hb, hc, hd] at h; cases h
            | ok m =>
              rw [ha, hb, hc, hd] at h; cases h
              exact ⟨a, b, c, d, heq, ha, hb, hc, hd⟩
    · cases h
  · rintro ⟨a, b, c, d, hs, ha, hb, hc, hd⟩
    unfold loadIndexLine
    rw [hs]
    simp only [ha, hb, hc, hd]
    rfl

theorem loadIndexLine_wrong_count (line : Str) (h : (splitFaiLine line).length ≠ 5) :
    loadIndexLine line = .error .value := by
  unfold loadIndexLine
  split
  · rename_i heq; rw [heq] at h; exact absurd rfl h
  · rfl

/-! ### whole file -/

theorem dSet_new {κ ν} [DecidableEq κ] (d : List (κ × ν)) (k : κ) (v : ν) (h : k ∉ d.map Prod.fst) :
    dSet d k v = d ++ [(k, v)] := by
  induction d with
  | nil => rfl
  | cons p r ih =>
    obtain ⟨k', v'⟩ := p
    simp only [List.map_cons, List.mem_cons, not_or] at h
    simp only [dSet, if_neg (Ne.symm h.1), ih h.2, List.cons_append]

def loadStep (acc : List (Str × FastaInfo)) (l : Str) : R (List (Str × FastaInfo)) := do
  let e ← loadIndexLine l; pure (dSet acc e.1 e.2)

theorem loadIndex_eq (lines : List Str) : loadIndex lines = lines.foldlM loadStep [] := rfl

theorem foldlM_loadStep_rows (acc es : List (Str × FastaInfo))
    (hok : ∀ e ∈ es, '\t' ∉ e.1) (hd : ((acc ++ es).map Prod.fst).Pairwise (· ≠ ·)) :
    (es.map faiRow).foldlM loadStep acc = .ok (acc ++ es) := by
  induction es generalizing acc with
  | nil => simp [List.foldlM_nil]; rfl
  | cons e es ih =>
    rw [List.map_cons, List.foldlM_cons]
    have hnew : e.1 ∉ acc.map Prod.fst := by
      intro hmem
      rw [List.map_append, List.pairwise_append] at hd
      exact hd.2.2 _ hmem e.1 (by simp) rfl
    have hstep : loadStep acc (faiRow e) = .ok (acc ++ [e]) := by
      unfold loadStep
      rw [loadIndexLine_faiRow e (hok e (by simp))]
      show Except.ok (dSet acc e.1 e.2) = _
      rw [dSet_new _ _ _ hnew]
    rw [hstep]
    show List.foldlM loadStep (acc ++ [e]) (es.map faiRow) = _
    rw [ih (acc ++ [e]) (fun x hx => hok x (by simp [hx])) (by simpa using hd)]
    simp

theorem foldlM_loadStep_error (acc : List (Str × FastaInfo)) (lines : List Str) (l : Str) (hl : l ∈ lines)
    (e : Err) (he : loadIndexLine l = .error e) :
    lines.foldlM loadStep acc = .error .value := by
  induction lines generalizing acc with
  | nil => cases hl
  | cons x xs ih =>
    rw [List.foldlM_cons]
    cases hx : loadIndexLine x with
    | error e1 =>
      have : loadStep acc x = .error e1 := by unfold loadStep; rw [hx]; rfl
      rw [this, loadIndexLine_error _ _ hx]; rfl
    | ok y =>
      have : loadStep acc x = .ok (dSet acc y.1 y.2) := by unfold loadStep; rw [hx]; rfl
      rw [this]
      rcases List.mem_cons.1 hl with rfl | hmem
      · rw [hx] at he; cases he
      · exact ih _ hmem

/-! ### evaluating the OLD reader by kernel reduction (`splitWords` is well-founded, so `rfl` / `decide` need a structural twin) -/

def splitWordsF : Nat → Str → List Str
  | 0, _ => []
  | n + 1, s =>
    let t := s.dropWhile isSpace
    if t.isEmpty then [] else
      t.takeWhile (fun c => !isSpace c) :: splitWordsF n (t.dropWhile (fun c => !isSpace c))

theorem splitWords_fuel (n : Nat) (s : Str) (h : s.length ≤ n) : splitWords s = splitWordsF n s := by
  induction n generalizing s with
  | zero =>
    have : s = [] := List.eq_nil_of_length_eq_zero (by omega)
    subst this; rw [splitWords_nil]; rfl
  | succ n ih =>
    rw [splitWords_eq, splitWordsF]
    generalize ht : s.dropWhile isSpace = t
    cases t with
    | nil => simp
    | cons a r =>
      have ha : isSpace a = false := head_of_dropWhile_eq_cons _ _ _ _ ht
      have h1 := length_dropWhile_lt (fun c => !isSpace c) a r (by simp [ha])
      have h2 : (a :: r).length ≤ s.length := by rw [← ht]; exact length_dropWhile_le _ _
      simp only [List.isEmpty_cons, Bool.false_eq_true, if_false]
      rw [ih _ (by omega)]

end AgpTpf.CliFai
