/-
  C07 helpers for the left-over branch of `fuseByName` after model change f6b
  (`built ++ gapsBeforeLeftover joinGap built pred ++ rows`).
-/
import AgpTpf.Proofs.C07Lemmas
namespace AgpTpf.C07
open AgpTpf

/-- adjacencies when a left-over scaffold is appended: with separator rows (all gaps) none is created; without, only the
    seam pair -/
theorem adjPairs_leftover_add (jg : Option Gap) (built rows : List Row) (pred : Option (Fragment × List Gap)) :
    adjPairs (built ++ gapsBeforeLeftover jg built pred ++ rows) =
      adjPairs built ++ (if gapsBeforeLeftover jg built pred = [] then seam built rows else []) ++ adjPairs rows := by
  by_cases h : gapsBeforeLeftover jg built pred = []
  · rw [h, if_pos rfl, List.append_nil, adjPairs_append]
  · rw [if_neg h, C01.adjPairs_append_gaps _ _ _ h (C01.gapsBeforeLeftover_gaps jg built pred)]; simp

theorem noTerminalGap_leftover_add (built mid rows : List Row) (hb : NoTerminalGap built) (hbne : built ≠ [])
    (hr : NoTerminalGap rows) (hrne : rows ≠ []) : NoTerminalGap (built ++ mid ++ rows) := by
  constructor
  · intro g hg
    cases built with
    | nil => exact hbne rfl
    | cons x t => exact hb.1 g (by simpa using hg)
  · intro g hg
    rw [List.getLast?_append] at hg
    cases ho : rows.getLast? with
    | none => exact hrne (List.getLast?_eq_none_iff.mp ho)
    | some x => rw [ho] at hg; exact hr.2 g (ho.trans hg)

end AgpTpf.C07
