/-
  C02 (deep cuts), part 10: `cut_fragments` for a contig with ANY number of holders, evaluated forwards:
  the visiting order (`cutOrder_of_sorted`), the loop (`foldlM_cutStep_fwd`), the QC of a chain of abutting pieces
  (`qc_chain`), and all together `cutFragments_chain`.  (The end-to-end theorem of `Properties/C02Deep.lean` uses the
  two-holder instance `cutFragments_pair`; this file is the ingredient needed to lift its clause `two`.)
-/
import AgpTpf.Proofs.C02DCut
namespace AgpTpf.C02
open AgpTpf OverlapResult
open AgpTpf.C01 (cutStep cutOrder)

/-! ### `cut_fragments` = order, loop, QC -/

theorem cutFragments_eq_steps (b : Build) (fnd : Found) :
    cutFragments b fnd = (do
      let ordered ← cutOrder b fnd
      let r ← ordered.foldlM (cutStep fnd.fragment (ordered.length - 1)) (b, [], 0)
      if ¬ qcPasses fnd.fragment r.2.1 then throw Err.value
      pure { r.1 with cuts := r.1.cuts + ((r.2.1.length : Int) - 1) }) := by
  unfold cutFragments cutOrder
  simp only []
  generalize List.mapM (fun sid => do
    let k ← (getRes b.store sid).fragmentStartIfTrimmed fnd.fragment
    pure (k, sid)) fnd.scaffolds = m
  cases m with
  | error e => rfl
  | ok keyed =>
    simp only [bind, Except.bind, pure, Except.pure]
    unfold cutStep
    simp only [bind, Except.bind, pure, Except.pure]

/-! ### the visiting order -/

theorem mapM_ok_map {α β} (g : α → R β) (κ : α → β) (l : List α) (h : ∀ a ∈ l, g a = .ok (κ a)) :
    l.mapM g = .ok (l.map κ) := by
  induction l with
  | nil => rfl
  | cons a t ih =>
    simp only [List.mapM_cons, h a (by simp), ih (fun x hx => h x (by simp [hx])), bind, Except.bind, pure,
      Except.pure, List.map_cons]

/-- a list sorted strictly by an integer key is the only sorted arrangement of its elements -/
theorem sorted_unique {α} (key : α → Int) : ∀ (l1 l2 : List α), l1.Perm l2 →
    l1.Pairwise (fun a b => key a < key b) → l2.Pairwise (fun a b => key a ≤ key b) → l2 = l1
  | [], l2, hp, _, _ => by simpa using hp.symm.eq_nil
  | a :: t1, [], hp, _, _ => by simpa using hp.eq_nil
  | a :: t1, b :: t2, hp, h1, h2 => by
    rw [List.pairwise_cons] at h1 h2
    have hb : b ∈ a :: t1 := hp.symm.subset (by simp)
    have ha : a ∈ b :: t2 := hp.subset (by simp)
    have hab : b = a := by
      rcases List.mem_cons.1 hb with e | hb'
      · exact e
      · have h3 := h1.1 b hb'
        rcases List.mem_cons.1 ha with e | ha'
        · exact e.symm
        · have h4 := h2.1 a ha'
          omega
    subst hab
    have hp' : t1.Perm t2 := List.Perm.cons_inv hp
    rw [sorted_unique key t1 t2 hp' h1.2 h2.2]

/-- the holders are visited in the order `V` if `V` is an arrangement of the holder list with strictly increasing
    `fragment_start_if_trimmed` -/
theorem cutOrder_of_sorted (b : Build) (fnd : Found) (V : List Nat) (κ : Nat → Int)
    (hκ : ∀ h ∈ fnd.scaffolds, (getRes b.store h).fragmentStartIfTrimmed fnd.fragment = .ok (κ h))
    (hperm : V.Perm fnd.scaffolds) (hsorted : V.Pairwise (fun a c => κ a < κ c)) :
    cutOrder b fnd = .ok V := by
  unfold cutOrder
  have hm : fnd.scaffolds.mapM (fun sid => do
      let k ← (getRes b.store sid).fragmentStartIfTrimmed fnd.fragment
      pure (k, sid)) = .ok (fnd.scaffolds.map (fun h => (κ h, h))) := by
    apply mapM_ok_map
    intro h hh
    simp only [hκ h hh, bind, Except.bind, pure, Except.pure]
  simp only [bind, Except.bind, pure, Except.pure] at hm ⊢
  rw [hm]
  simp only
  congr 1
  have hp1 := C01.stableSort_perm (fun (a c : Int × Nat) => decide (a.1 ≤ c.1)) (fnd.scaffolds.map (fun h => (κ h, h)))
  have hs1 := stableSort_pairwise (fun (a : Int × Nat) => a.1) (fnd.scaffolds.map (fun h => (κ h, h)))
  have : stableSort (fun (a c : Int × Nat) => decide (a.1 ≤ c.1)) (fnd.scaffolds.map (fun h => (κ h, h))) =
      V.map (fun h => (κ h, h)) := by
    apply sorted_unique (fun (a : Int × Nat) => a.1)
    · exact (hperm.map _).trans hp1.symm
    · exact List.Pairwise.map _ (fun a c h => h) hsorted
    · exact hs1
  rw [this, List.map_map]
  simp [Function.comp_def]

/-! ### the loop -/

/-- what the loop does to the build: holder `t.1` gets the result `t.2.1` -/
def applyCuts (b : Build) (T : List (Nat × OverlapResult × Fragment)) : Build :=
  { b with store := T.foldl (fun st t => setAt st t.1 { st.getD t.1 default with o := t.2.1 }) b.store,
           nextOid := b.nextOid + T.length }

theorem foldlM_cutStep_fwd (F : Fragment) (last : Nat) :
    ∀ (T : List (Nat × OverlapResult × Fragment)) (b : Build) (subs : List Fragment) (i : Nat),
      (T.map (·.1)).Nodup →
      (∀ j t, T[j]? = some t →
        (b.store.getD t.1 default).o.trimFragment F (cutFlags F.strand (i + j) last).1 (cutFlags F.strand (i + j) last).2
          (b.nextOid + j) = .ok (t.2.1, t.2.2)) →
      (T.map (·.1)).foldlM (cutStep F last) (b, subs, i) = .ok (applyCuts b T, subs ++ T.map (·.2.2), i + T.length)
  | [], b, subs, i, _, _ => by
    simp only [List.map_nil, List.foldlM_nil, List.append_nil, List.length_nil, Nat.add_zero, applyCuts, List.foldl_nil]
    rfl
  | t :: T', b, subs, i, hnd, h => by
    simp only [List.map_cons, List.nodup_cons] at hnd
    have h0 := h 0 t rfl
    simp only [Nat.add_zero] at h0
    have hstep : cutStep F last (b, subs, i) t.1 =
        .ok ({ b with store := setAt b.store t.1 { b.store.getD t.1 default with o := t.2.1 },
                      nextOid := b.nextOid + 1 }, subs ++ [t.2.2], i + 1) := by
      unfold cutStep
      simp only [cutFlags] at h0
      by_cases hs : F.strand = -1
      · simp only [hs, if_true] at h0 ⊢
        simp only [h0, bind, Except.bind, pure, Except.pure]
      · simp only [hs, if_false] at h0 ⊢
        simp only [h0, bind, Except.bind, pure, Except.pure]
    simp only [List.map_cons, List.foldlM_cons, hstep, bind, Except.bind]
    rw [foldlM_cutStep_fwd F last T' _ _ _ hnd.2]
    · have e1 : b.nextOid + 1 + T'.length = b.nextOid + (T'.length + 1) := by omega
      have e2 : i + 1 + T'.length = i + (T'.length + 1) := by omega
      simp only [applyCuts, List.foldl_cons, List.length_cons, List.map_cons, List.append_assoc, List.cons_append,
        List.nil_append, e1, e2]
    · intro j t' ht'
      have hne : t.1 ≠ t'.1 := by
        intro e
        exact hnd.1 (e ▸ List.mem_map_of_mem (List.mem_of_getElem? ht'))
      have := h (j + 1) t' (by simpa using ht')
      simp only [getD_setAt_ne _ _ _ _ _ hne]
      have e1 : i + 1 + j = i + (j + 1) := by omega
      have e2 : b.nextOid + 1 + j = b.nextOid + (j + 1) := by omega
      rw [e1, e2]
      exact this

/-! ### the QC of a chain of abutting pieces -/

/-- consecutive elements are related -/
def Adj {α} (r : α → α → Prop) : List α → Prop
  | [] => True
  | [_] => True
  | a :: b :: t => r a b ∧ Adj r (b :: t)

theorem insertBy_head_le {α} (le : α → α → Bool) (x y : α) (t : List α) (h : le x y = true) :
    insertBy le x (y :: t) = x :: y :: t := by simp [insertBy, h]

theorem stableSort_of_adj {α} (le : α → α → Bool) : ∀ (l : List α), Adj (fun a b => le a b = true) l →
    stableSort le l = l
  | [], _ => rfl
  | [a], _ => rfl
  | a :: b :: t, h => by
    have ih := stableSort_of_adj le (b :: t) h.2
    show insertBy le a (stableSort le (b :: t)) = _
    rw [ih, insertBy_head_le le a b t h.1]

theorem pairs_all {α} (r : α → α → Prop) : ∀ (l : List α), Adj r l → ∀ p ∈ l.zip (l.drop 1), r p.1 p.2
  | [], _, p, hp => by simp at hp
  | [a], _, p, hp => by simp at hp
  | a :: b :: t, h, p, hp => by
    simp only [List.drop_succ_cons, List.drop_zero, List.zip_cons_cons, List.mem_cons] at hp
    rcases hp with rfl | hp
    · exact h.1
    · exact pairs_all r (b :: t) h.2 p (by simpa using hp)

theorem length_pairs {α} : ∀ (l : List α), ((l.zip (l.drop 1)).length : Int) = max 0 ((l.length : Int) - 1)
  | [] => by show (0 : Int) = max 0 (0 - 1); omega
  | [a] => by simp
  | a :: b :: t => by
    have := length_pairs (b :: t)
    simp only [List.drop_succ_cons, List.drop_zero, List.zip_cons_cons, List.length_cons] at this ⊢
    omega

theorem filter_all {α} (p : α → Bool) (l : List α) (h : ∀ x ∈ l, p x = true) : l.filter p = l :=
  List.filter_eq_self.2 h

theorem filter_none {α} (p : α → Bool) (l : List α) (h : ∀ x ∈ l, p x = false) : l.filter p = [] := by
  apply List.filter_eq_nil_iff.2
  intro x hx
  rw [h x hx]; simp

/-- one piece follows the other on the same contig -/
def Follows' (a b : Fragment) : Prop := a.name = b.name ∧ a.start ≤ a.stop ∧ b.start ≤ b.stop ∧ a.stop + 1 = b.start

theorem chain_length : ∀ (x : Fragment) (t : List Fragment), Adj Follows' (x :: t) →
    sumInts ((x :: t).map Fragment.length) = ((x :: t).getLast (by simp)).stop - x.start + 1
  | x, [], _ => by simp [sumInts, Fragment.length]
  | x, y :: t, h => by
    have ih := chain_length y t h.2
    have h1 := h.1
    simp only [List.map_cons, sumInts] at ih ⊢
    rw [List.getLast_cons (by simp)]
    unfold Follows' at h1
    simp only [Fragment.length] at ih ⊢
    omega

/-- **the QC accepts a chain of abutting pieces that starts at the contig's first base and ends at its last** -/
theorem qc_chain (F x : Fragment) (t : List Fragment) (hadj : Adj Follows' (x :: t)) (hstart : x.start = F.start)
    (hstop : ((x :: t).getLast (by simp)).stop = F.stop) : qcPasses F (x :: t) = true := by
  have hle : Adj (fun a b => lexLe a b = true) (x :: t) := by
    have : ∀ l, Adj Follows' l → Adj (fun a b => lexLe a b = true) l := by
      intro l
      induction l with
      | nil => intro _; trivial
      | cons a r ih =>
        cases r with
        | nil => intro _; trivial
        | cons c r' =>
          intro h
          refine ⟨?_, ih h.2⟩
          obtain ⟨_, h2, _, h4⟩ := h.1
          unfold lexLe
          have : a.start < c.start := by omega
          simp [this]
    exact this _ hadj
  have hs := stableSort_of_adj lexLe (x :: t) hle
  have hall := pairs_all Follows' (x :: t) hadj
  have habut : ((x :: t).zip ((x :: t).drop 1)).filter (fun p => p.1.abuts p.2) = (x :: t).zip ((x :: t).drop 1) := by
    apply filter_all
    intro p hp
    obtain ⟨h1, _, _, h4⟩ := hall p hp
    unfold Fragment.abuts
    simp [h1, h4]
  have hover : ((x :: t).zip ((x :: t).drop 1)).filter (fun p => p.1.overlaps p.2) = [] := by
    apply filter_none
    intro p hp
    obtain ⟨h1, h2, h3, h4⟩ := hall p hp
    unfold Fragment.overlaps
    simp only [h1, ne_eq, not_true_eq_false, if_false, decide_eq_false_iff_not]
    omega
  have hgapB : ∀ p ∈ (x :: t).zip ((x :: t).drop 1), p.1.gapBetween p.2 = some 0 := by
    intro p hp
    obtain ⟨h1, h2, h3, h4⟩ := hall p hp
    unfold Fragment.gapBetween
    have e2 : min p.1.stop p.2.stop = p.1.stop := by omega
    have e3 : max p.1.start p.2.start = p.2.start := by omega
    have e4 : p.1.stop < p.2.start := by omega
    simp only [h1, ne_eq, not_true_eq_false, if_false, e2, e3, e4, if_true]
    congr 1; omega
  have hlen := chain_length x t hadj
  have hpl := length_pairs (x :: t)
  unfold qcPasses
  simp only [hs, habut, hover, List.length_nil]
  rw [hlen, hstop, hstart]
  simp only [Bool.and_eq_true, beq_iff_eq, decide_eq_true_eq, List.length_eq_zero_iff, List.filter_eq_nil_iff]
  refine ⟨⟨⟨rfl, trivial⟩, ?_⟩, ?_⟩
  · rw [hpl]; simp only [List.length_cons]; omega
  · intro p hp
    rw [hgapB p hp]
    simp

/-! ### all together -/

/-- **`cut_fragments` for a contig with any number of holders.**  `T` lists, in visiting order, the holders with the
    result and the new Fragment `trim_fragment` makes of each.  If the holder ids, arranged like that, have strictly
    increasing `fragment_start_if_trimmed`, `trim_fragment` succeeds on each with the flags of its position, and the new
    Fragments form a chain of abutting pieces from the contig's first to its last base, then `cut_fragments` succeeds:
    every holder gets its trimmed result, `len(T) − 1` cuts are counted, `len(T)` object ids are used. -/
theorem cutFragments_chain (b : Build) (fnd : Found) (T : List (Nat × OverlapResult × Fragment)) (κ : Nat → Int)
    (hκ : ∀ h ∈ fnd.scaffolds, (getRes b.store h).fragmentStartIfTrimmed fnd.fragment = .ok (κ h))
    (hperm : (T.map (·.1)).Perm fnd.scaffolds) (hsorted : (T.map (·.1)).Pairwise (fun a c => κ a < κ c))
    (htrim : ∀ j t, T[j]? = some t →
      (b.store.getD t.1 default).o.trimFragment fnd.fragment (cutFlags fnd.fragment.strand j (T.length - 1)).1
        (cutFlags fnd.fragment.strand j (T.length - 1)).2 (b.nextOid + j) = .ok (t.2.1, t.2.2))
    (x : Fragment) (ts : List Fragment) (hnews : T.map (·.2.2) = x :: ts) (hadj : Adj Follows' (x :: ts))
    (hstart : x.start = fnd.fragment.start) (hstop : ((x :: ts).getLast (by simp)).stop = fnd.fragment.stop) :
    cutFragments b fnd = .ok { applyCuts b T with cuts := b.cuts + ((T.length : Int) - 1) } := by
  have hnd : (T.map (·.1)).Nodup := hsorted.imp (fun h e => by subst e; omega)
  have hlen : (T.map (·.1)).length = T.length := by simp
  rw [cutFragments_eq_steps, cutOrder_of_sorted b fnd _ κ hκ hperm hsorted]
  simp only [bind, Except.bind, hlen]
  rw [foldlM_cutStep_fwd fnd.fragment (T.length - 1) T b [] 0 hnd (by
    intro j t ht
    simp only [Nat.zero_add]
    exact htrim j t ht)]
  simp only [List.nil_append, hnews, qc_chain fnd.fragment x ts hadj hstart hstop, not_true_eq_false, if_false, pure,
    Except.pure]
  have : (x :: ts).length = T.length := by rw [← hnews]; simp
  rw [this]
  rfl

end AgpTpf.C02
