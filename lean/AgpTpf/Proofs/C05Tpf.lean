/- C05 (e): TPF line level -/
import AgpTpf.Proofs.C05Agp
namespace AgpTpf.C05
open AgpTpf AgpTpf.C06

/-- the part of `parse_tpf`'s loop body after `fields = line.rstrip("\r\n").split("\t")` -/
def tpfFields (st : ParseState) (fields : List Str) : R ParseState := do
    let f0 ← pyGet fields 0
    if f0 = Gen.tpfGapWord then
      if st.haveScaffold then do
        let f2 ← pyGet fields 2
        let f1 ← pyGet fields 1
        let len ← pyInt f2
        st.addRow (.gap { length := len, gapType := tpfGapTypeOfText f1 })
      else throw .value
    else if fields.length = 4 then do
      let f2 ← pyGet fields 2
      let st := st.switchScaffold f2
      let f1 ← pyGet fields 1
      match tpfNameMatch f1 with
      | some (name, d1, d2) => do
        if ¬ st.haveScaffold then throw .attribute
        let f3 ← pyGet fields 3
        let strand ← lookupStr Gen.tpfStrandDict f3
        let s ← pyInt d1
        let e ← pyInt d2
        let f ← mkFragment st.nextOid name s e strand []
        let st ← st.addRow (.frag f)
        pure { st with nextOid := st.nextOid + 1 }
      | none => throw .value
    else throw .value

theorem parseTpfLine_eq (st : ParseState) (line : Str) : parseTpfLine st line =
    if isBlankLine line then .ok st
    else if startsWith ['#'] line then
      match headerText line with
      | some h => .ok { st with header := st.header ++ [h] }
      | none => .ok st
    else tpfFields st (splitOnChar '\t' (rstripBy isCrLf line)) := by
  unfold parseTpfLine tpfFields
  rfl

theorem tpfGapTypeToText_no (x : Char) (hx : x ∉ Gen.upperTo) (hx2 : x ∉ "TYPE-23".toList) (g : Str) (h : x ∉ g) :
    x ∉ tpfGapTypeToText g := by
  unfold tpfGapTypeToText
  cases hf : dGet? Gen.tpfGapFormatDict g with
  | some t =>
    have := dGet?_some_mem hf
    simp only [Gen.tpfGapFormatDict, List.mem_cons, List.not_mem_nil, or_false, Prod.mk.injEq] at this
    rcases this with ⟨_, rfl⟩ | ⟨_, rfl⟩
    · intro hm; exact hx2 ((by decide : ∀ y ∈ ['T', 'Y', 'P', 'E', '-', '2'], y ∈ "TYPE-23".toList) x hm)
    · intro hm; exact hx2 ((by decide : ∀ y ∈ ['T', 'Y', 'P', 'E', '-', '3'], y ∈ "TYPE-23".toList) x hm)
  | none =>
    dsimp only
    rw [translate_eq_map]
    intro hm
    rw [List.mem_map] at hm
    obtain ⟨c, hc, e⟩ := hm
    exact trChar_upper_ne c x hx (fun e' => h (e' ▸ hc)) e

/-- TPF scaffold names ride in the third column of fragment lines: no tab; not empty (an empty name equals the
    reader's initial `scaffold_name = ""`).  They MAY start with '#'. -/
def TpfScafNameOk (n : Str) : Prop := n ≠ [] ∧ '\t' ∉ n

instance (n : Str) : Decidable (TpfScafNameOk n) := by unfold TpfScafNameOk; infer_instance

/-- row TPF can carry: gap types in lower-case/underscore form (see `TpfGapType`); fragment names non-empty
    without newline (`(.+)`), start ≥ 0 (`\d+`), strand PLUS or MINUS. Tags are not carried. -/
def TpfRowOk (r : Row) : Prop :=
  match r with
  | .gap g => TpfGapType g.gapType ∧ '\t' ∉ g.gapType
  | .frag f => f.name ≠ [] ∧ '\t' ∉ f.name ∧ '\n' ∉ f.name ∧ 0 ≤ f.start ∧ f.start ≤ f.stop ∧
      (f.strand = 1 ∨ f.strand = -1)

instance (r : Row) : Decidable (TpfRowOk r) := by unfold TpfRowOk; cases r <;> infer_instance

/-- what the TPF reader gives back for a row: the tags are gone -/
def Row.dropTags : Row → Row
  | .frag f => .frag { f with tags := [] }
  | .gap g => .gap g

theorem isCrLf_of_digit {c : Char} (h : isDigit c = true) : isCrLf c = false := by
  have := not_isSpace_of_isDigit h
  unfold isCrLf
  rw [Bool.eq_false_iff]; intro h2
  simp at h2
  rcases h2 with rfl | rfl <;> simp [isSpace] at this

theorem tpfFields_gap (st : ParseState) (t : Str) (len : Int) (hh : st.haveScaffold = true) :
    tpfFields st [Gen.tpfGapWord, t, intToStr len] =
      st.addRow (.gap { length := len, gapType := tpfGapTypeOfText t }) := by
  have g0 : pyGet [Gen.tpfGapWord, t, intToStr len] 0 = .ok Gen.tpfGapWord := pyGet_nat _ 0 _ rfl
  have g1 : pyGet [Gen.tpfGapWord, t, intToStr len] 1 = .ok t := pyGet_nat _ 1 _ rfl
  have g2 : pyGet [Gen.tpfGapWord, t, intToStr len] 2 = .ok (intToStr len) := pyGet_nat _ 2 _ rfl
  unfold tpfFields
  simp only [g0, g1, g2, bind, Except.bind, if_true, hh, pyInt_intToStr]

theorem tpfFields_frag (st : ParseState) (f : Fragment) (scName ss : Str) (s e : Nat)
    (hs : f.start = s) (he : f.stop = e) (hne : f.name ≠ []) (hnl : '\n' ∉ f.name)
    (hlook : lookupStr Gen.tpfStrandDict ss = .ok f.strand) (hstr : f.strand = 1 ∨ f.strand = -1)
    (hse : f.start ≤ f.stop) :
    tpfFields st [Gen.tpfFragCol1, f.name ++ [':'] ++ natToStr s ++ ['-'] ++ natToStr e, scName, ss] =
      addRowOid (st.switchScaffold scName) (.frag { f with tags := [] }) := by
  have g0 : pyGet [Gen.tpfFragCol1, f.name ++ [':'] ++ natToStr s ++ ['-'] ++ natToStr e, scName, ss] 0 = .ok Gen.tpfFragCol1 := pyGet_nat _ 0 _ rfl
  have g1 : pyGet [Gen.tpfFragCol1, f.name ++ [':'] ++ natToStr s ++ ['-'] ++ natToStr e, scName, ss] 1 = .ok (f.name ++ [':'] ++ natToStr s ++ ['-'] ++ natToStr e) := pyGet_nat _ 1 _ rfl
  have g2 : pyGet [Gen.tpfFragCol1, f.name ++ [':'] ++ natToStr s ++ ['-'] ++ natToStr e, scName, ss] 2 = .ok scName := pyGet_nat _ 2 _ rfl
  have g3 : pyGet [Gen.tpfFragCol1, f.name ++ [':'] ++ natToStr s ++ ['-'] ++ natToStr e, scName, ss] 3 = .ok ss := pyGet_nat _ 3 _ rfl
  have hq : ¬ (Gen.tpfFragCol1 = Gen.tpfGapWord) := by decide
  have hstr' : f.strand = 0 ∨ f.strand = 1 ∨ f.strand = -1 := Or.inr hstr
  unfold tpfFields
  simp only [g0, g1, g2, g3, bind, Except.bind, hq, if_false, List.length_cons, List.length_nil,
    tpfNameMatch_format _ s e hne hnl, hlook, pyInt_natToStr]
  rw [mkFragment_ok _ _ _ _ _ _ hstr' (by rw [← hs, ← he]; exact hse)]
  simp only [addRowOid, if_true]
  cases hh : (st.switchScaffold scName).haveScaffold with
  | true =>
    simp only [not_true_eq_false, if_false]
    rw [← hs, ← he]
    cases (st.switchScaffold scName).addRow (Row.frag { f with oid := (st.switchScaffold scName).nextOid, tags := [] }) <;> rfl
  | false => simp [addRow_noScaffold _ _ hh, throw, throwThe, MonadExceptOf.throw]

theorem strandStr_tpf (s : Int) (h : s = 1 ∨ s = -1) :
    ∃ t, strandStr Gen.tpfStrandStr s = .ok t ∧ lookupStr Gen.tpfStrandDict t = .ok s ∧
      '\t' ∉ t ∧ '\n' ∉ t ∧ (∃ c, t.getLast? = some c ∧ isCrLf c = false) := by
  rcases h with rfl | rfl <;> exact ⟨_, rfl, rfl, by decide, by decide, _, rfl, by decide⟩

theorem formatTpfRow_eq_cols_gap (scName : Str) (g : Gap) :
    formatTpfRow scName (.gap g) = .ok (lineOfCols [Gen.tpfGapWord, tpfGapTypeToText g.gapType, intToStr g.length]) := rfl

/-- (e, TPF) gap line: appended to the current scaffold (there must be one) -/
theorem parseTpfLine_gap (st : ParseState) (scName : Str) (g : Gap) (line : Str)
    (hr : TpfRowOk (.gap g)) (hh : st.haveScaffold = true) (hl : formatTpfRow scName (.gap g) = .ok line) :
    parseTpfLine st line = addRowOid st (.gap g) := by
  rw [formatTpfRow_eq_cols_gap] at hl
  cases hl
  obtain ⟨hty, hnt⟩ := hr
  obtain ⟨c, hc, hcd⟩ := intToStr_endsDigit g.length
  have hfields := tpf_line_cols [Gen.tpfGapWord, tpfGapTypeToText g.gapType, intToStr g.length]
    (by
      intro x hx
      simp only [List.mem_cons, List.not_mem_nil, or_false] at hx
      rcases hx with rfl | rfl | rfl
      · decide
      · exact tpfGapTypeToText_no '\t' (by decide) (by decide) _ hnt
      · exact intToStr_no_tab _)
    (intToStr g.length) rfl ⟨c, hc, isCrLf_of_digit hcd⟩
  rw [parseTpfLine_eq, isBlankLine_lineOfCols _ Gen.tpfGapWord 'G' (by simp) (by decide) (by decide),
    startsWith_hash_false _ (by rw [lineOfCols_head _ _ (by decide)]; decide)]
  simp only [Bool.false_eq_true, if_false]
  rw [hfields, tpfFields_gap st _ _ hh, tpfGapType_roundtrip _ hty]
  rfl

/-- FINDING: a gap line before any fragment line is an error (ValueError) — a scaffold that starts with a gap
    cannot be written to TPF and read back; after another scaffold the gap is silently re-homed to it. -/
theorem parseTpfLine_gap_first (st : ParseState) (rest : List Str)
    (hh : st.haveScaffold = false) : tpfFields st (Gen.tpfGapWord :: rest) = .error .value := by
  have g0 : pyGet (Gen.tpfGapWord :: rest) 0 = .ok Gen.tpfGapWord := pyGet_nat _ 0 _ rfl
  unfold tpfFields
  simp [g0, bind, Except.bind, hh, throw, throwThe, MonadExceptOf.throw]

/-- (e, TPF) fragment line: the row comes back without its tags, in the scaffold named in column 3 -/
theorem parseTpfLine_frag (st : ParseState) (scName : Str) (f : Fragment) (line : Str)
    (hn : TpfScafNameOk scName) (hr : TpfRowOk (.frag f)) (hl : formatTpfRow scName (.frag f) = .ok line) :
    parseTpfLine st line = addRowOid (st.switchScaffold scName) (.frag { f with tags := [] }) := by
  obtain ⟨hne, hnt, hnl, h0, hse, hstr⟩ := hr
  obtain ⟨ss, hss, hlook, hsst, _, hsend⟩ := strandStr_tpf f.strand hstr
  simp only [formatTpfRow, hss, bind, Except.bind, pure, Except.pure, Except.ok.injEq] at hl
  subst hl
  obtain ⟨s, hs⟩ : ∃ s : Nat, f.start = s := ⟨f.start.toNat, by omega⟩
  obtain ⟨e, he⟩ : ∃ e : Nat, f.stop = e := ⟨f.stop.toNat, by omega⟩
  have es : intToStr f.start = natToStr s := by rw [hs]; rfl
  have ee : intToStr f.stop = natToStr e := by rw [he]; rfl
  rw [es, ee]
  have hcolon : ∀ n : Nat, '\t' ∉ natToStr n := fun n => intToStr_no_tab (n : Int)
  have hfields := tpf_line_cols [Gen.tpfFragCol1, f.name ++ [':'] ++ natToStr s ++ ['-'] ++ natToStr e, scName, ss]
    (by
      intro x hx
      simp only [List.mem_cons, List.not_mem_nil, or_false] at hx
      rcases hx with rfl | rfl | rfl | rfl
      · decide
      · have := hcolon s; have := hcolon e
        simp [*]
      · exact hn.2
      · exact hsst)
    ss rfl hsend
  show parseTpfLine st (lineOfCols _) = _
  rw [parseTpfLine_eq, isBlankLine_lineOfCols _ Gen.tpfFragCol1 '?' (by simp) (by decide) (by decide),
    startsWith_hash_false _ (by rw [lineOfCols_head _ _ (by decide)]; decide)]
  simp only [Bool.false_eq_true, if_false]
  rw [hfields]
  exact tpfFields_frag st f scName ss s e hs he hne hnl hlook hstr hse


theorem oneRow_of_addRow (st : ParseState) (r : Row) (st' : ParseState) (h : st.addRow r = .ok st') :
    OneRowAdded st st' ∧ st'.header = st.header := by
  obtain ⟨_, pre, sc, h1, h2⟩ := addRow_ok h
  subst h2
  exact ⟨⟨r, Or.inl ⟨pre, sc, h1, rfl⟩⟩, rfl⟩

theorem tpfFields_ok {st : ParseState} {fields : List Str} {st' : ParseState} (h : tpfFields st fields = .ok st') :
    OneRowAdded st st' ∧ st'.header = st.header := by
  unfold tpfFields at h
  simp only [bind, Except.bind] at h
  cases h0 : pyGet fields 0 with
  | error e => rw [h0] at h; cases h
  | ok f0 =>
    rw [h0] at h; simp only at h
    split at h
    · cases hh : st.haveScaffold with
      | false => simp [hh, throw, throwThe, MonadExceptOf.throw] at h
      | true =>
        simp only [hh, if_true] at h
        cases h2 : pyGet fields 2 with
        | error e => rw [h2] at h; cases h
        | ok f2 =>
          rw [h2] at h; simp only at h
          cases h1 : pyGet fields 1 with
          | error e => rw [h1] at h; cases h
          | ok f1 =>
            rw [h1] at h; simp only at h
            cases hi : pyInt f2 with
            | error e => rw [hi] at h; cases h
            | ok len =>
              rw [hi] at h; simp only at h
              exact oneRow_of_addRow _ _ _ h
    · split at h
      · cases h2 : pyGet fields 2 with
        | error e => rw [h2] at h; cases h
        | ok f2 =>
          rw [h2] at h; simp only at h
          cases h1 : pyGet fields 1 with
          | error e => rw [h1] at h; cases h
          | ok f1 =>
            rw [h1] at h; simp only at h
            split at h
            · cases hh : (st.switchScaffold f2).haveScaffold with
              | false => simp [hh, throw, throwThe, MonadExceptOf.throw] at h
              | true =>
                simp only [hh, not_true_eq_false, if_false] at h
                cases h3 : pyGet fields 3 with
                | error e => rw [h3] at h; cases h
                | ok f3 =>
                  rw [h3] at h; simp only at h
                  cases hl : lookupStr Gen.tpfStrandDict f3 with
                  | error e => rw [hl] at h; cases h
                  | ok strand =>
                    rw [hl] at h; simp only at h
                    rename_i name d1 d2 _
                    cases hi : pyInt d1 with
                    | error e => rw [hi] at h; cases h
                    | ok sv =>
                      rw [hi] at h; simp only at h
                      cases hj : pyInt d2 with
                      | error e => rw [hj] at h; cases h
                      | ok ev =>
                        rw [hj] at h; simp only at h
                        cases hm : mkFragment (st.switchScaffold f2).nextOid name sv ev strand [] with
                        | error e => rw [hm] at h; cases h
                        | ok fr =>
                          rw [hm] at h; simp only at h
                          cases ha : (st.switchScaffold f2).addRow (Row.frag fr) with
                          | error e => rw [ha] at h; cases h
                          | ok st'' =>
                            rw [ha] at h
                            simp only [pure, Except.pure, Except.ok.injEq] at h
                            subst h
                            obtain ⟨⟨r, hr⟩, hhdr, _⟩ := oneRow_of_switch_addRow st f2 _ st'' ha
                            exact ⟨⟨r, hr⟩, hhdr⟩
            · simp [throw, throwThe, MonadExceptOf.throw] at h
      · simp [throw, throwThe, MonadExceptOf.throw] at h

/-- (e) "no line is silently skipped, merged or re-homed" for the TPF reader: a blank or `#` line leaves the
    scaffolds untouched; every other line either raises or adds exactly one row (to the current scaffold, or as
    the first row of a newly opened one). -/
theorem tpf_line_one_row_or_error (st : ParseState) (line : Str) (st' : ParseState)
    (h : parseTpfLine st line = .ok st') :
    (isBlankLine line = true ∨ startsWith ['#'] line = true →
        st'.scaffolds = st.scaffolds ∧ st'.currentName = st.currentName ∧ st'.nextOid = st.nextOid) ∧
    (¬ (isBlankLine line = true ∨ startsWith ['#'] line = true) →
        OneRowAdded st st' ∧ totalRows st' = totalRows st + 1 ∧ st'.header = st.header) := by
  rw [parseTpfLine_eq] at h
  by_cases hb : isBlankLine line = true
  · rw [if_pos hb] at h; cases h
    exact ⟨fun _ => ⟨rfl, rfl, rfl⟩, fun hn => absurd (Or.inl hb) hn⟩
  · rw [if_neg hb] at h
    by_cases h1 : startsWith ['#'] line = true
    · rw [if_pos h1] at h
      refine ⟨fun _ => ?_, fun hn => absurd (Or.inr h1) hn⟩
      split at h <;> (cases h; exact ⟨rfl, rfl, rfl⟩)
    · rw [if_neg h1] at h
      refine ⟨fun hc => by rcases hc with hc | hc <;> contradiction, fun _ => ?_⟩
      obtain ⟨hone, hhdr⟩ := tpfFields_ok h
      exact ⟨hone, hone.totalRows, hhdr⟩

end AgpTpf.C05
