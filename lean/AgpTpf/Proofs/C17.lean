/-
  Helper lemmas for C17: `scanTag` commutes (as an `Except` value) for any two non-empty tags on a namer whose
  haplotype dictionary holds only non-empty spellings; hence `foldlM scanTag` is invariant under permutation.
-/
import AgpTpf.Model.Remap
namespace AgpTpf.C17
open AgpTpf

/-- what `make_scaffold_name` does with one tag -/
inductive TagClass where
  | painted | target | primary | chr | hap | other
  deriving DecidableEq, Repr

def tagClass (t : Str) : TagClass :=
  if t = sPainted then .painted
  else if t = sTarget then .target
  else if t = sPrimary then .primary
  else if isChrNameTag t then .chr
  else if ¬ Gen.otherKnownTags.contains t then .hap
  else .other

theorem scanTag_eq (n : Namer) (s : TagScan) (tag : Str) :
    scanTag (n, s) tag =
      match tagClass tag with
      | .painted => .ok (n, { s with isPainted := true })
      | .target => .ok ({ n with targetTags := true }, s)
      | .primary => .ok (n, { s with primaryTag := true })
      | .chr =>
        if truthy s.scaffoldName ∧ s.scaffoldName ≠ some tag then .error .tagging
        else .ok (n, { s with scaffoldName := some tag, rank := some 2 })
      | .hap =>
        if truthy s.haplotype then .error .tagging
        else .ok ((n.getSetHaplotype tag).1, { s with haplotype := some (n.getSetHaplotype tag).2 })
      | .other => .ok (n, s) := by
  unfold scanTag tagClass
  have c1 : sTarget ≠ sPainted := by decide
  have c2 : sPrimary ≠ sPainted := by decide
  have c3 : sPrimary ≠ sTarget := by decide
  by_cases h1 : tag = sPainted
  · simp [h1]
  by_cases h2 : tag = sTarget
  · simp [h2, c1]
  by_cases h3 : tag = sPrimary
  · simp [h3, c2, c3]
  by_cases h4 : isChrNameTag tag = true
  · simp [h1, h2, h3, h4]
  by_cases h5 : tag ∈ Gen.otherKnownTags
  · simp [h1, h2, h3, h4, h5]
  · simp [h1, h2, h3, h4, h5]

/-- every spelling stored in the haplotype dictionary is non-empty -/
def NamerOk (n : Namer) : Prop := ∀ kv ∈ n.haplotypeLc, kv.2 ≠ []

theorem truthy_some (h : Str) : truthy (some h) = true ↔ h ≠ [] := by
  cases h <;> simp [truthy]

theorem dGet?_mem {κ ν} [DecidableEq κ] (d : List (κ × ν)) (k : κ) (v : ν) (h : dGet? d k = some v) :
    (k, v) ∈ d := by
  induction d with
  | nil => simp [dGet?] at h
  | cons p r ih =>
    obtain ⟨k', v'⟩ := p
    unfold dGet? at h
    by_cases hk : k' = k
    · simp [hk] at h; subst hk; subst h; simp
    · simp [hk] at h; exact List.mem_cons_of_mem _ (ih h)

theorem getSet_snd_ne (n : Namer) (t : Str) (hn : NamerOk n) (ht : t ≠ []) : (n.getSetHaplotype t).2 ≠ [] := by
  unfold Namer.getSetHaplotype dSetDefault
  cases hg : dGet? n.haplotypeLc (lowerStr t) with
  | none => simpa using ht
  | some w => simpa using hn _ (dGet?_mem _ _ _ hg)

theorem getSet_ok (n : Namer) (t : Str) (hn : NamerOk n) (ht : t ≠ []) : NamerOk (n.getSetHaplotype t).1 := by
  unfold Namer.getSetHaplotype dSetDefault
  cases hg : dGet? n.haplotypeLc (lowerStr t) with
  | none =>
    intro kv hkv
    simp at hkv
    rcases hkv with h | h
    · exact hn kv h
    · subst h; exact ht
  | some w => simpa [NamerOk] using hn

theorem getSet_target (n : Namer) (t : Str) :
    ({ n with targetTags := true } : Namer).getSetHaplotype t =
      ({ (n.getSetHaplotype t).1 with targetTags := true }, (n.getSetHaplotype t).2) := by
  unfold Namer.getSetHaplotype; rfl

theorem isChrNameTag_ne_nil (t : Str) (h : isChrNameTag t = true) : t ≠ [] := by
  intro ht; subst ht; simp [isChrNameTag] at h

/-- the invariant the fold carries -/
def StOk (st : Namer × TagScan) : Prop := NamerOk st.1

theorem scanTag_ok (st st' : Namer × TagScan) (t : Str) (ht : t ≠ []) (hs : StOk st)
    (h : scanTag st t = .ok st') : StOk st' := by
  obtain ⟨n, s⟩ := st
  rw [scanTag_eq] at h
  cases hc : tagClass t <;> simp only [hc] at h
  · cases h; exact hs
  · cases h; exact hs
  · cases h; exact hs
  · split at h
    · cases h
    · cases h; exact hs
  · split at h
    · cases h
    · cases h; exact getSet_ok n t hs ht
  · cases h; exact hs

theorem ite_cases {α} (c : Prop) [Decidable c] :
    (∀ (x y : α), ite c x y = x) ∨ (∀ (x y : α), ite c x y = y) := by
  by_cases h : c
  · left; intro x y; exact if_pos h
  · right; intro x y; exact if_neg h

/-- `scanTag` for two tags in either order: same result, same error. -/
theorem scanTag_comm (st : Namer × TagScan) (a b : Str) (ha : a ≠ []) (hb : b ≠ []) (hs : StOk st) :
    (scanTag st a >>= fun st' => scanTag st' b) = (scanTag st b >>= fun st' => scanTag st' a) := by
  by_cases hab : a = b
  · subst hab; rfl
  obtain ⟨n, s⟩ := st
  have hn : NamerOk n := hs
  have hba : ¬ b = a := fun h => hab h.symm
  rw [scanTag_eq n s a, scanTag_eq n s b]
  cases hca : tagClass a <;> cases hcb : tagClass b <;>
    simp only [bind, Except.bind, scanTag_eq, hca, hcb] <;>
    try (first | rfl | (split <;> rfl))
  all_goals
    (have hta : truthy (some a) = true := (truthy_some a).2 ha
     have htb : truthy (some b) = true := (truthy_some b).2 hb
     have hga : truthy (some (n.getSetHaplotype a).2) = true := (truthy_some _).2 (getSet_snd_ne n a hn ha)
     have hgb : truthy (some (n.getSetHaplotype b).2) = true := (truthy_some _).2 (getSet_snd_ne n b hn hb)
     obtain eA | eA := ite_cases (α := R (Namer × TagScan)) (truthy s.scaffoldName = true ∧ s.scaffoldName ≠ some a) <;>
     obtain eB | eB := ite_cases (α := R (Namer × TagScan)) (truthy s.scaffoldName = true ∧ s.scaffoldName ≠ some b) <;>
     obtain eH | eH := ite_cases (α := R (Namer × TagScan)) (truthy s.haplotype = true) <;>
     simp only [eA, eB, eH, scanTag_eq, hca, hcb, getSet_target] <;>
     simp [hta, htb, hga, hgb, hab, hba])

/-- permutation invariance of a monadic left fold whose steps commute on the states an invariant describes -/
theorem foldlM_perm {σ α : Type} (f : σ → α → R σ) (P : σ → Prop) (Q : α → Prop)
    (hpres : ∀ s a s', P s → Q a → f s a = .ok s' → P s')
    (hcomm : ∀ s a b, P s → Q a → Q b → (f s a >>= fun s' => f s' b) = (f s b >>= fun s' => f s' a))
    {l₁ l₂ : List α} (hp : l₁.Perm l₂) :
    ∀ s, P s → (∀ a ∈ l₁, Q a) → l₁.foldlM f s = l₂.foldlM f s := by
  induction hp with
  | nil => intro s _ _; rfl
  | cons x _ ih =>
    intro s hs hq
    simp only [List.foldlM_cons]
    cases hx : f s x with
    | error e => rfl
    | ok s' =>
      exact ih s' (hpres s x s' hs (hq x (by simp)) hx) (fun a ha => hq a (by simp [ha]))
  | swap x y l =>
    intro s hs hq
    simp only [List.foldlM_cons]
    have := hcomm s y x hs (hq y (by simp)) (hq x (by simp))
    rw [← bind_assoc, ← bind_assoc, this]
  | trans h₁ _ ih₁ ih₂ =>
    intro s hs hq
    rw [ih₁ s hs hq]
    exact ih₂ s hs (fun a ha => hq a (h₁.mem_iff.2 ha))

theorem foldlM_scanTag_perm (st : Namer × TagScan) (tags₁ tags₂ : List Str) (hp : tags₁.Perm tags₂)
    (hne : [] ∉ tags₁) (hs : NamerOk st.1) :
    tags₁.foldlM scanTag st = tags₂.foldlM scanTag st :=
  foldlM_perm scanTag StOk (· ≠ [])
    (fun s a s' h1 h2 h3 => scanTag_ok s s' a h2 h1 h3)
    (fun s a b h1 h2 h3 => scanTag_comm s a b h2 h3 h1)
    hp st hs (fun _ ha h => hne (h ▸ ha))

/-! ### `makeScaffoldName` in stages -/

def hapStage (n : Namer) (s : TagScan) (rows : List Row) : R (Namer × Option Str) :=
  if truthy s.haplotype then pure (n, s.haplotype)
  else do
    let nm ← firstRowName rows
    match hapPrefixOfName nm with
    | some g => pure ((n.getSetHaplotype g).1, some (n.getSetHaplotype g).2)
    | none => pure (n, none)

def primStage (n : Namer) (s : TagScan) (hap : Option Str) : R Namer :=
  if s.primaryTag ∧ ¬ truthy n.primaryHaplotype then
    match hap with
    | some h => if h.isEmpty then throw .tagging else
        pure { (n.getSetHaplotype h).1 with primaryHaplotype := some (n.getSetHaplotype h).2 }
    | none => throw .tagging
  else pure n

def nameStage (s : TagScan) (scName : Str) (rows : List Row) : R (Str × Int) :=
  if truthy s.scaffoldName then pure (s.scaffoldName.getD [], s.rank.getD 0)
  else if s.isPainted then pure (scName, match s.rank with | some r => if r ≠ 0 then r else 1 | none => 1)
  else do
    let nm ← firstRowName rows
    pure (nm, 3)

def finishName (n : Namer) (hap : Option Str) (p : Str × Int) : Namer :=
  { n with
    currentHaplotype :=
      (if truthy n.primaryHaplotype then (if hap = n.primaryHaplotype then some sPrimary else hap) else hap)
    currentScaffoldName := some p.fst
    currentRank := p.snd
    unlocN := 0
    unlocScaffolds := [] }

theorem ite_cases' (c : Prop) [Decidable c] :
    (c ∧ ∀ {α : Type} (x y : α), ite c x y = x) ∨ (¬ c ∧ ∀ {α : Type} (x y : α), ite c x y = y) := by
  by_cases h : c
  · left; exact ⟨h, fun x y => if_pos h⟩
  · right; exact ⟨h, fun x y => if_neg h⟩

theorem getSet_primary (n : Namer) (t : Str) : (n.getSetHaplotype t).1.primaryHaplotype = n.primaryHaplotype := rfl

theorem makeScaffoldName_eq (n : Namer) (scName : Str) (rows : List Row) (tags : List Str) :
    makeScaffoldName n scName rows tags =
      (tags.foldlM scanTag (n, {}) >>= fun st =>
       hapStage st.1 st.2 rows >>= fun nh =>
       primStage nh.1 st.2 nh.2 >>= fun n3 =>
       nameStage st.2 scName rows >>= fun p =>
       pure (finishName n3 nh.2 p)) := by
  unfold makeScaffoldName
  cases hfold : tags.foldlM scanTag (n, {}) with
  | error e => rfl
  | ok st =>
    obtain ⟨n1, s⟩ := st
    simp only [bind, Except.bind, hapStage, primStage, nameStage, pure, Except.pure]
    obtain ⟨c1, e1⟩ | ⟨c1, e1⟩ := ite_cases' (truthy s.haplotype = true) <;>
    obtain ⟨c2, e2⟩ | ⟨c2, e2⟩ := ite_cases' (s.primaryTag = true ∧ ¬truthy n1.primaryHaplotype = true) <;>
    obtain ⟨c3, e3⟩ | ⟨c3, e3⟩ := ite_cases' (truthy s.scaffoldName = true) <;>
    obtain ⟨c4, e4⟩ | ⟨c4, e4⟩ := ite_cases' (s.isPainted = true) <;>
    cases hfr : firstRowName rows <;>
    simp only [e1, e2, e3, e4, getSet_primary]
    all_goals (try rfl)
    all_goals (split <;> (try simp only [*, getSet_primary]) <;> try rfl)
    all_goals (split <;> (try simp only [*]) <;> try rfl)

theorem bind_eq_ok {α β} (x : R α) (f : α → R β) (b : β) :
    (x >>= f) = .ok b ↔ ∃ a, x = .ok a ∧ f a = .ok b := by
  cases x with
  | error e => simp [bind, Except.bind]
  | ok a => simp [bind, Except.bind]

theorem foldlM_scanTag_ok (tags : List Str) (hne : [] ∉ tags) :
    ∀ (st st' : Namer × TagScan), StOk st → tags.foldlM scanTag st = .ok st' → StOk st' := by
  induction tags with
  | nil => intro st st' hs h; cases h; exact hs
  | cons t r ih =>
    intro st st' hs h
    rw [List.foldlM_cons, bind_eq_ok] at h
    obtain ⟨st1, h1, h2⟩ := h
    have ht : t ≠ [] := fun h => hne (by simp [h])
    exact ih (fun h => hne (by simp [h])) st1 st' (scanTag_ok st st1 t ht hs h1) h2

theorem hapPrefixOfName_ne_nil (nm g : Str) (h : hapPrefixOfName nm = some g) : g ≠ [] := by
  unfold hapPrefixOfName at h
  simp only [] at h
  split at h
  · cases h
  · split at h
    · cases h
    · rename_i hne
      split at h
      · cases h
      · split at h
        · cases h
        · cases h
          intro h0; apply hne; rw [h0]; rfl

theorem hapStage_ok (n n' : Namer) (s : TagScan) (rows : List Row) (hap : Option Str) (hn : NamerOk n)
    (h : hapStage n s rows = .ok (n', hap)) : NamerOk n' := by
  unfold hapStage at h
  split at h
  · cases h; exact hn
  · rw [bind_eq_ok] at h
    obtain ⟨nm, _, h⟩ := h
    split at h
    · rename_i g hg
      cases h
      exact getSet_ok n g hn (hapPrefixOfName_ne_nil nm g hg)
    · cases h; exact hn

theorem primStage_ok (n n' : Namer) (s : TagScan) (hap : Option Str) (hn : NamerOk n)
    (h : primStage n s hap = .ok n') : NamerOk n' := by
  unfold primStage at h
  split at h
  · split at h
    · rename_i h0
      split at h
      · cases h
      · rename_i hne
        cases h
        exact getSet_ok n h0 hn (by intro h; apply hne; simp [h])
    · cases h
  · cases h; exact hn

/-- `make_scaffold_name` keeps the haplotype dictionary free of empty spellings -/
theorem makeScaffoldName_ok (n n' : Namer) (scName : Str) (rows : List Row) (tags : List Str)
    (hne : [] ∉ tags) (hn : NamerOk n) (h : makeScaffoldName n scName rows tags = .ok n') : NamerOk n' := by
  rw [makeScaffoldName_eq, bind_eq_ok] at h
  obtain ⟨⟨n1, s⟩, h1, h⟩ := h
  rw [bind_eq_ok] at h
  obtain ⟨⟨n2, hap⟩, h2, h⟩ := h
  rw [bind_eq_ok] at h
  obtain ⟨n3, h3, h⟩ := h
  rw [bind_eq_ok] at h
  obtain ⟨p, _, h⟩ := h
  cases h
  have k1 : NamerOk n1 := foldlM_scanTag_ok tags hne (n, {}) (n1, s) hn h1
  have k2 : NamerOk n2 := hapStage_ok n1 n2 s rows hap k1 h2
  exact primStage_ok n2 n3 s hap k2 h3

end AgpTpf.C17
