/-
  C02 (deep cuts, any number of cuts per contig), part 2: `cut_remaining_overlaps`.
-/
import AgpTpf.Proofs.C02DNHyp
namespace AgpTpf.C02
open AgpTpf OverlapResult

/-! ### `trim_fragment` on a result lying wholly inside the contig: cut at both ends -/

theorem trimFragment_C (o : OverlapResult) (F : Fragment) (oid : Nat)
    (hs : firstIs o F = .ok true) (he : lastIs o F = .ok true) (c1 : o.start < o.bait.start) (c2 : o.bait.stop < o.stop)
    (hsize : (o.bait.start - o.start) + (o.stop - o.bait.stop) ≤ F.stop - F.start) (htags : o.bait.tags = [])
    (hstr : F.strand = 1 ∨ F.strand = -1) :
    o.trimFragment F false false oid =
      .ok ({ o with start := o.bait.start, stop := o.bait.stop,
                    rows := setLast o.rows (.frag (cutFragEnd (cutFragStart F (o.bait.start - o.start) oid)
                      (o.stop - o.bait.stop) oid)) },
           cutFragEnd (cutFragStart F (o.bait.start - o.start) oid) (o.stop - o.bait.stop) oid) := by
  unfold trimFragment
  have he' : ∀ x, lastIs { o with start := x } F = .ok true := fun x => he
  simp only [hs, bind, Except.bind, pure, Except.pure, endOverhang, startOverhang]
  have hstart : o.start + (o.bait.start - o.start) = o.bait.start := by omega
  have hstop : o.stop - (o.stop - o.bait.stop) = o.bait.stop := by omega
  rcases hstr with c3 | c3 <;> simp [c1, c2, c3, he', mkFragment, hstart, hstop, htags, cutFragStart, cutFragEnd]
  all_goals first | rfl | (rw [if_neg (by omega)]; done) | (rw [if_neg (by omega)]; rfl)

theorem trimFragment_mid_fwd (o : OverlapResult) (F : Fragment) (oid : Nat)
    (hr : o.rows = [.frag F]) (hov1 : 0 < o.startOverhang) (hov2 : 0 < o.endOverhang)
    (hsize : o.startOverhang + o.endOverhang ≤ F.stop - F.start)
    (htags : o.bait.tags = []) (hstr : F.strand = 1 ∨ F.strand = -1) :
    o.trimFragment F false false oid =
      .ok (trimEndSpec oid (trimStartSpec oid o),
           cutFragEnd (cutFragStart F o.startOverhang oid) o.endOverhang oid) := by
  have hf : firstIs o F = .ok true := by rw [C18.firstIs_cons o F _ [] hr, C18.rowIs_self]
  have hl : lastIs o F = .ok true := by rw [C18.lastIs_concat o F _ [] hr, C18.rowIs_self]
  have hso : o.startOverhang = o.bait.start - o.start := rfl
  have heo : o.endOverhang = o.stop - o.bait.stop := rfl
  rw [trimFragment_C o F oid hf hl (by omega) (by omega) (by omega) htags hstr, hso, heo]
  congr 2
  unfold trimEndSpec trimStartSpec
  simp [hr, setLast]

/-! ### cuts made at earlier sites -/

theorem startCutN_some {base : Nat} {l : List (SiteN × Nat)} {i oid' : Nat} (h : startCutN base l i = some oid') :
    ∃ y ∈ l, 0 < y.1.chain.idxOf i ∧ y.1.chain.idxOf i < y.1.chain.length ∧ oid' = oidAt base y (y.1.chain.idxOf i) := by
  unfold startCutN at h
  obtain ⟨y, hy, hf⟩ := List.exists_of_findSome?_eq_some h
  split at hf
  · next hc => exact ⟨y, hy, hc.1, hc.2, by simpa using hf.symm⟩
  · cases hf

theorem endCutN_some {base : Nat} {l : List (SiteN × Nat)} {i oid' : Nat} (h : endCutN base l i = some oid') :
    ∃ y ∈ l, y.1.chain.idxOf i + 1 < y.1.chain.length ∧ oid' = oidAt base y (y.1.chain.idxOf i) := by
  unfold endCutN at h
  obtain ⟨y, hy, hf⟩ := List.exists_of_findSome?_eq_some h
  split at hf
  · next hc => exact ⟨y, hy, hc, by simpa using hf.symm⟩
  · cases hf

/-- a holder that is not the first of its chain has the contig as its first row -/
theorem head_of_chain_pos {input ptx : List Scaffold} {err : Int} (hd : DeepCutN input ptx err) (y : SiteN)
    (hy : y ∈ sitesN input ptx) (i : Nat) (h0 : 0 < y.chain.idxOf i) (h1 : y.chain.idxOf i < y.chain.length) :
    (pieceO input (pieceAt ptx i).2).rows.head? = some (.frag y.frag) := by
  have hadj := hd.chains y hy
  obtain ⟨p, hp⟩ : ∃ p, y.chain.idxOf i = p + 1 := ⟨y.chain.idxOf i - 1, by omega⟩
  have hok := adj_get _ _ hadj p (by omega)
  have hi : y.chain[p + 1]'(by omega) = i := by
    have := List.getElem_idxOf h1
    simpa [hp] using this
  have := hok.headB
  simp only [hi] at this
  exact this

/-- a holder that is not the last of its chain has the contig as its last row -/
theorem last_of_chain_pos {input ptx : List Scaffold} {err : Int} (hd : DeepCutN input ptx err) (y : SiteN)
    (hy : y ∈ sitesN input ptx) (i : Nat) (h1 : y.chain.idxOf i + 1 < y.chain.length) :
    (pieceO input (pieceAt ptx i).2).rows.getLast? = some (.frag y.frag) := by
  have hadj := hd.chains y hy
  have hok := adj_get _ _ hadj (y.chain.idxOf i) h1
  have hi : y.chain[y.chain.idxOf i]'(by omega) = i := List.getElem_idxOf (by omega)
  have := hok.lastA
  simp only [hi] at this
  exact this

theorem earlierN_a {input ptx : List Scaffold} {err : Int} (hd : DeepCutN input ptx err) (x : SiteN)
    (hx : x ∈ sitesN input ptx) (i : Nat)
    (hlast : (pieceO input (pieceAt ptx i).2).rows.getLast? = some (.frag x.frag))
    (done : List (SiteN × Nat)) (hdone : ∀ y ∈ done, y.1 ∈ sitesN input ptx ∧ y.1.key ≠ x.key) (base : Nat) :
    endCutN base done i = none ∧
    ∀ oid', startCutN base done i = some oid' →
      base ≤ oid' ∧ ∀ G r, (pieceO input (pieceAt ptx i).2).rows = .frag G :: r → r ≠ [] := by
  constructor
  · cases he : endCutN base done i with
    | none => rfl
    | some oid' =>
      exfalso
      obtain ⟨y, hy, h1, -⟩ := endCutN_some he
      have hys := hdone y hy
      have h2 := last_of_chain_pos hd y.1 hys.1 i h1
      rw [hlast] at h2
      simp only [Option.some.injEq, Row.frag.injEq] at h2
      exact hys.2 (fragN_eq_key_eq input ptx x y.1 hx hys.1 h2.symm)
  · intro oid' hs
    obtain ⟨y, hy, h0, h1, ho⟩ := startCutN_some hs
    have hys := hdone y hy
    refine ⟨by rw [ho]; unfold oidAt; omega, ?_⟩
    intro G r hr hr0
    subst hr0
    have h2 := head_of_chain_pos hd y.1 hys.1 i h0 h1
    rw [hr] at h2 hlast
    simp only [List.head?_cons, List.getLast?_singleton, Option.some.injEq, Row.frag.injEq] at h2 hlast
    exact hys.2 (fragN_eq_key_eq input ptx x y.1 hx hys.1 (h2.symm.trans hlast))

theorem earlierN_b {input ptx : List Scaffold} {err : Int} (hd : DeepCutN input ptx err) (x : SiteN)
    (hx : x ∈ sitesN input ptx) (i : Nat)
    (hhead : (pieceO input (pieceAt ptx i).2).rows.head? = some (.frag x.frag))
    (done : List (SiteN × Nat)) (hdone : ∀ y ∈ done, y.1 ∈ sitesN input ptx ∧ y.1.key ≠ x.key) (base : Nat) :
    startCutN base done i = none ∧
    ∀ oid', endCutN base done i = some oid' →
      base ≤ oid' ∧ ∀ H t, (pieceO input (pieceAt ptx i).2).rows = t ++ [.frag H] → t ≠ [] := by
  constructor
  · cases he : startCutN base done i with
    | none => rfl
    | some oid' =>
      exfalso
      obtain ⟨y, hy, h0, h1, -⟩ := startCutN_some he
      have hys := hdone y hy
      have h2 := head_of_chain_pos hd y.1 hys.1 i h0 h1
      rw [hhead] at h2
      simp only [Option.some.injEq, Row.frag.injEq] at h2
      exact hys.2 (fragN_eq_key_eq input ptx x y.1 hx hys.1 h2.symm)
  · intro oid' hs
    obtain ⟨y, hy, h1, ho⟩ := endCutN_some hs
    have hys := hdone y hy
    refine ⟨by rw [ho]; unfold oidAt; omega, ?_⟩
    intro H t hr ht0
    subst ht0
    have h2 := last_of_chain_pos hd y.1 hys.1 i h1
    rw [hr] at h2 hhead
    simp only [List.nil_append, List.head?_cons, List.getLast?_singleton, Option.some.injEq, Row.frag.injEq] at h2 hhead
    exact hys.2 (fragN_eq_key_eq input ptx x y.1 hx hys.1 (h2.symm.trans hhead))

/-! ### the two sides of one cut -/

/-- what is known of the current result `ca` of the piece in front of a cut (its last row is the contig) -/
structure ReadyA (input ptx : List Scaffold) (F : Fragment) (a : Nat) (ca : OverlapResult) : Prop where
  rows : ∃ ta, ca.rows = ta ++ [.frag F]
  stop : ca.stop = (pieceO input (pieceAt ptx a).2).stop
  bait : ca.bait = (pieceAt ptx a).2
  first : ca.firstIs F = .ok true →
    ca = labelled (pieceAt ptx a).1 (pieceO input (pieceAt ptx a).2) ∧ (pieceO input (pieceAt ptx a).2).rows = [.frag F]

/-- … and of the piece behind the cut (its first row is the contig) -/
structure ReadyB (input ptx : List Scaffold) (F : Fragment) (b : Nat) (cb : OverlapResult) : Prop where
  rows : ∃ rb, cb.rows = .frag F :: rb
  start : cb.start = (pieceO input (pieceAt ptx b).2).start
  bait : cb.bait = (pieceAt ptx b).2
  last : cb.lastIs F = .ok true →
    cb = labelled (pieceAt ptx b).1 (pieceO input (pieceAt ptx b).2) ∧ (pieceO input (pieceAt ptx b).2).rows = [.frag F]

theorem frag_oid_lt {input : List Scaffold} {p : Fragment} (hf : PieceFacts input p) (F : Fragment)
    (hmem : Row.frag F ∈ (pieceO input p).rows) : F.oid < oid0 input := by
  obtain ⟨sc, hsc, hinf⟩ := hf.slice
  refine oid_lt_oid0 input sc hsc _ hinf _ ?_
  unfold C18.ids
  exact List.mem_map_of_mem ((C01.mem_fragmentsOf).2 hmem)

theorem readyA_of {input ptx : List Scaffold} {err : Int} (hd : DeepCutN input ptx err) (x : SiteN)
    (hx : x ∈ sitesN input ptx) (a : Nat) (ha : a < (allPieces ptx).length)
    (hlast : (pieceO input (pieceAt ptx a).2).rows.getLast? = some (.frag x.frag))
    (done : List (SiteN × Nat)) (hdone : ∀ y ∈ done, y.1 ∈ sitesN input ptx ∧ y.1.key ≠ x.key) :
    endCutN (oid0 input) done a = none ∧
    ReadyA input ptx x.frag a (cutO (startCutN (oid0 input) done a) none
      (labelled (pieceAt ptx a).1 (pieceO input (pieceAt ptx a).2))) := by
  obtain ⟨-, hfa⟩ := hd.base.piece a ha
  obtain ⟨ta, hta⟩ := List.getLast?_eq_some_iff.1 hlast
  obtain ⟨Ga, ra, hGa⟩ := hfa.head
  have hFoid : x.frag.oid < oid0 input := frag_oid_lt hfa x.frag (by rw [hta]; simp)
  obtain ⟨hea, hsa⟩ := earlierN_a hd x hx a hlast done hdone (oid0 input)
  obtain ⟨h1, h2, h3, h4⟩ := cutO_a_facts
    (labelled (pieceAt ptx a).1 (pieceO input (pieceAt ptx a).2)) x.frag Ga ra ta
    (startCutN (oid0 input) done a) (oid0 input) hGa hta hfa.distinct hFoid
    (fun oid' h => ⟨(hsa oid' h).1, (hsa oid' h).2 Ga ra hGa⟩)
  exact ⟨hea, ⟨h1, h2, by rw [h3]; exact hfa.bait, h4⟩⟩

theorem readyB_of {input ptx : List Scaffold} {err : Int} (hd : DeepCutN input ptx err) (x : SiteN)
    (hx : x ∈ sitesN input ptx) (b : Nat) (hb : b < (allPieces ptx).length)
    (hhead : (pieceO input (pieceAt ptx b).2).rows.head? = some (.frag x.frag))
    (done : List (SiteN × Nat)) (hdone : ∀ y ∈ done, y.1 ∈ sitesN input ptx ∧ y.1.key ≠ x.key) :
    startCutN (oid0 input) done b = none ∧
    ReadyB input ptx x.frag b (cutO none (endCutN (oid0 input) done b)
      (labelled (pieceAt ptx b).1 (pieceO input (pieceAt ptx b).2))) := by
  obtain ⟨-, hfb⟩ := hd.base.piece b hb
  obtain ⟨rb, hrb⟩ := List.head?_eq_some_iff.1 hhead
  obtain ⟨Hb, tb, hHb⟩ := hfb.last
  have hFoid : x.frag.oid < oid0 input := frag_oid_lt hfb x.frag (by rw [hrb]; simp)
  obtain ⟨hsb, heb⟩ := earlierN_b hd x hx b hhead done hdone (oid0 input)
  obtain ⟨h1, h2, h3, h4⟩ := cutO_b_facts
    (labelled (pieceAt ptx b).1 (pieceO input (pieceAt ptx b).2)) x.frag Hb rb tb
    (endCutN (oid0 input) done b) (oid0 input) hrb hHb hfb.distinct hFoid
    (fun oid' h => ⟨(heb oid' h).1, (heb oid' h).2 Hb tb hHb⟩)
  exact ⟨hsb, ⟨h1, h2, by rw [h3]; exact hfb.bait, h4⟩⟩

/-- the sort keys of the two sides of a cut: the piece in front comes first for a forward contig, last for a reverse one -/
theorem pair_keys {input ptx : List Scaffold} {err : Int} (hd : DeepBase input ptx err) (k : Key) (F : Fragment) (a b : Nat)
    (hok : SiteOk input ptx err ⟨k, F, a, b⟩) (ca cb : OverlapResult) (ra : ReadyA input ptx F a ca)
    (rb : ReadyB input ptx F b cb) :
    ∃ ka kb, ca.fragmentStartIfTrimmed F = .ok ka ∧ cb.fragmentStartIfTrimmed F = .ok kb ∧
      (F.strand = 1 → ka < kb) ∧ (F.strand = -1 → kb < ka) := by
  obtain ⟨hka_, hfa⟩ := hd.piece a hok.inA
  obtain ⟨hkb_, hfb⟩ := hd.piece b hok.inB
  obtain ⟨hda, hdb, hsum⟩ := site_arith hd _ hok
  simp only at hda hdb hsum
  obtain ⟨ta', hrowsA⟩ := ra.rows
  obtain ⟨rb', hrowsB⟩ := rb.rows
  have hneB : cb.rows ≠ [] := by rw [hrowsB]; simp
  have hneA : ca.rows ≠ [] := by rw [hrowsA]; simp
  obtain ⟨c2, hc2⟩ := lastIs_ok_of_ne F hneB
  obtain ⟨c1, hc1⟩ := firstIs_ok_of_ne F hneA
  have hlA : lastIs ca F = .ok true := by rw [C18.lastIs_concat ca _ _ ta' hrowsA, C18.rowIs_self]
  have hfB : firstIs cb F = .ok true := by rw [C18.firstIs_cons cb _ _ rb' hrowsB, C18.rowIs_self]
  have hkA := fragmentStartIfTrimmed_eq hc1 hlA
  have hkB := fragmentStartIfTrimmed_eq hfB hc2
  have hvalA := hka_.valid
  have hvalB := hkb_.valid
  have habut := hok.abut
  have hpos := hok.samePos
  simp only at habut hpos
  have hlenF : F.length = F.stop - F.start + 1 := rfl
  have hbaitA := ra.bait
  have hbaitB := rb.bait
  have hstopA := ra.stop
  have hstartB := rb.start
  refine ⟨_, _, hkA, hkB, ?_, ?_⟩
  · intro hs1
    simp only [hs1, if_true]
    cases c1 with
    | false => simp only [Bool.false_eq_true, if_false, startOverhang, hbaitB, hstartB]; omega
    | true =>
      obtain ⟨e1, e2⟩ := ra.first hc1
      have hst : ca.start = (pieceO input (pieceAt ptx a).2).start := by rw [e1]; rfl
      have hsp := hfa.span
      rw [e2, C18.rowsLength_singleton] at hsp
      simp only [Row.length] at hsp
      simp only [if_true, startOverhang, hst, hbaitA, hstartB, hbaitB]
      omega
  · intro hs1
    have hn1 : ¬ (F.strand = 1) := by omega
    simp only [hn1, if_false, if_true]
    cases c2 with
    | false => simp only [Bool.false_eq_true, if_false, endOverhang, hbaitA, hstopA]; omega
    | true =>
      obtain ⟨e1, e2⟩ := rb.last hc2
      have hst : cb.stop = (pieceO input (pieceAt ptx b).2).stop := by rw [e1]; rfl
      have hsp := hfb.span
      rw [e2, C18.rowsLength_singleton] at hsp
      simp only [Row.length] at hsp
      simp only [if_true, endOverhang, hst, hbaitA, hstopA, hbaitB]
      omega

/-! ### one chain -/

/-- the state of the build while `cut_remaining_overlaps` runs: the sites `done` have been cut, using `off` object ids -/
structure CutInvN (input ptx : List Scaffold) (b1 : Build) (done : List (SiteN × Nat)) (off : Nat) (bc : Build) : Prop where
  len : bc.store.length = (allPieces ptx).length
  store : ∀ i, i < (allPieces ptx).length →
    bc.store.getD i default = resDeepN input (oid0 input) done (pieceAt ptx i, i)
  nextOid : bc.nextOid = oid0 input + off
  cuts : bc.cuts = b1.cuts + (off : Int) - (done.length : Int)
  found : bc.found = b1.found
  multi : bc.multi = b1.multi
  namer : bc.namer = b1.namer
  extra : bc.extra = b1.extra
  joinGap : bc.joinGap = b1.joinGap
  err : bc.err = b1.err

/-- everything the step for site `x` is given -/
structure Ctx (input ptx : List Scaffold) (err : Int) (b1 bc : Build) (done : List (SiteN × Nat)) (off : Nat) (x : SiteN) :
    Prop where
  hd : DeepCutN input ptx err
  hx : x ∈ sitesN input ptx
  hdone : ∀ y ∈ done, y.1 ∈ sitesN input ptx ∧ y.1.key ≠ x.key
  hinv : CutInvN input ptx b1 done off bc

abbrev labN (input ptx : List Scaffold) (i : Nat) : OverlapResult :=
  labelled (pieceAt ptx i).1 (pieceO input (pieceAt ptx i).2)

/-- the current result of piece `i` -/
def curN (input ptx : List Scaffold) (done : List (SiteN × Nat)) (i : Nat) : OverlapResult :=
  cutO (startCutN (oid0 input) done i) (endCutN (oid0 input) done i) (labN input ptx i)

def oidHN (bc : Build) (x : SiteN) (i : Nat) : Nat :=
  bc.nextOid + (if x.frag.strand = 1 then x.chain.idxOf i else x.chain.length - 1 - x.chain.idxOf i)

def newResN (input ptx : List Scaffold) (done : List (SiteN × Nat)) (off : Nat) (x : SiteN) (i : Nat) : OverlapResult :=
  cutO (startCutN (oid0 input) (done ++ [(x, off)]) i) (endCutN (oid0 input) (done ++ [(x, off)]) i) (labN input ptx i)

def newFragN (input ptx : List Scaffold) (done : List (SiteN × Nat)) (bc : Build) (x : SiteN) (i : Nat) : Fragment :=
  if 0 < x.chain.idxOf i then
    (if x.chain.idxOf i + 1 < x.chain.length then
      cutFragEnd (cutFragStart x.frag (curN input ptx done i).startOverhang (oidHN bc x i))
        (curN input ptx done i).endOverhang (oidHN bc x i)
    else cutFragStart x.frag (curN input ptx done i).startOverhang (oidHN bc x i))
  else cutFragEnd x.frag (curN input ptx done i).endOverhang (oidHN bc x i)

/-- bases cut off at the scaffold-left (`cutL`) and scaffold-right (`cutR`) side of the contig for holder `i` -/
def cutL (input ptx : List Scaffold) (done : List (SiteN × Nat)) (x : SiteN) (i : Nat) : Int :=
  if 0 < x.chain.idxOf i then (curN input ptx done i).startOverhang else 0
def cutR (input ptx : List Scaffold) (done : List (SiteN × Nat)) (x : SiteN) (i : Nat) : Int :=
  if x.chain.idxOf i + 1 < x.chain.length then (curN input ptx done i).endOverhang else 0

theorem newFragN_coords (input ptx : List Scaffold) (done : List (SiteN × Nat)) (bc : Build) (x : SiteN) (i : Nat)
    (h2 : 2 ≤ x.chain.length) :
    (newFragN input ptx done bc x i).name = x.frag.name ∧
    (x.frag.strand = 1 → (newFragN input ptx done bc x i).start = x.frag.start + cutL input ptx done x i ∧
      (newFragN input ptx done bc x i).stop = x.frag.stop - cutR input ptx done x i) ∧
    (x.frag.strand = -1 → (newFragN input ptx done bc x i).start = x.frag.start + cutR input ptx done x i ∧
      (newFragN input ptx done bc x i).stop = x.frag.stop - cutL input ptx done x i) := by
  unfold newFragN cutL cutR
  by_cases h0 : 0 < x.chain.idxOf i <;> by_cases h1 : x.chain.idxOf i + 1 < x.chain.length <;>
    (try (exfalso; omega)) <;>
    simp only [h0, h1, if_true, if_false] <;>
    refine ⟨rfl, fun hs => ?_, fun hs => ?_⟩ <;>
    (have hn : ¬ ((-1 : Int) = 1) := by decide) <;>
    simp [cutFragEnd, cutFragStart, hs, hn]

theorem startCutN_append (base : Nat) (done : List (SiteN × Nat)) (y : SiteN × Nat) (i : Nat) :
    startCutN base (done ++ [y]) i =
      (startCutN base done i).or
        (if 0 < y.1.chain.idxOf i ∧ y.1.chain.idxOf i < y.1.chain.length then
          some (oidAt base y (y.1.chain.idxOf i)) else none) := by
  unfold startCutN
  rw [List.findSome?_append]
  simp

theorem endCutN_append (base : Nat) (done : List (SiteN × Nat)) (y : SiteN × Nat) (i : Nat) :
    endCutN base (done ++ [y]) i =
      (endCutN base done i).or
        (if y.1.chain.idxOf i + 1 < y.1.chain.length then some (oidAt base y (y.1.chain.idxOf i)) else none) := by
  unfold endCutN
  rw [List.findSome?_append]
  simp

/-- what the step establishes for the holder `i` at chain position `p` -/
def HolderOk (input ptx : List Scaffold) (bc : Build) (done : List (SiteN × Nat)) (off : Nat) (x : SiteN) (p i : Nat) :
    Prop :=
  i < (allPieces ptx).length ∧
  bc.store.getD i default = { o := curN input ptx done i, added := true } ∧
  (curN input ptx done i).trimFragment x.frag (p == 0) (p + 1 == x.chain.length) (oidHN bc x i) =
    .ok (newResN input ptx done off x i, newFragN input ptx done bc x i) ∧
  (∃ v, (curN input ptx done i).fragmentStartIfTrimmed x.frag = .ok v) ∧
  0 ≤ cutL input ptx done x i ∧ 0 ≤ cutR input ptx done x i ∧
  cutL input ptx done x i + cutR input ptx done x i ≤ x.frag.stop - x.frag.start

theorem fragmentStart_ok (o : OverlapResult) (F : Fragment) (h : o.rows ≠ []) : ∃ v, o.fragmentStartIfTrimmed F = .ok v := by
  obtain ⟨a, ha⟩ := firstIs_ok_of_ne F h
  obtain ⟨b, hb⟩ := lastIs_ok_of_ne F h
  exact ⟨_, fragmentStartIfTrimmed_eq ha hb⟩

theorem curN_store {input ptx : List Scaffold} {err : Int} {b1 bc : Build} {done : List (SiteN × Nat)} {off : Nat}
    {x : SiteN} (c : Ctx input ptx err b1 bc done off x) (i : Nat) (hi : i < (allPieces ptx).length) :
    bc.store.getD i default = { o := curN input ptx done i, added := true } := by
  rw [c.hinv.store i hi]; rfl

theorem holder_first {input ptx : List Scaffold} {err : Int} {b1 bc : Build} {done : List (SiteN × Nat)} {off : Nat}
    {x : SiteN} (c : Ctx input ptx err b1 bc done off x) (h2 : 1 < x.chain.length) (hnd : x.chain.Nodup) :
    HolderOk input ptx bc done off x 0 (x.chain[0]) := by
  have hadj := c.hd.chains x c.hx
  have hok := adj_get _ _ hadj 0 (by omega)
  simp only [Nat.zero_add] at hok
  generalize hi : x.chain[0] = i at hok ⊢
  generalize hj : x.chain[1] = j at hok
  have hpos : x.chain.idxOf i = 0 := by rw [← hi]; exact hnd.idxOf_getElem 0 (by omega)
  obtain ⟨hka_, hfa⟩ := c.hd.base.piece i hok.inA
  obtain ⟨hea, ra⟩ := readyA_of c.hd x c.hx i hok.inA hok.lastA done c.hdone
  obtain ⟨hda, hdb, hsum⟩ := site_arith c.hd.base _ hok
  simp only at hda hdb hsum
  have hcur : curN input ptx done i = cutO (startCutN (oid0 input) done i) none (labN input ptx i) := by
    unfold curN; rw [hea]
  obtain ⟨ta', hrows⟩ := ra.rows
  have heo : (curN input ptx done i).endOverhang =
      (pieceO input (pieceAt ptx i).2).stop - (pieceAt ptx i).2.stop := by
    rw [hcur]; unfold endOverhang labN; rw [ra.stop, ra.bait]
  have hlenF : x.frag.length = x.frag.stop - x.frag.start + 1 := rfl
  refine ⟨hok.inA, curN_store c i hok.inA, ?_, ?_, ?_, ?_, ?_⟩
  · have hfl : ((0 : Nat) == 0) = true ∧ ((0 + 1 : Nat) == x.chain.length) = false := by
      refine ⟨rfl, ?_⟩
      rw [beq_eq_false_iff_ne]; omega
    rw [hfl.1, hfl.2]
    have ht := trimFragment_end_fwd (curN input ptx done i) x.frag ta' (oidHN bc x i) (by rw [hcur]; exact hrows)
      (by rw [heo]; exact hda) (by rw [heo]; omega) (by rw [hcur]; unfold labN; rw [ra.bait]; exact hka_.untagged)
      hok.strand
    rw [ht]
    congr 2
    · -- the new result
      unfold newResN
      rw [startCutN_append, endCutN_append, hea]
      simp only [hpos, Nat.lt_irrefl, false_and, if_false, Option.or_none, Option.none_or, Nat.zero_add, h2, if_true]
      rw [hcur]
      have : oidAt (oid0 input) (x, off) 0 = oidHN bc x i := by
        unfold oidAt oidHN; rw [hpos, c.hinv.nextOid]
      rw [this]
      rfl
    · unfold newFragN
      simp only [hpos, Nat.lt_irrefl, if_false]
  · exact fragmentStart_ok _ _ (by rw [hcur]; rw [hrows]; simp)
  · unfold cutL; simp [hpos]
  · unfold cutR; simp only [hpos, Nat.zero_add, h2, if_true]; rw [heo]; omega
  · unfold cutL cutR; simp only [hpos, Nat.lt_irrefl, if_false, Nat.zero_add, h2, if_true]; rw [heo]; omega

theorem holder_last {input ptx : List Scaffold} {err : Int} {b1 bc : Build} {done : List (SiteN × Nat)} {off : Nat}
    {x : SiteN} (c : Ctx input ptx err b1 bc done off x) (hnd : x.chain.Nodup) (q : Nat)
    (hq : q + 1 + 1 = x.chain.length) :
    HolderOk input ptx bc done off x (q + 1) (x.chain[q + 1]) := by
  have hadj := c.hd.chains x c.hx
  have hok := adj_get _ _ hadj q (by omega)
  generalize hi : x.chain[q + 1] = i at hok ⊢
  generalize hj : x.chain[q] = j at hok
  have hpos : x.chain.idxOf i = q + 1 := by rw [← hi]; exact hnd.idxOf_getElem (q + 1) (by omega)
  obtain ⟨hkb_, hfb⟩ := c.hd.base.piece i hok.inB
  obtain ⟨hsb, rb⟩ := readyB_of c.hd x c.hx i hok.inB hok.headB done c.hdone
  obtain ⟨-, heb⟩ := earlierN_b c.hd x c.hx i hok.headB done c.hdone (oid0 input)
  obtain ⟨hda, hdb, hsum⟩ := site_arith c.hd.base _ hok
  simp only at hda hdb hsum
  have hcur : curN input ptx done i = cutO none (endCutN (oid0 input) done i) (labN input ptx i) := by
    unfold curN; rw [hsb]
  obtain ⟨rb', hrows⟩ := rb.rows
  have hso : (curN input ptx done i).startOverhang =
      (pieceAt ptx i).2.start - (pieceO input (pieceAt ptx i).2).start := by
    rw [hcur]; unfold startOverhang; rw [rb.start, rb.bait]
  have hlenF : x.frag.length = x.frag.stop - x.frag.start + 1 := rfl
  have hne : (curN input ptx done i).rows ≠ [] := by rw [hcur, hrows]; simp
  have hp1 : ¬ (x.chain.idxOf i + 1 < x.chain.length) := by omega
  refine ⟨hok.inB, curN_store c i hok.inB, ?_, fragmentStart_ok _ _ hne, ?_, ?_, ?_⟩
  · have hfl : ((q + 1 : Nat) == 0) = false ∧ ((q + 1 + 1 : Nat) == x.chain.length) = true := by
      refine ⟨by rw [beq_eq_false_iff_ne]; omega, by rw [beq_iff_eq]; exact hq⟩
    rw [hfl.1, hfl.2]
    obtain ⟨c2, hc2⟩ := lastIs_ok_of_ne x.frag hne
    have hlast' : rb' = [] ∨ lastIs (curN input ptx done i) x.frag = .ok false := by
      cases c2 with
      | false => exact Or.inr hc2
      | true =>
        rw [hcur] at hc2
        obtain ⟨e1, e2⟩ := rb.last hc2
        left
        rw [e1] at hrows
        have : (pieceO input (pieceAt ptx i).2).rows = .frag x.frag :: rb' := hrows
        rw [e2] at this
        simpa using this.symm
    have ht := trimFragment_start_fwd (curN input ptx done i) x.frag rb' (oidHN bc x i) (by rw [hcur]; exact hrows)
      hlast' (by rw [hso]; exact hdb) (by rw [hso]; omega)
      (by rw [hcur]; rw [rb.bait]; exact hkb_.untagged) hok.strand
    rw [ht]
    congr 2
    · unfold newResN
      rw [startCutN_append, endCutN_append, hsb]
      have hc1 : 0 < x.chain.idxOf i ∧ x.chain.idxOf i < x.chain.length := by omega
      simp only [hc1, and_self, if_true, Option.none_or, hp1, if_false, Option.or_none]
      have : oidAt (oid0 input) (x, off) (x.chain.idxOf i) = oidHN bc x i := by
        unfold oidAt oidHN; rw [c.hinv.nextOid]
      rw [this, hcur]
      cases hec : endCutN (oid0 input) done i with
      | none => rfl
      | some e =>
        obtain ⟨Hb, tb, hHb⟩ := hfb.last
        have htb := (heb e hec).2 Hb tb hHb
        obtain ⟨rb0, hrb0⟩ := List.head?_eq_some_iff.1 hok.headB
        obtain ⟨m, hm⟩ : ∃ m, rb0 = m ++ [.frag Hb] := by
          cases tb with
          | nil => exact absurd rfl htb
          | cons y t' =>
            rw [hrb0] at hHb
            simp only [List.cons_append, List.cons.injEq] at hHb
            exact ⟨t', hHb.2⟩
        exact trimStart_trimEnd_comm _ x.frag Hb m _ e (by rw [← hm]; exact hrb0)
    · unfold newFragN
      have hc0 : 0 < x.chain.idxOf i := by omega
      simp only [hc0, if_true, hp1, if_false]
  · unfold cutL; simp only [hpos, Nat.succ_pos, if_true]; rw [hso]; omega
  · unfold cutR; simp only [hp1, if_false]; omega
  · unfold cutL cutR; simp only [hpos, Nat.succ_pos, if_true, hp1, if_false]; rw [hpos] at hp1; rw [hso]; omega

theorem holder_mid {input ptx : List Scaffold} {err : Int} {b1 bc : Build} {done : List (SiteN × Nat)} {off : Nat}
    {x : SiteN} (c : Ctx input ptx err b1 bc done off x) (hnd : x.chain.Nodup) (q : Nat)
    (hq : q + 1 + 1 < x.chain.length) :
    HolderOk input ptx bc done off x (q + 1) (x.chain[q + 1]) := by
  have hadj := c.hd.chains x c.hx
  have hok1 := adj_get _ _ hadj q (by omega)
  have hok2 := adj_get _ _ hadj (q + 1) (by omega)
  generalize hi : x.chain[q + 1] = i at hok1 hok2 ⊢
  generalize hj : x.chain[q] = j at hok1
  generalize hk : x.chain[q + 1 + 1] = k at hok2
  have hpos : x.chain.idxOf i = q + 1 := by rw [← hi]; exact hnd.idxOf_getElem (q + 1) (by omega)
  obtain ⟨hk_, hf⟩ := c.hd.base.piece i hok1.inB
  obtain ⟨hsb, -⟩ := readyB_of c.hd x c.hx i hok1.inB hok1.headB done c.hdone
  obtain ⟨hea, -⟩ := readyA_of c.hd x c.hx i hok1.inB hok2.lastA done c.hdone
  obtain ⟨-, hdb, -⟩ := site_arith c.hd.base _ hok1
  obtain ⟨hda, -, -⟩ := site_arith c.hd.base _ hok2
  simp only at hda hdb
  have hcur : curN input ptx done i = labN input ptx i := by
    unfold curN; rw [hsb, hea]; rfl
  -- the result is the single row `F`
  obtain ⟨r, hr⟩ := List.head?_eq_some_iff.1 hok1.headB
  obtain ⟨t, ht⟩ := List.getLast?_eq_some_iff.1 hok2.lastA
  obtain ⟨hr0, -⟩ := single_of_first_last_oid hr ht rfl hf.distinct
  subst hr0
  have hrows : (labN input ptx i).rows = [.frag x.frag] := hr
  have hsp := hf.span
  rw [hr, C18.rowsLength_singleton] at hsp
  simp only [Row.length] at hsp
  have hlenF : x.frag.length = x.frag.stop - x.frag.start + 1 := rfl
  have hval := hk_.valid
  have hbait : (labN input ptx i).bait = (pieceAt ptx i).2 := hf.bait
  have hso : (labN input ptx i).startOverhang = (pieceAt ptx i).2.start - (pieceO input (pieceAt ptx i).2).start := by
    unfold startOverhang; rw [hbait]; rfl
  have heo : (labN input ptx i).endOverhang = (pieceO input (pieceAt ptx i).2).stop - (pieceAt ptx i).2.stop := by
    unfold endOverhang; rw [hbait]; rfl
  have hc0 : 0 < x.chain.idxOf i := by omega
  have hc1 : x.chain.idxOf i + 1 < x.chain.length := by omega
  refine ⟨hok1.inB, curN_store c i hok1.inB, ?_, fragmentStart_ok _ _ (by rw [hcur, hrows]; simp), ?_, ?_, ?_⟩
  · have hfl : ((q + 1 : Nat) == 0) = false ∧ ((q + 1 + 1 : Nat) == x.chain.length) = false := by
      refine ⟨by rw [beq_eq_false_iff_ne]; omega, by rw [beq_eq_false_iff_ne]; omega⟩
    rw [hfl.1, hfl.2, hcur]
    have ht := trimFragment_mid_fwd (labN input ptx i) x.frag (oidHN bc x i) hrows (by rw [hso]; exact hdb)
      (by rw [heo]; exact hda) (by rw [hso, heo]; omega) (by rw [hbait]; exact hk_.untagged) hok1.strand
    rw [ht]
    congr 2
    · unfold newResN
      rw [startCutN_append, endCutN_append, hsb, hea]
      have hc2 : 0 < x.chain.idxOf i ∧ x.chain.idxOf i < x.chain.length := by omega
      simp only [hc2, hc1, and_self, if_true, Option.none_or]
      have : oidAt (oid0 input) (x, off) (x.chain.idxOf i) = oidHN bc x i := by
        unfold oidAt oidHN; rw [c.hinv.nextOid]
      rw [this]
      rfl
    · unfold newFragN
      simp only [hc0, hc1, if_true, hcur]
  · unfold cutL; simp only [hc0, if_true, hcur]; rw [hso]; omega
  · unfold cutR; simp only [hc1, if_true, hcur]; rw [heo]; omega
  · unfold cutL cutR; simp only [hc0, hc1, if_true, hcur]; rw [hso, heo]; omega

/-- every holder of the chain -/
theorem holder_step {input ptx : List Scaffold} {err : Int} {b1 bc : Build} {done : List (SiteN × Nat)} {off : Nat}
    {x : SiteN} (c : Ctx input ptx err b1 bc done off x) (hnd : x.chain.Nodup) (h2 : 2 ≤ x.chain.length) (p : Nat)
    (hp : p < x.chain.length) : HolderOk input ptx bc done off x p (x.chain[p]) := by
  cases p with
  | zero => exact holder_first c (by omega) hnd
  | succ q =>
    by_cases hl : q + 1 + 1 = x.chain.length
    · exact holder_last c hnd q hl
    · exact holder_mid c hnd q (by omega)

/-- the two holders on either side of one cut of the chain -/
theorem pair_step {input ptx : List Scaffold} {err : Int} {b1 bc : Build} {done : List (SiteN × Nat)} {off : Nat}
    {x : SiteN} (c : Ctx input ptx err b1 bc done off x) (hnd : x.chain.Nodup) (p : Nat) (hp : p + 1 < x.chain.length) :
    (∃ ka kb, (curN input ptx done (x.chain[p])).fragmentStartIfTrimmed x.frag = .ok ka ∧
      (curN input ptx done (x.chain[p + 1])).fragmentStartIfTrimmed x.frag = .ok kb ∧
      (x.frag.strand = 1 → ka < kb) ∧ (x.frag.strand = -1 → kb < ka)) ∧
    cutR input ptx done x (x.chain[p]) + cutL input ptx done x (x.chain[p + 1]) = x.frag.length := by
  have hadj := c.hd.chains x c.hx
  have hok := adj_get _ _ hadj p hp
  have hposa : x.chain.idxOf (x.chain[p]) = p := hnd.idxOf_getElem p (by omega)
  have hposb : x.chain.idxOf (x.chain[p + 1]) = p + 1 := hnd.idxOf_getElem (p + 1) hp
  generalize x.chain[p] = a at hok hposa ⊢
  generalize x.chain[p + 1] = b at hok hposb ⊢
  obtain ⟨hea, ra⟩ := readyA_of c.hd x c.hx a hok.inA hok.lastA done c.hdone
  obtain ⟨hsb, rb⟩ := readyB_of c.hd x c.hx b hok.inB hok.headB done c.hdone
  have hcura : curN input ptx done a = cutO (startCutN (oid0 input) done a) none (labN input ptx a) := by
    unfold curN; rw [hea]
  have hcurb : curN input ptx done b = cutO none (endCutN (oid0 input) done b) (labN input ptx b) := by
    unfold curN; rw [hsb]
  obtain ⟨-, -, hsum⟩ := site_arith c.hd.base _ hok
  simp only at hsum
  refine ⟨?_, ?_⟩
  · rw [hcura, hcurb]
    exact pair_keys c.hd.base x.key x.frag a b hok _ _ ra rb
  · unfold cutL cutR
    have h1 : x.chain.idxOf a + 1 < x.chain.length := by omega
    have h2 : 0 < x.chain.idxOf b := by omega
    simp only [h1, h2, if_true]
    rw [hcura, hcurb]
    unfold endOverhang startOverhang
    rw [ra.stop, ra.bait, rb.start, rb.bait]
    exact hsum

/-! ### list facts for the assembly -/

theorem adj_of_get {α} (r : α → α → Prop) : ∀ (l : List α),
    (∀ p (h : p + 1 < l.length), r (l[p]'(by omega)) (l[p + 1])) → Adj r l
  | [], _ => trivial
  | [_], _ => trivial
  | a :: b :: t, h => by
    refine ⟨h 0 (by simp), adj_of_get r (b :: t) ?_⟩
    intro p hp
    have := h (p + 1) (by simpa using hp)
    simpa using this

theorem adj_map {α β} (r : β → β → Prop) (f : α → β) : ∀ (l : List α), Adj (fun a b => r (f a) (f b)) l → Adj r (l.map f)
  | [], _ => trivial
  | [_], _ => trivial
  | a :: b :: t, h => ⟨h.1, adj_map r f (b :: t) h.2⟩

theorem adj_concat {α} (r : α → α → Prop) : ∀ (l : List α) (a b : α), Adj r (l ++ [a]) → r a b → Adj r (l ++ [a, b])
  | [], a, b, _, h => ⟨h, trivial⟩
  | [c], a, b, h1, h => ⟨h1.1, h, trivial⟩
  | c :: d :: t, a, b, h1, h => ⟨h1.1, adj_concat r (d :: t) a b h1.2 h⟩

theorem adj_reverse {α} (r : α → α → Prop) : ∀ (l : List α), Adj (fun a b => r b a) l → Adj r l.reverse
  | [], _ => trivial
  | [_], _ => trivial
  | a :: b :: t, h => by
    have ih := adj_reverse r (b :: t) h.2
    have : (a :: b :: t).reverse = t.reverse ++ [b, a] := by simp
    rw [this]
    have ih' : Adj r (t.reverse ++ [b]) := by simpa using ih
    exact adj_concat r t.reverse b a ih' h.1

theorem getD_foldl_setAt (T : List (Nat × OverlapResult × Fragment)) :
    ∀ (st : List Res), (T.map (·.1)).Nodup → (∀ t ∈ T, t.1 < st.length) →
      (T.foldl (fun st t => setAt st t.1 { st.getD t.1 default with o := t.2.1 }) st).length = st.length ∧
      ∀ i, (T.foldl (fun st t => setAt st t.1 { st.getD t.1 default with o := t.2.1 }) st).getD i default =
        match T.find? (fun t => t.1 = i) with
        | some t => { st.getD i default with o := t.2.1 }
        | none => st.getD i default := by
  induction T with
  | nil => intro st _ _; exact ⟨rfl, fun i => rfl⟩
  | cons t T' ih =>
    intro st hnd hlt
    simp only [List.map_cons, List.nodup_cons] at hnd
    obtain ⟨h1, h2⟩ := ih (setAt st t.1 { st.getD t.1 default with o := t.2.1 }) hnd.2
      (fun u hu => by rw [length_setAt]; exact hlt u (by simp [hu]))
    refine ⟨by rw [List.foldl_cons, h1, length_setAt], ?_⟩
    intro i
    rw [List.foldl_cons, h2 i, List.find?_cons]
    by_cases e : t.1 = i
    · subst e
      have hnone : T'.find? (fun u => u.1 = t.1) = none := by
        rw [List.find?_eq_none]
        intro u hu hh
        exact hnd.1 (by simp only [decide_eq_true_eq] at hh; rw [← hh]; exact List.mem_map_of_mem hu)
      simp only [hnone, decide_true]
      rw [getD_setAt_self _ _ _ _ (hlt t (by simp))]
    · simp only [e, decide_false]
      rw [getD_setAt_ne _ _ _ _ _ e]

/-! ### the step for one shared contig -/

theorem chain_step {input ptx : List Scaffold} {err : Int} {b1 bc : Build} {done : List (SiteN × Nat)} {off : Nat}
    {x : SiteN} (c : Ctx input ptx err b1 bc done off x) (fnd : Found) (hf : SiteNFacts input ptx x fnd) :
    ∃ bc', cutFragments bc fnd = .ok bc' ∧
      CutInvN input ptx b1 (done ++ [(x, off)]) (off + x.chain.length) bc' := by
  have hnd := chain_nodup c.hd x c.hx
  have h2 := hf.len
  have hH := fun p hp => holder_step c hnd h2 p hp
  have hP := fun p hp => pair_step c hnd p hp
  -- visiting order
  generalize hV : (if x.frag.strand = 1 then x.chain else x.chain.reverse) = V
  have hVperm : V.Perm x.chain := by
    rw [← hV]; split
    · exact List.Perm.refl _
    · exact List.reverse_perm _
  have hVlen : V.length = x.chain.length := hVperm.length_eq
  have hVnd : V.Nodup := hVperm.nodup_iff.2 hnd
  -- every holder, by membership
  have hmem : ∀ i ∈ x.chain, HolderOk input ptx bc done off x (x.chain.idxOf i) i := by
    intro i hi
    have hlt := List.idxOf_lt_length_of_mem hi
    have := hH (x.chain.idxOf i) hlt
    rwa [List.getElem_idxOf hlt] at this
  have hgetRes : ∀ i ∈ x.chain, getRes bc.store i = curN input ptx done i := by
    intro i hi
    unfold getRes; rw [(hmem i hi).2.1]
  let κ : Nat → Int := fun i =>
    match (curN input ptx done i).fragmentStartIfTrimmed x.frag with
    | .ok v => v
    | .error _ => 0
  have hκ : ∀ i ∈ x.chain, (curN input ptx done i).fragmentStartIfTrimmed x.frag = .ok (κ i) := by
    intro i hi
    obtain ⟨v, hv⟩ := (hmem i hi).2.2.2.1
    simp only [κ, hv]
  have hstr : x.frag.strand = 1 ∨ x.frag.strand = -1 :=
    (adj_get _ _ (c.hd.chains x c.hx) 0 (by omega)).strand
  -- keys are strictly monotone along the chain
  have hkeys : ∀ p (hp : p + 1 < x.chain.length),
      (x.frag.strand = 1 → κ (x.chain[p]) < κ (x.chain[p + 1])) ∧
      (x.frag.strand = -1 → κ (x.chain[p + 1]) < κ (x.chain[p])) := by
    intro p hp
    obtain ⟨⟨ka, kb, h1, h2, h3, h4⟩, -⟩ := hP p hp
    have e1 := hκ (x.chain[p]) (List.getElem_mem _)
    have e2 := hκ (x.chain[p + 1]) (List.getElem_mem _)
    rw [h1] at e1; rw [h2] at e2
    simp only [Except.ok.injEq] at e1 e2
    rw [← e1, ← e2]
    exact ⟨h3, h4⟩
  have hsorted : V.Pairwise (fun a c => κ a < κ c) := by
    rw [← hV]
    rcases hstr with hs | hs
    · rw [if_pos hs]
      exact adj_pairwise (fun a b => κ a < κ b) (fun a b c h1 h2 => Int.lt_trans h1 h2) _
        (adj_of_get _ _ (fun p hp => (hkeys p hp).1 hs))
    · rw [if_neg (by omega), List.pairwise_reverse]
      exact adj_pairwise (fun a b => κ b < κ a) (fun a b c h1 h2 => Int.lt_trans h2 h1) _
        (adj_of_get _ _ (fun p hp => (hkeys p hp).2 hs))
  -- position and flags of the `j`-th visited holder
  have hvis : ∀ j (hj : j < V.length), V[j] ∈ x.chain ∧
      (x.frag.strand = 1 → x.chain.idxOf V[j] = j) ∧ (x.frag.strand = -1 → x.chain.idxOf V[j] = x.chain.length - 1 - j) ∧
      cutFlags x.frag.strand j (x.chain.length - 1) =
        ((x.chain.idxOf V[j] == 0), (x.chain.idxOf V[j] + 1 == x.chain.length)) ∧
      oidHN bc x V[j] = bc.nextOid + j := by
    intro j hj
    have hmemj : V[j] ∈ x.chain := hVperm.mem_iff.1 (List.getElem_mem _)
    refine ⟨hmemj, ?_⟩
    rcases hstr with hs | hs
    · have hVC : V = x.chain := by rw [← hV, if_pos hs]
      have hidx : x.chain.idxOf V[j] = j := by
        subst hVC; exact hnd.idxOf_getElem j hj
      have hn1 : ¬ ((1 : Int) = -1) := by decide
      refine ⟨fun _ => hidx, fun h => by omega, ?_, ?_⟩
      · unfold cutFlags
        rw [hidx, hs, if_neg hn1]
        congr 1
        rw [Bool.eq_iff_iff, beq_iff_eq, beq_iff_eq]
        omega
      · unfold oidHN
        rw [hidx, if_pos hs]
    · have hVC : V = x.chain.reverse := by rw [← hV, if_neg (by omega)]
      have hj' : j < x.chain.length := by rw [← hVlen]; exact hj
      have hidx : x.chain.idxOf V[j] = x.chain.length - 1 - j := by
        subst hVC
        rw [List.getElem_reverse]
        exact hnd.idxOf_getElem _ (by omega)
      refine ⟨fun h => by omega, fun _ => hidx, ?_, ?_⟩
      · unfold cutFlags
        rw [hidx, hs, if_pos rfl]
        congr 1
        · rw [Bool.eq_iff_iff, beq_iff_eq, beq_iff_eq]; omega
        · rw [Bool.eq_iff_iff, beq_iff_eq, beq_iff_eq]; omega
      · unfold oidHN
        rw [hidx, if_neg (by omega)]
        omega
  -- the list handed to `cutFragments_chain`
  let N : Nat → Fragment := fun i => newFragN input ptx done bc x i
  let T : List (Nat × OverlapResult × Fragment) := V.map (fun i => (i, newResN input ptx done off x i, N i))
  have hT1 : T.map (·.1) = V := by simp [T, List.map_map, Function.comp_def]
  have hT2 : T.map (·.2.2) = V.map N := by simp [T, List.map_map, Function.comp_def]
  have hTlen : T.length = x.chain.length := by simp [T, hVlen]
  have hperm : (T.map (·.1)).Perm fnd.scaffolds := by rw [hT1]; exact hVperm.trans hf.perm
  have hκ' : ∀ h ∈ fnd.scaffolds, (getRes bc.store h).fragmentStartIfTrimmed fnd.fragment = .ok (κ h) := by
    intro h hh
    have hc := hf.perm.mem_iff.2 hh
    rw [hgetRes h hc, ← hf.frag]
    exact hκ h hc
  have htrim : ∀ j t, T[j]? = some t →
      (bc.store.getD t.1 default).o.trimFragment fnd.fragment (cutFlags fnd.fragment.strand j (T.length - 1)).1
        (cutFlags fnd.fragment.strand j (T.length - 1)).2 (bc.nextOid + j) = .ok (t.2.1, t.2.2) := by
    intro j t ht
    simp only [T, List.getElem?_map] at ht
    cases hv : V[j]? with
    | none => rw [hv] at ht; cases ht
    | some i =>
      rw [hv] at ht
      simp only [Option.map_some, Option.some.injEq] at ht
      subst ht
      obtain ⟨hj, rfl⟩ := List.getElem?_eq_some_iff.1 hv
      obtain ⟨hm, -, -, hfl, hoid⟩ := hvis j hj
      have hh := hmem V[j] hm
      rw [← hf.frag, hTlen, hfl, ← hoid, hh.2.1]
      exact hh.2.2.1
  -- the new Fragments tile the contig
  have hF : x.frag.length = x.frag.stop - x.frag.start + 1 := rfl
  have hpairN : ∀ p (hp : p + 1 < x.chain.length),
      (x.frag.strand = 1 → Follows' (N (x.chain[p])) (N (x.chain[p + 1]))) ∧
      (x.frag.strand = -1 → Follows' (N (x.chain[p + 1])) (N (x.chain[p]))) := by
    intro p hp
    obtain ⟨-, hsum⟩ := hP p hp
    obtain ⟨-, -, -, -, ha1, ha2, ha3⟩ := hH p (by omega)
    obtain ⟨-, -, -, -, hb1, hb2, hb3⟩ := hH (p + 1) hp
    obtain ⟨na, pa, ma⟩ := newFragN_coords input ptx done bc x (x.chain[p]) h2
    obtain ⟨nb, pb, mb⟩ := newFragN_coords input ptx done bc x (x.chain[p + 1]) h2
    constructor
    · intro hs
      obtain ⟨a1, a2⟩ := pa hs
      obtain ⟨b1', b2'⟩ := pb hs
      exact ⟨na.trans nb.symm, by show (N _).start ≤ (N _).stop; simp only [N]; omega,
        by show (N _).start ≤ (N _).stop; simp only [N]; omega, by show (N _).stop + 1 = (N _).start; simp only [N]; omega⟩
    · intro hs
      obtain ⟨a1, a2⟩ := ma hs
      obtain ⟨b1', b2'⟩ := mb hs
      exact ⟨nb.trans na.symm, by show (N _).start ≤ (N _).stop; simp only [N]; omega,
        by show (N _).start ≤ (N _).stop; simp only [N]; omega, by show (N _).stop + 1 = (N _).start; simp only [N]; omega⟩
  have hadjN : Adj Follows' (V.map N) := by
    rw [← hV]
    rcases hstr with hs | hs
    · rw [if_pos hs]
      exact adj_map _ N _ (adj_of_get _ _ (fun p hp => (hpairN p hp).1 hs))
    · rw [if_neg (by omega)]
      exact adj_map _ N _ (adj_reverse (fun a b => Follows' (N a) (N b)) _
        (adj_of_get _ _ (fun p hp => (hpairN p hp).2 hs)))
  obtain ⟨v0, vt, hVc⟩ : ∃ v0 vt, V = v0 :: vt := by
    cases hVc : V with
    | nil => rw [hVc] at hVlen; simp at hVlen; omega
    | cons v0 vt => exact ⟨v0, vt, rfl⟩
  have hnews : T.map (·.2.2) = N v0 :: vt.map N := by rw [hT2, hVc]; rfl
  have hadjN' : Adj Follows' (N v0 :: vt.map N) := by rw [← hnews, hT2]; exact hadjN
  have h0lt : 0 < V.length := by omega
  have hv0 : V[0] = v0 := by simp [hVc]
  have hstart : (N v0).start = fnd.fragment.start := by
    rw [← hf.frag, ← hv0]
    obtain ⟨hm, hi1, hi2, -, -⟩ := hvis 0 h0lt
    obtain ⟨-, pa, ma⟩ := newFragN_coords input ptx done bc x V[0] h2
    rcases hstr with hs | hs
    · rw [(pa hs).1]; unfold cutL; rw [hi1 hs]; simp
    · rw [(ma hs).1]; unfold cutR; rw [hi2 hs]
      have : ¬ (x.chain.length - 1 - 0 + 1 < x.chain.length) := by omega
      rw [if_neg this]; simp
  have hlastlt : V.length - 1 < V.length := by omega
  have hlastE : (N v0 :: vt.map N).getLast (by simp) = N (V[V.length - 1]) := by
    have : N v0 :: vt.map N = V.map N := by rw [hVc]; rfl
    simp only [this]
    rw [List.getLast_eq_getElem]
    simp
  have hstop : ((N v0 :: vt.map N).getLast (by simp)).stop = fnd.fragment.stop := by
    rw [hlastE, ← hf.frag]
    obtain ⟨hm, hi1, hi2, -, -⟩ := hvis (V.length - 1) hlastlt
    obtain ⟨-, pa, ma⟩ := newFragN_coords input ptx done bc x V[V.length - 1] h2
    rcases hstr with hs | hs
    · rw [(pa hs).2]; unfold cutR; rw [hi1 hs]
      have : ¬ (V.length - 1 + 1 < x.chain.length) := by omega
      rw [if_neg this]; simp
    · rw [(ma hs).2]; unfold cutL; rw [hi2 hs]
      have : ¬ (0 < x.chain.length - 1 - (V.length - 1)) := by omega
      rw [if_neg this]; simp
  have hcut := cutFragments_chain bc fnd T κ hκ' hperm (by rw [hT1]; exact hsorted) htrim (N v0) (vt.map N) hnews hadjN'
    hstart hstop
  refine ⟨_, hcut, ?_⟩
  -- the invariant
  have hTlt : ∀ t ∈ T, t.1 < bc.store.length := by
    intro t ht
    have : t.1 ∈ T.map (·.1) := List.mem_map_of_mem ht
    rw [hT1] at this
    rw [c.hinv.len]
    exact (hmem t.1 (hVperm.mem_iff.1 this)).1
  obtain ⟨hl, hg⟩ := getD_foldl_setAt T bc.store (by rw [hT1]; exact hVnd) hTlt
  refine ⟨by show (applyCuts bc T).store.length = _; unfold applyCuts; rw [hl]; exact c.hinv.len, ?_,
    by show (applyCuts bc T).nextOid = _; unfold applyCuts; simp only [hTlen]; rw [c.hinv.nextOid]; omega,
    by show bc.cuts + ((T.length : Int) - 1) = _; rw [hTlen, c.hinv.cuts]; simp only [List.length_append,
        List.length_singleton]; omega,
    c.hinv.found, c.hinv.multi, c.hinv.namer, c.hinv.extra, c.hinv.joinGap, c.hinv.err⟩
  intro i hi
  show (applyCuts bc T).store.getD i default = _
  unfold applyCuts
  simp only
  rw [hg i, c.hinv.store i hi]
  cases hfnd : T.find? (fun t => t.1 = i) with
  | some t =>
    have ht1 : t.1 = i := by simpa using List.find?_some hfnd
    have htm : t ∈ T := List.mem_of_find?_eq_some hfnd
    simp only [T, List.mem_map] at htm
    obtain ⟨v, -, rfl⟩ := htm
    simp only at ht1
    subst ht1
    rfl
  | none =>
    have hni : i ∉ x.chain := by
      intro hmi
      have : i ∈ V := hVperm.mem_iff.2 hmi
      have := List.find?_eq_none.1 hfnd (i, newResN input ptx done off x i, N i) (by
        simp only [T, List.mem_map]; exact ⟨i, this, rfl⟩)
      simp at this
    have hidx : x.chain.idxOf i = x.chain.length := List.idxOf_eq_length hni
    simp only
    unfold resDeepN
    rw [startCutN_append, endCutN_append]
    have hlt : ¬ (x.chain.length + 1 < x.chain.length) := by omega
    simp [hidx, hlt]

/-! ### the whole loop -/

def offs (l : List SiteN) : Nat := (l.map (·.chain.length)).sum

theorem withOffsets_append (n : Nat) (l : List SiteN) (x : SiteN) :
    withOffsets n (l ++ [x]) = withOffsets n l ++ [(x, n + offs l)] := by
  induction l generalizing n with
  | nil => simp [withOffsets, offs]
  | cons a t ih =>
    have e : offs (a :: t) = a.chain.length + offs t := rfl
    rw [List.cons_append, withOffsets, withOffsets, ih, e, List.cons_append, Nat.add_assoc]

theorem mem_withOffsets {n : Nat} {l : List SiteN} {y : SiteN × Nat} (h : y ∈ withOffsets n l) : y.1 ∈ l := by
  induction l generalizing n with
  | nil => cases h
  | cons a t ih =>
    simp only [withOffsets, List.mem_cons] at h
    rcases h with rfl | h
    · simp
    · exact List.mem_cons_of_mem _ (ih h)

theorem length_withOffsets (n : Nat) (l : List SiteN) : (withOffsets n l).length = l.length := by
  induction l generalizing n with
  | nil => rfl
  | cons a t ih => simp [withOffsets, ih]

theorem cutFold_deepN {input ptx : List Scaffold} {err : Int} (hd : DeepCutN input ptx err) (b1 : Build)
    (hfound : b1.found = (regOf input ptx).1) (ks : List Key) :
    ∀ (dks : List Key) (bc : Build), sharedKeys input ptx = dks ++ ks →
      CutInvN input ptx b1 (withOffsets 0 (dks.map (siteOfN ptx (regOf input ptx).1)))
        (offs (dks.map (siteOfN ptx (regOf input ptx).1))) bc →
      ∃ bc', ks.foldlM cutKey bc = .ok bc' ∧
        CutInvN input ptx b1 (withOffsets 0 ((dks ++ ks).map (siteOfN ptx (regOf input ptx).1)))
          (offs ((dks ++ ks).map (siteOfN ptx (regOf input ptx).1))) bc' := by
  induction ks with
  | nil => intro dks bc _ hinv; exact ⟨bc, rfl, by simpa using hinv⟩
  | cons k ks' ih =>
    intro dks bc hsplit hinv
    have hnd : (dks ++ k :: ks').Nodup := by rw [← hsplit]; exact (regOf_ok input ptx).multiNodup
    have hk : k ∈ sharedKeys input ptx := by rw [hsplit]; simp
    have hxs : siteOfN ptx (regOf input ptx).1 k ∈ sitesN input ptx := List.mem_map_of_mem hk
    obtain ⟨fnd, hf⟩ := siteN_facts input ptx _ hxs
    obtain ⟨_, hgetk, -, -, hek⟩ := site_casesN input ptx k hk
    have hxk : (siteOfN ptx (regOf input ptx).1 k).key = k := by rw [hek]
    have hdone : ∀ y ∈ withOffsets 0 (dks.map (siteOfN ptx (regOf input ptx).1)),
        y.1 ∈ sitesN input ptx ∧ y.1.key ≠ (siteOfN ptx (regOf input ptx).1 k).key := by
      intro y hy
      obtain ⟨k', hk', hy1⟩ := List.mem_map.1 (mem_withOffsets hy)
      have hk's : k' ∈ sharedKeys input ptx := by rw [hsplit]; simp [hk']
      obtain ⟨_, -, -, -, he'⟩ := site_casesN input ptx k' hk's
      have hkk : y.1.key = k' := by rw [← hy1, he']
      refine ⟨by rw [← hy1]; exact List.mem_map_of_mem hk's, ?_⟩
      rw [hkk, hxk]
      intro e
      subst e
      rw [List.nodup_append] at hnd
      exact hnd.2.2 _ hk' _ (by simp) rfl
    have hget : dGet? bc.found k = some fnd := by
      rw [hinv.found, hfound]
      have := hf.get
      rwa [hxk] at this
    obtain ⟨bc1, hcut, hinv1⟩ := chain_step (c := ⟨hd, hxs, hdone, hinv⟩) fnd hf
    have hnew : withOffsets 0 (dks.map (siteOfN ptx (regOf input ptx).1)) ++
          [(siteOfN ptx (regOf input ptx).1 k, offs (dks.map (siteOfN ptx (regOf input ptx).1)))] =
        withOffsets 0 ((dks ++ [k]).map (siteOfN ptx (regOf input ptx).1)) := by
      rw [List.map_append, List.map_cons, List.map_nil, withOffsets_append]
      simp
    have hoff : offs (dks.map (siteOfN ptx (regOf input ptx).1)) + (siteOfN ptx (regOf input ptx).1 k).chain.length =
        offs ((dks ++ [k]).map (siteOfN ptx (regOf input ptx).1)) := by
      simp [offs, List.sum_append]
    rw [hnew, hoff] at hinv1
    obtain ⟨bc2, hfold, hinv2⟩ := ih (dks ++ [k]) bc1 (by rw [hsplit]; simp) hinv1
    refine ⟨bc2, ?_, by simpa using hinv2⟩
    simp only [List.foldlM_cons, cutKey, hget, hcut, bind, Except.bind]
    exact hfold

theorem storeN_eq_of_pointwise (input ptx : List Scaffold) (base : Nat) (done : List (SiteN × Nat)) (l : List Res)
    (hlen : l.length = (allPieces ptx).length)
    (h : ∀ i, i < (allPieces ptx).length → l.getD i default = resDeepN input base done (pieceAt ptx i, i)) :
    l = storeDeepN input ptx base done := by
  apply List.ext_getElem?
  intro i
  unfold storeDeepN
  rw [List.getElem?_map, List.getElem?_zipIdx]
  by_cases hi : i < (allPieces ptx).length
  · have h1 := h i hi
    rw [List.getD_eq_getElem?_getD, List.getElem?_eq_getElem (by omega)] at h1
    rw [List.getElem?_eq_getElem (by omega), (pieceAt_mem ptx i hi).2]
    simp only [Option.getD_some] at h1
    simp [h1]
  · rw [List.getElem?_eq_none (by omega), List.getElem?_eq_none (by omega)]
    rfl

/-- number of cuts: one less than the number of holders, for every shared contig -/
def cutsN (input ptx : List Scaffold) : Int :=
  (offs (sitesN input ptx) : Int) - ((sitesN input ptx).length : Int)

/-- **`cut_remaining_overlaps` on a deep-cut map, any number of cuts per contig** -/
theorem cutRemaining_deepN {input ptx : List Scaffold} {err : Int} (hd : DeepCutN input ptx err) (b1 : Build)
    (hstore : b1.store = expectedStore input ptx) (hfound : b1.found = (regOf input ptx).1)
    (hmulti : b1.multi = sharedKeys input ptx) (hoid : b1.nextOid = oid0 input) :
    ∃ b3, cutRemaining b1 = .ok b3 ∧ b3.store = expectedStoreDeepN input ptx ∧ b3.multi = [] ∧
      b3.cuts = b1.cuts + cutsN input ptx ∧ b3.found = b1.found ∧ b3.namer = b1.namer ∧
      b3.extra = b1.extra ∧ b3.joinGap = b1.joinGap ∧ b3.err = b1.err := by
  have hinit : CutInvN input ptx b1 (withOffsets 0 (([] : List Key).map (siteOfN ptx (regOf input ptx).1)))
      (offs (([] : List Key).map (siteOfN ptx (regOf input ptx).1))) b1 := by
    refine ⟨by rw [hstore, expectedStore_eq_map]; simp, ?_, by simpa [offs] using hoid, by simp [offs, withOffsets],
      rfl, rfl, rfl, rfl, rfl, rfl⟩
    intro i hi
    rw [hstore, expectedStore_eq_map, List.getD_eq_getElem?_getD, List.getElem?_map, (pieceAt_mem ptx i hi).2]
    rfl
  obtain ⟨bc, hfold, hinv⟩ := cutFold_deepN hd b1 hfound (sharedKeys input ptx) [] b1 (by simp) hinit
  simp only [List.nil_append] at hinv
  refine ⟨{ bc with multi := [] }, ?_, ?_, rfl, ?_, hinv.found, hinv.namer, hinv.extra, hinv.joinGap, hinv.err⟩
  · rw [cutRemaining_eq'', hmulti, hfold]; rfl
  · exact storeN_eq_of_pointwise input ptx _ _ bc.store hinv.len hinv.store
  · show bc.cuts = _
    rw [hinv.cuts, length_withOffsets]
    unfold cutsN sitesN
    omega

end AgpTpf.C02
