/-
  W8-C02RET, part 1: the FORWARD lemmas for `assemblies_with_scaffolds_fused`.
  * the split loop and `ChrNamer.name_chromosomes` never touch `rows`;
  * the sort / statistics tail (`outsTail`) returns as soon as all strands are ±1;
  * `haps` of the split loop = the keys of the rank-1 scaffolds.
-/
import AgpTpf.Proofs.C09Split
import AgpTpf.Proofs.C09ROut
import AgpTpf.Proofs.C10USplit
import AgpTpf.Proofs.C10GroupsNumber
import AgpTpf.Proofs.C10GroupsOut
import AgpTpf.Proofs.C10MultiOut
import AgpTpf.Proofs.C11Extra
import AgpTpf.Proofs.C08Out
import AgpTpf.Proofs.C01MiddleBase
import AgpTpf.Properties.C20
namespace AgpTpf.C02R
open AgpTpf

/-- every fragment row has strand `1` or `-1` -/
def StrOK (rows : List Row) : Prop := ∀ f, Row.frag f ∈ rows → f.strand = 1 ∨ f.strand = -1

/-- position by position the same `rows` -/
def RowsAgree (fs fs0 : List Scaffold) : Prop := ∀ j, (fs.getD j default).rows = (fs0.getD j default).rows

theorem RowsAgree.refl (fs : List Scaffold) : RowsAgree fs fs := fun _ => rfl
theorem RowsAgree.trans {a b c : List Scaffold} (h1 : RowsAgree a b) (h2 : RowsAgree b c) : RowsAgree a c :=
  fun j => (h1 j).trans (h2 j)

theorem rowsAgree_foldl {α} (f : List Scaffold → α → List Scaffold) (hf : ∀ fs a, RowsAgree (f fs a) fs) :
    ∀ (l : List α) (fs : List Scaffold), RowsAgree (l.foldl f fs) fs := by
  intro l
  induction l with
  | nil => intro fs; exact RowsAgree.refl fs
  | cons a r ih => intro fs; rw [List.foldl_cons]; exact (ih (f fs a)).trans (hf fs a)

theorem rowsAgree_setName (fs : List Scaffold) (sid : Nat) (nm : Str) :
    RowsAgree (setAt fs sid { fs.getD sid default with name := nm }) fs := by
  intro j
  rw [C09.getD_setAt]
  split
  · rename_i h; rw [← h.1]
  · rfl

theorem nameGroup_rows (fs : List Scaffold) (g : GroupData) (p : Str) (n : Nat) : RowsAgree (nameGroup fs g p n) fs := by
  unfold nameGroup
  apply rowsAgree_foldl
  intro fs h
  apply rowsAgree_foldl
  intro fs q
  apply rowsAgree_foldl
  intro fs sid
  exact rowsAgree_setName fs sid _

theorem nameChromosomes_rows (p : Str) (fs : List Scaffold) (haps : List Str) (entries : List (Str × Nat))
    (fs' : List Scaffold) (h : C10.nameChromosomes p fs haps entries = .ok fs') : RowsAgree fs' fs := by
  unfold C10.nameChromosomes at h
  rw [C09.bind_eq_ok] at h
  obtain ⟨groups, _, h⟩ := h
  split at h
  · rw [C09.bind_eq_ok] at h
    obtain ⟨_, h1, _⟩ := h
    cases h1
  · rw [C09.bind_eq_ok] at h
    obtain ⟨u, _, h⟩ := h
    simp only [pure, Except.pure, Except.ok.injEq] at h
    subst h
    apply rowsAgree_foldl
    intro fs q
    exact nameGroup_rows fs q.2 p _

theorem pfx_rows (p : Str) (s : Scaffold) : (C10U.pfx p s).rows = s.rows := by
  unfold C10U.pfx; split <;> rfl

theorem splitLoop_rows (p : Str) (fs : List Scaffold) : RowsAgree (C09.splitLoop p fs).2.2.2 fs := by
  intro j
  rw [(C10U.splitLoop_spec p fs).1 j, pfx_rows]

/-! ### the tail -/

theorem strOK_getD (fs : List Scaffold) (h : ∀ s ∈ fs, StrOK s.rows) (j : Nat) : StrOK (fs.getD j default).rows := by
  rw [List.getD_eq_getElem?_getD]
  cases hj : fs[j]? with
  | none => intro f hf; simp [Option.getD] at hf; cases hf
  | some s => exact h s (List.mem_of_getElem? hj)

theorem mem_fragments_iff (s : Scaffold) (f : Fragment) : f ∈ s.fragments ↔ Row.frag f ∈ s.rows := by
  unfold Scaffold.fragments
  exact C01.mem_fragmentsOf

/-- the output assembly made from one entry of the assemblies dict -/
def outOf (fs : List Scaffold) (a : Option Str × Bool × List Nat) : OutAsm :=
  { key := a.1, curated := a.2.1, scaffolds := C20.smartSorted (a.2.2.map (fun sid => fs.getD sid default)) }

/-- **the sort / statistics tail returns** when every strand is ±1 -/
theorem outsTail_ok (input : List Scaffold) (b : Build) (asms : C09.Asms) (fs : List Scaffold)
    (hin : ∀ sc ∈ input, StrOK sc.rows) (hfs : ∀ j, StrOK (fs.getD j default).rows) :
    ∃ outs stats, C09.outsTail input b asms fs = .ok (outs, stats) := by
  unfold C09.outsTail
  have hm := C20.mapM_ok
    (fun (a : Option Str × Bool × List Nat) => (do
      let scs := a.2.2.map (fun sid => fs.getD sid default)
      let scs ← smartSort scs
      pure ({ key := a.1, curated := a.2.1, scaffolds := scs } : OutAsm) : R OutAsm))
    (outOf fs) asms (by intro a _; simp only [C20.smartSort_total]; rfl)
  rw [hm]
  simp only [C10.ok_bind]
  have hst := (C11.makeStats_ok_iff input (asms.map (outOf fs)) b.cuts).2
    ⟨fun sc hsc => C08.junctionSet_ok_of_strands sc (fun f hf => hin sc hsc f ((mem_fragments_iff sc f).1 hf)), by
      intro a ha sc hsc
      obtain ⟨a0, _, rfl⟩ := List.mem_map.1 ha
      simp only [outOf] at hsc
      have hperm : (C20.smartSorted (a0.2.2.map (fun sid => fs.getD sid default))).Perm _ := C20.stableSort_perm _ _
      have := hperm.subset hsc
      obtain ⟨sid, _, rfl⟩ := List.mem_map.1 this
      exact C08.junctionSet_ok_of_strands _ (fun f hf => hfs sid f ((mem_fragments_iff _ f).1 hf))⟩
  obtain ⟨st, hst⟩ := hst
  rw [hst]
  exact ⟨_, _, rfl⟩

/-- **everything after the split loop returns** when `name_chromosomes` does (or is skipped) and all strands are ±1 -/
theorem finish_ok (input : List Scaffold) (b : Build) (asms : C09.Asms) (entries : List (Str × Nat)) (haps : List Str)
    (fs : List Scaffold) (hin : ∀ sc ∈ input, StrOK sc.rows) (hfs : ∀ j, StrOK (fs.getD j default).rows)
    (hname : haps = [] ∨ ∃ fs', C10.nameChromosomes b.namer.autosomePrefix fs haps entries = .ok fs') :
    ∃ outs stats, C09.finishAssemblies input b (asms, entries, haps, fs) = .ok (outs, stats) := by
  rw [C10.finishAssemblies_eq_name]
  rcases hname with rfl | ⟨fs', hfs'⟩
  · simp only [List.isEmpty_nil, if_true, pure_bind]
    exact outsTail_ok input b asms fs hin hfs
  · by_cases he : haps.isEmpty = true
    · rw [if_pos he]
      simp only [pure_bind]
      exact outsTail_ok input b asms fs hin hfs
    · rw [if_neg he, hfs', C10.ok_bind]
      apply outsTail_ok input b asms fs' hin
      intro j
      rw [nameChromosomes_rows _ _ _ _ _ hfs' j]
      exact hfs j

/-! ### `haps` of the split loop -/

/-- every haplotype key seen belongs to an entry -/
theorem splitFold_haps_from (prefix_ : Str) : ∀ (l : List Nat) (acc : C09.SplitSt),
    (∀ h ∈ acc.2.2.1, ∃ e ∈ acc.2.1, e.1 = h) →
    ∀ h ∈ (l.foldl (C09.splitStep prefix_) acc).2.2.1, ∃ e ∈ (l.foldl (C09.splitStep prefix_) acc).2.1, e.1 = h := by
  intro l
  induction l with
  | nil => intro acc h; exact h
  | cons sid r ih =>
    intro acc hacc
    rw [List.foldl_cons]
    apply ih
    rcases C10.splitStep_entries prefix_ acc sid with ⟨e1, e2⟩ | ⟨h', e1, e2⟩
    · rw [e1, e2]; exact hacc
    · rw [e1, e2]
      intro h hh
      rcases (C10.mem_sAdd _ _ _).1 hh with hh | rfl
      · obtain ⟨e, he, rfl⟩ := hacc h hh
        exact ⟨e, List.mem_append_left _ he, rfl⟩
      · exact ⟨(h, sid), by simp, rfl⟩

theorem splitLoop_haps_from (prefix_ : Str) (fs : List Scaffold) :
    ∀ h ∈ (C09.splitLoop prefix_ fs).2.2.1, ∃ e ∈ (C09.splitLoop prefix_ fs).2.1, e.1 = h := by
  unfold C09.splitLoop
  exact splitFold_haps_from prefix_ _ _ (fun h hh => by cases hh)

theorem nodup_all_eq {α} (l : List α) (x : α) (hnd : l.Nodup) (hne : l ≠ []) (hall : ∀ y ∈ l, y = x) : l = [x] := by
  match l, hne with
  | [a], _ => rw [hall a (by simp)]
  | a :: c :: r, _ =>
    exfalso
    rw [List.nodup_cons] at hnd
    have h1 := hall a (by simp)
    have h2 := hall c (by simp)
    exact hnd.1 (by rw [h1, ← h2]; simp)

/-- **one haplotype key (or none)**: if every rank-1 fused scaffold has the key `h`, the split loop's `haplotypes_seen`
    is `[]` (no rank-1 scaffold) or `[h]` -/
theorem splitLoop_haps_single (prefix_ : Str) (fs : List Scaffold) (h : Str)
    (hk : ∀ s ∈ fs, s.rank = 1 → pyStrOpt (C09.routeKey s.tag s.haplotype) = h) :
    ((C09.splitLoop prefix_ fs).2.1 = [] ∧ (C09.splitLoop prefix_ fs).2.2.1 = []) ∨
    ((C09.splitLoop prefix_ fs).2.1 ≠ [] ∧ (C09.splitLoop prefix_ fs).2.2.1 = [h]) := by
  have hinv := C10.splitLoop_entries prefix_ fs
  obtain ⟨_, i2, i3⟩ := hinv
  have hfrom := splitLoop_haps_from prefix_ fs
  have hall : ∀ e ∈ (C09.splitLoop prefix_ fs).2.1, e.1 = h := by
    intro e he
    obtain ⟨hlt, hr, hk'⟩ := (C10U.mem_entries prefix_ fs e).1 he
    rw [hk', C09.asmKey_fst]
    have hm : fs.getD e.2 default ∈ fs := by
      rw [List.getD_eq_getElem?_getD, List.getElem?_eq_getElem hlt]; exact List.getElem_mem hlt
    exact hk _ hm hr
  by_cases hne : (C09.splitLoop prefix_ fs).2.1 = []
  · left
    refine ⟨hne, ?_⟩
    cases hh : (C09.splitLoop prefix_ fs).2.2.1 with
    | nil => rfl
    | cons a r =>
      obtain ⟨e, he, _⟩ := hfrom a (by rw [hh]; simp)
      rw [hne] at he; cases he
  · right
    refine ⟨hne, ?_⟩
    apply nodup_all_eq _ _ (C10.splitLoop_haps_nodup prefix_ fs)
    · intro h0; exact hne (i3 h0)
    · intro y hy
      obtain ⟨e, he, rfl⟩ := hfrom y hy
      exact hall e he

/-! ### T2 on a build -/

/-- **`assemblies_with_scaffolds_fused` returns**: one haplotype key among the rank-1 scaffolds (or no rank-1 scaffold),
    each of them with an `original_name`, and all strands ±1 -/
theorem assembliesFused_ok_single (input : List Scaffold) (b : Build) (h : Str)
    (hk : ∀ s ∈ fuseByName b, s.rank = 1 →
      pyStrOpt (C09.routeKey s.tag s.haplotype) = h ∧ truthy s.originalName = true)
    (hfs : ∀ s ∈ fuseByName b, StrOK s.rows) (hin : ∀ sc ∈ input, StrOK sc.rows) :
    ∃ outs stats, assembliesFused input b = .ok (outs, stats) := by
  rw [C09.assembliesFused_eq]
  generalize hst : C09.splitLoop b.namer.autosomePrefix (fuseByName b) = st
  obtain ⟨asms, entries, haps, fs⟩ := st
  have hrows : RowsAgree fs (fuseByName b) := by
    have := splitLoop_rows b.namer.autosomePrefix (fuseByName b)
    rw [hst] at this; exact this
  have hfs' : ∀ j, StrOK (fs.getD j default).rows := by
    intro j; rw [hrows j]; exact strOK_getD _ hfs j
  apply finish_ok input b asms entries haps fs hin hfs'
  have hsingle := splitLoop_haps_single b.namer.autosomePrefix (fuseByName b) h (fun s hs hr => (hk s hs hr).1)
  rw [hst] at hsingle
  rcases hsingle with ⟨_, e2⟩ | ⟨e1, e2⟩
  · exact Or.inl e2
  · right
    simp only at e1 e2
    subst e2
    have hall : ∀ e ∈ entries, e.1 = h ∧ truthy (fs.getD e.2 default).originalName = true := by
      intro e he
      have he' : e ∈ (C09.splitLoop b.namer.autosomePrefix (fuseByName b)).2.1 := by rw [hst]; exact he
      obtain ⟨hlt, hr, hk'⟩ := (C10U.mem_entries _ _ e).1 he'
      have hm : (fuseByName b).getD e.2 default ∈ fuseByName b := by
        rw [List.getD_eq_getElem?_getD, List.getElem?_eq_getElem hlt]; exact List.getElem_mem hlt
      obtain ⟨k1, k2⟩ := hk _ hm hr
      refine ⟨by rw [hk', C09.asmKey_fst]; exact k1, ?_⟩
      have hg := (C10U.splitLoop_spec b.namer.autosomePrefix (fuseByName b)).1 e.2
      rw [hst] at hg
      simp only at hg
      rw [hg, (C10U.pfx_fields _ _).2.2.2.1]
      exact k2
    exact ⟨_, C10.nameChromosomes_single _ fs h entries e1 (fun e he => (hall e he).1) (fun e he => (hall e he).2)⟩

end AgpTpf.C02R
