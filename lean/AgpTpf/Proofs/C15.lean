/- C15 — the inductive invariant of the atomic cache protocol -/
import AgpTpf.Model.Cache
namespace AgpTpf.C15
open AgpTpf.Cache

/-- (F) a cache file that is present is complete, not from the future, and either renders the current FASTA
    content or is not newer than the FASTA file. -/
def fileInv (content fm clock : Nat) (f : Option FileV) : Prop :=
  ∀ v, f = some v → v.written = v.total ∧ (v.src = content ∨ v.mtime ≤ fm) ∧ v.mtime ≤ clock

/-- the file is absent or renders the current content -/
def cur (content : Nat) (f : Option FileV) : Prop := ∀ v, f = some v → v.src = content

/-- (P) what each program counter knows, relative to the current FASTA (which cannot change while the process is
    inside `auto_load`). -/
def procInv (content fm clock : Nat) (fai agp : Option FileV) : PC → Prop
  | .start => True
  | .statted m => m = fm
  | .faiOk m => m = fm ∧ cur content fai
  | .bothOk => cur content fai ∧ cur content agp
  | .loadedFai snap => snap.written = snap.total ∧ snap.src = content ∧ cur content agp
  | .index0 => True
  | .readFasta c => c = content
  | .writingFai c _ t => c = content ∧ t ≤ clock
  | .faiClosed c t => c = content ∧ t ≤ clock
  | .faiDone c => c = content
  | .writingAgp c _ t => c = content ∧ t ≤ clock
  | .agpClosed c t => c = content ∧ t ≤ clock
  | .done r c => goodResult (.done r c) = true
  | .crashed => True

structure Inv (s : State) : Prop where
  atomic : s.atomic = true
  mclock : s.fastaMtime ≤ s.clock
  fai : fileInv s.fastaContent s.fastaMtime s.clock s.fai
  agp : fileInv s.fastaContent s.fastaMtime s.clock s.agp
  procs : ∀ pc ∈ s.procs, procInv s.fastaContent s.fastaMtime s.clock s.fai s.agp pc

theorem inv_init (ft at_ : Nat) : Inv (init true ft at_) := by
  refine ⟨rfl, by simp [init], ?_, ?_, ?_⟩ <;> simp [init, fileInv]

/-- a process that is idle has an invariant that mentions no mutable part of the state -/
theorem procInv_idle {c fm clk fai agp pc} (c' fm' clk' : Nat) (fai' agp' : Option FileV)
    (hi : pc.idle = true) (h : procInv c fm clk fai agp pc) : procInv c' fm' clk' fai' agp' pc := by
  cases pc <;> simp_all [PC.idle, procInv]

theorem procInv_tick {c fm clk fai agp pc} (h : procInv c fm clk fai agp pc) :
    procInv c fm (clk + 1) fai agp pc := by
  cases pc <;> simp_all [procInv] <;> omega

theorem procInv_delFai {c fm clk fai agp pc} (h : procInv c fm clk fai agp pc) :
    procInv c fm clk none agp pc := by
  cases pc <;> simp_all [procInv, cur]

theorem procInv_delAgp {c fm clk fai agp pc} (h : procInv c fm clk fai agp pc) :
    procInv c fm clk fai none pc := by
  cases pc <;> simp_all [procInv, cur]

theorem procInv_setFai {c fm clk fai agp pc} (v : FileV) (hv : v.src = c) (h : procInv c fm clk fai agp pc) :
    procInv c fm clk (some v) agp pc := by
  cases pc <;> simp_all [procInv, cur]

theorem procInv_setAgp {c fm clk fai agp pc} (v : FileV) (hv : v.src = c) (h : procInv c fm clk fai agp pc) :
    procInv c fm clk fai (some v) pc := by
  cases pc <;> simp_all [procInv, cur]

theorem newer_cur {c fm clk f} (h : fileInv c fm clk f) (hn : newer f fm = true) : cur c f := by
  intro v hv
  subst hv
  have := h v rfl
  simp [newer] at hn
  omega

/-- what one file operation of a process must establish -/
def StepOK (s : State) (r : State × PC) : Prop :=
  r.1.atomic = true ∧ r.1.fastaMtime = s.fastaMtime ∧ r.1.fastaContent = s.fastaContent ∧
  r.1.clock = s.clock ∧ r.1.procs = s.procs ∧
  fileInv s.fastaContent s.fastaMtime s.clock r.1.fai ∧
  fileInv s.fastaContent s.fastaMtime s.clock r.1.agp ∧
  procInv s.fastaContent s.fastaMtime s.clock r.1.fai r.1.agp r.2 ∧
  (∀ q, procInv s.fastaContent s.fastaMtime s.clock s.fai s.agp q →
        procInv s.fastaContent s.fastaMtime s.clock r.1.fai r.1.agp q)

theorem stepOK_same {s : State} (hI : Inv s) (pc' : PC)
    (h : procInv s.fastaContent s.fastaMtime s.clock s.fai s.agp pc') : StepOK s (s, pc') :=
  ⟨hI.atomic, rfl, rfl, rfl, rfl, hI.fai, hI.agp, h, fun _ h => h⟩

/-- one file operation of a process whose invariant holds keeps everything -/
theorem step_inv (s : State) (hI : Inv s) (pc : PC)
    (hp : procInv s.fastaContent s.fastaMtime s.clock s.fai s.agp pc) :
    StepOK s (stepProc s pc) := by
  have hat := hI.atomic
  have hfai := hI.fai
  have hagp := hI.agp
  cases pc with
  | start => exact stepOK_same hI _ rfl
  | statted m =>
    simp only [procInv] at hp; subst hp
    simp only [stepProc]
    apply stepOK_same hI
    split
    · next hn => exact ⟨rfl, newer_cur hfai hn⟩
    · trivial
  | faiOk m =>
    obtain ⟨rfl, hc⟩ := hp
    simp only [stepProc]
    apply stepOK_same hI
    split
    · next hn => exact ⟨hc, newer_cur hagp hn⟩
    · trivial
  | bothOk =>
    obtain ⟨hc1, hc2⟩ := hp
    simp only [stepProc]
    cases hf : s.fai with
    | none => exact stepOK_same hI _ (by simp [procInv, goodResult])
    | some v =>
      have h1 := hfai v hf
      have h2 := hc1 v hf
      exact stepOK_same hI _ ⟨h1.1, h2, hc2⟩
  | loadedFai snap =>
    obtain ⟨hs1, hs2, hc2⟩ := hp
    simp only [stepProc]
    cases ha : s.agp with
    | none => exact stepOK_same hI _ (by simp [procInv, goodResult])
    | some v =>
      have h1 := hagp v ha
      have h2 := hc2 v ha
      exact stepOK_same hI _ (by simp [procInv, goodResult, FileV.complete, h1.1, h2, hs1, hs2])
  | index0 => exact stepOK_same hI _ rfl
  | readFasta c =>
    simp only [procInv] at hp; subst hp
    simp only [stepProc, hat, if_true]
    exact stepOK_same hI _ ⟨rfl, Nat.le_refl _⟩
  | writingFai c k t =>
    obtain ⟨rfl, ht⟩ := hp
    simp only [stepProc, hat, if_true]
    split <;> exact stepOK_same hI _ ⟨rfl, Nat.le_refl _⟩
  | faiClosed c t =>
    obtain ⟨rfl, ht⟩ := hp
    simp only [stepProc]
    refine ⟨hat, rfl, rfl, rfl, rfl, ?_, hagp, rfl, fun q h => procInv_setFai _ rfl h⟩
    intro v hv
    simp only [Option.some.injEq] at hv; subst hv
    simp [ht]
  | faiDone c =>
    simp only [procInv] at hp; subst hp
    simp only [stepProc, hat, if_true]
    exact stepOK_same hI _ ⟨rfl, Nat.le_refl _⟩
  | writingAgp c k t =>
    obtain ⟨rfl, ht⟩ := hp
    simp only [stepProc, hat, if_true]
    split <;> exact stepOK_same hI _ ⟨rfl, Nat.le_refl _⟩
  | agpClosed c t =>
    obtain ⟨rfl, ht⟩ := hp
    simp only [stepProc]
    refine ⟨hat, rfl, rfl, rfl, rfl, hfai, ?_, by simp [procInv, goodResult],
      fun q h => procInv_setAgp _ rfl h⟩
    intro v hv
    simp only [Option.some.injEq] at hv; subst hv
    simp [ht]
  | done r c => exact stepOK_same hI _ hp
  | crashed => exact stepOK_same hI _ trivial

theorem fileInv_tick {c fm clk f} (h : fileInv c fm clk f) : fileInv c fm (clk + 1) f := by
  intro v hv; have := h v hv; omega

/-- the FASTA is rewritten now: every cache file becomes "not newer" -/
theorem fileInv_rewrite {c fm clk f} (h : fileInv c fm clk f) : fileInv (c + 1) clk clk f := by
  intro v hv; have := h v hv; omega

theorem inv_applyOp (s : State) (hI : Inv s) (op : Op) : Inv (applyOp s op) := by
  cases op with
  | tick =>
    obtain ⟨hat, hmc, hfai, hagp, hpr⟩ := hI
    exact ⟨hat, Nat.le_succ_of_le hmc, fileInv_tick hfai, fileInv_tick hagp, fun pc h => procInv_tick (hpr pc h)⟩
  | rewriteFasta =>
    simp only [applyOp]
    split
    · next hall =>
      obtain ⟨hat, hmc, hfai, hagp, hpr⟩ := hI
      refine ⟨hat, Nat.le_refl _, fileInv_rewrite hfai, fileInv_rewrite hagp, ?_⟩
      intro pc h
      exact procInv_idle _ _ _ _ _ (List.all_eq_true.1 hall pc h) (hpr pc h)
    · exact hI
  | deleteFai =>
    obtain ⟨hat, hmc, hfai, hagp, hpr⟩ := hI
    exact ⟨hat, hmc, by simp [applyOp, fileInv], hagp, fun pc h => procInv_delFai (hpr pc h)⟩
  | deleteAgp =>
    obtain ⟨hat, hmc, hfai, hagp, hpr⟩ := hI
    exact ⟨hat, hmc, hfai, by simp [applyOp, fileInv], fun pc h => procInv_delAgp (hpr pc h)⟩
  | spawn =>
    obtain ⟨hat, hmc, hfai, hagp, hpr⟩ := hI
    refine ⟨hat, hmc, hfai, hagp, ?_⟩
    intro pc h
    simp only [applyOp, List.mem_append, List.mem_singleton] at h
    rcases h with h | rfl
    · exact hpr pc h
    · trivial
  | crash p =>
    simp only [applyOp]
    split
    · next pc hpc =>
      split
      · exact hI
      · obtain ⟨hat, hmc, hfai, hagp, hpr⟩ := hI
        refine ⟨hat, hmc, hfai, hagp, ?_⟩
        intro q hq
        rcases List.mem_or_eq_of_mem_set hq with hq | rfl
        · exact hpr q hq
        · trivial
    · exact hI
  | step p =>
    simp only [applyOp]
    split
    · next pc hpc =>
      have hmem : pc ∈ s.procs := List.mem_of_getElem? hpc
      have hst := step_inv s hI pc (hI.procs pc hmem)
      obtain ⟨h1, h2, h3, h4, h5, h6, h7, h8, h9⟩ := hst
      generalize stepProc s pc = r at *
      obtain ⟨s', pc'⟩ := r
      simp only at h1 h2 h3 h4 h5 h6 h7 h8 h9 ⊢
      refine ⟨h1, ?_, ?_, ?_, ?_⟩
      · simp only [h2, h4]; exact hI.mclock
      · simp only [h2, h3, h4]; exact h6
      · simp only [h2, h3, h4]; exact h7
      · intro q hq
        simp only [h2, h3, h4]
        simp only [h5] at hq
        rcases List.mem_or_eq_of_mem_set hq with hq | rfl
        · exact h9 q (hI.procs q hq)
        · exact h8
    · exact hI

theorem inv_run (s : State) (hI : Inv s) (ops : List Op) : Inv (run s ops) := by
  induction ops generalizing s with
  | nil => exact hI
  | cons op rest ih => exact ih _ (inv_applyOp s hI op)

theorem inv_safe (s : State) (hI : Inv s) : safe s = true := by
  unfold safe
  apply List.all_eq_true.2
  intro pc hpc
  have := hI.procs pc hpc
  cases pc <;> first | rfl | exact this

end AgpTpf.C15
