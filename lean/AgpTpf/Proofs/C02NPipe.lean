/-
  C02 "remapping never fails" (task W7-C02NOERR), helper part 6: the build reached by `find_assembly_overlaps` followed
  by `discard_overhanging_fragments` satisfies `HoldCtx` — so every contig still in `multi` has consecutive holders
  (`VisitOK`) and `cut_fragments` succeeds on it.
-/
import AgpTpf.Proofs.C02NHold
namespace AgpTpf.C02
open AgpTpf OverlapResult
open AgpTpf.C01 (WFInput Mid inputFrags FragDisjoint)

/-- the baits of the pieces that have a lookup result = the Pretext fragments that hit, in map order -/
theorem pieces_baits (input : List Scaffold) : ∀ (seen : Bool) (ptx : List Scaffold),
    (C09.pieces input seen ptx).map (·.2.2) = ptx.flatMap (fun S => S.fragments.filter (C09.hits input))
  | _, [] => by simp [C09.pieces]
  | seen, S :: rest => by
    simp only [C09.pieces, List.map_append, List.map_map, List.flatMap_cons]
    rw [pieces_baits input _ rest]
    congr 1
    rw [show ((fun x : Bool × Scaffold × Fragment => x.2.2) ∘ fun p => (seen, S, p)) = id from rfl, List.map_id]

theorem mem_pieces_baits {input ptx : List Scaffold} {seen : Bool} {p : Fragment} :
    p ∈ (C09.pieces input seen ptx).map (·.2.2) ↔ p ∈ ptxFrags ptx ∧ C09.hits input p = true := by
  rw [pieces_baits]
  unfold ptxFrags
  simp only [List.mem_flatMap, List.mem_filter]
  constructor
  · rintro ⟨S, hS, hp, hh⟩; exact ⟨⟨S, hS, hp⟩, hh⟩
  · rintro ⟨⟨S, hS, hp⟩, hh⟩; exact ⟨S, hS, hp, hh⟩

/-- **the context holds after the lookup stage and any number of resolver rounds** -/
theorem holdCtx_after_resolver (input ptx : List Scaffold) (prefix_ : Str) (joinGap : Option Gap) (err : Int)
    (hwf : WFInput input) (hnn : InputNonNeg input) (hstr : ∀ f ∈ inputFrags input, f.strand = 1 ∨ f.strand = -1)
    (herr : 0 ≤ err) (hT : Tiling err ptx) (b1 b2 : Build) (fuel : Nat)
    (h1 : findAssemblyOverlaps input ptx (C09.startBuild input prefix_ joinGap err) = .ok b1)
    (h2 : discardOverhanging fuel b1 = .ok b2) : HoldCtx input ptx err b2 := by
  -- stage 1
  obtain ⟨hm1, _, _, he1, _⟩ := C01.reg_after_find_aux input ptx _ b1 ⟨rfl, rfl, rfl⟩ h1
  have he1' : b1.err = err := he1
  have hS1 := (findAssemblyOverlaps_storeR hwf hnn ptx err herr _ b1 rfl (fun r hr => by cases hr) h1).1
  have hQ1 := (findAssemblyOverlaps_solo hwf ptx err _ b1 rfl (fun r hr => by cases hr) h1).1
  have hA1 := findAssemblyOverlaps_addedOK input ptx _ b1 (fun r hr => by cases hr) h1
  obtain ⟨hview, _, _⟩ := C09.findAssemblyOverlaps_label input ptx _ b1 h1
  have hbaits : ∀ s : List Res, s.map (·.o.bait) = (s.map C09.labelView).map (·.2.2.2) := by
    intro s; rw [List.map_map]; rfl
  have hb1 : b1.store.map (·.o.bait) = (C09.pieces input false ptx).map (·.2.2) := by
    rw [hbaits, hview]
    simp only [C09.startBuild, List.map_nil, List.nil_append, List.map_map]
    rfl
  have hD1 : BaitsDisj b1.store := by
    unfold BaitsDisj
    rw [hb1]
    exact List.Pairwise.sublist (pieces_baits_sublist input false ptx) hT.disjoint
  -- stage 2
  obtain ⟨hm2, _⟩ := C01.discardOverhanging_mid input hwf fuel b1 b2 hm1 h2
  obtain ⟨hS2, hb21⟩ := storeR_discardOverhanging hwf hnn herr fuel b1 b2 hm1 he1' hS1 hD1 h2
  have hQ2 := solo_discardOverhanging hwf hnn herr fuel b1 b2 hm1 he1' hS1 hD1 hQ1 h2
  have hA2 := discardOverhanging_addedOK fuel b1 b2 hA1 h2
  have hb2 : b2.store.map (·.o.bait) = (C09.pieces input false ptx).map (·.2.2) := hb21.trans hb1
  have hD2 : BaitsDisj b2.store := by unfold BaitsDisj; rw [hb21]; exact hD1
  refine ⟨hwf, hnn, hstr, hT, hm2, hS2, hD2, hQ2, hA2, ?_, ?_⟩
  · intro r hr
    have : r.o.bait ∈ b2.store.map (·.o.bait) := List.mem_map_of_mem hr
    rw [hb2] at this
    exact (mem_pieces_baits.mp this).1
  · intro p hp hh
    have : p ∈ b2.store.map (·.o.bait) := by rw [hb2]; exact mem_pieces_baits.mpr ⟨hp, hh⟩
    obtain ⟨r, hr, e⟩ := List.mem_map.mp this
    exact ⟨r, hr, e⟩

end AgpTpf.C02
