/-
  C02 (script model), part 15: Bool checker for `DeepScript`.
-/
import AgpTpf.Proofs.C02SDeepD
import AgpTpf.Proofs.C02SCheck
namespace AgpTpf.C02
open AgpTpf AgpTpf.Pretext
open AgpTpf.C12 (rowSpan meets)

def cutOkB (M a b c : Int) : Bool := decide (b ≤ c ∨ c < a ∨ (M < c - a + 1 ∧ M < b - c))

def scafDeepB (p q : Nat) (sc : Scaffold) (c : ScafScript) : Bool :=
  c.cuts.all (fun t => fragRowsAll sc.rows (fun k _ =>
    cutOkB (3 * (errLen p q : Int)) (rowSpan sc.rows k).1 (rowSpan sc.rows k).2 (coord p q t : Int))) &&
  fragRowsAll sc.rows (fun k _ => decide ((rowSpan sc.rows k).1 ≤ (coord p q c.T : Int) →
    (rowSpan sc.rows k).2 - (coord p q c.T : Int) ≤ (errLen p q : Int))) &&
  (c.spans p q).all (fun ab => (List.range sc.rows.length).any (fun k => meets sc.rows ab.1 ab.2 k))

theorem scafDeep_of_check {p q : Nat} {sc : Scaffold} {c : ScafScript} (h : scafDeepB p q sc c = true) :
    ScafDeep p q sc c := by
  unfold scafDeepB at h
  simp only [Bool.and_eq_true, List.all_eq_true] at h
  obtain ⟨⟨h1, h2⟩, h3⟩ := h
  refine ⟨?_, ?_, ?_⟩
  · intro t ht k f hk
    have := fragRowsAll_spec (h1 t ht) k f hk
    unfold cutOkB at this
    unfold CutOk
    exact of_decide_eq_true this
  · intro k f hk
    exact of_decide_eq_true (fragRowsAll_spec h2 k f hk)
  · intro ab hab
    have := h3 ab hab
    rw [List.any_eq_true] at this
    obtain ⟨k, -, hk⟩ := this
    exact ⟨k, hk⟩

def deepScriptB (input : List Scaffold) (s : Script) : Bool :=
  pairsAll input s.scafs (fun sc c => !c.present || scafDeepB s.p s.q sc c)

theorem deepScript_of_check {input : List Scaffold} {s : Script} (h : deepScriptB input s = true) :
    DeepScript input s := by
  intro i sc c hi hc hp
  have := pairsAll_spec h i sc c hi hc
  rw [hp] at this
  exact scafDeep_of_check (by simpa using this)

end AgpTpf.C02
