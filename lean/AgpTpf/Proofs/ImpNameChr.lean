/-
  T1c phase 2 / C10 — helper lemmas for the tie between the translated `ChrNamer.__init__`, `ChrNamer.add_scaffold`,
  `ChrNamer.add_chr_prefix`, `ChrNamer.name_chromosomes` (`Gen/Imp2.lean`) and the naming block of the model's `assembliesFused`
  (`Model/Remap.lean`).  Built ON the finished groups W11-A (`Proofs/ImpChrGroup.lean`) and W11-B (`Proofs/ImpBuildGroups.lean`).

  Layout
  0. the model side: `nameChromosomes` (the naming block, verbatim), `fusedStep` / `fusedSplit` / `fusedRest` (the fold before it and the
     code after it) and `assembliesFused_eq` (the model function IS their composition, by `rfl`).
  1. the two copies of the abstraction (`ImpChrGroup.absG` / `ImpBuildGroups.absG` …) are the same functions.
  2. `haplotypes_seen` as a dictionary vs the model's ordered set; the invariant `NamerWf` that `add_scaffold` keeps.
  3. `add_chr_prefix`.
  4. what `buildGroups` guarantees of every group it returns (non-empty original names; at most one new name per entry).
  5. the descending stable sort on both sides; `enumerate` vs `List.range … |>.zip`.
  6. the kernel `name_chromosomes`.
-/
import AgpTpf.Proofs.ImpChrGroup
import AgpTpf.Proofs.ImpBuildGroups
set_option linter.unusedSimpArgs false
set_option linter.unusedVariables false
namespace AgpTpf.ImpNameChr
open AgpTpf

/-! ### 0. the model side -/

/-- the naming block of `assembliesFused` (`Model/Remap.lean`), verbatim: `ChrNamer.name_chromosomes` on the arena `fs`, with
    `haps` = the keys of `haplotypes_seen` and `entries` = `self.scaffolds` -/
def nameChromosomes (fs : List Scaffold) (haps : List Str) (entries : List (Str × Nat)) (prefix_ : Str) : R (List Scaffold) :=
  if haps.isEmpty then pure fs
  else do
    let groups ← buildGroups fs haps entries
    if groupsHaveErrors groups then throw .chrNamer
    let keyed ← groups.mapM (fun g => do let l ← groupFirstLength fs g; pure (l, g))
    let sorted := (stableSort (fun (a c : Int × GroupData) => a.1 ≥ c.1) keyed).map (·.2)
    pure (((List.range sorted.length).zip sorted).foldl (fun fs (p : Nat × GroupData) => nameGroup fs p.2 prefix_ (p.1 + 1)) fs)

/-- the state of the fold of `assembliesFused` that comes before the naming block:
    (assemblies, `chr_namer.scaffolds`, keys of `chr_namer.haplotypes_seen`, the arena of fused scaffolds) -/
abbrev FusedAcc := List (Option Str × Bool × List Nat) × List (Str × Nat) × List Str × List Scaffold

/-- one pass of that fold, verbatim -/
def fusedStep (prefix_ : Str) (acc : FusedAcc) (sid : Nat) : FusedAcc :=
  let (asms, entries, haps, fs) := acc
  let s := fs.getD sid default
  let (key, curated) :=
    if truthy s.tag then (s.tag, false)
    else if truthy s.haplotype then (s.haplotype, true)
    else (none, true)
  let asms := match dGet? asms key with
    | some (c, ids) => dSet asms key (c, ids ++ [sid])
    | none => asms ++ [(key, (curated, [sid]))]
  if s.rank = 1 then
    let h := pyStrOpt key
    (asms, entries ++ [(h, sid)], sAdd haps h, fs)
  else if s.rank = 2 then
    let fs := if prefix_.isPrefixOf s.name then fs else setAt fs sid { s with name := prefix_ ++ s.name }
    (asms, entries, haps, fs)
  else (asms, entries, haps, fs)

/-- the fold of `assembliesFused` over the fused scaffolds -/
def fusedSplit (b : Build) : FusedAcc :=
  (List.range (fuseByName b).length).foldl (fusedStep b.namer.autosomePrefix) ([], [], [], fuseByName b)

/-- what `assembliesFused` does after the naming block: smart sort of every assembly, statistics -/
def fusedRest (input : List Scaffold) (b : Build) (asms : List (Option Str × Bool × List Nat)) (fs : List Scaffold) :
    R (List OutAsm × Stats) := do
  let outs ← asms.mapM (fun (a : Option Str × Bool × List Nat) => do
    let scs := a.2.2.map (fun sid => fs.getD sid default)
    let scs ← smartSort scs
    pure ({ key := a.1, curated := a.2.1, scaffolds := scs } : OutAsm))
  let stats ← makeStats input outs b.cuts
  pure (outs, stats)

/-- `assembliesFused` = the fold, then `nameChromosomes` on what the fold collected, then the rest.
    (Not by `rfl`: the `do` block of the model pushes the continuation into the two branches of `if haps.isEmpty`.) -/
theorem assembliesFused_eq (input : List Scaffold) (b : Build) :
    assembliesFused input b =
      (nameChromosomes (fusedSplit b).2.2.2 (fusedSplit b).2.2.1 (fusedSplit b).2.1 b.namer.autosomePrefix >>= fun fs =>
        fusedRest input b (fusedSplit b).1 fs) := by
  unfold assembliesFused
  simp only []
  generalize hp : List.foldl _ _ _ = p
  have hfs : fusedSplit b = p := by rw [← hp]; rfl
  rw [hfs]
  clear hp hfs
  obtain ⟨asms, entries, haps, fs⟩ := p
  unfold nameChromosomes fusedRest
  simp only []
  cases haps.isEmpty
  · simp only [Bool.false_eq_true, if_false]
    cases buildGroups fs haps entries with
    | error e => rfl
    | ok gs =>
      simp only [ImpBuildGroups.ok_bind]
      cases groupsHaveErrors gs
      · simp only [Bool.false_eq_true, if_false]
        cases List.mapM (m := R) _ gs <;> rfl
      · rfl
  · rfl

/-! ### 1. the two copies of the abstraction are the same functions -/

theorem absHapSet_eq : ImpBuildGroups.absHapSet = ImpChrGroup.absHapSet := rfl
theorem absG_eq : ImpBuildGroups.absG = ImpChrGroup.absG := rfl
theorem keysSome_iff (d : PyRt.GData) : ImpBuildGroups.KeysSome d ↔ ImpChrGroup.KeysSome d := Iff.rfl
theorem keysNonEmpty_iff (d : PyRt.GData) : ImpBuildGroups.KeysNonEmpty d ↔ ImpChrGroup.KeysNonEmpty d := Iff.rfl

/-! ### 2. `__init__`, `add_scaffold`; `haplotypes_seen` as a dictionary vs the model's ordered set -/

theorem init_eq (p : Str) : Gen.Imp.ChrNamer___init__ p = .ok (p, [], [], none) := rfl

theorem add_scaffold_eq (scs : List (Str × Nat)) (hs : List (Str × Bool)) (hap : Option Str) (sid : Nat) :
    Gen.Imp.ChrNamer_add_scaffold scs hs hap sid = .ok (scs ++ [(PyRt.optStrText hap, sid)], dSet hs (PyRt.optStrText hap) true) := rfl

/-- `str(hap)` of the run-time support is the model's `pyStrOpt` -/
theorem optStrText_eq (k : Option Str) : PyRt.optStrText k = pyStrOpt k := by
  cases k <;> first | rfl | decide

/-- the keys of `d[k] = v` are the model's `sAdd` of the keys — for EVERY association list (repeated keys, any values) -/
theorem dSet_keys_sAdd {κ ν : Type} [DecidableEq κ] (d : List (κ × ν)) (k : κ) (v : ν) :
    (dSet d k v).map (·.1) = sAdd (d.map (·.1)) k := by
  induction d with
  | nil => simp [dSet, sAdd]
  | cons p d ih =>
    obtain ⟨k', v'⟩ := p
    simp only [dSet]
    by_cases h : k' = k
    · subst h; simp [sAdd]
    · have h' : ¬ k = k' := fun e => h e.symm
      rw [if_neg h]
      simp only [List.map_cons, ih, sAdd, List.mem_cons, h', false_or]
      split <;> simp

/-- a dictionary all of whose values are `True`, keys in insertion order: after `d[h] = True` it is the same thing over `sAdd keys h` -/
theorem dSet_true (keys : List Str) (h : Str) :
    dSet (keys.map (fun k => (k, true))) h true = (sAdd keys h).map (fun k => (k, true)) := by
  unfold sAdd
  induction keys with
  | nil => rfl
  | cons k keys ih =>
    simp only [List.map_cons, dSet]
    by_cases hk : k = h
    · subst hk; simp
    · have hk' : ¬ h = k := fun e => hk e.symm
      simp only [hk, if_false, List.mem_cons, hk', false_or]
      rw [ih]
      split <;> simp

theorem mem_sAdd {α : Type} [DecidableEq α] (s : List α) (x y : α) : y ∈ sAdd s x ↔ y ∈ s ∨ y = x := by
  unfold sAdd
  split
  · next h => constructor
              · exact .inl
              · rintro (h' | rfl)
                · exact h'
                · exact h
  · simp

theorem nodup_sAdd {α : Type} [DecidableEq α] (s : List α) (x : α) (h : s.Nodup) : (sAdd s x).Nodup := by
  unfold sAdd
  split
  · exact h
  · next hx =>
    refine List.nodup_append.mpr ⟨h, by simp, ?_⟩
    intro a ha b hb
    simp only [List.mem_singleton] at hb
    subst hb
    exact fun e => hx (e ▸ ha)

theorem mem_foldl_sAdd {α : Type} [DecidableEq α] (l s : List α) (x : α) : x ∈ l.foldl sAdd s ↔ x ∈ s ∨ x ∈ l := by
  induction l generalizing s with
  | nil => simp
  | cons y l ih =>
    rw [List.foldl_cons, ih, mem_sAdd]
    simp only [List.mem_cons]
    constructor
    · rintro ((h | h) | h)
      · exact .inl h
      · exact .inr (.inl h)
      · exact .inr (.inr h)
    · rintro (h | h | h)
      · exact .inl (.inl h)
      · exact .inl (.inr h)
      · exact .inr h

theorem nodup_foldl_sAdd {α : Type} [DecidableEq α] (l s : List α) (h : s.Nodup) : (l.foldl sAdd s).Nodup := by
  induction l generalizing s with
  | nil => exact h
  | cons y l ih => exact ih _ (nodup_sAdd s y h)

/-- what `__init__` establishes and `add_scaffold` keeps: the keys of `haplotypes_seen` are the haplotype texts of `self.scaffolds` in
    first-occurrence order, every value is `True` -/
structure NamerWf (hs : List (Str × Bool)) (entries : List (Str × Nat)) : Prop where
  keys : hs.map (·.1) = (entries.map (·.1)).foldl sAdd []
  vals : ∀ kv ∈ hs, kv.2 = true

theorem namerWf_init : NamerWf [] [] := ⟨rfl, by intro kv h; cases h⟩

theorem namerWf_add (hs : List (Str × Bool)) (entries : List (Str × Nat)) (h : Str) (sid : Nat) (hw : NamerWf hs entries) :
    NamerWf (dSet hs h true) (entries ++ [(h, sid)]) := by
  refine ⟨?_, ?_⟩
  · rw [dSet_keys_sAdd, hw.keys, List.map_append, List.foldl_append]; rfl
  · exact ImpChrGroup.forall_vals_dSet (fun v => v = true) hs hw.vals h true rfl

theorem NamerWf.nodup {hs : List (Str × Bool)} {entries : List (Str × Nat)} (hw : NamerWf hs entries) : (hs.map (·.1)).Nodup := by
  rw [hw.keys]; exact nodup_foldl_sAdd _ _ List.nodup_nil

theorem NamerWf.known {hs : List (Str × Bool)} {entries : List (Str × Nat)} (hw : NamerWf hs entries) :
    ∀ e ∈ entries, e.1 ∈ hs.map (·.1) := by
  intro e he
  rw [hw.keys, mem_foldl_sAdd]
  exact .inr (List.mem_map_of_mem he)

theorem NamerWf.entries_ne {hs : List (Str × Bool)} {entries : List (Str × Nat)} (hw : NamerWf hs entries) (hne : hs ≠ []) :
    entries ≠ [] := by
  intro he
  subst he
  have := hw.keys
  simp only [List.map_nil, List.foldl_nil, List.map_eq_nil_iff] at this
  exact hne this

/-- the whole dictionary, not only its keys -/
theorem NamerWf.eq {hs : List (Str × Bool)} {entries : List (Str × Nat)} (hw : NamerWf hs entries) :
    hs = ((entries.map (·.1)).foldl sAdd []).map (fun k => (k, true)) := by
  rw [← hw.keys, List.map_map]
  have : ∀ (l : List (Str × Bool)), (∀ kv ∈ l, kv.2 = true) → l = l.map ((fun k => (k, true)) ∘ (·.1)) := by
    intro l hl
    induction l with
    | nil => rfl
    | cons kv l ih =>
      obtain ⟨k, v⟩ := kv
      have hv : v = true := hl (k, v) (by simp)
      subst hv
      rw [List.map_cons, ← ih (fun kv h => hl kv (by simp [h]))]
      rfl
  exact this hs hw.vals

/-! ### 3. `add_chr_prefix` -/

/-- the rank-2 branch of `fusedStep`, verbatim -/
def addPrefix (p : Str) (fs : List Scaffold) (sid : Nat) : List Scaffold :=
  let s := fs.getD sid default
  if p.isPrefixOf s.name then fs else setAt fs sid { s with name := p ++ s.name }

/-- for EVERY reference: in range both sides rename unless the prefix is there already; out of range both leave the arena alone (the
    source reads the arena's default object, whose name is "", and `bsSet` ignores the write; the model's `setAt` = `List.set` too) -/
theorem add_chr_prefix_eq (heap_b : List Scaffold) (sid : Nat) (p : Str) :
    Gen.Imp.ChrNamer_add_chr_prefix heap_b sid p = .ok (addPrefix p heap_b sid) := by
  unfold Gen.Imp.ChrNamer_add_chr_prefix addPrefix
  simp only [ImpChrGroup.bsGet_eq_getD, startsWith]
  by_cases hp : p.isPrefixOf (heap_b.getD sid default).name = true
  · simp only [hp, Bool.not_true, Bool.false_eq_true, if_false, ImpBuildGroups.ok_bind, if_true]
  · have hp' : p.isPrefixOf (heap_b.getD sid default).name = false := Bool.eq_false_iff.mpr hp
    simp only [hp', Bool.not_false, if_true, ImpBuildGroups.ok_bind, Bool.false_eq_true, if_false]
    congr 1
    unfold PyRt.bsSet AgpTpf.setAt
    cases hx : heap_b[sid]? with
    | none =>
      have : heap_b.length ≤ sid := by simpa using hx
      simp [List.set_eq_of_length_le this]
    | some x => simp [List.getD, hx]

theorem addPrefix_out_of_range (p : Str) (fs : List Scaffold) (sid : Nat) (h : fs.length ≤ sid) : addPrefix p fs sid = fs := by
  unfold addPrefix AgpTpf.setAt
  simp only []
  split
  · rfl
  · exact List.set_eq_of_length_le h

/-! ### 3b. the fold of `assembliesFused` before the naming block, branch by branch -/

/-- the key of the output assembly a fused scaffold goes to: its tag, else its haplotype, else None -/
def asmKey (s : Scaffold) : Option Str :=
  if truthy s.tag then s.tag else if truthy s.haplotype then s.haplotype else none

/-- a rank-1 scaffold: the model's `entries ++ [(h, sid)]`, `sAdd haps h` are `add_scaffold`'s two updates; the arena is untouched -/
theorem fusedStep_rank1 (prefix_ : Str) (asms : List (Option Str × Bool × List Nat)) (entries : List (Str × Nat)) (haps : List Str)
    (fs : List Scaffold) (sid : Nat) (h1 : (fs.getD sid default).rank = 1) :
    (fusedStep prefix_ (asms, entries, haps, fs) sid).2 =
      (entries ++ [(pyStrOpt (asmKey (fs.getD sid default)), sid)], sAdd haps (pyStrOpt (asmKey (fs.getD sid default))), fs) := by
  unfold fusedStep asmKey
  simp only [h1, if_true]
  split
  · rfl
  · split <;> rfl

/-- a rank-2 scaffold: `add_chr_prefix` on the arena; the ChrNamer input is untouched -/
theorem fusedStep_rank2 (prefix_ : Str) (asms : List (Option Str × Bool × List Nat)) (entries : List (Str × Nat)) (haps : List Str)
    (fs : List Scaffold) (sid : Nat) (h2 : (fs.getD sid default).rank = 2) :
    (fusedStep prefix_ (asms, entries, haps, fs) sid).2 = (entries, haps, addPrefix prefix_ fs sid) := by
  have h1 : ¬ (fs.getD sid default).rank = 1 := by rw [h2]; decide
  unfold fusedStep addPrefix
  rw [h2] at h1
  simp only [h1, h2, if_true, if_false]

/-- any other rank: nothing for the ChrNamer -/
theorem fusedStep_other (prefix_ : Str) (asms : List (Option Str × Bool × List Nat)) (entries : List (Str × Nat)) (haps : List Str)
    (fs : List Scaffold) (sid : Nat) (h1 : (fs.getD sid default).rank ≠ 1) (h2 : (fs.getD sid default).rank ≠ 2) :
    (fusedStep prefix_ (asms, entries, haps, fs) sid).2 = (entries, haps, fs) := by
  unfold fusedStep
  simp only [h1, h2, if_false]

/-! ### 4. what `buildGroups` guarantees of the groups it returns -/

/-- no haplotype of the group has more than `n` original names; no original name is the empty string -/
def GroupOk (n : Nat) (g : GroupData) : Prop := ∀ kv ∈ g, kv.2.length ≤ n ∧ ∀ e ∈ kv.2, e.1 ≠ []

def ScanOk (n : Nat) (st : GroupScan) : Prop := (∀ g ∈ st.groups, GroupOk n g) ∧ GroupOk n st.cur

theorem GroupOk.mono {n m : Nat} {g : GroupData} (h : GroupOk n g) (hnm : n ≤ m) : GroupOk m g :=
  fun kv hkv => ⟨Nat.le_trans (h kv hkv).1 hnm, (h kv hkv).2⟩

theorem groupOk_newGroup (n : Nat) (haps : List Str) : GroupOk n (newGroup haps) := by
  intro kv hkv
  simp only [newGroup, List.mem_map] at hkv
  obtain ⟨h, _, rfl⟩ := hkv
  exact ⟨Nat.zero_le _, by intro e he; cases he⟩

theorem dSet_length_le {κ ν : Type} [DecidableEq κ] (d : List (κ × ν)) (k : κ) (v : ν) : (dSet d k v).length ≤ d.length + 1 := by
  induction d with
  | nil => simp [dSet]
  | cons p d ih =>
    obtain ⟨k', v'⟩ := p
    simp only [dSet]
    split
    · simp
    · simp only [List.length_cons]; omega

theorem groupOk_groupAdd (n : Nat) (g : GroupData) (hap : Str) (c : Char) (r : Str) (sid : Nat) (h : GroupOk n g) :
    GroupOk (n + 1) (groupAdd g hap (c :: r) sid) := by
  have hd : ((dGet? g hap).getD []).length ≤ n ∧ ∀ e ∈ (dGet? g hap).getD [], e.1 ≠ [] := by
    cases hg : dGet? g hap with
    | none => exact ⟨Nat.zero_le _, by intro e he; cases he⟩
    | some v => exact h _ (ImpBuildGroups.dGet?_mem _ _ _ hg)
  intro kv hkv
  unfold groupAdd at hkv
  rcases ImpBuildGroups.mem_dSet _ _ _ _ hkv with hm | rfl
  · exact ⟨Nat.le_succ_of_le (h kv hm).1, (h kv hm).2⟩
  · refine ⟨Nat.le_trans (dSet_length_le _ _ _) (Nat.succ_le_succ hd.1), ?_⟩
    intro e he
    rcases ImpBuildGroups.mem_dSet _ _ _ _ he with hm | rfl
    · exact hd.2 e hm
    · simp

theorem scanOk_mStep (fs : List Scaffold) (haps : List Str) (n : Nat) (st st' : GroupScan) (e : Str × Nat) (h : ScanOk n st)
    (hs : ImpBuildGroups.mStep fs haps st e = .ok st') : ScanOk (n + 1) st' := by
  unfold ImpBuildGroups.mStep at hs
  split at hs
  · next c r ho =>
    simp only at hs
    split at hs
    · cases hs
    · next b hb =>
      simp only [Except.ok.injEq] at hs
      subst hs
      cases b
      · simp only [Bool.false_eq_true, if_false]
        exact ⟨fun g hg => (h.1 g hg).mono (Nat.le_succ n), groupOk_groupAdd n _ _ _ _ _ h.2⟩
      · simp only [if_true]
        refine ⟨?_, groupOk_groupAdd n _ _ _ _ _ (groupOk_newGroup n haps)⟩
        intro g hg
        simp only [List.mem_append, List.mem_singleton] at hg
        rcases hg with hg | rfl
        · exact (h.1 g hg).mono (Nat.le_succ n)
        · exact h.2.mono (Nat.le_succ n)
  · cases hs

theorem scanOk_foldlM (fs : List Scaffold) (haps : List Str) (xs : List (Str × Nat)) (n : Nat) (st st' : GroupScan) (h : ScanOk n st)
    (hs : xs.foldlM (ImpBuildGroups.mStep fs haps) st = .ok st') : ScanOk (n + xs.length) st' := by
  induction xs generalizing n st with
  | nil => simp only [List.foldlM_nil, pure, Except.pure, Except.ok.injEq] at hs; subst hs; exact h
  | cons x xs ih =>
    rw [List.foldlM_cons] at hs
    cases hm : ImpBuildGroups.mStep fs haps st x with
    | error e => rw [hm] at hs; cases hs
    | ok st1 =>
      rw [hm] at hs
      have := ih (n + 1) st1 (scanOk_mStep fs haps n st st1 x h hm) hs
      rw [List.length_cons]
      have e : n + (xs.length + 1) = n + 1 + xs.length := by omega
      rw [e]; exact this

/-- every group `buildGroups` returns: at most `entries.length` original names per haplotype, none of them empty -/
theorem buildGroups_groupOk (fs : List Scaffold) (haps : List Str) (entries : List (Str × Nat)) (gs : List GroupData)
    (h : buildGroups fs haps entries = .ok gs) : ∀ g ∈ gs, GroupOk entries.length g := by
  rw [ImpBuildGroups.buildGroups_eq] at h
  cases hf : entries.foldlM (ImpBuildGroups.mStep fs haps) { groups := [], cur := newGroup haps } with
  | error e => rw [hf] at h; cases h
  | ok st =>
    rw [hf] at h
    simp only [Except.ok.injEq] at h
    subst h
    have := scanOk_foldlM fs haps entries 0 _ st ⟨(by intro g hg; cases hg), groupOk_newGroup 0 haps⟩ hf
    rw [Nat.zero_add] at this
    intro g hg
    simp only [List.mem_append, List.mem_singleton] at hg
    rcases hg with hg | rfl
    · exact this.1 g hg
    · exact this.2

/-- … read on the source's side of the abstraction: what `ChrGroup.name_chromosome` needs -/
theorem conG_named (n : Nat) (g : GroupData) (h : GroupOk n g) :
    (∀ kv ∈ ImpBuildGroups.conG g, ImpChrGroup.HapNamed kv.2) ∧ ∀ kv ∈ ImpBuildGroups.conG g, kv.2.length ≤ n := by
  constructor
  · intro kv hkv e he _
    simp only [ImpBuildGroups.conG, List.mem_map] at hkv
    obtain ⟨kv0, hkv0, rfl⟩ := hkv
    simp only [ImpBuildGroups.conHapSet, List.mem_map] at he
    obtain ⟨e0, he0, rfl⟩ := he
    have := (h kv0 hkv0).2 e0 he0
    cases hk : e0.1 with
    | nil => exact absurd hk this
    | cons c r => exact ⟨c, r, rfl⟩
  · intro kv hkv
    simp only [ImpBuildGroups.conG, List.mem_map] at hkv
    obtain ⟨kv0, hkv0, rfl⟩ := hkv
    simp only [ImpBuildGroups.conHapSet, List.length_map]
    exact (h kv0 hkv0).1

/-! ### 5. the descending stable sort; `enumerate` -/

theorem mem_insertBy {α : Type} (le : α → α → Bool) (x y : α) (l : List α) : y ∈ insertBy le x l ↔ y = x ∨ y ∈ l := by
  induction l with
  | nil => simp [insertBy]
  | cons z l ih =>
    simp only [insertBy]
    split
    · simp
    · simp only [List.mem_cons, ih]
      constructor
      · rintro (h | h | h)
        · exact .inr (.inl h)
        · exact .inl h
        · exact .inr (.inr h)
      · rintro (h | h | h)
        · exact .inr (.inl h)
        · exact .inl h
        · exact .inr (.inr h)

theorem mem_stableSort {α : Type} (le : α → α → Bool) (y : α) (l : List α) : y ∈ stableSort le l ↔ y ∈ l := by
  induction l with
  | nil => simp [stableSort]
  | cons x l ih => simp only [stableSort, mem_insertBy, ih, List.mem_cons]

theorem insertBy_map {α β : Type} (f : α → β) (le : α → α → Bool) (le' : β → β → Bool) (h : ∀ a b, le' (f a) (f b) = le a b)
    (x : α) (l : List α) : insertBy le' (f x) (l.map f) = (insertBy le x l).map f := by
  induction l with
  | nil => rfl
  | cons z l ih =>
    simp only [List.map_cons, insertBy, h]
    split
    · rfl
    · simp only [List.map_cons, ih]

theorem stableSort_map {α β : Type} (f : α → β) (le : α → α → Bool) (le' : β → β → Bool) (h : ∀ a b, le' (f a) (f b) = le a b)
    (l : List α) : stableSort le' (l.map f) = (stableSort le l).map f := by
  induction l with
  | nil => rfl
  | cons x l ih => simp only [List.map_cons, stableSort, ih, insertBy_map f le le' h]

theorem mapM_cons_R {α β : Type} (f : α → R β) (x : α) (xs : List α) :
    (x :: xs).mapM f =
      match f x with
      | .error e => .error e
      | .ok y => match xs.mapM f with
        | .error e => .error e
        | .ok ys => .ok (y :: ys) := by
  rw [List.mapM_cons]
  cases f x with
  | error e => rfl
  | ok y => cases xs.mapM f <;> rfl

/-- the keys of the source (computed on references `x`) and of the model (computed on the objects `φ x`): same exception, or the same
    list of keys with `φ` applied to the second components; the references come back unchanged -/
theorem mapM_keyed {α β : Type} (φ : α → β) (k : α → R Int) (k' : β → R Int) (xs : List α) (hk : ∀ x ∈ xs, k x = k' (φ x)) :
    match (xs.map φ).mapM (fun g => do let l ← k' g; pure (l, g)) with
    | .error e => xs.mapM (fun x => (k x).map (fun d => (d, x))) = .error e
    | .ok keyed => ∃ ks, xs.mapM (fun x => (k x).map (fun d => (d, x))) = .ok ks ∧ keyed = ks.map (fun p => (p.1, φ p.2)) ∧
        ks.map (·.2) = xs := by
  induction xs with
  | nil => exact ⟨[], rfl, rfl, rfl⟩
  | cons x xs ih =>
    have ih' := ih (fun y hy => hk y (by simp [hy]))
    rw [List.map_cons, mapM_cons_R, mapM_cons_R, hk x (by simp)]
    cases k' (φ x) with
    | error e => rfl
    | ok l =>
      cases hm : (xs.map φ).mapM (fun g => do let l ← k' g; pure (l, g)) with
      | error e => rw [hm] at ih'; simp only at ih'; rw [ih']; rfl
      | ok keyed =>
        rw [hm] at ih'
        obtain ⟨ks, h1, h2, h3⟩ := ih'
        rw [h1]
        exact ⟨(l, x) :: ks, rfl, by rw [h2]; rfl, by rw [List.map_cons, h3]⟩

/-- `xs.sort(key=k, reverse=True)` on references vs the model's `stableSort (a.1 ≥ c.1)` on the objects -/
theorem sortedByMDesc_spec {α β : Type} (φ : α → β) (k : α → R Int) (k' : β → R Int) (xs : List α) (hk : ∀ x ∈ xs, k x = k' (φ x)) :
    match (xs.map φ).mapM (fun g => do let l ← k' g; pure (l, g)) with
    | .error e => PyRt.sortedByMDesc k xs = .error e
    | .ok keyed => ∃ so, PyRt.sortedByMDesc k xs = .ok so ∧
        so.map φ = (stableSort (fun (a c : Int × β) => decide (a.1 ≥ c.1)) keyed).map (·.2) ∧ ∀ x ∈ so, x ∈ xs := by
  have h := mapM_keyed φ k k' xs hk
  unfold PyRt.sortedByMDesc
  cases hm : (xs.map φ).mapM (fun g => do let l ← k' g; pure (l, g)) with
  | error e => rw [hm] at h; simp only at h ⊢; rw [h]; rfl
  | ok keyed =>
    rw [hm] at h
    obtain ⟨ks, h1, h2, h3⟩ := h
    simp only
    rw [h1]
    refine ⟨_, rfl, ?_, ?_⟩
    · rw [h2, stableSort_map (fun (p : Int × α) => (p.1, φ p.2)) (fun a b => decide (a.1 ≥ b.1)) _ (fun _ _ => rfl)]
      simp only [List.map_map]
      rfl
    · intro x hx
      obtain ⟨p, hp, rfl⟩ := List.mem_map.mp hx
      rw [mem_stableSort] at hp
      rw [← h3]
      exact List.mem_map_of_mem hp

/-- `for i, x in enumerate(xs): …` with a body that only updates the loop state and is, on the objects `φ x`, the model's `step`:
    the model's `foldl` over `(List.range' k n).zip` -/
theorem forIn_enumerateFrom {α β σ ρ : Type} (φ : α → β) (step : σ → Nat × β → σ) (body : Int × α → σ → R (PyRt.Ctl σ ρ)) (xs : List α)
    (hbody : ∀ x ∈ xs, ∀ (i : Nat) (s : σ), body ((i : Int), x) s = .ok (.next (step s (i, φ x)))) (k : Nat) (s : σ) :
    PyRt.forIn (PyRt.enumerateFrom (k : Int) xs) s body = .ok (.fell (((List.range' k xs.length).zip (xs.map φ)).foldl step s)) := by
  induction xs generalizing k s with
  | nil => rfl
  | cons x xs ih =>
    rw [PyRt.enumerateFrom, PyRt.forIn, hbody x (by simp)]
    have e : ((k : Int) + 1) = ((k + 1 : Nat) : Int) := rfl
    simp only []
    rw [e, ih (fun y hy => hbody y (by simp [hy]))]
    rfl

/-! ### 6. the kernel `name_chromosomes` -/

theorem sortedByMDesc_congr {α : Type} (k k' : α → R Int) (xs : List α) (h : ∀ x, k x = k' x) :
    PyRt.sortedByMDesc k xs = PyRt.sortedByMDesc k' xs := by
  have : k = k' := funext h
  rw [this]

theorem forIn_enumerate {α β σ ρ : Type} (φ : α → β) (step : σ → Nat × β → σ) (body : Int × α → σ → R (PyRt.Ctl σ ρ)) (xs : List α)
    (hbody : ∀ x ∈ xs, ∀ (i : Nat) (s : σ), body ((i : Int), x) s = .ok (.next (step s (i, φ x)))) (s : σ) :
    PyRt.forIn (PyRt.enumerate xs) s body = .ok (.fell (((List.range xs.length).zip (xs.map φ)).foldl step s)) := by
  have := forIn_enumerateFrom φ step body xs hbody 0 s
  rw [List.range_eq_range']
  exact this

/-- a reference `build_groups` returned points at (the source form of) one of the model's groups -/
theorem gGet_new (heap_g : List PyRt.GData) (gs : List GroupData) (r : Nat) (hr : r ∈ List.range' heap_g.length gs.length) :
    ∃ g ∈ gs, PyRt.gGet (heap_g ++ gs.map ImpBuildGroups.conG) r = ImpBuildGroups.conG g := by
  have h := ImpBuildGroups.map_gGet_range' heap_g (gs.map ImpBuildGroups.conG)
  rw [List.length_map] at h
  have hm : PyRt.gGet (heap_g ++ gs.map ImpBuildGroups.conG) r ∈
      (List.range' heap_g.length gs.length).map (PyRt.gGet (heap_g ++ gs.map ImpBuildGroups.conG)) := List.mem_map_of_mem hr
  rw [h] at hm
  obtain ⟨g, hg, he⟩ := List.mem_map.mp hm
  exact ⟨g, hg, he.symm⟩

theorem name_chromosomes_tie (heap_b : List Scaffold) (heap_g : List PyRt.GData) (groups : Option (List Nat)) (hs : List (Str × Bool))
    (entries : List (Str × Nat)) (prefix_ : Str)
    (hnd : (hs.map (·.1)).Nodup) (hent : hs ≠ [] → entries ≠ []) (hkeys : ∀ e ∈ entries, e.1 ∈ hs.map (·.1))
    (hcount : entries.length ≤ 1114047) :
    (Gen.Imp.ChrNamer_name_chromosomes heap_b heap_g groups hs entries prefix_).map (·.1) =
      nameChromosomes heap_b (hs.map (·.1)) entries prefix_ := by
  unfold Gen.Imp.ChrNamer_name_chromosomes nameChromosomes
  cases hs with
  | nil => rfl
  | cons a t =>
    have hne : a :: t ≠ [] := by simp
    simp only [List.isEmpty_cons, Bool.not_false, Bool.not_true, Bool.false_eq_true, if_false, List.map_cons]
    rw [← List.map_cons (f := fun (kv : Str × Bool) => kv.1)]
    rw [ImpBuildGroups.build_groups_tie heap_b heap_g (a :: t) entries hne hnd (hent hne) hkeys]
    cases hbg : buildGroups heap_b ((a :: t).map (·.1)) entries with
    | error e => rfl
    | ok gs =>
      simp only [ImpBuildGroups.ok_bind]
      cases hge : groupsHaveErrors gs
      · simp only [Bool.false_eq_true, if_false, ImpBuildGroups.ok_bind, PyRt.needObj, PyRt.needIter]
        have hφ : (List.range' heap_g.length gs.length).map
            (fun r => ImpChrGroup.absG (PyRt.gGet (heap_g ++ gs.map ImpBuildGroups.conG) r)) = gs :=
          ImpBuildGroups.result_abs heap_g gs
        rw [sortedByMDesc_congr _
          (fun r => groupFirstLength heap_b (ImpChrGroup.absG (PyRt.gGet (heap_g ++ gs.map ImpBuildGroups.conG) r))) _
          (by intro x; rw [ImpChrGroup.length_of_first_tie]; cases groupFirstLength heap_b _ <;> rfl)]
        have hspec := sortedByMDesc_spec (fun r => ImpChrGroup.absG (PyRt.gGet (heap_g ++ gs.map ImpBuildGroups.conG) r))
          (fun r => groupFirstLength heap_b (ImpChrGroup.absG (PyRt.gGet (heap_g ++ gs.map ImpBuildGroups.conG) r)))
          (groupFirstLength heap_b) (List.range' heap_g.length gs.length) (fun _ _ => rfl)
        rw [hφ] at hspec
        cases hm : gs.mapM (fun g => do let l ← groupFirstLength heap_b g; pure (l, g)) with
        | error e => rw [hm] at hspec; simp only at hspec; rw [hspec]; rfl
        | ok keyed =>
          rw [hm] at hspec
          obtain ⟨so, h1, h2, h3⟩ := hspec
          rw [h1]
          simp only [ImpBuildGroups.ok_bind]
          rw [forIn_enumerate (fun r => ImpChrGroup.absG (PyRt.gGet (heap_g ++ gs.map ImpBuildGroups.conG) r))
            (fun fs (p : Nat × GroupData) => nameGroup fs p.2 prefix_ (p.1 + 1)) _ so]
          · rw [← h2, List.length_map]
            rfl
          · intro x hx i s
            obtain ⟨g, hg, hx'⟩ := gGet_new heap_g gs x (h3 x hx)
            have hok := conG_named _ g (buildGroups_groupOk _ _ _ _ hbg g hg)
            simp only []
            rw [hx', ImpChrGroup.name_chromosome_tie s prefix_ ((i : Int) + 1) _ (by omega) hok.1
              (fun kv hkv => by have := hok.2 kv hkv; unfold ImpChrGroup.chrBound; omega)]
            have e : ((i : Int) + 1).toNat = i + 1 := by omega
            rw [e]
            rfl
      · rfl

theorem name_chromosomes_empty (heap_b : List Scaffold) (heap_g : List PyRt.GData) (groups : Option (List Nat))
    (entries : List (Str × Nat)) (prefix_ : Str) :
    Gen.Imp.ChrNamer_name_chromosomes heap_b heap_g groups [] entries prefix_ = .ok (heap_b, heap_g, groups) := rfl

theorem name_chromosomes_no_entries (heap_b : List Scaffold) (heap_g : List PyRt.GData) (groups : Option (List Nat))
    (hs : List (Str × Bool)) (prefix_ : Str) (hne : hs ≠ []) (hnd : (hs.map (·.1)).Nodup) :
    Gen.Imp.ChrNamer_name_chromosomes heap_b heap_g groups hs [] prefix_ = .error .value ∧
    nameChromosomes heap_b (hs.map (·.1)) [] prefix_ = .error .chrNamer := by
  cases hs with
  | nil => exact absurd rfl hne
  | cons a t =>
    constructor
    · unfold Gen.Imp.ChrNamer_name_chromosomes
      simp only [List.isEmpty_cons, Bool.not_false, Bool.not_true, Bool.false_eq_true, if_false]
      rw [(ImpBuildGroups.build_groups_no_entries heap_b heap_g (a :: t) hne hnd).1]
      simp only [ImpBuildGroups.ok_bind, PyRt.needObj]
      rw [sortedByMDesc_congr _ (fun r => groupFirstLength heap_b
          (ImpChrGroup.absG (PyRt.gGet (heap_g ++ [ImpBuildGroups.srcNew ((a :: t).map (·.1))]) r))) _
        (by intro x; rw [ImpChrGroup.length_of_first_tie]; cases groupFirstLength heap_b _ <;> rfl)]
      unfold PyRt.sortedByMDesc
      simp only [List.mapM_cons, ImpBuildGroups.gGet_last _ _ _ rfl]
      rfl
    · rfl

end AgpTpf.ImpNameChr
