/-
  Insertion-ordered dict lemmas (`dGet?`, `dSet`) used by C09 / C10.
-/
import AgpTpf.Model.Py
namespace AgpTpf.Dict
open AgpTpf

variable {κ ν : Type} [DecidableEq κ]

theorem dGet?_mem (d : List (κ × ν)) (k : κ) (v : ν) (h : dGet? d k = some v) : (k, v) ∈ d := by
  induction d with
  | nil => simp [dGet?] at h
  | cons p r ih =>
    obtain ⟨k', v'⟩ := p
    unfold dGet? at h
    by_cases hk : k' = k
    · simp [hk] at h; subst hk; subst h; simp
    · simp [hk] at h; exact List.mem_cons_of_mem _ (ih h)

theorem dGet?_none_iff (d : List (κ × ν)) (k : κ) : dGet? d k = none ↔ k ∉ d.map (·.1) := by
  induction d with
  | nil => simp [dGet?]
  | cons p r ih =>
    obtain ⟨k', v'⟩ := p
    unfold dGet?
    by_cases hk : k' = k
    · simp [hk]
    · have hk2 : ¬ k = k' := fun h => hk h.symm
      simp [hk, hk2, ih]

theorem dGet?_of_mem_nodup (d : List (κ × ν)) (k : κ) (v : ν) (hnd : (d.map (·.1)).Nodup) (h : (k, v) ∈ d) :
    dGet? d k = some v := by
  induction d with
  | nil => cases h
  | cons p r ih =>
    obtain ⟨k', v'⟩ := p
    simp only [List.map_cons, List.nodup_cons] at hnd
    unfold dGet?
    rcases List.mem_cons.1 h with h | h
    · cases h; simp
    · have : k' ≠ k := by
        intro e; subst e; exact hnd.1 (List.mem_map.2 ⟨(k', v), h, rfl⟩)
      simp [this]; exact ih hnd.2 h

theorem dGet?_dSet_self (d : List (κ × ν)) (k : κ) (v : ν) : dGet? (dSet d k v) k = some v := by
  induction d with
  | nil => simp [dSet, dGet?]
  | cons p r ih =>
    obtain ⟨k', v'⟩ := p
    unfold dSet
    by_cases hk : k' = k
    · simp [hk, dGet?]
    · simp [hk, dGet?, ih]

theorem dGet?_dSet_ne (d : List (κ × ν)) (k k' : κ) (v : ν) (h : k ≠ k') : dGet? (dSet d k v) k' = dGet? d k' := by
  induction d with
  | nil => simp [dSet, dGet?, h]
  | cons p r ih =>
    obtain ⟨k'', v''⟩ := p
    unfold dSet
    by_cases hk : k'' = k
    · subst hk; simp [dGet?, h]
    · by_cases hk' : k'' = k'
      · subst hk'; simp [hk, dGet?]
      · simp [hk, hk', dGet?, ih]

theorem dSet_keys_of_some (d : List (κ × ν)) (k : κ) (v w : ν) (h : dGet? d k = some w) :
    (dSet d k v).map (·.1) = d.map (·.1) := by
  induction d with
  | nil => simp [dGet?] at h
  | cons p r ih =>
    obtain ⟨k'', v''⟩ := p
    unfold dSet
    unfold dGet? at h
    by_cases hk : k'' = k
    · simp [hk]
    · simp [hk] at h; simp [hk, ih h]

theorem mem_dSet (d : List (κ × ν)) (k : κ) (v : ν) (p : κ × ν) (h : p ∈ dSet d k v) : p = (k, v) ∨ p ∈ d := by
  induction d with
  | nil => simp [dSet] at h; exact .inl h
  | cons q r ih =>
    obtain ⟨k'', v''⟩ := q
    unfold dSet at h
    by_cases hk : k'' = k
    · simp [hk] at h
      rcases h with h | h
      · exact .inl h
      · exact .inr (List.mem_cons_of_mem _ h)
    · simp [hk] at h
      rcases h with h | h
      · exact .inr (by simp [h])
      · rcases ih h with h | h
        · exact .inl h
        · exact .inr (List.mem_cons_of_mem _ h)

theorem dGet?_append_single (d : List (κ × ν)) (k k' : κ) (v : ν) :
    dGet? (d ++ [(k, v)]) k' = match dGet? d k' with
      | some w => some w
      | none => if k = k' then some v else none := by
  induction d with
  | nil => simp [dGet?]
  | cons q r ih =>
    obtain ⟨k'', v''⟩ := q
    simp only [List.cons_append, dGet?]
    by_cases hk : k'' = k'
    · simp [hk]
    · simp [hk, ih]

end AgpTpf.Dict
