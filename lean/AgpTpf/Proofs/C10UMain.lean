/-
  C10 uniqueness (W5), part 12: front half + back half = uniqueness of scaffold names in the output assemblies of
  `remap`, for the assembly keys `G` (the tagged assemblies Contaminant / FalseDuplicate only under `TG`).
-/
import AgpTpf.Proofs.C10UFront
import AgpTpf.Properties.C09
namespace AgpTpf.C10U
open AgpTpf

theorem tri_eq_triple (s : Scaffold) : tri s = C09.triple s := rfl

theorem lab_fields (s : Scaffold) : (lab s).tag = s.tag ∧ (lab s).haplotype = s.haplotype ∧ (lab s).name = s.name :=
  ⟨rfl, rfl, rfl⟩

/-- the conditions on the fused scaffolds, from what `remap_to_input_assembly` leaves behind -/
theorem fusedOk_of_front (TG : Par) (G : Option Str → Prop)
    (hG : ∀ k, G k → (k = some sContaminant ∨ k = some sFalseDuplicate) →
      ∀ E E', TG.Q E → TG.Q E' → E.name = E'.name → E.haplotype = E'.haplotype) (p : Str) (N : List Str) (b : Build)
    (hS : StoreOk TG p N b.store) (hE : ∀ e ∈ b.extra, PE TG p N (lab e.1))
    (hnoHap : ∀ e ∈ b.extra, e.1.tag ≠ some sHaplotig) : FusedOk G p N (fuseByName b) := by
  -- every fused scaffold has the label fields of a stored result or a left-over scaffold
  have hsrc := fused_lab b
    (fun E => (∃ r ∈ b.store, E = labRes r) ∨ (∃ e ∈ b.extra, E = lab e.1))
    (fun r hr => Or.inl ⟨r, hr, rfl⟩) (fun e he => Or.inr ⟨e, he, rfl⟩)
  have hpe : ∀ s ∈ fuseByName b, PE TG p N (lab s) :=
    fused_lab b (PE TG p N) hS.entries hE
  refine ⟨fun s hs => scOk_of_lab p N s (hpe s hs).1, ?_, ?_⟩
  · have := (C09.fuse_keeps_tag b).2.2.1
    exact this
  · intro s hs s' hs' hne hGs htag hname
    have hsc := (hpe s hs).1
    rcases hsc.tagCases with h | h
    · exact absurd h hne
    · have h' : s.tag = some sContaminant ∨ s.tag = some sFalseDuplicate ∨ s.tag = some sHaplotig := by
        have : (lab s).tag = s.tag := rfl
        rw [this] at h
        simpa [tagWords] using h
      rcases h' with h' | h' | h'
      · have e1 := (hpe s hs).2 (Or.inl h')
        have e2 := (hpe s' hs').2 (Or.inl (htag ▸ h'))
        exact hG _ hGs (Or.inl h') (lab s) (lab s') e1 e2 hname
      · have e1 := (hpe s hs).2 (Or.inr h')
        have e2 := (hpe s' hs').2 (Or.inr (htag ▸ h'))
        exact hG _ hGs (Or.inr h') (lab s) (lab s') e1 e2 hname
      · -- Haplotig: both come from stored results with the same `H_<k>` name
        have h'' : s'.tag = some sHaplotig := htag ▸ h'
        rcases hsrc s hs with ⟨r, hr, er⟩ | ⟨e, he, ee⟩
        · rcases hsrc s' hs' with ⟨r', hr', er'⟩ | ⟨e', he', ee'⟩
          · have t1 : r.o.tag = some sHaplotig := by
              have := congrArg Scaffold.tag er; exact this.symm.trans h'
            have t2 : r'.o.tag = some sHaplotig := by
              have := congrArg Scaffold.tag er'; exact this.symm.trans h''
            have n1 : r.o.name = s.name := (congrArg Scaffold.name er).symm
            have n2 : r'.o.name = s'.name := (congrArg Scaffold.name er').symm
            have := hS.hapInj r hr r' hr' t1 t2 (by rw [n1, n2, hname])
            have e1 : (lab s).haplotype = (labRes r).haplotype := congrArg Scaffold.haplotype er
            have e2 : (lab s').haplotype = (labRes r').haplotype := congrArg Scaffold.haplotype er'
            change s.haplotype = _ at e1
            change s'.haplotype = _ at e2
            rw [e1, e2, this]
          · exfalso
            have := congrArg Scaffold.tag ee'
            exact hnoHap e' he' (this.symm.trans h'')
        · exfalso
          have := congrArg Scaffold.tag ee
          exact hnoHap e he (this.symm.trans h')

/-- **uniqueness, general form** -/
theorem remap_names_unique_gen (TG : Par) (G : Option Str → Prop)
    (hG : ∀ k, G k → (k = some sContaminant ∨ k = some sFalseDuplicate) →
      ∀ E E', TG.Q E → TG.Q E' → E.name = E'.name → E.haplotype = E'.haplotype)
    (input ptx : List Scaffold) (p : Str) (jg : Option Gap) (err : Int) (outs : List OutAsm) (stats : Stats)
    (h : remap input ptx p jg err = .ok (outs, stats)) (H : C10.NamesOutsideGenerated input ptx p)
    (hNI0 : TG.NI { autosomePrefix := p }) (hPtx : PtxCallback TG input ptx) (hLeft : LeftCallback TG input ptx) :
    ∀ a ∈ outs, G a.key → (a.scaffolds.map (·.name)).Nodup := by
  unfold remap at h
  rw [C17.bind_eq_ok] at h
  obtain ⟨b, hb, hfused⟩ := h
  obtain ⟨hS, hE, hpre, hnoHap⟩ := front_spec (TG := TG) input ptx p jg err b H hNI0 hPtx hLeft hb
  have hok := fusedOk_of_front TG G hG p (ptx.map (·.name)) b hS hE hnoHap
  rw [← hpre] at hok
  exact fused_names_nodup G input b outs stats (ptx.map (·.name)) (by rw [List.length_map]; exact H.fewScaffolds) hok hfused

end AgpTpf.C10U
