/-
  C04 helper: buffer independence lifted from the region triple to `processSeqBuffer` on the whole indexer state.
-/
import AgpTpf.Proofs.C04Runs
namespace AgpTpf.C04
open AgpTpf

/-- `process_seq_buffer()` with the buffer holding `piece` -/
def feed (st : IdxState) (piece : Bytes) : IdxState := processSeqBuffer { st with buffer := piece }

def triple (st : IdxState) : RegState := (st.regionStart, st.regionEnd, st.seqRegions)

theorem feed_triple (st : IdxState) (piece : Bytes) :
    triple (feed st piece) = (acgtRuns 0 none piece).foldl (mergeRun st.seqLength) (triple st) := rfl

theorem feed_seqLength (st : IdxState) (piece : Bytes) :
    (feed st piece).seqLength = st.seqLength + (piece.length : Nat) := rfl

theorem feed_append (st : IdxState) (xs ys : Bytes) : feed (feed st xs) ys = feed st (xs ++ ys) := by
  have key : triple (feed (feed st xs) ys) = triple (feed st (xs ++ ys)) := by
    rw [feed_triple, feed_triple, feed_triple, feed_seqLength]
    exact foldl_mergeRun_append st.seqLength xs ys (triple st)
  have hlen : (feed (feed st xs) ys).seqLength = (feed st (xs ++ ys)).seqLength := by
    rw [feed_seqLength, feed_seqLength, feed_seqLength, List.length_append]; omega
  have h1 : (feed (feed st xs) ys).regionStart = (feed st (xs ++ ys)).regionStart := congrArg (·.1) key
  have h2 : (feed (feed st xs) ys).regionEnd = (feed st (xs ++ ys)).regionEnd := congrArg (·.2.1) key
  have h3 : (feed (feed st xs) ys).seqRegions = (feed st (xs ++ ys)).seqRegions := congrArg (·.2.2) key
  cases hA : feed (feed st xs) ys with
  | mk a1 a2 a3 a4 a5 a6 a7 a8 a9 a10 a11 a12 a13 a14 =>
  cases hB : feed st (xs ++ ys) with
  | mk b1 b2 b3 b4 b5 b6 b7 b8 b9 b10 b11 b12 b13 b14 =>
  rw [hA, hB] at hlen h1 h2 h3
  simp only at hlen h1 h2 h3
  have e1 : (feed (feed st xs) ys).name = (feed st (xs ++ ys)).name := rfl
  have e3 : (feed (feed st xs) ys).fileOffset = (feed st (xs ++ ys)).fileOffset := rfl
  have e4 : (feed (feed st xs) ys).rpl = (feed st (xs ++ ys)).rpl := rfl
  have e8 : (feed (feed st xs) ys).lineEndBytes = (feed st (xs ++ ys)).lineEndBytes := rfl
  have e9 : (feed (feed st xs) ys).buffer = (feed st (xs ++ ys)).buffer := rfl
  have e10 : (feed (feed st xs) ys).idx = (feed st (xs ++ ys)).idx := rfl
  have e11 : (feed (feed st xs) ys).scaffolds = (feed st (xs ++ ys)).scaffolds := rfl
  have e12 : (feed (feed st xs) ys).pos = (feed st (xs ++ ys)).pos := rfl
  have e13 : (feed (feed st xs) ys).nextOid = (feed st (xs ++ ys)).nextOid := rfl
  have e14 : (feed (feed st xs) ys).maxBuffered = (feed st (xs ++ ys)).maxBuffered := rfl
  rw [hA, hB] at e1 e3 e4 e8 e9 e10 e11 e12 e13 e14
  simp only at e1 e3 e4 e8 e9 e10 e11 e12 e13 e14
  subst hlen h1 h2 h3 e1 e3 e4 e8 e9 e10 e11 e12 e13 e14
  rfl

/-- any split of a residue string into consecutive buffers gives the same state as one buffer -/
theorem feed_pieces (st : IdxState) (p : Bytes) (ps : List Bytes) :
    ps.foldl feed (feed st p) = feed st (p ++ ps.flatten) := by
  induction ps generalizing p with
  | nil => simp
  | cons q qs ih =>
    rw [List.foldl_cons, feed_append, ih, List.flatten_cons, List.append_assoc]

end AgpTpf.C04
