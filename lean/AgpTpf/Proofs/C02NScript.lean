/-
  C02 "remapping never fails" (task W7-C02NOERR), helper part 7: THE MAP OF A WELL-FORMED SCRIPT IS A TILING
  (`Tiling (errLen p q) (ptxOf input s)`), from `script_pieces_tile` / `script_piece_long` (Properties/C02Script.lean).
-/
import AgpTpf.Proofs.C02NHold
import AgpTpf.Properties.C02Script
namespace AgpTpf.C02
open AgpTpf AgpTpf.Pretext
open AgpTpf.C01 (FragDisjoint)

/-- the pieces of the map, in map order -/
theorem ptxFrags_ptxOf (input : List Scaffold) (s : Script) :
    ptxFrags (ptxOf input s) = (itemsT s).filterMap (fun bx => pieceFrag input s bx.1 bx.2) := by
  unfold ptxFrags ptxOf itemsT
  rw [List.flatMap_map]
  have h1 : ∀ (l : List Pretext.Group) (n : Nat),
      (l.zipIdx n).flatMap (fun x => Scaffold.fragments
        ({ name := scaffoldName (x.2 + 1), rows := joinRows s.gap (groupFrags input s x.1) } : Scaffold)) =
      (l.flatMap (fun g => g.items.map (fun x => (g.painted, x)))).filterMap (fun bx => pieceFrag input s bx.1 bx.2) := by
    intro l
    induction l with
    | nil => intro n; rfl
    | cons g r ih =>
      intro n
      rw [List.zipIdx_cons, List.flatMap_cons, List.flatMap_cons, ih, List.filterMap_append]
      congr 1
      show fragmentsOf (joinRows s.gap (groupFrags input s g)) = _
      rw [fragmentsOf_joinRows, List.filterMap_map]
      rfl
  exact h1 s.groups 0

/-- what a piece of the map is -/
structure PieceOf (input : List Scaffold) (s : Script) (pf : Fragment) (i k : Nat) (sc : Scaffold) (c : ScafScript)
    (ab : Nat × Nat) : Prop where
  hsc : input[i]? = some sc
  hc : s.scafs[i]? = some c
  present : c.present = true
  hab : (c.spans s.p s.q)[k]? = some ab
  name : pf.name = sc.name
  start : pf.start = (ab.1 : Int)
  stop : pf.stop = (ab.2 : Int)

theorem piece_of_mem {input : List Scaffold} {s : Script} (hw : WfScript input s) {pf : Fragment}
    (h : pf ∈ ptxFrags (ptxOf input s)) :
    ∃ bx ∈ itemsT s, pieceFrag input s bx.1 bx.2 = some pf ∧ ∃ sc c ab, PieceOf input s pf bx.2.sc bx.2.k sc c ab := by
  rw [ptxFrags_ptxOf] at h
  obtain ⟨bx, hbx, hp⟩ := List.mem_filterMap.1 h
  obtain ⟨pf', sc, c, ab, h1, h2, h3, h4, h5, _, h7, h8, h9, _⟩ := pieceFrag_some hw bx.1 (mem_itemsT hbx)
  rw [hp] at h1
  cases h1
  exact ⟨bx, hbx, hp, sc, c, ab, h2, h3, h4, h5, h7, h8, h9⟩

/-- two pieces of the map with the same scaffold name are pieces of the same input scaffold -/
theorem same_scaffold {input : List Scaffold} (hn : (input.map (·.name)).Nodup) {i j : Nat} {sc sc' : Scaffold}
    (hi : input[i]? = some sc) (hj : input[j]? = some sc') (e : sc.name = sc'.name) : i = j := by
  have hi' : (input.map (·.name))[i]? = some sc.name := by rw [List.getElem?_map, hi]; rfl
  have hj' : (input.map (·.name))[j]? = some sc.name := by rw [List.getElem?_map, hj, e]; rfl
  obtain ⟨h1, e1⟩ := List.getElem?_eq_some_iff.mp hi'
  obtain ⟨h2, e2⟩ := List.getElem?_eq_some_iff.mp hj'
  exact (List.getElem_inj hn).mp (e1.trans e2.symm)

/-- **the map of a well-formed script over an input with pairwise different scaffold names tiles the input scaffolds** -/
theorem script_is_tiling {input : List Scaffold} {s : Script} (hwf : wfScript input s = true)
    (hn : (input.map (·.name)).Nodup) : Tiling (errLen s.p s.q : Int) (ptxOf input s) := by
  have hw := wfScript_spec hwf
  -- two pieces of one scaffold at different piece numbers
  have hpair : ∀ {p q : Fragment} {i k k' : Nat} {sc : Scaffold} {c : ScafScript} {ab ab' : Nat × Nat},
      PieceOf input s p i k sc c ab → PieceOf input s q i k' sc c ab' → k < k' → p.stop < q.start := by
    intro p q i k k' sc c ab ab' h1 h2 hlt
    obtain ⟨_, _, hpw, _⟩ := script_pieces_tile hwf h1.hsc h1.hc h1.present
    rw [List.pairwise_iff_getElem] at hpw
    obtain ⟨l1, e1⟩ := List.getElem?_eq_some_iff.mp h1.hab
    obtain ⟨l2, e2⟩ := List.getElem?_eq_some_iff.mp h2.hab
    have := hpw k k' l1 l2 hlt
    rw [e1, e2] at this
    rw [h1.stop, h2.start]
    exact_mod_cast this
  have hsame : ∀ {p q : Fragment} {i j k k' : Nat} {sc sc' : Scaffold} {c c' : ScafScript} {ab ab' : Nat × Nat},
      PieceOf input s p i k sc c ab → PieceOf input s q j k' sc' c' ab' → p.name = q.name →
      i = j ∧ sc = sc' ∧ c = c' := by
    intro p q i j k k' sc sc' c c' ab ab' h1 h2 e
    have hij : i = j := same_scaffold hn h1.hsc h2.hsc (h1.name.symm.trans (e.trans h2.name))
    subst hij
    have e1 := h1.hsc.symm.trans h2.hsc
    have e2 := h1.hc.symm.trans h2.hc
    cases e1; cases e2
    exact ⟨rfl, rfl, rfl⟩
  refine ⟨?_, ?_, ?_, ?_⟩
  · -- valid
    intro p hp
    obtain ⟨bx, _, _, sc, c, ab, hP⟩ := piece_of_mem hw hp
    obtain ⟨_, hv, _⟩ := script_pieces_tile hwf hP.hsc hP.hc hP.present
    have := hv ab (mem_of_getElem? hP.hab)
    rw [hP.start, hP.stop]
    exact_mod_cast this
  · -- disjoint
    unfold PtxDisjoint
    have e : (ptxOf input s).flatMap Scaffold.fragments = ptxFrags (ptxOf input s) := rfl
    rw [e, ptxFrags_ptxOf]
    have hmem : ∀ bx ∈ itemsT s, ∀ pf, pieceFrag input s bx.1 bx.2 = some pf →
        ∃ sc c ab, PieceOf input s pf bx.2.sc bx.2.k sc c ab := by
      intro bx hbx pf hp
      obtain ⟨pf', sc, c, ab, h1, h2, h3, h4, h5, _, h7, h8, h9, _⟩ := pieceFrag_some hw bx.1 (mem_itemsT hbx)
      rw [hp] at h1; cases h1
      exact ⟨sc, c, ab, h2, h3, h4, h5, h7, h8, h9⟩
    have hpw := itemsT_pairwise hw
    -- strengthen the pairwise relation with membership
    have hpw' : (itemsT s).Pairwise (fun a b => a ∈ itemsT s ∧ b ∈ itemsT s ∧ (a.2.sc, a.2.k) ≠ (b.2.sc, b.2.k)) := by
      rw [List.pairwise_iff_getElem] at hpw ⊢
      intro i j hi hj hij
      exact ⟨List.getElem_mem hi, List.getElem_mem hj, hpw i j hi hj hij⟩
    refine List.Pairwise.filterMap _ ?_ hpw'
    intro a a' ⟨ha, ha', hne⟩ p hp q hq hname
    obtain ⟨sc, c, ab, h1⟩ := hmem a ha p hp
    obtain ⟨sc', c', ab', h2⟩ := hmem a' ha' q hq
    obtain ⟨hij, rfl, rfl⟩ := hsame h1 h2 hname
    rw [← hij] at h2
    have hk : a.2.k ≠ a'.2.k := fun e => hne (by rw [hij, e])
    rcases Nat.lt_or_gt_of_ne hk with hlt | hlt
    · exact Or.inl (hpair h1 h2 hlt)
    · exact Or.inr (hpair h2 h1 hlt)
  · -- convex
    intro p hp q hq hname x hx1 hx2
    obtain ⟨bx, _, _, sc, c, ab, h1⟩ := piece_of_mem hw hp
    obtain ⟨bx', _, _, sc', c', ab', h2⟩ := piece_of_mem hw hq
    obtain ⟨hij, rfl, rfl⟩ := hsame h1 h2 hname
    obtain ⟨_, hv, _, _, hfirst, hlast, _⟩ := script_pieces_tile hwf h1.hsc h1.hc h1.present
    -- `x` is a natural number inside `[1, ⌊T·β⌋]`
    have hab1 := hv ab (mem_of_getElem? h1.hab)
    have hx0 : 0 ≤ x := by rw [h1.stop] at hx1; omega
    obtain ⟨z, rfl⟩ := Int.eq_ofNat_of_zero_le hx0
    have hsp := spans_present (p := s.p) (q := s.q) h1.present
    have hz1 : coord s.p s.q 0 + 1 ≤ z := by
      rw [coord_zero]
      rw [h1.stop] at hx1
      omega
    have hz2 : z ≤ coord s.p s.q c.T := by
      have hb := spansFrom_bounds hw.hq hw.hpq (wf_inc (hw.scaf _ _ _ h1.hsc h1.hc) h1.present)
        (by rw [← hsp]; exact mem_of_getElem? h2.hab)
      rw [h2.start] at hx2
      have := hb.2.2
      omega
    obtain ⟨y, hy, hy1, hy2⟩ := spansFrom_cover (p := s.p) (q := s.q) (cuts := c.cuts) z hz1 hz2
    rw [← hsp] at hy
    obtain ⟨k, hk⟩ := List.getElem?_of_mem hy
    have hklt : k < (c.spans s.p s.q).length := (List.getElem?_eq_some_iff.mp hk).1
    have hid : (bx.2.sc, k) ∈ s.ids := mem_pieceIds.2 ⟨c, h1.hc, hklt⟩
    obtain ⟨pl, hpl, hple⟩ := List.mem_map.1 (hw.perm.symm.subset hid)
    have hpl' : pl ∈ (itemsT s).map Prod.snd := by rw [itemsT_snd]; exact hpl
    obtain ⟨bz, hbz, rfl⟩ := List.mem_map.1 hpl'
    obtain ⟨pf, sc2, c2, ab2, g1, g2, g3, g4, g5, _, g7, g8, g9, _⟩ := pieceFrag_some hw bz.1 (mem_itemsT hbz)
    simp only [Prod.mk.injEq] at hple
    rw [hple.1] at g2 g3
    rw [hple.2] at g5
    have e1 := g2.symm.trans h1.hsc
    have e2 := g3.symm.trans h1.hc
    cases e1; cases e2
    rw [hk] at g5
    cases g5
    refine ⟨pf, ?_, g7.trans h1.name.symm, ?_, ?_⟩
    · rw [ptxFrags_ptxOf]
      exact List.mem_filterMap.2 ⟨bz, hbz, g1⟩
    · rw [g8]; exact_mod_cast hy1
    · rw [g9]; exact_mod_cast hy2
  · -- long
    intro m hm ⟨p, hp, hpn, hpm⟩ _
    obtain ⟨bx, _, _, sc, c, ab, h1⟩ := piece_of_mem hw hm
    obtain ⟨bx', _, _, sc', c', ab', h2⟩ := piece_of_mem hw hp
    obtain ⟨hij, rfl, rfl⟩ := hsame h1 h2 hpn.symm
    -- two different pieces: the scaffold is cut
    have hcuts : c.cuts ≠ [] := by
      intro e
      have hsp := spans_present (p := s.p) (q := s.q) h1.present
      rw [e] at hsp
      have hl : (c.spans s.p s.q).length = 1 := by rw [hsp, spansFrom_length]; rfl
      have k1 := (List.getElem?_eq_some_iff.mp h1.hab).1
      have k2 := (List.getElem?_eq_some_iff.mp h2.hab).1
      have e1 : bx.2.k = 0 := by omega
      have e2 : bx'.2.k = 0 := by omega
      have := h1.hab
      rw [e1] at this
      have h2' := h2.hab
      rw [e2, this] at h2'
      cases h2'
      rw [h2.stop, h1.start] at hpm
      have := (script_pieces_tile hwf h1.hsc h1.hc h1.present).2.1 ab (mem_of_getElem? h1.hab)
      omega
    obtain ⟨_, hl⟩ := script_piece_long hwf h1.hsc h1.hc h1.present ab (mem_of_getElem? h1.hab)
    obtain ⟨_, _, hl3⟩ := hl (Or.inl hcuts)
    have hv := (script_pieces_tile hwf h1.hsc h1.hc h1.present).2.1 ab (mem_of_getElem? h1.hab)
    unfold Fragment.length
    rw [h1.start, h1.stop]
    omega

end AgpTpf.C02
