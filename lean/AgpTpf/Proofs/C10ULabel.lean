/-
  C10 uniqueness (W5), part 8: one `label_scaffold` call.  Given what `make_scaffold_name` left in the namer (`CtxOk`),
  the labelled piece satisfies the per-scaffold conditions of the uniqueness proof (`PE`), and the haplotig / unloc
  bookkeeping of the namer is as the store invariant needs it.
-/
import AgpTpf.Proofs.C10UHyp
import AgpTpf.Properties.C10
namespace AgpTpf.C10U
open AgpTpf

/-- label fields of a lookup result, as a rows-less scaffold -/
def labO (o : OverlapResult) : Scaffold :=
  { name := o.name, tag := o.tag, haplotype := o.haplotype, rank := o.rank,
    originalName := o.originalName, originalTags := o.originalTags }

theorem labRes_eq (r : Res) : labRes r = labO r.o := rfl

/-- the namer fields `CtxOk` reads -/
def SameCore (n n' : Namer) : Prop :=
  n'.currentScaffoldName = n.currentScaffoldName ∧ n'.currentHaplotype = n.currentHaplotype ∧
  n'.currentRank = n.currentRank ∧ n'.targetTags = n.targetTags ∧ n'.haplotypeLc = n.haplotypeLc ∧
  n'.primaryHaplotype = n.primaryHaplotype ∧ n'.autosomePrefix = n.autosomePrefix

theorem SameCore.refl (n : Namer) : SameCore n n := ⟨rfl, rfl, rfl, rfl, rfl, rfl, rfl⟩

/-- the two parameters of the store invariant that depend on which clause 7 is assumed: `Q`, the condition kept on
    Contaminant / FalseDuplicate scaffolds, and `NI`, an invariant of the namer (a function of the fields `SameCore`
    compares) -/
structure Par where
  Q : Scaffold → Prop
  NI : Namer → Prop
  ni_core : ∀ n n', SameCore n n' → NI n → NI n'

/-- per-scaffold conditions: `ScOk`, and `Q` on Contaminant / FalseDuplicate scaffolds -/
def PE (TG : Par) (p : Str) (N : List Str) (E : Scaffold) : Prop :=
  ScOk p N E ∧ ((E.tag = some sContaminant ∨ E.tag = some sFalseDuplicate) → TG.Q E)

/-- some fragment carries a Contaminant or FalseDuplicate tag -/
def specialPiece (frs : List Fragment) : Bool :=
  frs.any (fun f => f.tags.contains sContaminant || f.tags.contains sFalseDuplicate)

/-- what `make_scaffold_name` must have left in the namer for the pieces of one Pretext scaffold (`orig` its name,
    `scTags` its tag set, `frs` its fragments, `c` the current scaffold name) -/
structure CtxOk (TG : Par) (p : Str) (N : List Str) (n : Namer) (orig : Str) (scTags : List Str)
    (frs : List Fragment) (c : Str) : Prop where
  cur : n.currentScaffoldName = some c
  hapOk : HapOk n.currentHaplotype
  tagged : ∀ tg, (tg = some sContaminant ∨ tg = some sFalseDuplicate) → ∀ suf, SufOk suf →
    (suf = [] ∨ scTags.contains sPainted = true) →
    (specialPiece frs = true ∨ (n.targetTags = true ∧ ¬ scTags.contains sTarget = true)) →
    TG.Q { name := c ++ suf, tag := tg, haplotype := n.currentHaplotype, rank := 3, originalName := some orig,
           originalTags := some scTags }
  plain : ∀ suf, SufOk suf → (suf = [] ∨ scTags.contains sPainted = true) →
    ScOk p N { name := c ++ suf, tag := none, haplotype := n.currentHaplotype, rank := n.currentRank,
               originalName := some orig, originalTags := some scTags }

theorem CtxOk.of_sameCore {TG : Par} {p : Str} {N : List Str} {n n' : Namer} {orig : Str} {scTags : List Str}
    {frs : List Fragment} {c : Str} (h : CtxOk TG p N n orig scTags frs c) (hs : SameCore n n') :
    CtxOk TG p N n' orig scTags frs c := by
  obtain ⟨s1, s2, s3, s4, _, _, _⟩ := hs
  exact ⟨s1.trans h.cur, by rw [s2]; exact h.hapOk, by rw [s2, s4]; exact h.tagged, by rw [s2, s3]; exact h.plain⟩

theorem NamerGood.of_sameCore {n n' : Namer} (h : NamerGood n) (hs : SameCore n n') : NamerGood n' := by
  obtain ⟨_, _, _, _, s5, s6, _⟩ := hs
  unfold NamerGood; rw [s5, s6]; exact h

theorem tagWord_ne_none {tg : Option Str} (h : tg ∈ tagWords) : tg ≠ none := by
  intro e; subst e; simp [tagWords] at h

/-- a Haplotig piece (any name) -/
theorem pe_hap {TG : Par} {p : Str} {N : List Str} {n : Namer} {orig : Str} {scTags : List Str}
    {frs : List Fragment} {c : Str} (hctx : CtxOk TG p N n orig scTags frs c) (nm : Str) :
    PE TG p N { name := nm, tag := some sHaplotig, haplotype := n.currentHaplotype, rank := 3, originalName := some orig,
                originalTags := some scTags } := by
  have hne : (some sHaplotig : Option Str) ≠ none := by simp
  refine ⟨⟨hctx.hapOk.ne_nil, hctx.hapOk.not_tagWord, Or.inr (by simp [tagWords]),
    fun _ => ⟨by show (3 : Int) ≠ 1; decide, by show (3 : Int) ≠ 2; decide⟩,
    fun h => absurd h hne, fun h => absurd h hne, fun h => absurd h hne⟩, ?_⟩
  intro hcf
  have h1 : (some sHaplotig : Option Str) ≠ some sContaminant := by decide
  have h2 : (some sHaplotig : Option Str) ≠ some sFalseDuplicate := by decide
  rcases hcf with h | h
  · exact absurd h h1
  · exact absurd h h2

/-- a Contaminant / FalseDuplicate piece called `c ++ suf` -/
theorem pe_cf {TG : Par} {p : Str} {N : List Str} {n : Namer} {orig : Str} {scTags : List Str}
    {frs : List Fragment} {c : Str} (hctx : CtxOk TG p N n orig scTags frs c) (tg : Option Str)
    (htg : tg = some sContaminant ∨ tg = some sFalseDuplicate) (suf : Str) (hs : SufOk suf)
    (hp : suf = [] ∨ scTags.contains sPainted = true)
    (hsp : specialPiece frs = true ∨ (n.targetTags = true ∧ ¬ scTags.contains sTarget = true)) :
    PE TG p N { name := c ++ suf, tag := tg, haplotype := n.currentHaplotype, rank := 3, originalName := some orig,
                originalTags := some scTags } := by
  have hmem : tg ∈ tagWords := by rcases htg with h | h <;> simp [h, tagWords]
  have hne := tagWord_ne_none hmem
  exact ⟨⟨hctx.hapOk.ne_nil, hctx.hapOk.not_tagWord, Or.inr hmem,
    fun _ => ⟨by show (3 : Int) ≠ 1; decide, by show (3 : Int) ≠ 2; decide⟩,
    fun h => absurd h hne, fun h => absurd h hne, fun h => absurd h hne⟩,
    fun _ => hctx.tagged tg htg suf hs hp hsp⟩

/-- an untagged piece called `c ++ suf` -/
theorem pe_plain {TG : Par} {p : Str} {N : List Str} {n : Namer} {orig : Str} {scTags : List Str}
    {frs : List Fragment} {c : Str} (hctx : CtxOk TG p N n orig scTags frs c) (suf : Str) (hs : SufOk suf)
    (hp : suf = [] ∨ scTags.contains sPainted = true) :
    PE TG p N { name := c ++ suf, tag := none, haplotype := n.currentHaplotype, rank := n.currentRank,
                originalName := some orig, originalTags := some scTags } :=
  ⟨hctx.plain suf hs hp, fun h => by rcases h with h | h <;> cases h⟩

/-- what one `label_scaffold` call yields -/
structure LabelOut (TG : Par) (p : Str) (N : List Str) (n n' : Namer) (o' : OverlapResult) (sid : Nat) (c : Str) :
    Prop where
  pe : PE TG p N (labO o')
  same : SameCore n n'
  hap : (o'.tag = some sHaplotig ∧ o'.name = C10.hapName (n.haplotigN + 1) ∧ n'.haplotigN = n.haplotigN + 1 ∧
          n'.haplotigScaffolds = n.haplotigScaffolds ++ [sid]) ∨
        (o'.tag ≠ some sHaplotig ∧ n'.haplotigN = n.haplotigN ∧ n'.haplotigScaffolds = n.haplotigScaffolds)
  unloc : (n'.unlocScaffolds = n.unlocScaffolds ++ [sid] ∧ (∃ k, o'.name = c ++ C10.unlocSuffix k) ∧
            o'.tag ≠ some sHaplotig ∧ ∀ suf, SufOk suf → PE TG p N (labO { o' with name := c ++ suf })) ∨
          (n'.unlocScaffolds = n.unlocScaffolds)

theorem contains_of_mem_special {frs : List Fragment} {frag : Fragment} (hfr : frag ∈ frs)
    (h : frag.tags.contains sContaminant = true ∨ frag.tags.contains sFalseDuplicate = true) :
    specialPiece frs = true := by
  unfold specialPiece
  rw [List.any_eq_true]
  exact ⟨frag, hfr, by rw [Bool.or_eq_true]; exact h⟩

theorem labelled_tag (n : Namer) (o : OverlapResult) (nm tg : Option Str) (rk : Int) (scTags : List Str) (orig : Str) :
    (C09.labelled n o nm tg rk scTags orig).tag = tg := rfl
theorem labelled_name (n : Namer) (o : OverlapResult) (nm tg : Option Str) (rk : Int) (scTags : List Str) (orig : Str) :
    (C09.labelled n o nm tg rk scTags orig).name = nm.getD sNone := rfl
theorem labO_labelled (n : Namer) (o : OverlapResult) (nm tg : Option Str) (rk : Int) (scTags : List Str) (orig : Str) :
    labO (C09.labelled n o nm tg rk scTags orig) =
      { name := nm.getD sNone, tag := tg, haplotype := n.currentHaplotype, rank := rk, originalName := some orig,
        originalTags := some scTags } := rfl
theorem labO_labelled_with (n : Namer) (o : OverlapResult) (nm tg : Option Str) (rk : Int) (scTags : List Str)
    (orig x : Str) :
    labO { C09.labelled n o nm tg rk scTags orig with name := x } =
      { name := x, tag := tg, haplotype := n.currentHaplotype, rank := rk, originalName := some orig,
        originalTags := some scTags } := rfl

theorem label_out {TG : Par} {p : Str} {N : List Str} {n n' : Namer} {o o' : OverlapResult} {sid : Nat}
    {frag : Fragment} {scTags : List Str} {orig : Str} {frs : List Fragment} {c : Str}
    (hctx : CtxOk TG p N n orig scTags frs c) (hfr : frag ∈ frs) (h0 : o.tag = none)
    (h : labelScaffold n o sid frag scTags orig = .ok (n', o')) : LabelOut TG p N n n' o' sid c := by
  rw [C09.labelScaffold_eq] at h
  have hFD : some sFalseDuplicate ≠ some sHaplotig := by decide
  have hC : some sContaminant ≠ some sHaplotig := by decide
  have hcur : n.currentScaffoldName.getD sNone = c := by rw [hctx.cur]; rfl
  -- the Contaminant-or-Target pre-assignment
  have hpre : (C09.preTag n o frag scTags = (some sContaminant, 3) ∧
        (frag.tags.contains sContaminant = true ∨ (n.targetTags = true ∧ ¬ scTags.contains sTarget = true))) ∨
      C09.preTag n o frag scTags = (none, n.currentRank) := by
    unfold C09.preTag
    by_cases hc : frag.tags.contains sContaminant = true ∨ (n.targetTags = true ∧ ¬ scTags.contains sTarget = true)
    · rw [if_pos hc]; exact Or.inl ⟨rfl, hc⟩
    · rw [if_neg hc, h0]; exact Or.inr rfl
  have hsp_of : (frag.tags.contains sContaminant = true ∨ (n.targetTags = true ∧ ¬ scTags.contains sTarget = true)) →
      (specialPiece frs = true ∨ (n.targetTags = true ∧ ¬ scTags.contains sTarget = true)) := by
    rintro (h | h)
    · exact Or.inl (contains_of_mem_special hfr (Or.inl h))
    · exact Or.inr h
  have hc0 : c = c ++ [] := (List.append_nil c).symm
  by_cases h1 : frag.tags.contains sFalseDuplicate = true
  · simp only [if_pos h1] at h; cases h
    refine ⟨?_, SameCore.refl _, Or.inr ⟨by rw [labelled_tag]; exact hFD, rfl, rfl⟩, Or.inr rfl⟩
    rw [labO_labelled, hcur, hc0]
    exact pe_cf hctx (some sFalseDuplicate) (Or.inr rfl) [] (Or.inl rfl) (Or.inl rfl)
      (Or.inl (contains_of_mem_special hfr (Or.inr h1)))
  simp only [if_neg h1] at h
  by_cases h2 : frag.tags.contains sHaplotig = true
  · simp only [if_pos h2] at h; cases h
    refine ⟨?_, ⟨rfl, rfl, rfl, rfl, rfl, rfl, rfl⟩, Or.inl ⟨rfl, rfl, rfl, rfl⟩, Or.inr rfl⟩
    rw [labO_labelled]
    exact pe_hap hctx _
  simp only [if_neg h2] at h
  by_cases h3 : frag.tags.contains sUnloc = true
  · simp only [if_pos h3] at h
    by_cases h4 : ¬ scTags.contains sPainted = true
    · simp only [if_pos h4] at h; cases h
    · simp only [if_neg h4] at h; cases h
      have hpainted : scTags.contains sPainted = true := by simpa using h4
      have hname : (some (n.currentScaffoldName.getD sNone ++ "_unloc_".toList ++ natToStr (n.unlocN + 1))).getD sNone =
          c ++ C10.unlocSuffix (n.unlocN + 1) := by
        rw [Option.getD_some, hcur, List.append_assoc]; rfl
      rcases hpre with ⟨hp, hcond⟩ | hp
      · refine ⟨?_, ⟨rfl, rfl, rfl, rfl, rfl, rfl, rfl⟩, Or.inr ⟨by rw [labelled_tag, hp]; exact hC, rfl, rfl⟩,
          Or.inl ⟨rfl, ⟨n.unlocN + 1, by rw [labelled_name]; exact hname⟩, by rw [labelled_tag, hp]; exact hC, ?_⟩⟩
        · rw [labO_labelled, hp, hname]
          exact pe_cf hctx (some sContaminant) (Or.inl rfl) _ (Or.inr ⟨_, rfl⟩) (Or.inr hpainted) (hsp_of hcond)
        · intro suf hsuf
          rw [labO_labelled_with, hp]
          exact pe_cf hctx (some sContaminant) (Or.inl rfl) suf hsuf (Or.inr hpainted) (hsp_of hcond)
      · refine ⟨?_, ⟨rfl, rfl, rfl, rfl, rfl, rfl, rfl⟩, Or.inr ⟨by rw [labelled_tag, hp]; simp, rfl, rfl⟩,
          Or.inl ⟨rfl, ⟨n.unlocN + 1, by rw [labelled_name]; exact hname⟩, by rw [labelled_tag, hp]; simp, ?_⟩⟩
        · rw [labO_labelled, hp, hname]
          exact pe_plain hctx _ (Or.inr ⟨_, rfl⟩) (Or.inr hpainted)
        · intro suf hsuf
          rw [labO_labelled_with, hp]
          exact pe_plain hctx suf hsuf (Or.inr hpainted)
  · simp only [if_neg h3] at h; cases h
    rcases hpre with ⟨hp, hcond⟩ | hp
    · refine ⟨?_, SameCore.refl _, Or.inr ⟨by rw [labelled_tag, hp]; exact hC, rfl, rfl⟩, Or.inr rfl⟩
      rw [labO_labelled, hp, hcur, hc0]
      exact pe_cf hctx (some sContaminant) (Or.inl rfl) [] (Or.inl rfl) (Or.inl rfl) (hsp_of hcond)
    · refine ⟨?_, SameCore.refl _, Or.inr ⟨by rw [labelled_tag, hp]; simp, rfl, rfl⟩, Or.inr rfl⟩
      rw [labO_labelled, hp, hcur]
      have := pe_plain hctx [] (Or.inl rfl) (Or.inl rfl)
      simpa using this

end AgpTpf.C10U
