/-
  C10, single-haplotype chromosome numbering, part 5: from `name_chromosomes` to the output assemblies.
-/
import AgpTpf.Model.Remap
import AgpTpf.Proofs.C09Split
import AgpTpf.Proofs.C10GroupsNumber
import AgpTpf.Proofs.C20Sort
namespace AgpTpf.C10
open AgpTpf

theorem mapM_ok_mem {α β : Type} (f : α → R β) : ∀ (l : List α) (l' : List β), l.mapM f = .ok l' →
    ∀ b ∈ l', ∃ a ∈ l, f a = .ok b := by
  intro l
  induction l with
  | nil => intro l' hl b hb; simp [pure, Except.pure] at hl; subst hl; cases hb
  | cons a r ih =>
    intro l' hl b hb
    rw [List.mapM_cons, C09.bind_eq_ok] at hl
    obtain ⟨x, hx, hl⟩ := hl
    rw [C09.bind_eq_ok] at hl
    obtain ⟨xs, hxs, hl⟩ := hl
    cases hl
    rcases List.mem_cons.1 hb with e | hb
    · subst e; exact ⟨a, by simp, hx⟩
    · obtain ⟨a', ha', hf⟩ := ih xs hxs b hb
      exact ⟨a', List.mem_cons_of_mem _ ha', hf⟩

/-- every output assembly is the `smart_sort_scaffolds` of the scaffolds routed to it -/
theorem outsTail_mem (input : List Scaffold) (b : Build) (asms : C09.Asms) (fs : List Scaffold) (outs : List OutAsm)
    (stats : Stats) (h : C09.outsTail input b asms fs = .ok (outs, stats)) :
    ∀ o ∈ outs, ∃ a ∈ asms, o.key = a.1 ∧ o.curated = a.2.1 ∧
      o.scaffolds = C20.smartSorted (a.2.2.map (fun sid => fs.getD sid default)) := by
  unfold C09.outsTail at h
  rw [C09.bind_eq_ok] at h
  obtain ⟨outs', ho, h⟩ := h
  rw [C09.bind_eq_ok] at h
  obtain ⟨stats', _, h⟩ := h
  cases h
  intro o hmem
  obtain ⟨a, ha, hf⟩ := mapM_ok_mem _ asms outs ho o hmem
  simp only [] at hf
  rw [C20.smartSort_eq', C09.bind_eq_ok] at hf
  obtain ⟨scs, hs, hf⟩ := hf
  cases hs
  cases hf
  exact ⟨a, ha, rfl, rfl, rfl⟩

/-- the scaffold list the outputs are cut from: after `name_chromosomes` -/
theorem finishAssemblies_named (input : List Scaffold) (b : Build) (asms : C09.Asms) (entries : List (Str × Nat))
    (haps : List Str) (fs : List Scaffold) (res : List OutAsm × Stats)
    (h : C09.finishAssemblies input b (asms, entries, haps, fs) = .ok res) :
    ∃ fs', (if haps.isEmpty then pure fs else nameChromosomes b.namer.autosomePrefix fs haps entries) = .ok fs' ∧
      C09.outsTail input b asms fs' = .ok res := by
  rw [finishAssemblies_eq_name, C09.bind_eq_ok] at h
  exact h

/-! ### what the split loop hands to `ChrNamer` -/

/-- one step of the split loop either leaves `entries`, `haps` alone or appends `(h', sid)` / adds `h'` -/
theorem splitStep_entries (prefix_ : Str) (acc : C09.SplitSt) (sid : Nat) :
    ((C09.splitStep prefix_ acc sid).2.1 = acc.2.1 ∧ (C09.splitStep prefix_ acc sid).2.2.1 = acc.2.2.1) ∨
    (∃ h', (C09.splitStep prefix_ acc sid).2.1 = acc.2.1 ++ [(h', sid)] ∧
           (C09.splitStep prefix_ acc sid).2.2.1 = sAdd acc.2.2.1 h') := by
  obtain ⟨asms, entries, haps, fs⟩ := acc
  unfold C09.splitStep
  simp only []
  split
  · right; exact ⟨_, rfl, rfl⟩
  · split
    · left; exact ⟨rfl, rfl⟩
    · left; exact ⟨rfl, rfl⟩

/-- invariant of the `ChrNamer` input: entry ids are pairwise different, every entry's haplotype key is in
    `haplotypes_seen`, and `haplotypes_seen` is empty only if there are no entries -/
def EntriesInv (acc : C09.SplitSt) : Prop :=
  (acc.2.1.map (·.2)).Nodup ∧ (∀ e ∈ acc.2.1, e.1 ∈ acc.2.2.1) ∧ (acc.2.2.1 = [] → acc.2.1 = [])

theorem mem_sAdd {α} [DecidableEq α] (s : List α) (x y : α) : y ∈ sAdd s x ↔ y ∈ s ∨ y = x := by
  unfold sAdd
  split
  · rename_i h
    constructor
    · exact Or.inl
    · rintro (h' | h')
      · exact h'
      · subst h'; exact h
  · simp

theorem splitFold_entries (prefix_ : Str) : ∀ (l : List Nat) (acc : C09.SplitSt), l.Nodup →
    (∀ e ∈ acc.2.1, e.2 ∉ l) → EntriesInv acc → EntriesInv (l.foldl (C09.splitStep prefix_) acc) := by
  intro l
  induction l with
  | nil => intro acc _ _ h; exact h
  | cons sid r ih =>
    intro acc hnd hdis hinv
    rw [List.nodup_cons] at hnd
    simp only [List.foldl_cons]
    obtain ⟨i1, i2, i3⟩ := hinv
    rcases splitStep_entries prefix_ acc sid with ⟨e1, e2⟩ | ⟨h', e1, e2⟩
    · apply ih _ hnd.2
      · intro e he; rw [e1] at he
        exact fun hm => hdis e he (List.mem_cons_of_mem _ hm)
      · unfold EntriesInv; rw [e1, e2]; exact ⟨i1, i2, i3⟩
    · apply ih _ hnd.2
      · intro e he; rw [e1] at he
        rcases List.mem_append.1 he with he | he
        · exact fun hm => hdis e he (List.mem_cons_of_mem _ hm)
        · simp only [List.mem_singleton] at he; subst he; exact hnd.1
      · unfold EntriesInv; rw [e1, e2]
        refine ⟨?_, ?_, ?_⟩
        · rw [List.map_append, List.nodup_append]
          refine ⟨i1, by simp, ?_⟩
          intro a ha b' hb' hab
          simp only [List.map_cons, List.map_nil, List.mem_singleton] at hb'
          obtain ⟨e, he, rfl⟩ := List.mem_map.1 ha
          exact hdis e he (by rw [hab, hb']; simp)
        · intro e he
          rw [mem_sAdd]
          rcases List.mem_append.1 he with he | he
          · exact Or.inl (i2 e he)
          · simp only [List.mem_singleton] at he; subst he; exact Or.inr rfl
        · intro hnil
          have : h' ∈ sAdd acc.2.2.1 h' := (mem_sAdd _ _ _).2 (Or.inr rfl)
          rw [hnil] at this; cases this

theorem splitLoop_entries (prefix_ : Str) (fs : List Scaffold) : EntriesInv (C09.splitLoop prefix_ fs) := by
  unfold C09.splitLoop
  exact splitFold_entries prefix_ _ _ List.nodup_range (fun e he => (by cases he))
    ⟨List.nodup_nil, fun e he => (by cases he), fun _ => rfl⟩

end AgpTpf.C10
