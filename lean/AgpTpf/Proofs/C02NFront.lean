/-
  C02 "remapping never fails" (task W7-C02NOERR), helper part 10: the stages around the resolver and the cutting loop
  never raise: `make_scaffold_name` for tag sets `[]` / `[Painted]`, `label_scaffold` without an `Unloc` tag,
  `trim_large_overhangs` on a non-empty result, `process bait` / `find_assembly_overlaps` for maps whose pieces name input
  scaffolds and carry no tag but `Painted`, and `add_missing` with a join gap over an untagged input.
-/
import AgpTpf.Proofs.C02NRes
import AgpTpf.Proofs.C08Missing
namespace AgpTpf.C02
open AgpTpf OverlapResult
open AgpTpf.C01 (WFInput inputFrags)

/-! ### `make_scaffold_name` -/

theorem makeScaffoldName_nil_ok (n : Namer) (scName nm : Str) (rows : List Row) (hfr : firstRowName rows = .ok nm) :
    ∃ n', makeScaffoldName n scName rows [] = .ok n' := by
  unfold makeScaffoldName
  simp only [List.foldlM_nil, pure, Except.pure, bind, Except.bind, truthy, hfr]
  cases hapPrefixOfName nm <;> simp

theorem makeScaffoldName_painted_ok (n : Namer) (scName nm : Str) (rows : List Row) (hfr : firstRowName rows = .ok nm) :
    ∃ n', makeScaffoldName n scName rows [sPainted] = .ok n' := by
  unfold makeScaffoldName
  have hs : scanTag (n, {}) sPainted = .ok (n, { isPainted := true }) := by
    unfold scanTag; simp
  simp only [List.foldlM_cons, List.foldlM_nil, hs, pure, Except.pure, bind, Except.bind, truthy, hfr]
  cases hapPrefixOfName nm <;> simp

/-! ### `label_scaffold` -/

theorem labelScaffold_ok (n : Namer) (o : OverlapResult) (sid : Nat) (frag : Fragment) (scTags : List Str) (orig : Str)
    (h : frag.tags = [] ∨ frag.tags = [sPainted]) : ∃ v, labelScaffold n o sid frag scTags orig = .ok v := by
  unfold labelScaffold
  have h1 : frag.tags.contains sFalseDuplicate = false := by rcases h with e | e <;> rw [e] <;> decide
  have h2 : frag.tags.contains sHaplotig = false := by rcases h with e | e <;> rw [e] <;> decide
  have h3 : frag.tags.contains sUnloc = false := by rcases h with e | e <;> rw [e] <;> decide
  simp only [h1, h2, h3, Bool.false_eq_true, if_false, pure, Except.pure, bind, Except.bind]
  exact ⟨_, rfl⟩

/-! ### `trim_large_overhangs` -/

theorem startRowBaitOverlap_ok {o : OverlapResult} (h : o.rows ≠ []) : ∃ v, o.startRowBaitOverlap = .ok v := by
  unfold startRowBaitOverlap
  cases hr : o.rows with
  | nil => exact absurd hr h
  | cons x t => rw [C18.pyGet_zero_cons]; exact ⟨_, rfl⟩

theorem endRowBaitOverlap_ok {o : OverlapResult} (h : o.rows ≠ []) : ∃ v, o.endRowBaitOverlap = .ok v := by
  unfold endRowBaitOverlap
  rcases C18.list_nil_or_concat o.rows with hr | ⟨t, x, hr⟩
  · exact absurd hr h
  · rw [hr, C18.pyGet_neg_one_concat]; exact ⟨_, rfl⟩

theorem discardStart_ok {o : OverlapResult} (h : o.rows ≠ []) : ∃ o', o.discardStart = .ok o' := by
  unfold discardStart
  cases hr : o.rows with
  | nil => exact absurd hr h
  | cons x t => exact ⟨_, rfl⟩

theorem discardEnd_ok {o : OverlapResult} (h : o.rows ≠ []) : ∃ o', o.discardEnd = .ok o' := by
  unfold discardEnd
  cases hr : o.rows.reverse with
  | nil => exact absurd (List.reverse_eq_nil_iff.mp hr) h
  | cons x t => exact ⟨_, rfl⟩

theorem trimLargeOverhangs_ok {o : OverlapResult} (err : Int) (h : o.rows ≠ []) :
    ∃ o', o.trimLargeOverhangs err = .ok o' := by
  rw [C01.trimLargeOverhangs_eq]
  split
  · exact ⟨_, rfl⟩
  · -- start phase
    have hstart : ∃ v, C01.trimStartPhase o err = .ok v ∧ (v.2 = false → v.1 = o) := by
      unfold C01.trimStartPhase
      split
      · obtain ⟨ov, hov⟩ := startRowBaitOverlap_ok h
        simp only [hov, bind, Except.bind]
        split
        · obtain ⟨o1, ho1⟩ := discardStart_ok h
          simp only [ho1, pure, Except.pure]
          exact ⟨_, rfl, fun e => by cases e⟩
        · exact ⟨_, rfl, fun _ => rfl⟩
      · exact ⟨_, rfl, fun _ => rfl⟩
    obtain ⟨⟨o1, d⟩, hv, hd⟩ := hstart
    simp only [hv, bind, Except.bind]
    unfold C01.trimEndPhase
    split
    · exact ⟨_, rfl⟩
    · next hcond =>
      have hne1 : o1.rows ≠ [] := by
        cases d with
        | false => have e : o1 = o := hd rfl
                   rw [e]; exact h
        | true =>
          intro e
          apply hcond
          simp [e]
      split
      · obtain ⟨ov, hov⟩ := endRowBaitOverlap_ok hne1
        simp only [hov, bind, Except.bind]
        split
        · exact discardEnd_ok hne1
        · exact ⟨_, rfl⟩
      · exact ⟨_, rfl⟩

/-! ### `add_missing` -/

theorem fragmentTags_nil_of_untagged' (s : Scaffold) (h : ∀ f ∈ s.fragments, f.tags = []) : s.fragmentTags = [] := by
  unfold Scaffold.fragmentTags
  have : ∀ (l : List Fragment) (acc : List Str), (∀ f ∈ l, f.tags = []) →
      l.foldl (fun acc f => (f.tags.filter (fun t => !t.isEmpty)).foldl sAdd acc) acc = acc := by
    intro l
    induction l with
    | nil => intro acc _; rfl
    | cons f t ih =>
      intro acc hl
      rw [List.foldl_cons, hl f (by simp)]
      exact ih acc (fun g hg => hl g (by simp [hg]))
  exact this _ _ h

/-- **`add_missing_scaffolds_from_input` never raises** with a join gap configured and an untagged input -/
theorem addMissing_ok (g : Gap) : ∀ (l : List Scaffold) (b : Build), b.joinGap = some g →
    (∀ sc ∈ l, ∀ f ∈ sc.fragments, f.tags = []) → ∃ b', l.foldlM C08.amStep b = .ok b'
  | [], b, _, _ => ⟨b, rfl⟩
  | sc :: t, b, hj, hu => by
    have hstep : ∃ b1, C08.amStep b sc = .ok b1 ∧ b1.joinGap = some g := by
      unfold C08.amStep
      obtain ⟨⟨rows, first⟩, hm⟩ := missingRows_ok_of_joinGap b sc.rows g hj
      simp only [hm, bind, Except.bind]
      split
      · exact ⟨b, rfl, hj⟩
      · next hemp =>
        obtain ⟨hfr, _, _, hhead, _⟩ := C01.missingRows_spec b sc.rows rows first hm
        obtain ⟨f0, rest, hrows⟩ : ∃ f0 rest, rows = .frag f0 :: rest := by
          cases hr : rows with
          | nil => rw [hr] at hemp; simp at hemp
          | cons x r =>
            cases x with
            | frag f0 => exact ⟨f0, r, rfl⟩
            | gap g' => exact absurd (by rw [hr]; rfl) (hhead g')
        have htags : ({ name := sc.name, rows := rows } : Scaffold).fragmentTags = [] := by
          apply fragmentTags_nil_of_untagged'
          intro f hf
          have hf' : f ∈ fragmentsOf rows := hf
          rw [hfr] at hf'
          exact hu sc (by simp) f (List.mem_filter.mp hf').1
        obtain ⟨n', hn'⟩ := makeScaffoldName_nil_ok b.namer sc.name f0.name rows
          (by rw [hrows]; exact C08.firstRowName_cons_frag _ _)
        simp only [htags, hn', pure, Except.pure]
        exact ⟨_, rfl, hj⟩
    obtain ⟨b1, h1, hj1⟩ := hstep
    obtain ⟨b', h'⟩ := addMissing_ok g t b1 hj1 (fun s hs => hu s (by simp [hs]))
    exact ⟨b', by rw [List.foldlM_cons]; simp only [h1, bind, Except.bind]; exact h'⟩

/-! ### the lookup stage -/

/-- a Pretext scaffold the lookup stage cannot choke on: it begins with a fragment row, all its pieces carry the same tag
    list — none, or just `Painted` — and name input scaffolds -/
structure PtxScafOk (input : List Scaffold) (S : Scaffold) : Prop where
  head : ∃ f t, S.rows = .frag f :: t
  tags : (∀ p ∈ S.fragments, p.tags = []) ∨ (S.fragments ≠ [] ∧ ∀ p ∈ S.fragments, p.tags = [sPainted])
  names : ∀ p ∈ S.fragments, ∃ sc ∈ input, sc.name = p.name

theorem fragmentTags_painted (s : Scaffold) (hne : s.fragments ≠ []) (h : ∀ f ∈ s.fragments, f.tags = [sPainted]) :
    s.fragmentTags = [sPainted] := by
  unfold Scaffold.fragmentTags
  have step : ∀ acc : List Str, (acc = [] ∨ acc = [sPainted]) →
      ([sPainted].filter (fun t => !t.isEmpty)).foldl sAdd acc = [sPainted] := by
    intro acc hacc
    rcases hacc with e | e <;> subst e <;> decide
  have : ∀ (l : List Fragment) (acc : List Str), (∀ f ∈ l, f.tags = [sPainted]) → (acc = [sPainted]) →
      l.foldl (fun acc f => (f.tags.filter (fun t => !t.isEmpty)).foldl sAdd acc) acc = [sPainted] := by
    intro l
    induction l with
    | nil => intro acc _ e; exact e
    | cons f t ih =>
      intro acc hl e
      rw [List.foldl_cons, hl f (by simp)]
      exact ih _ (fun g hg => hl g (by simp [hg])) (step acc (Or.inr e))
  cases hf : s.fragments with
  | nil => exact absurd hf hne
  | cons f t =>
    rw [hf] at h
    rw [List.foldl_cons, h f (by simp)]
    exact this t _ (fun g hg => h g (by simp [hg])) (step [] (Or.inl rfl))

/-- `process bait` never raises for a piece naming an input scaffold with rows, tagged with nothing or `Painted` -/
theorem processBait_ok {input : List Scaffold} (hn : (input.map (·.name)).Nodup) (hnn : InputNonNeg input)
    (hrows : ∀ sc ∈ input, sc.rows ≠ []) (scTags : List Str) (orig : Str) (b : Build) (bait : Fragment)
    (hname : ∃ sc ∈ input, sc.name = bait.name) (htags : bait.tags = [] ∨ bait.tags = [sPainted]) :
    ∃ b', processBait input scTags orig b bait = .ok b' := by
  obtain ⟨sc, hsc, hnm⟩ := hname
  unfold processBait
  have hl : lookupScaffold input bait.name = .ok sc := by rw [← hnm]; exact C08.lookupScaffold_ok input sc hn hsc
  simp only [hl, bind, Except.bind]
  have hfo : ∃ r, findOverlaps sc.rows bait = .ok r := by
    cases hr : findOverlaps sc.rows bait with
    | ok r => exact ⟨r, rfl⟩
    | error e => exact absurd hr (C12.find_overlaps_never_fails sc.rows bait (hrows sc hsc) (hnn sc hsc) e)
  obtain ⟨r, hr⟩ := hfo
  simp only [hr]
  cases r with
  | none => exact ⟨b, rfl⟩
  | some o =>
    simp only
    obtain ⟨⟨n, o1⟩, hv⟩ := labelScaffold_ok b.namer o b.store.length bait scTags orig htags
    simp only [hv]
    obtain ⟨hr1, _, _, _⟩ := C01.labelScaffold_rows _ _ _ _ _ _ _ _ hv
    have hne : o1.rows ≠ [] := by
      rw [hr1]
      exact (C12.find_overlaps_result sc.rows bait o (hrows sc hsc) (hnn sc hsc) hr).1
    obtain ⟨o2, ho2⟩ := trimLargeOverhangs_ok b.err hne
    simp only [ho2]
    split <;> exact ⟨_, rfl⟩

theorem foldlM_ok_mem {α β} (f : β → α → R β) : ∀ (l : List α), (∀ a, ∀ x ∈ l, ∃ a', f a x = .ok a') →
    ∀ a0, ∃ a', l.foldlM f a0 = .ok a' := foldlM_ok_of_forall f

/-- **`find_assembly_overlaps` never raises** on a map all of whose scaffolds are `PtxScafOk` -/
theorem findAssemblyOverlaps_ok {input : List Scaffold} (hn : (input.map (·.name)).Nodup) (hnn : InputNonNeg input)
    (hrows : ∀ sc ∈ input, sc.rows ≠ []) (ptx : List Scaffold) (hp : ∀ S ∈ ptx, PtxScafOk input S) (b : Build) :
    ∃ b', findAssemblyOverlaps input ptx b = .ok b' := by
  unfold findAssemblyOverlaps
  apply foldlM_ok_of_forall
  intro a S hS
  obtain ⟨⟨f0, t0, hhead⟩, htags, hnames⟩ := hp S hS
  have hfr : firstRowName S.rows = .ok f0.name := by rw [hhead]; exact C08.firstRowName_cons_frag _ _
  have hname : ∃ n, makeScaffoldName a.namer S.name S.rows S.fragmentTags = .ok n := by
    rcases htags with h | ⟨hne, h⟩
    · rw [fragmentTags_nil_of_untagged' S h]; exact makeScaffoldName_nil_ok _ _ _ _ hfr
    · rw [fragmentTags_painted S hne h]; exact makeScaffoldName_painted_ok _ _ _ _ hfr
  obtain ⟨n, hn'⟩ := hname
  simp only [hn', bind, Except.bind]
  have hbaits : ∃ b2, S.fragments.foldlM (processBait input S.fragmentTags S.name) { a with namer := n } = .ok b2 := by
    apply foldlM_ok_of_forall
    intro x p hpm
    apply processBait_ok hn hnn hrows _ _ x p (hnames p hpm)
    rcases htags with h | ⟨_, h⟩
    · exact Or.inl (h p hpm)
    · exact Or.inr (h p hpm)
  obtain ⟨b2, hb2⟩ := hbaits
  simp only [hb2, pure, Except.pure]
  exact ⟨_, rfl⟩

end AgpTpf.C02
