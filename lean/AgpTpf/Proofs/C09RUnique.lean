/-
  C09 routing, part 5: two output fragments that share a base are in the same output assembly
  (from `C01.remap_exactly_once`: every base of every input contig is in exactly one output fragment).
-/
import AgpTpf.Model.Remap
import AgpTpf.Properties.C01
namespace AgpTpf.C09
open AgpTpf

theorem mem_keysOf_of_frag (rows : List Row) (f : Fragment) (h : Row.frag f ∈ rows) : f.keyTuple ∈ C01.keysOf rows := by
  unfold C01.keysOf
  apply List.mem_map_of_mem
  induction rows with
  | nil => cases h
  | cons r t ih =>
    rcases List.mem_cons.mp h with h2 | h2
    · subst h2; simp [fragmentsOf]
    · clear h
      cases r with
      | frag g => simp only [fragmentsOf]; exact List.mem_cons_of_mem _ (ih h2)
      | gap g => simp only [fragmentsOf]; exact ih h2

/-- all triples of one output assembly -/
def asmTriples (a : OutAsm) : List Key := a.scaffolds.flatMap (fun s => C01.keysOf s.rows)

theorem outputTriples_eq (outs : List OutAsm) : C01.outputTriples outs = outs.flatMap asmTriples := by
  unfold C01.outputTriples asmTriples
  rw [List.flatMap_assoc]

theorem countP_pos_of_mem {α} (p : α → Bool) (l : List α) (x : α) (hx : x ∈ l) (hp : p x = true) : 1 ≤ l.countP p :=
  List.countP_pos_iff.mpr ⟨x, hx, hp⟩

/-- **One place only.**  For a well-formed input, if fragment rows `f` (in a scaffold of output assembly `a`) and `f'`
    (in a scaffold of output assembly `a'`) share a base of the same contig, then `a = a'`. -/
theorem shared_base_same_assembly (input ptx : List Scaffold) (prefix_ : Str) (joinGap : Option Gap) (err : Int)
    (outs : List OutAsm) (stats : Stats) (hwf : C01.WFInput input)
    (h : remap input ptx prefix_ joinGap err = .ok (outs, stats))
    (a a' : OutAsm) (ha : a ∈ outs) (ha' : a' ∈ outs) (s s' : Scaffold) (hs : s ∈ a.scaffolds) (hs' : s' ∈ a'.scaffolds)
    (f f' : Fragment) (hf : Row.frag f ∈ s.rows) (hf' : Row.frag f' ∈ s'.rows)
    (hname : f.name = f'.name) (x : Int) (hx : f.start ≤ x ∧ x ≤ f.stop) (hx' : f'.start ≤ x ∧ x ≤ f'.stop) :
    a = a' := by
  apply Classical.byContradiction
  intro hne
  have hk : f.keyTuple ∈ asmTriples a := List.mem_flatMap.mpr ⟨s, hs, mem_keysOf_of_frag _ _ hf⟩
  have hk' : f'.keyTuple ∈ asmTriples a' := List.mem_flatMap.mpr ⟨s', hs', mem_keysOf_of_frag _ _ hf'⟩
  have hkO : f.keyTuple ∈ C01.outputTriples outs := by
    rw [outputTriples_eq]; exact List.mem_flatMap.mpr ⟨a, ha, hk⟩
  obtain ⟨_, F, hF, hFn, hF1, hF2⟩ := (C01.remap_partitions input ptx prefix_ joinGap err outs stats hwf h).2 _ hkO
  have hone := C01.remap_exactly_once input ptx prefix_ joinGap err outs stats hwf h F hF x
    (by simp only [Fragment.keyTuple] at hF1; omega) (by simp only [Fragment.keyTuple] at hF2; omega)
  have hFn' : F.name = f.name := hFn
  have hc : C01.coversK F.name x f.keyTuple = true := by
    unfold C01.coversK
    exact decide_eq_true ⟨hFn'.symm, hx.1, hx.2⟩
  have hc' : C01.coversK F.name x f'.keyTuple = true := by
    unfold C01.coversK
    exact decide_eq_true ⟨hname.symm.trans hFn'.symm, hx'.1, hx'.2⟩
  have hperm : outs.Perm (a :: a' :: (outs.erase a).erase a') := by
    have h1 := List.perm_cons_erase ha
    have hm : a' ∈ outs.erase a := (List.mem_erase_of_ne (fun e => hne e.symm)).mpr ha'
    exact h1.trans ((List.perm_cons_erase hm).cons a)
  rw [outputTriples_eq, (hperm.flatMap_right asmTriples).countP_eq] at hone
  simp only [List.flatMap_cons, List.countP_append] at hone
  have c1 := countP_pos_of_mem (C01.coversK F.name x) _ _ hk hc
  have c2 := countP_pos_of_mem (C01.coversK F.name x) _ _ hk' hc'
  omega

end AgpTpf.C09
